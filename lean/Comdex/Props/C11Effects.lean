import Comdex.Model.Effects
import Comdex.Gen.Effects_auctionsV2
import Comdex.Gen.Effects_auction
/-!
# C11 — the EFFECT SKELETON of the English-auction and limit-bid entry points, pinned

GOLDEN SKELETON (the weaker tie).  The regenerated table (extract/effects, from the Go source on every run) lists for each
entry point the ordered bank calls; the models of C11 (`Model/English.lean`, `LimitBid.lean`) keep their bank calls inside
the step functions, not as data, and are being extended by another work package — so the regenerated skeleton is compared,
item by item, with the reviewed literals `exp_…` in this file: bank op, ABSTRACT party and denomination texts (argument lists
of calls nested deeper than one level elided, `…`), "only if its own amount is positive", the signature of the path
conditions (polarity + 32-bit hash of the whole normalised condition text, legend below), loop / cache-closure flags.  Amount
expressions are not compared (the C11 correspondence runs do that).  A transfer that moved under another guard, lost or gained
a guard, changed party or denomination, disappeared or appeared makes `c11_pins` fail on the next run, whatever states the
generated population reaches.

Entry points: x/auctionsV2 `PlaceEnglishAuctionBid`, `CloseEnglishAuction`, `DepositLimitAuctionBid`, `CancelLimitAuctionBid`,
`WithdrawLimitAuctionBid`, `LimitOrderBid` (the begin-block matching of limit bids, inside `ApplyFuncIfNoError`); x/auction
`PlaceSurplusAuctionBid`, `closeSurplusAuction`, `PlaceDebtAuctionBid`, `closeDebtAuction`.

| clause | theorem |
|---|---|
| bank skeleton of every entry point = reviewed literal | `c11_pins` |
| number of bank calls per entry point, no bank op the projection does not know, no opaque call | `c11_table` |

## legend of the condition hashes (hash, kind, normalised text; long texts head…hash…tail)

| h | kind | text |
|---|---|---|
| 1331667078 | if | `auctionData.ActiveBiddingId != 0` |
| 2526960822 | if | `liquidationsV2.GetLockedVault(englishAuction.AppId, englishAuction.LockedVaultId).InitiatorType == "surplus"` |
| 49776675 | if | `liquidationsV2.GetLockedVault(englishAuction.AppId, englishAuction.LockedVaultId).InitiatorType == "debt"` |
| 3491829210 | pos | `englishAuction.CollateralToken.Amount.GT(0)` |
| 1272498807 | exit | `addr(bidder)#2 != nil` |
| 137154069 | pos | `amount.Amount.GT(0)` |
| 3747870161 | pos | `auctionsV2.GetUserLimitBidData(DebtTokenId, CollateralTokenId, PremiumDiscount, bidder).DebtToken.Amount.GT(0)` |
| 1601799020 | if | `amount.Amount.Equal(auctionsV2.GetUserLimitBidData(DebtTokenId, CollateralTokenId, PremiumDiscount, bidder).DebtToken.Amount)` |
| 504748195 | loop | `range auctionsV2.GetAuctions()` |
| 2669696102 | if | `each(auctionsV2.GetAuctions()).CollateralTokenOraclePrice.GT(each(auctionsV2.GetAuctions()).CollateralTokenAuctionPrice)` |
| 3178329836 | exit | `!auctionsV2.GetUserLimitBidDataByPremium(each(auctionsV2.GetAuctions()).DebtAssetId, each(auctio…bd7176ec…ePrice).Mul(sdk.NewDecFromInt(100)).TruncateInt())#2` |
| 3773838022 | loop | `range auctionsV2.GetUserLimitBidDataByPremium(each(auctionsV2.GetAuctions()).DebtAssetId, each(a…e0f032c6…2.GetAuctions()).CollateralTokenOraclePrice.Sub(eac…` |
| 3522916581 | if | `each(auctionsV2.GetUserLimitBidDataByPremium(each(auctionsV2.GetAuctions()).DebtAssetId, each(au…d1fb70e5…GTE(each(auctionsV2.GetAuctions()).DebtToken.Amount)` |
| 1068748814 | if | `ite(each(auctionsV2.GetUserLimitBidDataByPremium(each(auctionsV2.GetAuctions()).DebtAssetId, eac…3fb3d00e…ch(auctionsV2.GetAuctions()).CollateralToken.Amount)` |
| 2680706012 | if | `!vault.GetAmountOfOtherToken(each(auctionsV2.GetAuctions()).DebtAssetId, ite(liquidationsV2.GetL…9fc853dc…ch(auctionsV2.GetAuctions()).CollateralToken.Amount)` |
| 2010560415 | if | `liquidationsV2.GetAppReserveFunds(each(auctionsV2.GetAuctions()).AppId, each(auctionsV2.GetAucti…77d6b79f…tAuctions()).DebtAssetId).Twa))))#2)).Amount).GTE(0)` |
| 3796276551 | pos | `each(auctionsV2.GetAuctions()).DebtToken.Sub(coin(each(auctionsV2.GetAuctions()).DebtToken.Denom…e2469547…GetAuctions()).DebtAssetId).Twa))))#2)).Amount.GT(0)` |
| 2986367180 | if | `!true` |
| 1734121591 | if | `ite(!vault.GetAmountOfOtherToken(each(auctionsV2.GetAuctions()).DebtAssetId, ite(liquidationsV2.…675c9877…FromInt(int64(1000000)), sdk.NewDecFromInt(int64(ma…` |
| 382305784 | if | `ite(!vault.GetAmountOfOtherToken(each(auctionsV2.GetAuctions()).DebtAssetId, ite(liquidationsV2.…16c985f8…s()).DebtToken.Amount, each(auctionsV2.GetAuctions(…` |
| 2109617512 | if | `liquidationsV2.GetLockedVault(each(auctionsV2.GetAuctions()).AppId, each(auctionsV2.GetAuctions()).LockedVaultId).InitiatorType == "vault"` |
| 2595289691 | pos | `liquidationsV2.GetLockedVault(each(auctionsV2.GetAuctions()).AppId, each(auctionsV2.GetAuctions(…9ab0fa5b…ns()).LockedVaultId).FeeToBeCollected)).Amount.GT(0)` |
| 1780875758 | if | `each(auctionsV2.GetAuctions()).CollateralToken.Amount.Sub(ite(!vault.GetAmountOfOtherToken(each(…6a2601ee…uctions()).DebtAssetId).Twa))), each(auctionsV2.Get…` |
| 928406181 | if | `liquidationsV2.GetLockedVault(each(auctionsV2.GetAuctions()).AppId, each(auctionsV2.GetAuctions()).LockedVaultId).InitiatorType == "external"` |
| 874050314 | pos | `(liquidationsV2.GetLiquidationWhiteListing(each(auctionsV2.GetAuctions()).AppId).KeeeperIncentiv…3418f30a…ckedVaultId).FeeToBeCollected))).TruncateInt().GT(0)` |
| 564566190 | if | `liquidationsV2.GetLockedVault(each(auctionsV2.GetAuctions()).AppId, each(auctionsV2.GetAuctions()).LockedVaultId).IsInternalKeeper` |
| 2260549848 | pos | `ite(liquidationsV2.GetLockedVault(each(auctionsV2.GetAuctions()).AppId, each(auctionsV2.GetAucti…86bd40d8…ns()).LockedVaultId).FeeToBeCollected)).Amount.GT(0)` |
| 2968871195 | if | `liquidationsV2.GetLockedVault(each(auctionsV2.GetAuctions()).AppId, each(auctionsV2.GetAuctions()).LockedVaultId).InitiatorType == "lend"` |
| 1303515621 | if | `true` |
| 1437770738 | pos | `ite(!lend.GetBorrowInterestTracker(liquidationsV2.GetLockedVault(each(auctionsV2.GetAuctions()).…55b2a3f2…nalVaultId)).ReservePoolInterest.TruncateInt().GT(0)` |
| 2054179933 | pos | `(lend.GetBorrow(liquidationsV2.GetLockedVault(each(auctionsV2.GetAuctions()).AppId, each(auction…7a704c5d…lVaultId)).ReservePoolInterest)).TruncateInt().GT(0)` |
| 3727828721 | pos | `lend.GetBorrow(liquidationsV2.GetLockedVault(each(auctionsV2.GetAuctions()).AppId, each(auctions…de3226f1…Id).OriginalVaultId).BridgedAssetAmount.Amount.GT(0)` |
| 923730538 | pos | `each(auctionsV2.GetAuctions()).DebtToken.Amount.GT(0)` |
| 1336084875 | if | `vault.GetAmountOfOtherToken(each(auctionsV2.GetAuctions()).DebtAssetId, ite(liquidationsV2.GetLo…4fa3098b…tionsV2.GetAuctions()).CollateralTokenAuctionPrice)…` |
| 705882714 | if | `auction.GetSurplusAuction(appID, auctionMappingID, auctionID).AuctionStatus != auction/types.AuctionStartNoBids` |
| 333731544 | if | `statusEsm && surplusAuction.Bidder != nil` |
| 2250465699 | if | `!statusEsm && surplusAuction.Bidder != nil` |
| 2810226491 | if | `auction.GetDebtAuction(appID, auctionMappingID, auctionID).AuctionStatus != auction/types.AuctionStartNoBids` |
| 703494170 | if | `statusEsm && debtAuction.BiddingIds != nil` |
| 4111194398 | if | `(debtAuction.AuctionStatus != auction/types.AuctionStartNoBids) && !statusEsm` |
| 3920289901 | pos | `debtAuction.CurrentBidAmount.Amount.GT(0)` |
-/
namespace Comdex.C11
open Comdex.Effects Comdex.Gen.Effects

/-! ## the reviewed literals -/

def exp_auctionsV2_PlaceEnglishAuctionBid : List APin := [
  ⟨"SendCoinsFromAccountToModule", "addr(bidder)", "\"auctionsV2\"", "ite(liquidationsV2.GetLockedVault(…).InitiatorType == \"debt\", auctionData.DebtToken, bid).Denom", false, [], false, false⟩,
  ⟨"SendCoinsFromModuleToAccount", "\"auctionsV2\"", "addr(auctionsV2.GetUserBid(…).BidderAddress)", "auctionData.DebtToken.Denom", false, [(true, 1331667078)], false, false⟩]

def exp_auctionsV2_CloseEnglishAuction : List APin := [
  ⟨"SendCoinsFromModuleToModule", "\"collectorV1\"", "\"auctionsV2\"", "englishAuction.CollateralToken.Denom", false, [(true, 2526960822)], false, false⟩,
  ⟨"SendCoinsFromModuleToAccount", "\"auctionsV2\"", "addr(auctionsV2.GetUserBid(…).BidderAddress)", "englishAuction.CollateralToken.Denom", false, [(true, 2526960822)], false, false⟩,
  ⟨"SendCoinsFromModuleToModule", "\"auctionsV2\"", "\"tokenmint\"", "englishAuction.DebtToken.Denom", false, [(true, 2526960822)], false, false⟩,
  ⟨"BurnCoins", "\"tokenmint\"", "", "asset.GetAsset(englishAuction.DebtAssetId).Denom", false, [(true, 2526960822)], false, false⟩,
  ⟨"MintCoins", "", "\"tokenmint\"", "asset.GetAsset(englishAuction.DebtAssetId).Denom", true, [(false, 2526960822), (true, 49776675), (true, 3491829210)], false, false⟩,
  ⟨"SendCoinsFromModuleToAccount", "\"tokenmint\"", "addr(auctionsV2.GetUserBid(…).BidderAddress)", "asset.GetAsset(englishAuction.DebtAssetId).Denom", true, [(false, 2526960822), (true, 49776675), (true, 3491829210)], false, false⟩,
  ⟨"SendCoinsFromModuleToModule", "\"auctionsV2\"", "\"collectorV1\"", "englishAuction.DebtToken.Denom", false, [(false, 2526960822), (true, 49776675)], false, false⟩,
  ⟨"SendCoinsFromModuleToAccount", "\"auctionsV2\"", "addr(auctionsV2.GetUserBid(…).BidderAddress)", "englishAuction.CollateralToken.Denom", false, [(false, 2526960822), (false, 49776675)], false, false⟩,
  ⟨"SendCoinsFromModuleToAccount", "\"auctionsV2\"", "addr(liquidationsV2.GetLockedVault(…).ExternalKeeperAddress)", "englishAuction.DebtToken.Denom", false, [(false, 2526960822), (false, 49776675)], false, false⟩]

def exp_auctionsV2_DepositLimitAuctionBid : List APin := [
  ⟨"SendCoinsFromAccountToModule", "addr(bidder)", "\"auctionsV2\"", "amount.Denom", true, [(false, 1272498807), (true, 137154069)], false, false⟩]

def exp_auctionsV2_CancelLimitAuctionBid : List APin := [
  ⟨"SendCoinsFromModuleToAccount", "\"auctionsV2\"", "addr(bidder)", "auctionsV2.GetUserLimitBidData(DebtTokenId, CollateralTokenId, PremiumDiscount, bidder).DebtToken.Denom", true, [(true, 3747870161)], false, false⟩]

def exp_auctionsV2_WithdrawLimitAuctionBid : List APin := [
  ⟨"SendCoinsFromModuleToAccount", "\"auctionsV2\"", "addr(bidder)", "auctionsV2.GetUserLimitBidData(DebtTokenId, CollateralTokenId, PremiumDiscount, bidder).DebtToken.Denom", true, [(true, 1601799020), (true, 3747870161)], false, false⟩,
  ⟨"SendCoinsFromModuleToAccount", "\"auctionsV2\"", "addr(bidder)", "amount.Denom", false, [(false, 1601799020), (true, 3747870161)], false, false⟩]

def exp_auctionsV2_LimitOrderBid : List APin := [
  ⟨"SendCoinsFromModuleToModule", "\"liquidationsV2\"", "\"auctionsV2\"", "each(auctionsV2.GetAuctions(…)).DebtToken.Sub(coin(…)).Denom", true, [(true, 504748195), (true, 2669696102), (false, 3178329836), (true, 3773838022), (true, 3522916581), (true, 1068748814), (true, 2680706012), (true, 2010560415), (true, 3796276551)], true, true⟩,
  ⟨"SendCoinsFromAccountToModule", "addr(addr(…", "\"auctionsV2\"", "each(auctionsV2.GetAuctions(…)).DebtToken.Denom", false, [(true, 504748195), (true, 2669696102), (false, 3178329836), (true, 3773838022), (true, 3522916581), (true, 1068748814), (true, 2986367180), (true, 1734121591)], true, true⟩,
  ⟨"SendCoinsFromModuleToAccount", "\"auctionsV2\"", "addr(addr(…", "each(auctionsV2.GetAuctions(…)).CollateralToken.Denom", false, [(true, 504748195), (true, 2669696102), (false, 3178329836), (true, 3773838022), (true, 3522916581), (true, 1068748814), (true, 382305784)], true, true⟩,
  ⟨"BurnCoins", "\"auctionsV2\"", "", "liquidationsV2.GetLockedVault(each(…).AppId, each(…).LockedVaultId).TargetDebt.Sub(coin(…)).Denom", true, [(true, 504748195), (true, 2669696102), (false, 3178329836), (true, 3773838022), (true, 3522916581), (true, 1068748814), (true, 2109617512), (true, 2595289691)], true, true⟩,
  ⟨"SendCoinsFromModuleToAccount", "\"auctionsV2\"", "addr(liquidationsV2.GetLockedVault(…).Owner)", "each(auctionsV2.GetAuctions(…)).CollateralToken.Denom", false, [(true, 504748195), (true, 2669696102), (false, 3178329836), (true, 3773838022), (true, 3522916581), (true, 1068748814), (true, 1780875758)], true, true⟩,
  ⟨"SendCoinsFromModuleToAccount", "\"auctionsV2\"", "addr(liquidationsV2.GetLockedVault(…).InternalKeeperAddress)", "each(auctionsV2.GetAuctions(…)).DebtToken.Denom", true, [(true, 504748195), (true, 2669696102), (false, 3178329836), (true, 3773838022), (true, 3522916581), (true, 1068748814), (true, 928406181), (true, 874050314)], true, true⟩,
  ⟨"SendCoinsFromModuleToAccount", "\"auctionsV2\"", "addr(liquidationsV2.GetLockedVault(…).ExternalKeeperAddress)", "liquidationsV2.GetLockedVault(each(…).AppId, each(…).LockedVaultId).TargetDebt.Sub(coin(…)).Denom", false, [(true, 504748195), (true, 2669696102), (false, 3178329836), (true, 3773838022), (true, 3522916581), (true, 1068748814), (true, 928406181)], true, true⟩,
  ⟨"SendCoinsFromModuleToAccount", "\"auctionsV2\"", "addr(liquidationsV2.GetLockedVault(…).InternalKeeperAddress)", "each(auctionsV2.GetAuctions(…)).DebtToken.Denom", true, [(true, 504748195), (true, 2669696102), (false, 3178329836), (true, 3773838022), (true, 3522916581), (true, 1068748814), (false, 928406181), (true, 2109617512), (true, 564566190), (true, 874050314)], true, true⟩,
  ⟨"SendCoinsFromModuleToModule", "\"auctionsV2\"", "\"collectorV1\"", "ite(liquidationsV2.GetLockedVault(…).IsInternalKeeper, ite(…), coin(…)).Denom", true, [(true, 504748195), (true, 2669696102), (false, 3178329836), (true, 3773838022), (true, 3522916581), (true, 1068748814), (false, 928406181), (true, 2109617512), (true, 2260549848)], true, true⟩,
  ⟨"SendCoinsFromModuleToModule", "\"auctionsV2\"", "lend.GetPool(lend.GetLendPair(…).AssetOutPoolID).ModuleName", "liquidationsV2.GetLockedVault(each(…).AppId, each(…).LockedVaultId).TargetDebt.Denom", false, [(true, 504748195), (true, 2669696102), (false, 3178329836), (true, 3773838022), (true, 3522916581), (true, 1068748814), (false, 928406181), (false, 2109617512), (true, 2968871195)], true, true⟩,
  ⟨"SendCoinsFromModuleToModule", "lend.GetPool(lend.GetLendPair(…).AssetOutPoolID).ModuleName", "\"lendV2\"", "lend.GetBorrow(liquidationsV2.GetLockedVault(…).OriginalVaultId).AmountOut.Denom", false, [(true, 504748195), (true, 2669696102), (false, 3178329836), (true, 3773838022), (true, 3522916581), (true, 1068748814), (false, 928406181), (false, 2109617512), (true, 2968871195), (true, 1303515621)], true, true⟩,
  ⟨"SendCoinsFromModuleToModule", "\"lendV2\"", "lend.GetPool(lend.GetLendPair(…).AssetOutPoolID).ModuleName", "lend.GetBorrow(liquidationsV2.GetLockedVault(…).OriginalVaultId).AmountOut.Denom", false, [(true, 504748195), (true, 2669696102), (false, 3178329836), (true, 3773838022), (true, 3522916581), (true, 1068748814), (false, 928406181), (false, 2109617512), (true, 2968871195), (false, 1303515621)], true, true⟩,
  ⟨"SendCoinsFromModuleToModule", "lend.GetPool(lend.GetLendPair(…).AssetOutPoolID).ModuleName", "\"lendV2\"", "each(auctionsV2.GetAuctions(…)).DebtToken.Denom", true, [(true, 504748195), (true, 2669696102), (false, 3178329836), (true, 3773838022), (true, 3522916581), (true, 1068748814), (false, 928406181), (false, 2109617512), (true, 2968871195), (true, 1437770738), (true, 1303515621)], true, true⟩,
  ⟨"SendCoinsFromModuleToModule", "\"lendV2\"", "lend.GetPool(lend.GetLendPair(…).AssetOutPoolID).ModuleName", "each(auctionsV2.GetAuctions(…)).DebtToken.Denom", true, [(true, 504748195), (true, 2669696102), (false, 3178329836), (true, 3773838022), (true, 3522916581), (true, 1068748814), (false, 928406181), (false, 2109617512), (true, 2968871195), (true, 1437770738), (false, 1303515621)], true, true⟩,
  ⟨"MintCoins", "", "lend.GetPool(lend.GetLendPair(…).AssetOutPoolID).ModuleName", "asset.GetAsset(lend.GetAssetRatesParams(…).CAssetID).Denom", true, [(true, 504748195), (true, 2669696102), (false, 3178329836), (true, 3773838022), (true, 3522916581), (true, 1068748814), (false, 928406181), (false, 2109617512), (true, 2968871195), (true, 2054179933)], true, true⟩,
  ⟨"SendCoinsFromModuleToModule", "lend.GetPool(lend.GetLendPair(…).AssetOutPoolID).ModuleName", "lend.GetPool(lend.GetLend(…).PoolID).ModuleName", "lend.GetBorrow(liquidationsV2.GetLockedVault(…).OriginalVaultId).BridgedAssetAmount.Denom", true, [(true, 504748195), (true, 2669696102), (false, 3178329836), (true, 3773838022), (true, 3522916581), (true, 1068748814), (false, 928406181), (false, 2109617512), (true, 2968871195), (true, 3727828721)], true, true⟩,
  ⟨"SendCoinsFromAccountToModule", "addr(addr(…", "\"auctionsV2\"", "each(auctionsV2.GetAuctions(…)).DebtToken.Denom", true, [(true, 504748195), (true, 2669696102), (false, 3178329836), (true, 3773838022), (true, 3522916581), (false, 1068748814), (true, 2986367180), (true, 923730538)], true, true⟩,
  ⟨"SendCoinsFromModuleToAccount", "\"auctionsV2\"", "addr(addr(…", "each(auctionsV2.GetAuctions(…)).CollateralToken.Denom", false, [(true, 504748195), (true, 2669696102), (false, 3178329836), (true, 3773838022), (true, 3522916581), (false, 1068748814), (true, 1336084875)], true, true⟩,
  ⟨"SendCoinsFromModuleToModule", "\"liquidationsV2\"", "\"auctionsV2\"", "each(auctionsV2.GetAuctions(…)).DebtToken.Sub(coin(…)).Denom", true, [(true, 504748195), (true, 2669696102), (false, 3178329836), (true, 3773838022), (false, 3522916581), (true, 1068748814), (true, 2680706012), (true, 2010560415), (true, 3796276551)], true, true⟩,
  ⟨"SendCoinsFromAccountToModule", "addr(addr(…", "\"auctionsV2\"", "each(auctionsV2.GetAuctions(…)).DebtToken.Denom", false, [(true, 504748195), (true, 2669696102), (false, 3178329836), (true, 3773838022), (false, 3522916581), (true, 1068748814), (true, 2986367180), (true, 1734121591)], true, true⟩,
  ⟨"SendCoinsFromModuleToAccount", "\"auctionsV2\"", "addr(addr(…", "each(auctionsV2.GetAuctions(…)).CollateralToken.Denom", false, [(true, 504748195), (true, 2669696102), (false, 3178329836), (true, 3773838022), (false, 3522916581), (true, 1068748814), (true, 382305784)], true, true⟩,
  ⟨"BurnCoins", "\"auctionsV2\"", "", "liquidationsV2.GetLockedVault(each(…).AppId, each(…).LockedVaultId).TargetDebt.Sub(coin(…)).Denom", true, [(true, 504748195), (true, 2669696102), (false, 3178329836), (true, 3773838022), (false, 3522916581), (true, 1068748814), (true, 2109617512), (true, 2595289691)], true, true⟩,
  ⟨"SendCoinsFromModuleToAccount", "\"auctionsV2\"", "addr(liquidationsV2.GetLockedVault(…).Owner)", "each(auctionsV2.GetAuctions(…)).CollateralToken.Denom", false, [(true, 504748195), (true, 2669696102), (false, 3178329836), (true, 3773838022), (false, 3522916581), (true, 1068748814), (true, 1780875758)], true, true⟩,
  ⟨"SendCoinsFromModuleToAccount", "\"auctionsV2\"", "addr(liquidationsV2.GetLockedVault(…).InternalKeeperAddress)", "each(auctionsV2.GetAuctions(…)).DebtToken.Denom", true, [(true, 504748195), (true, 2669696102), (false, 3178329836), (true, 3773838022), (false, 3522916581), (true, 1068748814), (true, 928406181), (true, 874050314)], true, true⟩,
  ⟨"SendCoinsFromModuleToAccount", "\"auctionsV2\"", "addr(liquidationsV2.GetLockedVault(…).ExternalKeeperAddress)", "liquidationsV2.GetLockedVault(each(…).AppId, each(…).LockedVaultId).TargetDebt.Sub(coin(…)).Denom", false, [(true, 504748195), (true, 2669696102), (false, 3178329836), (true, 3773838022), (false, 3522916581), (true, 1068748814), (true, 928406181)], true, true⟩,
  ⟨"SendCoinsFromModuleToAccount", "\"auctionsV2\"", "addr(liquidationsV2.GetLockedVault(…).InternalKeeperAddress)", "each(auctionsV2.GetAuctions(…)).DebtToken.Denom", true, [(true, 504748195), (true, 2669696102), (false, 3178329836), (true, 3773838022), (false, 3522916581), (true, 1068748814), (false, 928406181), (true, 2109617512), (true, 564566190), (true, 874050314)], true, true⟩,
  ⟨"SendCoinsFromModuleToModule", "\"auctionsV2\"", "\"collectorV1\"", "ite(liquidationsV2.GetLockedVault(…).IsInternalKeeper, ite(…), coin(…)).Denom", true, [(true, 504748195), (true, 2669696102), (false, 3178329836), (true, 3773838022), (false, 3522916581), (true, 1068748814), (false, 928406181), (true, 2109617512), (true, 2260549848)], true, true⟩,
  ⟨"SendCoinsFromModuleToModule", "\"auctionsV2\"", "lend.GetPool(lend.GetLendPair(…).AssetOutPoolID).ModuleName", "liquidationsV2.GetLockedVault(each(…).AppId, each(…).LockedVaultId).TargetDebt.Denom", false, [(true, 504748195), (true, 2669696102), (false, 3178329836), (true, 3773838022), (false, 3522916581), (true, 1068748814), (false, 928406181), (false, 2109617512), (true, 2968871195)], true, true⟩,
  ⟨"SendCoinsFromModuleToModule", "lend.GetPool(lend.GetLendPair(…).AssetOutPoolID).ModuleName", "\"lendV2\"", "lend.GetBorrow(liquidationsV2.GetLockedVault(…).OriginalVaultId).AmountOut.Denom", false, [(true, 504748195), (true, 2669696102), (false, 3178329836), (true, 3773838022), (false, 3522916581), (true, 1068748814), (false, 928406181), (false, 2109617512), (true, 2968871195), (true, 1303515621)], true, true⟩,
  ⟨"SendCoinsFromModuleToModule", "\"lendV2\"", "lend.GetPool(lend.GetLendPair(…).AssetOutPoolID).ModuleName", "lend.GetBorrow(liquidationsV2.GetLockedVault(…).OriginalVaultId).AmountOut.Denom", false, [(true, 504748195), (true, 2669696102), (false, 3178329836), (true, 3773838022), (false, 3522916581), (true, 1068748814), (false, 928406181), (false, 2109617512), (true, 2968871195), (false, 1303515621)], true, true⟩,
  ⟨"SendCoinsFromModuleToModule", "lend.GetPool(lend.GetLendPair(…).AssetOutPoolID).ModuleName", "\"lendV2\"", "each(auctionsV2.GetAuctions(…)).DebtToken.Denom", true, [(true, 504748195), (true, 2669696102), (false, 3178329836), (true, 3773838022), (false, 3522916581), (true, 1068748814), (false, 928406181), (false, 2109617512), (true, 2968871195), (true, 1437770738), (true, 1303515621)], true, true⟩,
  ⟨"SendCoinsFromModuleToModule", "\"lendV2\"", "lend.GetPool(lend.GetLendPair(…).AssetOutPoolID).ModuleName", "each(auctionsV2.GetAuctions(…)).DebtToken.Denom", true, [(true, 504748195), (true, 2669696102), (false, 3178329836), (true, 3773838022), (false, 3522916581), (true, 1068748814), (false, 928406181), (false, 2109617512), (true, 2968871195), (true, 1437770738), (false, 1303515621)], true, true⟩,
  ⟨"MintCoins", "", "lend.GetPool(lend.GetLendPair(…).AssetOutPoolID).ModuleName", "asset.GetAsset(lend.GetAssetRatesParams(…).CAssetID).Denom", true, [(true, 504748195), (true, 2669696102), (false, 3178329836), (true, 3773838022), (false, 3522916581), (true, 1068748814), (false, 928406181), (false, 2109617512), (true, 2968871195), (true, 2054179933)], true, true⟩,
  ⟨"SendCoinsFromModuleToModule", "lend.GetPool(lend.GetLendPair(…).AssetOutPoolID).ModuleName", "lend.GetPool(lend.GetLend(…).PoolID).ModuleName", "lend.GetBorrow(liquidationsV2.GetLockedVault(…).OriginalVaultId).BridgedAssetAmount.Denom", true, [(true, 504748195), (true, 2669696102), (false, 3178329836), (true, 3773838022), (false, 3522916581), (true, 1068748814), (false, 928406181), (false, 2109617512), (true, 2968871195), (true, 3727828721)], true, true⟩,
  ⟨"SendCoinsFromAccountToModule", "addr(addr(…", "\"auctionsV2\"", "each(auctionsV2.GetAuctions(…)).DebtToken.Denom", true, [(true, 504748195), (true, 2669696102), (false, 3178329836), (true, 3773838022), (false, 3522916581), (false, 1068748814), (true, 2986367180), (true, 923730538)], true, true⟩,
  ⟨"SendCoinsFromModuleToAccount", "\"auctionsV2\"", "addr(addr(…", "each(auctionsV2.GetAuctions(…)).CollateralToken.Denom", false, [(true, 504748195), (true, 2669696102), (false, 3178329836), (true, 3773838022), (false, 3522916581), (false, 1068748814), (true, 1336084875)], true, true⟩]

def exp_auction_PlaceSurplusAuctionBid : List APin := [
  ⟨"SendCoinsFromAccountToModule", "bidder", "\"auctionV1\"", "bid.Denom", false, [], false, false⟩,
  ⟨"SendCoinsFromModuleToAccount", "\"auctionV1\"", "auction.GetSurplusAuction(appID, auctionMappingID, auctionID).Bidder", "auction.GetSurplusAuction(appID, auctionMappingID, auctionID).Bid.Denom", false, [(true, 705882714)], false, false⟩]

def exp_auction_closeSurplusAuction : List APin := [
  ⟨"SendCoinsFromModuleToAccount", "\"auctionV1\"", "surplusAuction.Bidder", "surplusAuction.Bid.Denom", false, [(true, 333731544)], false, false⟩,
  ⟨"SendCoinsFromModuleToModule", "\"auctionV1\"", "\"collectorV1\"", "surplusAuction.SellToken.Denom", false, [(true, 333731544)], false, false⟩,
  ⟨"SendCoinsFromModuleToAccount", "\"auctionV1\"", "surplusAuction.Bidder", "surplusAuction.SellToken.Denom", false, [(false, 333731544), (true, 2250465699)], false, false⟩,
  ⟨"SendCoinsFromModuleToModule", "\"auctionV1\"", "\"tokenmint\"", "surplusAuction.Bid.Denom", false, [(false, 333731544), (true, 2250465699)], false, false⟩,
  ⟨"BurnCoins", "\"tokenmint\"", "", "asset.GetAsset(surplusAuction.AssetInId).Denom", false, [(false, 333731544), (true, 2250465699)], false, false⟩,
  ⟨"SendCoinsFromModuleToModule", "\"auctionV1\"", "\"collectorV1\"", "surplusAuction.SellToken.Denom", false, [(false, 333731544), (false, 2250465699)], false, false⟩]

def exp_auction_PlaceDebtAuctionBid : List APin := [
  ⟨"SendCoinsFromAccountToModule", "bidder", "\"auctionV1\"", "expectedUserToken.Denom", false, [], false, false⟩,
  ⟨"SendCoinsFromModuleToAccount", "\"auctionV1\"", "auction.GetDebtAuction(appID, auctionMappingID, auctionID).Bidder", "auction.GetDebtAuction(appID, auctionMappingID, auctionID).ExpectedUserToken.Denom", false, [(true, 2810226491)], false, false⟩]

def exp_auction_closeDebtAuction : List APin := [
  ⟨"SendCoinsFromModuleToAccount", "\"auctionV1\"", "addr(auction.GetDebtUserBidding(…).Bidder)", "debtAuction.ExpectedUserToken.Denom", false, [(true, 703494170)], false, false⟩,
  ⟨"MintCoins", "", "\"tokenmint\"", "asset.GetAsset(debtAuction.AssetOutId).Denom", true, [(false, 703494170), (true, 4111194398), (true, 3920289901)], false, false⟩,
  ⟨"SendCoinsFromModuleToAccount", "\"tokenmint\"", "addr(debtAuction.Bidder.String(…))", "asset.GetAsset(debtAuction.AssetOutId).Denom", true, [(false, 703494170), (true, 4111194398), (true, 3920289901)], false, false⟩,
  ⟨"SendCoinsFromModuleToModule", "\"auctionV1\"", "\"collectorV1\"", "debtAuction.ExpectedUserToken.Denom", false, [(false, 703494170), (true, 4111194398)], false, false⟩]

def pinPairs : List (String × List APin × List APin) := [
  ("auctionsV2_PlaceEnglishAuctionBid", apins h_auctionsV2_PlaceEnglishAuctionBid, exp_auctionsV2_PlaceEnglishAuctionBid),
  ("auctionsV2_CloseEnglishAuction", apins h_auctionsV2_CloseEnglishAuction, exp_auctionsV2_CloseEnglishAuction),
  ("auctionsV2_DepositLimitAuctionBid", apins h_auctionsV2_DepositLimitAuctionBid, exp_auctionsV2_DepositLimitAuctionBid),
  ("auctionsV2_CancelLimitAuctionBid", apins h_auctionsV2_CancelLimitAuctionBid, exp_auctionsV2_CancelLimitAuctionBid),
  ("auctionsV2_WithdrawLimitAuctionBid", apins h_auctionsV2_WithdrawLimitAuctionBid, exp_auctionsV2_WithdrawLimitAuctionBid),
  ("auctionsV2_LimitOrderBid", apins h_auctionsV2_LimitOrderBid, exp_auctionsV2_LimitOrderBid),
  ("auction_PlaceSurplusAuctionBid", apins h_auction_PlaceSurplusAuctionBid, exp_auction_PlaceSurplusAuctionBid),
  ("auction_closeSurplusAuction", apins h_auction_closeSurplusAuction, exp_auction_closeSurplusAuction),
  ("auction_PlaceDebtAuctionBid", apins h_auction_PlaceDebtAuctionBid, exp_auction_PlaceDebtAuctionBid),
  ("auction_closeDebtAuction", apins h_auction_closeDebtAuction, exp_auction_closeDebtAuction)]

/-- **Golden skeleton**: the entry points whose regenerated bank skeleton differs from the reviewed literal — none
(one kernel evaluation of the regenerated table) -/
theorem c11_pins : (pinPairs.filter fun p => p.2.1 != p.2.2).map (·.1) = [] := by
  decide +kernel

def pinned : List Handler := [h_auctionsV2_PlaceEnglishAuctionBid, h_auctionsV2_CloseEnglishAuction, h_auctionsV2_DepositLimitAuctionBid, h_auctionsV2_CancelLimitAuctionBid, h_auctionsV2_WithdrawLimitAuctionBid, h_auctionsV2_LimitOrderBid, h_auction_PlaceSurplusAuctionBid, h_auction_closeSurplusAuction, h_auction_PlaceDebtAuctionBid, h_auction_closeDebtAuction]

theorem c11_table :
    pinned.map (fun h => (h.module ++ "_" ++ h.name, (bankItems h).length)) = [("auctionsV2_PlaceEnglishAuctionBid", 2), ("auctionsV2_CloseEnglishAuction", 9), ("auctionsV2_DepositLimitAuctionBid", 1), ("auctionsV2_CancelLimitAuctionBid", 1), ("auctionsV2_WithdrawLimitAuctionBid", 2), ("auctionsV2_LimitOrderBid", 36), ("auction_PlaceSurplusAuctionBid", 2), ("auction_closeSurplusAuction", 6), ("auction_PlaceDebtAuctionBid", 2), ("auction_closeDebtAuction", 4)] ∧
    (∀ h ∈ pinned, unknownBankOps h = [] ∧ opaqueCalls h = []) := by
  decide +kernel

/-! ## non-vacuity -/

example : pinPairs.length = 10 ∧ (pinPairs.map (·.2.2.length)).sum = 65 := by decide

end Comdex.C11
