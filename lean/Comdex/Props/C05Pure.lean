import Comdex.Gen.Pure
import Comdex.Lemmas.GoSem
import Comdex.Model.AmmMatch
/-!
# C05 — `OfferCoinAmount` of the model IS the arithmetic of the current Go source

`Gen.Pure.ammOfferCoinAmount` is regenerated on every run by `extract/pure` from `x/liquidity/amm/util.go:
OfferCoinAmount` (a `switch` on the named integer type `OrderDirection`: `Buy = 1`, `Sell = 2`, anything else panics).
`Amm.offerCoinAmount` is the hand-written model (`Model/AmmMatch.lean`).

Go function → theorem
* `OfferCoinAmount` → `pure_ammOfferCoinAmount_eq_model`: for both directions, every price and amount, whenever the
  translated function returns it returns the model's amount (`GoSem.Agrees`: the model has no 315/256-bit overflow checks)
  and it never panics otherwise; `pure_ammOfferCoinAmount_bad_direction`: any other direction value panics.

NOT translated: `MatchableAmount` and `FillOrder` — see notes/PURE.md (the translator's definite-assignment analysis rejects
`MatchableAmount`: for a direction other than Buy/Sell its named result stays nil and `price.MulInt(nil)` dereferences
nil; nil values are not modelled; `FillOrder` calls setters of an interface value).

Trusted: the translator's reading of Go and `Base/GoSem.lean`; kernel-checked: the relation.
-/
set_option exponentiation.threshold 512
namespace Comdex.C05
open Comdex Comdex.GoSem Comdex.Amm

/-- the Go constant of a direction (`Buy OrderDirection = iota + 1`, `Sell`) -/
def dirCode : Dir → Int
  | .buy => 1
  | .sell => 2

theorem agrees_decMulInt (a : Dec) (i : Int) : Agrees (decMulInt a i) (some (Dec.mulInt a i)) := Agrees.chkDec _

theorem pure_ammOfferCoinAmount_eq_model (d : Dir) (p a : Int) :
    Agrees (Gen.Pure.ammOfferCoinAmount (dirCode d) p a) (some (offerCoinAmount d p a)) := by
  unfold Gen.Pure.ammOfferCoinAmount
  cases d
  · simp only [dirCode, if_true]
    apply Agrees.of_eq
    · apply Agrees.bind
      · exact agrees_decMulInt _ _
      · intro x
        exact Agrees.decTruncateInt _
    · rfl
  · have h : ¬ ((2 : Int) = 1) := by decide
    simp only [dirCode, h, if_false, if_true]
    rfl

theorem pure_ammOfferCoinAmount_bad_direction (dir p a : Int) (h1 : dir ≠ 1) (h2 : dir ≠ 2) :
    Gen.Pure.ammOfferCoinAmount dir p a = .error .panic := by
  unfold Gen.Pure.ammOfferCoinAmount
  simp only [h1, h2, if_false]
  rfl

example : Gen.Pure.ammOfferCoinAmount 1 1500000000000000000 3 = .ok 5 := by rfl      -- ceil(1.5 · 3) = 5
example : offerCoinAmount .buy 1500000000000000000 3 = 5 := by rfl
example : Gen.Pure.ammOfferCoinAmount 2 1500000000000000000 3 = .ok 3 := by rfl
example : Gen.Pure.ammOfferCoinAmount 0 1 1 = .error .panic := by rfl

end Comdex.C05
