import Comdex.Props.C01
/-!
# C03 — Vault risk limits: min collateral ratio, debt floor and debt ceiling hold

Property clause → theorem (for every amount — including the boundary values that make the ratio exactly the minimum —,
every oracle price, every asset decimal scale, every prior history incl. accrued interest):

* "whenever an owner's create, draw, withdraw or deposit-and-draw succeeds [outside emergency shutdown] the vault's
   collateral value divided by its debt value at the oracle price in force is at least the product's min CR"
      → `C03.create_accepted_ratio`, `C03.draw_accepted_ratio`, `C03.withdraw_accepted_ratio`,
        `C03.depositAndDraw_accepted_ratio`
   These are stated for the ratio **as the chain computes it** (`calcCR`: three 18-digit fixed-point roundings of
   `(amountIn·p_in/10^d_in) / (debt·p_out/10^d_out)`): accepted ⇒ `calcCR = some r ∧ r ≥ minCr`. The gap between `r`
   and the exact rational is at most the three Dec roundings and is NOT bounded by a theorem here (partial).
   For `draw` and `withdraw` the debt is principal + accrued interest + closing fee, i.e. stronger than the clause.
* "a vault's principal is never left below the product's debt floor unless the vault is closed"    → `C03.floor_kept`
* "the principal outstanding across a product never exceeds its debt ceiling"                      → `C03.ceiling_kept`
* "when the required oracle price is not active these operations fail"                            → `C03.inactive_price_rejects`
-/
namespace Comdex.C03
open Comdex Comdex.Vault Comdex.C01

/-- the decision the chain takes: the computed ratio exists and is at least `minCr` -/
def RatioOk (p : Product) (e : Env) (amountIn debt : Int) : Prop :=
  ∃ r, calcCR p e amountIn debt = some r ∧ r ≥ p.minCr

theorem verifyCR_ratio (p : Product) (e : Env) (a b : Int) (hesm : e.esm = false) (h : verifyCR p e a b = true) :
    RatioOk p e a b := by
  unfold verifyCR at h
  cases hc : calcCR p e a b with
  | none => simp [hc] at h
  | some r => simp [hc, hesm] at h; exact ⟨r, hc, h⟩

theorem create_accepted_ratio (s s' : State) (p : Product) (e : Env) (from_ app prod : Nat) (amtIn amtOut : Int)
    (h : create s p e from_ app prod amtIn amtOut = some s') :
    e.esm = false ∧ RatioOk p e amtIn amtOut := by
  unfold create at h
  split at h; · cases h
  next hg =>
  simp only [not_or] at hg
  have hesm : e.esm = false := by simpa using hg.1
  split at h; · cases h
  split at h; · cases h
  split at h; · cases h
  split at h; · cases h
  split at h; · cases h
  next hv =>
  exact ⟨hesm, verifyCR_ratio p e amtIn amtOut hesm (by simpa using hv)⟩

/-- an accepted draw leaves the vault with computed ratio ≥ minCr against principal + interest + closing fee -/
theorem draw_accepted_ratio (s s' : State) (p : Product) (e : Env) (from_ app prod vaultId : Nat) (amt : Int)
    (h : draw s p e from_ app prod vaultId amt = some s') :
    ∃ v ∈ s'.vaults, v.id = vaultId ∧ e.esm = false ∧
      RatioOk p e v.amountIn (v.amountOut + v.interest + v.closingFee) := by
  unfold draw at h
  split at h; · cases h
  next hg =>
  simp only [not_or] at hg
  have hesm : e.esm = false := by simpa using hg.1
  split at h; · cases h
  next v hov =>
  obtain ⟨v0, i, hm, hid, hi, hi0, rfl, hown, hprod, hpid, happ⟩ := ownedVault_spec s p e from_ app prod vaultId v hov
  split at h; · cases h
  split at h; · cases h
  next hv =>
  simp only [Option.map_eq_some_iff] at h
  obtain ⟨s1, hb, rfl⟩ := h
  have eff := runBank_effect _ s s1 hb
  refine ⟨⟨v0.id, v0.owner, v0.product, v0.amountIn, v0.amountOut + amt, v0.interest + i, v0.closingFee⟩, ?_, hid, hesm, ?_⟩
  · simp only [eff.same.vaults, setVault, setBy, List.mem_map]
    exact ⟨v0, hm, by simp⟩
  · have := verifyCR_ratio p e _ _ hesm (by simpa using hv)
    simpa [Int.add_assoc, Int.add_comm, Int.add_left_comm] using this

theorem withdraw_accepted_ratio (s s' : State) (p : Product) (e : Env) (from_ app prod vaultId : Nat) (amt : Int)
    (hesm : e.esm = false) (h : withdraw s p e from_ app prod vaultId amt = some s') :
    ∃ v ∈ s'.vaults, v.id = vaultId ∧ RatioOk p e v.amountIn (v.amountOut + v.interest + v.closingFee) := by
  unfold withdraw at h
  split at h; · cases h
  split at h; · cases h
  next v hov =>
  obtain ⟨v0, i, hm, hid, hi, hi0, rfl, hown, hprod, hpid, happ⟩ := ownedVault_spec s p e from_ app prod vaultId v hov
  split at h; · cases h
  split at h; · cases h
  next hv =>
  simp only [Option.map_eq_some_iff] at h
  obtain ⟨s1, hb, rfl⟩ := h
  have eff := runBank_effect _ s s1 hb
  refine ⟨⟨v0.id, v0.owner, v0.product, v0.amountIn - amt, v0.amountOut, v0.interest + i, v0.closingFee⟩, ?_, hid, ?_⟩
  · simp only [eff.same.vaults, setVault, setBy, List.mem_map]
    exact ⟨v0, hm, by simp⟩
  · have := verifyCR_ratio p e _ _ hesm (by simpa using hv)
    simpa [withdrawDebt, hesm] using this

theorem depositAndDraw_accepted_ratio (s s' : State) (p : Product) (e : Env) (from_ app prod vaultId : Nat) (amt : Int)
    (h : depositAndDraw s p e from_ app prod vaultId amt = some s') :
    ∃ v ∈ s'.vaults, v.id = vaultId ∧ e.esm = false ∧
      RatioOk p { e with iota := some 0 } v.amountIn (v.amountOut + v.interest + v.closingFee) := by
  unfold depositAndDraw at h
  split at h; · cases h
  split at h; · cases h
  split at h; · cases h
  obtain ⟨v, hv, hid, hesm, hr⟩ := draw_accepted_ratio _ _ _ _ _ _ _ _ _ h
  exact ⟨v, hv, hid, hesm, hr⟩

/-- **Debt floor**: after every history every open vault's principal is at least its product's debt floor. -/
theorem floor_kept (cfg : Nat → Option Product) (hc : CfgOk cfg) (h : History) (hu : UsersOk h) :
    ∀ v ∈ (runAll cfg State.init h).vaults, ∀ p, cfg v.product = some p → p.debtFloor ≤ v.amountOut := by
  obtain ⟨G', h', _, _⟩ := invG_always cfg hc h hu Gaps.zero State.init ((invG_zero cfg _).mpr (init_inv cfg hc)) goodGaps_zero
  exact h'.2.2.2.2.2.1

/-- **Debt ceiling**: after every history the published principal of a product is at most its debt ceiling — the
quantity every mint is checked against; in histories without auction settlement it equals the principal recorded on
open, stable-mint and awaiting-auction vaults (`totals_eq`), so that sum is bounded too. (After a settlement the
published total is below the recorded sum by the settled vaults' interest and closing fees — finding D13 — so later
mints can push the recorded sum above the ceiling by that amount: not excluded by this theorem.) -/
theorem ceiling_kept (cfg : Nat → Option Product) (hc : CfgOk cfg) (h : History) (hu : UsersOk h) (prod : Nat)
    (p : Product) (hp : cfg prod = some p) :
    (runAll cfg State.init h).minted prod ≤ p.debtCeiling ∧
    (NoSettle h → mintedOfProduct (runAll cfg State.init h) prod ≤ p.debtCeiling) := by
  obtain ⟨G', h', _, e⟩ := invG_always cfg hc h hu Gaps.zero State.init ((invG_zero cfg _).mpr (init_inv cfg hc)) goodGaps_zero
  refine ⟨h'.2.2.2.2.2.2 prod p hp, fun hn => ?_⟩
  rw [e hn] at h'
  have := h'.2.2.2.2.2.2 prod p hp
  have h2 := (h'.2.2.2.1 prod).2
  simp only [Gaps.zero] at h2
  omega

theorem calcCR_none_of_inactive (p : Product) (e : Env) (a b : Int)
    (h : e.priceIn = none ∨ (p.outOracle = true ∧ e.priceOut = none)) : calcCR p e a b = none := by
  unfold calcCR
  rcases h with h | ⟨ho, h⟩
  · simp [h]
  · cases hpi : e.priceIn with
    | none => simp
    | some pin => simp [ho, h]

/-- **Fail closed on an inactive price**: create, draw, withdraw and deposit-and-draw are rejected (and a rejected
message changes nothing, `C01.rejected_no_change`) when the collateral price — or the debt price where the product
uses one — is missing or inactive. -/
theorem inactive_price_rejects (s : State) (p : Product) (e : Env) (from_ app prod vaultId : Nat) (a b : Int)
    (h : e.priceIn = none ∨ (p.outOracle = true ∧ e.priceOut = none)) :
    create s p e from_ app prod a b = none ∧ draw s p e from_ app prod vaultId a = none ∧
    withdraw s p e from_ app prod vaultId a = none ∧ depositAndDraw s p e from_ app prod vaultId a = none := by
  have hv : ∀ x y, verifyCR p e x y = false := by
    intro x y; unfold verifyCR; rw [calcCR_none_of_inactive p e x y h]
  have hv0 : ∀ x y, verifyCR p { e with iota := some 0 } x y = false := by
    intro x y; unfold verifyCR; rw [calcCR_none_of_inactive p _ x y (by simpa using h)]
  refine ⟨?_, ?_, ?_, ?_⟩
  · unfold create; simp [hv]
  · unfold draw; split <;> try rfl
    split <;> try rfl
    simp [hv]
  · unfold withdraw; split <;> try rfl
    split <;> try rfl
    simp [hv]
  · unfold depositAndDraw
    split <;> try rfl
    split <;> try rfl
    split <;> try rfl
    unfold draw; split <;> try rfl
    split <;> try rfl
    simp [hv0]

/-! ### Non-vacuity -/
example : ∃ s', create (runAll demoCfg State.init [(demoEnv, .fund 10 1 5000000)]) demoProduct demoEnv 10 1 1 3000000 2000000 = some s' :=
  ⟨_, rfl⟩
example : calcCR demoProduct demoEnv 3000000 2000000 = some 15000000000000000000 := by decide
-- exactly at the boundary: 300000·10 / 2000000·1 = 1.5 = minCr is accepted, one unit less collateral is rejected
example : verifyCR demoProduct demoEnv 300000 2000000 = true ∧ verifyCR demoProduct demoEnv 299999 2000000 = false := by decide

end Comdex.C03
