import Comdex.Props.C01
import Comdex.Lemmas.VaultRatio
/-!
# C03 — Vault risk limits: min collateral ratio, debt floor and debt ceiling hold

Property clause → theorem (for every amount — including the boundary values that make the ratio exactly the minimum —,
every oracle price, every asset decimal scale, every prior history incl. accrued interest):

* "whenever an owner's create, draw, withdraw or deposit-and-draw succeeds [outside emergency shutdown] the vault's
   collateral value divided by its debt value at the oracle price in force is at least the product's min CR"
      → `C03.create_accepted_ratio`, `C03.draw_accepted_ratio`, `C03.withdraw_accepted_ratio`,
        `C03.depositAndDraw_accepted_ratio`
   These are stated for the ratio **as the chain computes it** (`calcCR`: three 18-digit fixed-point roundings of
   `(amountIn·p_in/10^d_in) / (debt·p_out/10^d_out)`): accepted ⇒ `calcCR = some r ∧ r ≥ minCr`; and then for the
   EXACT products, with the slack of the three roundings made explicit and nothing else lost:
      → `C03.ratioOk_exact` (+ `create_accepted_ratio_exact`, `draw_accepted_ratio_exact`):
        `(minCr − ½u)·(debt·p_out/d_out − (½+u)·u) ≤ amountIn·p_in/d_in + ½u`  with `u = 10⁻¹⁸`, stated multiplied out
        over the integers (`ExactRatio`). `ratioOk_exact_tight` shows the slack is real: an accepted vault whose exact
        ratio is below `minCr` (by less than the slack).
   For `draw` and `withdraw` the debt is principal + accrued interest + closing fee, i.e. stronger than the clause.
* "a vault's principal is never left below the product's debt floor unless the vault is closed"    → `C03.floor_kept`
* "the principal outstanding across a product never exceeds its debt ceiling"                      → `C03.ceiling_kept`
* "when the required oracle price is not active these operations fail"                            → `C03.inactive_price_rejects`
* floor / ceiling when the configuration CHANGES between messages (ceiling lowered below the outstanding principal, floor
  raised above a vault's principal — the clauses are then false of the state without any message): no accepted message makes
  an excess worse      → `C03.ceiling_excess_never_increases`, `C03.floor_deficit_never_increases`; limits that hold again
  keep holding         → `C03.limits_kept_from`
-/
namespace Comdex.C03
open Comdex Comdex.Vault Comdex.C01

/-- the decision the chain takes: the computed ratio exists and is at least `minCr` -/
def RatioOk (p : Product) (e : Env) (amountIn debt : Int) : Prop :=
  ∃ r, calcCR p e amountIn debt = some r ∧ r ≥ p.minCr

theorem verifyCR_ratio (p : Product) (e : Env) (a b : Int) (hesm : e.esm = false) (h : verifyCR p e a b = true) :
    RatioOk p e a b := by
  unfold verifyCR at h
  cases hc : calcCR p e a b with
  | none => simp [hc] at h
  | some r => simp [hc, hesm] at h; exact ⟨r, hc, h⟩

theorem calcCR_some (p : Product) (e : Env) (a b : Int) (r : Dec) (h : calcCR p e a b = some r) :
    ∃ pin pout, e.priceIn = some pin ∧ debtPrice p e = some pout ∧ 0 < valueOf a pin p.decIn ∧
      0 < valueOf b pout p.decOut ∧ r = Dec.quo (valueOf a pin p.decIn) (valueOf b pout p.decOut) := by
  unfold calcCR at h
  cases hpi : e.priceIn with
  | none => simp [hpi] at h
  | some pin =>
    simp only [hpi] at h
    have key : ∀ pout, (if valueOf a pin p.decIn ≤ 0 then none else if valueOf b pout p.decOut ≤ 0 then none
          else some (Dec.quo (valueOf a pin p.decIn) (valueOf b pout p.decOut))) = some r →
        0 < valueOf a pin p.decIn ∧ 0 < valueOf b pout p.decOut ∧
          r = Dec.quo (valueOf a pin p.decIn) (valueOf b pout p.decOut) := by
      intro pout hh
      by_cases h1 : valueOf a pin p.decIn ≤ 0
      · simp [h1] at hh
      · by_cases h2 : valueOf b pout p.decOut ≤ 0
        · simp [h1, h2] at hh
        · simp only [h1, h2, if_false, Option.some.injEq] at hh
          exact ⟨Int.not_le.mp h1, Int.not_le.mp h2, hh.symm⟩
    by_cases ho : p.outOracle = true
    · cases hpo : e.priceOut with
      | none => simp [ho, hpo] at h
      | some pout =>
        simp only [ho, hpo, if_true, Option.map_some] at h
        obtain ⟨k1, k2, k3⟩ := key pout h
        exact ⟨pin, pout, rfl, by simp [debtPrice, ho, hpo], k1, k2, k3⟩
    · simp only [ho] at h
      obtain ⟨k1, k2, k3⟩ := key p.outPrice h
      exact ⟨pin, p.outPrice, rfl, by simp [debtPrice, ho], k1, k2, k3⟩

/-- accepted by the chain's check ⇒ the exact inequality, for every amount, price, decimal scale and `minCr ≥ ½·10⁻¹⁸` -/
theorem ratioOk_exact (p : Product) (e : Env) (a b : Int) (hdi : 0 < p.decIn) (hdo : 0 < p.decOut)
    (hm : (1 : Int) ≤ 2 * (p.minCr : Int)) (h : RatioOk p e a b) :
    ∃ pin pout, e.priceIn = some pin ∧ debtPrice p e = some pout ∧ ExactRatio p pin pout a b := by
  obtain ⟨r, hr, hge⟩ := h
  obtain ⟨pin, pout, hpi, hpo, hvin, hvout, rfl⟩ := calcCR_some p e a b r hr
  refine ⟨pin, pout, hpi, hpo, ?_⟩
  have hP := P_pos
  rw [valueOf_eq _ _ _ (by omega)] at hvin hge
  rw [valueOf_eq b _ _ (by omega)] at hvout hge
  have hnin := pos_of_chopRound_tdiv_pos _ _ hdi hvin
  have hnout := pos_of_chopRound_tdiv_pos _ _ hdo hvout
  have hup := value_upper _ _ (Int.le_of_lt hnin) hdi
  have hlo := value_lower _ _ (Int.le_of_lt hnout) hdo
  unfold ExactRatio
  generalize Dec.chopRound ((a * (pin : Int) * Dec.P * Dec.P).tdiv p.decIn) = vin at *
  generalize Dec.chopRound ((b * (pout : Int) * Dec.P * Dec.P).tdiv p.decOut) = vout at *
  generalize a * (pin : Int) * Dec.P * Dec.P = nin at *
  generalize b * (pout : Int) * Dec.P * Dec.P = nout at *
  -- (2m−1)·vout ≤ 2P·vin ; 2·dIn·P·vin ≤ 2·nin + dIn·P ; 2·nout − (P+2)·dOut + 2 ≤ 2·dOut·P·vout
  have hge' : (p.minCr : Int) ≤ Dec.quo vin vout := hge
  have hq := quo_ge vin vout p.minCr (Int.le_of_lt hvin) hvout hge'
  have hm0 : (0 : Int) ≤ 2 * (p.minCr : Int) - 1 := by omega
  have h1 : (2 * (p.minCr : Int) - 1) * p.decIn * (2 * p.decOut * Dec.P * vout) ≤ 2 * Dec.P * p.decOut * (2 * p.decIn * Dec.P * vin) := by
    have hpos : (0 : Int) ≤ 2 * p.decOut * Dec.P * p.decIn := by positivity
    have := Int.mul_le_mul_of_nonneg_left hq hpos
    linarith [this]
  have h2 : (2 * (p.minCr : Int) - 1) * p.decIn * (2 * nout - (Dec.P + 2) * p.decOut + 2) ≤
      (2 * (p.minCr : Int) - 1) * p.decIn * (2 * p.decOut * Dec.P * vout) :=
    Int.mul_le_mul_of_nonneg_left hlo (Int.mul_nonneg hm0 (Int.le_of_lt hdi))
  have h3 : 2 * Dec.P * p.decOut * (2 * p.decIn * Dec.P * vin) ≤ 2 * Dec.P * p.decOut * (2 * nin + p.decIn * Dec.P) :=
    Int.mul_le_mul_of_nonneg_left hup (by positivity)
  exact Int.le_trans h2 (Int.le_trans h1 h3)

/-- **With real decimal scales** (`10^k`, `k ≤ 18`, i.e. any scale dividing `10^18`) the two value computations are
exact and only the final division rounds: accepted ⇒ `(2·minCr − 1)·(debt·pOut·dIn) ≤ 2·10^18·(amountIn·pIn·dOut)`, i.e.
the exact rational ratio `(amountIn·pIn/dIn)/(debt·pOut/dOut)` is at least `minCr − ½·10⁻¹⁸`. -/
theorem ratioOk_exact_scales (p : Product) (e : Env) (a b : Int) (hdi : 0 < p.decIn) (hdo : 0 < p.decOut)
    (hsi : p.decIn ∣ Dec.P) (hso : p.decOut ∣ Dec.P) (h : RatioOk p e a b) :
    ∃ pin pout : Nat, e.priceIn = some pin ∧ debtPrice p e = some pout ∧ 0 < a * (pin : Int) ∧ 0 < b * (pout : Int) ∧
      ExactRatioScales p pin pout a b := by
  unfold ExactRatioScales
  obtain ⟨r, hr, hge⟩ := h
  obtain ⟨pin, pout, hpi, hpo, hvin, hvout, rfl⟩ := calcCR_some p e a b r hr
  have hP := P_pos
  have ein := valueOf_exact a pin p.decIn hdi hsi
  have eout := valueOf_exact b pout p.decOut hdo hso
  have hge' : (p.minCr : Int) ≤ Dec.quo (valueOf a pin p.decIn) (valueOf b pout p.decOut) := hge
  have hq := quo_ge _ _ p.minCr (Int.le_of_lt hvin) hvout hge'
  generalize valueOf a pin p.decIn = vin at *
  generalize valueOf b pout p.decOut = vout at *
  have hvin' : (0 : Int) < vin := hvin
  have hvout' : (0 : Int) < vout := hvout
  refine ⟨pin, pout, hpi, hpo, ?_, ?_, ?_⟩
  · have : 0 < vin * p.decIn := Int.mul_pos hvin' hdi
    rw [ein] at this
    by_contra hc
    have hc' := Int.not_lt.mp hc
    nlinarith [this, hP, hc']
  · have : 0 < vout * p.decOut := Int.mul_pos hvout' hdo
    rw [eout] at this
    by_contra hc
    have hc' := Int.not_lt.mp hc
    nlinarith [this, hP, hc']
  · -- multiply (2m−1)·vout ≤ 2P·vin by dIn·dOut and substitute the exact values, then cancel P
    have hpos : (0 : Int) ≤ p.decIn * p.decOut := Int.mul_nonneg (Int.le_of_lt hdi) (Int.le_of_lt hdo)
    have h1 := Int.mul_le_mul_of_nonneg_left hq hpos
    have h2 : Dec.P * ((2 * (p.minCr : Int) - 1) * (b * (pout : Int) * p.decIn)) ≤
        Dec.P * (2 * Dec.P * (a * (pin : Int) * p.decOut)) := by
      have e1 : p.decIn * p.decOut * ((2 * (p.minCr : Int) - 1) * vout) =
          (2 * (p.minCr : Int) - 1) * p.decIn * (vout * p.decOut) := by ring
      have e2 : p.decIn * p.decOut * (2 * Dec.P * vin) = 2 * Dec.P * p.decOut * (vin * p.decIn) := by ring
      rw [e1, e2, ein, eout] at h1
      linarith [h1]
    exact Int.le_of_mul_le_mul_left h2 hP

theorem create_accepted_ratio (s s' : State) (p : Product) (e : Env) (from_ app prod : Nat) (amtIn amtOut : Int)
    (h : create s p e from_ app prod amtIn amtOut = some s') :
    e.esm = false ∧ RatioOk p e amtIn amtOut := by
  unfold create at h
  split at h; · cases h
  next hg =>
  simp only [not_or] at hg
  have hesm : e.esm = false := by simpa using hg.1
  split at h; · cases h
  split at h; · cases h
  split at h; · cases h
  split at h; · cases h
  split at h; · cases h
  next hv =>
  exact ⟨hesm, verifyCR_ratio p e amtIn amtOut hesm (by simpa using hv)⟩

/-- an accepted draw leaves the vault with computed ratio ≥ minCr against principal + interest + closing fee -/
theorem draw_accepted_ratio (s s' : State) (p : Product) (e : Env) (from_ app prod vaultId : Nat) (amt : Int)
    (h : draw s p e from_ app prod vaultId amt = some s') :
    ∃ v ∈ s'.vaults, v.id = vaultId ∧ e.esm = false ∧
      RatioOk p e v.amountIn (v.amountOut + v.interest + v.closingFee) := by
  unfold draw at h
  split at h; · cases h
  next hg =>
  simp only [not_or] at hg
  have hesm : e.esm = false := by simpa using hg.1
  split at h; · cases h
  next v hov =>
  obtain ⟨v0, i, hm, hid, hi, hi0, rfl, hown, hprod, hpid, happ⟩ := ownedVault_spec s p e from_ app prod vaultId v hov
  split at h; · cases h
  split at h; · cases h
  next hv =>
  simp only [Option.map_eq_some_iff] at h
  obtain ⟨s1, hb, rfl⟩ := h
  have eff := runBank_effect _ s s1 hb
  refine ⟨⟨v0.id, v0.owner, v0.product, v0.amountIn, v0.amountOut + amt, v0.interest + i, v0.closingFee⟩, ?_, hid, hesm, ?_⟩
  · simp only [eff.same.vaults, setVault, setBy, List.mem_map]
    exact ⟨v0, hm, by simp⟩
  · have := verifyCR_ratio p e _ _ hesm (by simpa using hv)
    simpa [Int.add_assoc, Int.add_comm, Int.add_left_comm] using this

theorem withdraw_accepted_ratio (s s' : State) (p : Product) (e : Env) (from_ app prod vaultId : Nat) (amt : Int)
    (hesm : e.esm = false) (h : withdraw s p e from_ app prod vaultId amt = some s') :
    ∃ v ∈ s'.vaults, v.id = vaultId ∧ RatioOk p e v.amountIn (v.amountOut + v.interest + v.closingFee) := by
  unfold withdraw at h
  split at h; · cases h
  split at h; · cases h
  next v hov =>
  obtain ⟨v0, i, hm, hid, hi, hi0, rfl, hown, hprod, hpid, happ⟩ := ownedVault_spec s p e from_ app prod vaultId v hov
  split at h; · cases h
  split at h; · cases h
  next hv =>
  simp only [Option.map_eq_some_iff] at h
  obtain ⟨s1, hb, rfl⟩ := h
  have eff := runBank_effect _ s s1 hb
  refine ⟨⟨v0.id, v0.owner, v0.product, v0.amountIn - amt, v0.amountOut, v0.interest + i, v0.closingFee⟩, ?_, hid, ?_⟩
  · simp only [eff.same.vaults, setVault, setBy, List.mem_map]
    exact ⟨v0, hm, by simp⟩
  · have := verifyCR_ratio p e _ _ hesm (by simpa using hv)
    simpa [withdrawDebt, hesm] using this

theorem depositAndDraw_accepted_ratio (s s' : State) (p : Product) (e : Env) (from_ app prod vaultId : Nat) (amt : Int)
    (h : depositAndDraw s p e from_ app prod vaultId amt = some s') :
    ∃ v ∈ s'.vaults, v.id = vaultId ∧ e.esm = false ∧
      RatioOk p { e with iota := some 0 } v.amountIn (v.amountOut + v.interest + v.closingFee) := by
  unfold depositAndDraw at h
  split at h; · cases h
  split at h; · cases h
  split at h; · cases h
  obtain ⟨v, hv, hid, hesm, hr⟩ := draw_accepted_ratio _ _ _ _ _ _ _ _ _ h
  exact ⟨v, hv, hid, hesm, hr⟩

/-- an accepted create: exact inequality between `amountIn·pIn/dIn` and `amountOut·pOut/dOut` -/
theorem create_accepted_ratio_exact (s s' : State) (p : Product) (e : Env) (from_ app prod : Nat) (amtIn amtOut : Int)
    (hdi : 0 < p.decIn) (hdo : 0 < p.decOut) (hm : (1 : Int) ≤ 2 * (p.minCr : Int))
    (h : create s p e from_ app prod amtIn amtOut = some s') :
    ∃ pin pout, e.priceIn = some pin ∧ debtPrice p e = some pout ∧ ExactRatio p pin pout amtIn amtOut :=
  ratioOk_exact p e _ _ hdi hdo hm (create_accepted_ratio s s' p e from_ app prod amtIn amtOut h).2

/-- an accepted draw: exact inequality for the vault as stored afterwards, debt = principal + interest + closing fee -/
theorem draw_accepted_ratio_exact (s s' : State) (p : Product) (e : Env) (from_ app prod vaultId : Nat) (amt : Int)
    (hdi : 0 < p.decIn) (hdo : 0 < p.decOut) (hm : (1 : Int) ≤ 2 * (p.minCr : Int))
    (h : draw s p e from_ app prod vaultId amt = some s') :
    ∃ v ∈ s'.vaults, v.id = vaultId ∧ ∃ pin pout, e.priceIn = some pin ∧ debtPrice p e = some pout ∧
      ExactRatio p pin pout v.amountIn (v.amountOut + v.interest + v.closingFee) := by
  obtain ⟨v, hv, hid, _, hr⟩ := draw_accepted_ratio s s' p e from_ app prod vaultId amt h
  exact ⟨v, hv, hid, ratioOk_exact p e _ _ hdi hdo hm hr⟩

theorem withdraw_accepted_ratio_exact (s s' : State) (p : Product) (e : Env) (from_ app prod vaultId : Nat) (amt : Int)
    (hdi : 0 < p.decIn) (hdo : 0 < p.decOut) (hm : (1 : Int) ≤ 2 * (p.minCr : Int))
    (hesm : e.esm = false) (h : withdraw s p e from_ app prod vaultId amt = some s') :
    ∃ v ∈ s'.vaults, v.id = vaultId ∧ ∃ pin pout, e.priceIn = some pin ∧ debtPrice p e = some pout ∧
      ExactRatio p pin pout v.amountIn (v.amountOut + v.interest + v.closingFee) := by
  obtain ⟨v, hv, hid, hr⟩ := withdraw_accepted_ratio s s' p e from_ app prod vaultId amt hesm h
  exact ⟨v, hv, hid, ratioOk_exact p e _ _ hdi hdo hm hr⟩

/-- **Debt floor**: after every history every open vault's principal is at least its product's debt floor. -/
theorem floor_kept (cfg : Nat → Option Product) (hc : CfgOk cfg) (h : History) (hu : UsersOk h) (hne : EsmRegular h) :
    ∀ v ∈ (runAll cfg State.init h).vaults, ∀ p, cfg v.product = some p → p.debtFloor ≤ v.amountOut := by
  obtain ⟨G', h', _, _⟩ := invG_always cfg hc h hu hne Gaps.zero State.init ((invG_zero cfg _).mpr (init_inv cfg hc)) goodGaps_zero
  exact h'.2.2.2.2.2.1

/-- **Debt ceiling**: after every history the published principal of a product is at most its debt ceiling — the
quantity every mint is checked against; in histories without auction settlement it equals the principal recorded on
open, stable-mint and awaiting-auction vaults (`totals_eq`), so that sum is bounded too. (After a settlement the
published total is below the recorded sum by the settled vaults' interest and closing fees — finding D13 — so later
mints can push the recorded sum above the ceiling by that amount: not excluded by this theorem.) -/
theorem ceiling_kept (cfg : Nat → Option Product) (hc : CfgOk cfg) (h : History) (hu : UsersOk h) (hne : EsmRegular h) (prod : Nat)
    (p : Product) (hp : cfg prod = some p) :
    (runAll cfg State.init h).minted prod ≤ p.debtCeiling ∧
    (NoSettle h → mintedOfProduct (runAll cfg State.init h) prod ≤ p.debtCeiling) := by
  obtain ⟨G', h', _, e⟩ := invG_always cfg hc h hu hne Gaps.zero State.init ((invG_zero cfg _).mpr (init_inv cfg hc)) goodGaps_zero
  refine ⟨h'.2.2.2.2.2.2 prod p hp, fun hn => ?_⟩
  rw [e hn] at h'
  have := h'.2.2.2.2.2.2 prod p hp
  have h2 := (h'.2.2.2.1 prod).2
  simp only [Gaps.zero] at h2
  omega

/-! ### The limits when the configuration CHANGES in the middle of a history

`floor_kept` / `ceiling_kept` are invariants of a FIXED configuration. A reconfiguration (`WasmUpdatePairsVault`) can lower
the ceiling below the outstanding principal or raise the floor above an open vault's principal — the update path checks
nothing — and then the clauses are false of the state without any message having been accepted. What the code guarantees,
and what is proved here for every state satisfying the ledger invariant (whatever the limits were before): **no accepted
message makes an excess worse**. -/

/-- **Ceiling, excess form**: after an accepted message the product's published minted total is at most its debt ceiling, or
at most what it was before — a total above a lowered ceiling can only come down. -/
theorem ceiling_excess_never_increases (cfg : Nat → Option Product) (hc : CfgOk cfg) (G : Gaps) (s : State) (e : Env) (m : Msg)
    (hm : m.userOk) (hne : m.esmRegular) (hinv : InvL cfg G s) (hg : GoodGaps G) (k : Nat) (p : Product) (hp : cfg k = some p) :
    (apply cfg s e m).minted k ≤ p.debtCeiling ∨ (apply cfg s e m).minted k ≤ s.minted k := by
  obtain ⟨_, _, h2, _, _⟩ := apply_invL cfg hc (fun _ => 0) (ceilBound cfg s) (fun _ _ _ => Int.le_refl 0)
    (fun k p hp => (hc k p hp).2.2.2.2.1)
    (fun k p hp => by unfold ceilBound; simp only [hp]; split <;> omega) G s e m hm hne hinv (limitsBC_any cfg G s hinv) hg
  have := h2.2 k (by simp [hp])
  unfold ceilBound at this
  simp only [hp] at this
  split at this
  · exact Or.inl this
  · exact Or.inr this

/-- **Floor, deficit form**: for every bound `b` up to the product's debt floor, "every open vault of the product owes at
least `b`" is kept by every accepted message — a principal below a raised floor can only go up (or the vault goes away),
and no vault newly falls below the floor. -/
theorem floor_deficit_never_increases (cfg : Nat → Option Product) (hc : CfgOk cfg) (G : Gaps) (s : State) (e : Env) (m : Msg)
    (hm : m.userOk) (hne : m.esmRegular) (hinv : InvL cfg G s) (hg : GoodGaps G) (k : Nat) (p : Product) (hp : cfg k = some p)
    (b : Int) (hb0 : 0 ≤ b) (hb : b ≤ p.debtFloor) (hall : ∀ v ∈ s.vaults, v.product = k → b ≤ v.amountOut) :
    ∀ v ∈ (apply cfg s e m).vaults, v.product = k → b ≤ v.amountOut := by
  have hl : LimitsBC cfg (fun k' => if k' = k then b else 0) (ceilBound cfg s) s := by
    refine ⟨fun v hv _ => ?_, (limitsBC_any cfg G s hinv).2⟩
    by_cases hk : v.product = k
    · simp only [hk, if_true]; exact hall v hv hk
    · simp only [hk, if_false]; exact (hinv.1.2.1 v hv).2.2.2.1
  obtain ⟨_, h1, h2, _, _⟩ := apply_invL cfg hc (fun k' => if k' = k then b else 0) (ceilBound cfg s)
    (fun k' _ _ => by by_cases hk : k' = k <;> simp [hk, hb0])
    (fun k' p' hp' => by
      by_cases hk : k' = k
      · subst hk; rw [hp] at hp'; cases hp'; simp [hb]
      · simp only [hk, if_false]; exact (hc k' p' hp').2.2.2.2.1)
    (fun k p hp => by unfold ceilBound; simp only [hp]; split <;> omega) G s e m hm hne hinv hl hg
  intro v hv hk
  have := h2.1 v hv ((h1.1.2.1 v hv).2.1)
  simpa [hk] using this

/-- **Limits that hold after a reconfiguration keep holding**: if the new configuration's floor and ceiling are satisfied by
the state at the moment of the change (e.g. the ceiling was raised, the floor lowered, or the excess has been worked off),
they are satisfied after every later history under that configuration. -/
theorem limits_kept_from (cfg : Nat → Option Product) (hc : CfgOk cfg) (h : History) (hu : UsersOk h) (hne : EsmRegular h)
    (G : Gaps) (s : State) (hinv : InvL cfg G s) (hl : Limits cfg s) (hg : GoodGaps G) : Limits cfg (runAll cfg s h) := by
  obtain ⟨_, h', _, _⟩ := invG_always cfg hc h hu hne G s (hinv.withLimits hl) hg
  exact h'.2.2.2.2.2

theorem calcCR_none_of_inactive (p : Product) (e : Env) (a b : Int)
    (h : e.priceIn = none ∨ (p.outOracle = true ∧ e.priceOut = none)) : calcCR p e a b = none := by
  unfold calcCR
  rcases h with h | ⟨ho, h⟩
  · simp [h]
  · cases hpi : e.priceIn with
    | none => simp
    | some pin => simp [ho, h]

/-- **Fail closed on an inactive price**: create, draw, withdraw and deposit-and-draw are rejected (and a rejected
message changes nothing, `C01.rejected_no_change`) when the collateral price — or the debt price where the product
uses one — is missing or inactive. -/
theorem inactive_price_rejects (s : State) (p : Product) (e : Env) (from_ app prod vaultId : Nat) (a b : Int)
    (h : e.priceIn = none ∨ (p.outOracle = true ∧ e.priceOut = none)) :
    create s p e from_ app prod a b = none ∧ draw s p e from_ app prod vaultId a = none ∧
    withdraw s p e from_ app prod vaultId a = none ∧ depositAndDraw s p e from_ app prod vaultId a = none := by
  have hv : ∀ x y, verifyCR p e x y = false := by
    intro x y; unfold verifyCR; rw [calcCR_none_of_inactive p e x y h]
  have hv0 : ∀ x y, verifyCR p { e with iota := some 0 } x y = false := by
    intro x y; unfold verifyCR; rw [calcCR_none_of_inactive p _ x y (by simpa using h)]
  refine ⟨?_, ?_, ?_, ?_⟩
  · unfold create; simp [hv]
  · unfold draw; split <;> try rfl
    split <;> try rfl
    simp [hv]
  · unfold withdraw; split <;> try rfl
    split <;> try rfl
    simp [hv]
  · unfold depositAndDraw
    split <;> try rfl
    split <;> try rfl
    split <;> try rfl
    unfold draw; split <;> try rfl
    split <;> try rfl
    simp [hv0]

/-! ### Non-vacuity -/
example : ∃ s', create (runAll demoCfg State.init [(demoEnv, .fund 10 1 5000000)]) demoProduct demoEnv 10 1 1 3000000 2000000 = some s' :=
  ⟨_, rfl⟩
example : calcCR demoProduct demoEnv 3000000 2000000 = some 15000000000000000000 := by decide
-- exactly at the boundary: 300000·10 / 2000000·1 = 1.5 = minCr is accepted, one unit less collateral is rejected
example : verifyCR demoProduct demoEnv 300000 2000000 = true ∧ verifyCR demoProduct demoEnv 299999 2000000 = false := by decide

/-- the half-unit slack of `ratioOk_exact_scales` is real: with unit scales and unit prices, collateral `3·10^18 − 1`
against debt `2·10^18` has exact ratio `1.5 − 5·10⁻¹⁹ < minCr = 1.5`, and the chain accepts it (the quotient lands
exactly on a half and half-even rounding goes up to `1.500000000000000000`); one unit less is rejected. -/
def unitProduct : Product := { demoProduct with decIn := 1, decOut := 1 }
def unitEnv : Env := { priceIn := some 1, priceOut := some 1 }
theorem ratioOk_exact_tight :
    verifyCR unitProduct unitEnv (3 * 10^18 - 1) (2 * 10^18) = true ∧
    2 * ((3 * 10^18 - 1 : Int) * 1 * 1) < 3 * ((2 * 10^18 : Int) * 1 * 1) ∧
    verifyCR unitProduct unitEnv (3 * 10^18 - 2) (2 * 10^18) = false := by decide

/-! non-vacuity of the deficit / excess theorems: the state of `C01.demoEvents` right after the ceiling was lowered to
1 500 000 (< 2 000 000 outstanding) and the floor raised to 2 500 000 (> the vault's 2 000 000) -/
def tightState : State := (runC (demoCfg, State.init) (demoEvents.take 3)).2
example : tightState.minted 1 = 2000000 ∧ demoTight.debtCeiling = 1500000 ∧ demoTight.debtFloor = 2500000 ∧
    step demoCfgTight tightState demoEnv (.draw 10 1 1 1 1) = none ∧
    step demoCfgTight tightState demoEnv (.repay 10 1 1 1 600000) = none ∧
    (step demoCfgTight tightState demoEnv (.deposit 10 1 1 1 1000)).isSome ∧
    (step demoCfgTight tightState demoEnv (.close 10 1 1 1)).isNone := by decide
example : ∀ v ∈ tightState.vaults, v.product = 1 → (2000000 : Int) ≤ v.amountOut := by decide

end Comdex.C03
