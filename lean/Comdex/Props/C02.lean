import Comdex.Props.C01
import Comdex.Lemmas.VaultAcct
/-!
# C02 — No unbacked stablecoin: minted supply is covered by recorded vault principal

Property clause → theorem (quantified over every history of vault / stable-mint messages, every admissible fee
configuration — zero and non-zero draw-down, stability and closing fees — and every pair of asset decimal scales):

* "circulating supply … never exceeds the principal recorded on open vaults, stable-mint vaults, vaults awaiting
   auction …, and in histories without liquidations it is exactly equal"                → `C02.supply_le_principal`
   (inequality for EVERY history incl. seizures and auction settlements) and `C02.supply_eq_principal` (equality for
   histories without auction settlement). Emergency redemption (x/esm) is outside this model — partial.
* "every successful mint delivers to the user exactly the recorded new principal less the configured draw-down fee
   (which goes to the fee collector)"                                                   → `C02.mint_delivers_create`,
                                                              `C02.mint_delivers_draw`, `C02.mint_delivers_stable`
* "every repayment or close burns exactly the principal it retires, and interest and closing fees are paid out of
   existing supply, never minted"                                                       → `C02.supply_moves_with_principal`
* cross-decimal conversion of the stable-mint path is total and non-negative            → `Vault.otherToken_nonneg`
-/
namespace Comdex.C02
open Comdex Comdex.Vault Comdex.C01

/-- **Supply = principal** (histories without auction settlement, liquidation seizures included): the supply of every
denom equals the principal recorded on open vaults, stable-mint vaults and vaults awaiting auction, plus whatever was
minted outside the vault module (`extSupply`, zero for an asset that is minted only through vaults). -/
theorem supply_eq_principal (cfg : Nat → Option Product) (hc : CfgOk cfg) (h : History) (hu : UsersOk h) (hne : EsmRegular h) (hn : NoSettle h)
    (d : Nat) :
    let s := runAll cfg State.init h
    s.supply d = principalRecorded cfg s d + s.extSupply d :=
  (inv_always cfg hc h hu hne hn).2.2.2.2.1 d

/-- **Supply ≤ principal** after EVERY history — vault messages, liquidation seizures AND auction settlements (which
burn principal + interest + closing fee of the seized vault): the circulating supply never exceeds the recorded
principal of open, stable-mint and awaiting-auction vaults (plus outside funding). -/
theorem supply_le_principal (cfg : Nat → Option Product) (hc : CfgOk cfg) (h : History) (hu : UsersOk h) (hne : EsmRegular h) (d : Nat) :
    let s := runAll cfg State.init h
    s.supply d ≤ principalRecorded cfg s d + s.extSupply d := by
  obtain ⟨G', h', g, _⟩ := invG_always cfg hc h hu hne Gaps.zero State.init ((invG_zero cfg _).mpr (init_inv cfg hc)) goodGaps_zero
  have := h'.2.2.2.2.1 d
  have := g.2.2.2.2 d
  simp only [SupplyAtG] at *
  omega

/-- **Burn exactly what is retired / never mint interest**: across any accepted vault message the supply of a denom
moves by exactly the change of recorded principal (plus outside funding). Interest and closing-fee transfers do not
touch recorded principal, hence do not touch supply. -/
theorem supply_moves_with_principal (cfg : Nat → Option Product) (hc : CfgOk cfg) (s s' : State) (e : Env) (m : Msg)
    (hm : m.userOk) (hns : m.notSettle) (hne : m.esmRegular) (hinv : Inv cfg s) (h : step cfg s e m = some s') (d : Nat) :
    s'.supply d - s.supply d =
      (principalRecorded cfg s' d - principalRecorded cfg s d) + (s'.extSupply d - s.extSupply d) := by
  have h1 := hinv.2.2.2.2.1 d
  have h2 := ((invG_zero cfg s').mp (step_inv cfg Gaps.zero hc s s' e m hm hns hne ((invG_zero cfg s).mpr hinv) h)).2.2.2.2.1 d
  unfold SupplyAt at h1 h2
  omega

/-- **Mint delivers (create)**: an accepted `create` credits the user's debt balance with `amtOut − ⌊amtOut·fee⌋`
(less the collateral taken, when collateral and debt are the same denom) and the collector with `⌊amtOut·fee⌋`. -/
theorem mint_delivers_create (s s' : State) (p : Product) (e : Env) (from_ app prod : Nat) (amtIn amtOut : Int)
    (hpo : ProductOk p) (hu : from_ ≠ vm) (huc : from_ ≠ cm)
    (h : create s p e from_ app prod amtIn amtOut = some s') :
    s'.bal from_ p.denomOut = s.bal from_ p.denomOut + (amtOut - feeOf amtOut p.drawDownFee)
        - (if p.denomOut = p.denomIn then amtIn else 0) ∧
    s'.bal cm p.denomOut = s.bal cm p.denomOut + feeOf amtOut p.drawDownFee := by
  unfold create at h
  split at h; · cases h
  split at h; · cases h
  next hg =>
  simp only [not_or, Int.not_le] at hg
  split at h; · cases h
  split at h; · cases h
  split at h; · cases h
  split at h; · cases h
  split at h; · cases h
  simp only [Option.map_eq_some_iff] at h
  obtain ⟨s1, hb, rfl⟩ := h
  have hd := mintAndSplit_delivers p from_ amtOut hu huc hpo hg.2
  have hcu : ¬ cm = from_ := fun h => huc h.symm
  have hvc : ¬ vm = cm := by decide
  constructor
  · show s1.bal from_ p.denomOut = _
    rw [runBank_acct _ s s1 hb from_ p.denomOut]
    have : netAcct from_ (BankOp.sendPos from_ vm p.denomIn amtIn :: mintAndSplit p from_ amtOut) p.denomOut
        = BankOp.dAcct from_ (.sendPos from_ vm p.denomIn amtIn) p.denomOut + netAcct from_ (mintAndSplit p from_ amtOut) p.denomOut := by
      simp [netAcct]
    rw [this, hd.1]
    simp only [BankOp.dAcct, hg.1, hu, true_and]
    have hvu : ¬ vm = from_ := fun h => hu h.symm
    by_cases hdd : p.denomOut = p.denomIn <;> simp [hdd, hvu] <;> omega
  · show s1.bal cm p.denomOut = _
    rw [runBank_acct _ s s1 hb cm p.denomOut]
    have : netAcct cm (BankOp.sendPos from_ vm p.denomIn amtIn :: mintAndSplit p from_ amtOut) p.denomOut
        = BankOp.dAcct cm (.sendPos from_ vm p.denomIn amtIn) p.denomOut + netAcct cm (mintAndSplit p from_ amtOut) p.denomOut := by
      simp [netAcct]
    rw [this, hd.2]
    simp [BankOp.dAcct, hvc, huc]

/-- **Mint delivers (draw)** -/
theorem mint_delivers_draw (s s' : State) (p : Product) (e : Env) (from_ app prod vaultId : Nat) (amt : Int)
    (hpo : ProductOk p) (hu : from_ ≠ vm) (huc : from_ ≠ cm)
    (h : draw s p e from_ app prod vaultId amt = some s') :
    s'.bal from_ p.denomOut = s.bal from_ p.denomOut + (amt - feeOf amt p.drawDownFee) ∧
    s'.bal cm p.denomOut = s.bal cm p.denomOut + feeOf amt p.drawDownFee := by
  unfold draw at h
  split at h; · cases h
  next hg =>
  simp only [not_or, Int.not_le] at hg
  split at h; · cases h
  split at h; · cases h
  split at h; · cases h
  simp only [Option.map_eq_some_iff] at h
  obtain ⟨s1, hb, rfl⟩ := h
  have hd := mintAndSplit_delivers p from_ amt hu huc hpo hg.2.2.2
  exact ⟨by show s1.bal from_ p.denomOut = _; rw [runBank_acct _ s s1 hb, hd.1],
         by show s1.bal cm p.denomOut = _; rw [runBank_acct _ s s1 hb, hd.2]⟩

/-- **Mint delivers (stable mint create; deposit is identical)**: the user receives the *converted* amount
`otherToken amt` less the fee — not the deposited amount (the defect repaired by the `fix:` commit on
MsgCreateStableMint). -/
theorem mint_delivers_stable (s s' : State) (p : Product) (e : Env) (from_ app prod : Nat) (amt : Int)
    (hpo : ProductOk p) (hu : from_ ≠ vm) (huc : from_ ≠ cm) (hdd : p.denomOut ≠ p.denomIn)
    (h : stableCreate s p e from_ app prod amt = some s') :
    let out := otherToken amt p.decIn p.decOut
    s'.bal from_ p.denomOut = s.bal from_ p.denomOut + (out - feeOf out p.drawDownFee) ∧
    s'.bal cm p.denomOut = s.bal cm p.denomOut + feeOf out p.drawDownFee := by
  unfold stableCreate at h
  split at h; · cases h
  split at h; · cases h
  split at h; · cases h
  split at h; · cases h
  simp only [Option.map_eq_some_iff] at h
  obtain ⟨s1, hb, rfl⟩ := h
  obtain ⟨s0, _, hb2⟩ := runBank_cons _ _ _ _ hb
  have hout := mintAndSplit_pos _ _ _ _ _ hb2
  have hd := mintAndSplit_delivers p from_ _ hu huc hpo hout
  have hvc : ¬ vm = cm := by decide
  constructor
  · show s1.bal from_ p.denomOut = _
    rw [runBank_acct _ s s1 hb from_ p.denomOut]
    have : netAcct from_ (BankOp.send from_ vm p.denomIn amt :: mintAndSplit p from_ (otherToken amt p.decIn p.decOut)) p.denomOut
        = BankOp.dAcct from_ (.send from_ vm p.denomIn amt) p.denomOut +
          netAcct from_ (mintAndSplit p from_ (otherToken amt p.decIn p.decOut)) p.denomOut := by
      simp [netAcct]
    rw [this, hd.1]; simp [BankOp.dAcct, hdd]
  · show s1.bal cm p.denomOut = _
    rw [runBank_acct _ s s1 hb cm p.denomOut]
    have : netAcct cm (BankOp.send from_ vm p.denomIn amt :: mintAndSplit p from_ (otherToken amt p.decIn p.decOut)) p.denomOut
        = BankOp.dAcct cm (.send from_ vm p.denomIn amt) p.denomOut +
          netAcct cm (mintAndSplit p from_ (otherToken amt p.decIn p.decOut)) p.denomOut := by
      simp [netAcct]
    rw [this, hd.2]; simp [BankOp.dAcct, hdd]

/-! ### Non-vacuity -/
example : (runAll demoCfg State.init demoHistory).supply 3 = 2000000 ∧
    principalRecorded demoCfg (runAll demoCfg State.init demoHistory) 3 = 2000000 := by decide
example : ∃ s', create (runAll demoCfg State.init [(demoEnv, .fund 10 1 5000000)]) demoProduct demoEnv 10 1 1 3000000 2000000 = some s' ∧
    s'.bal 10 3 = 1980000 ∧ s'.bal cm 3 = 20000 := ⟨_, rfl, by decide, by decide⟩

/-! ### emergency redemption (x/esm): "debt registered for emergency redemption"

In the supply equation the register is part of `extSupply` (supply not backed by a vault record); the two theorems below
tie it to the explicit register `redeem`: redemption of a vault moves exactly its principal from the vault record to the
register without touching the supply, and a holder's redemption burns exactly what it takes off the register and never
more than is registered. -/

theorem esmVault_registers_principal (s s' : State) (p : Product) (e : Env) (vaultId : Nat)
    (h : esmVault s p e vaultId = some s') :
    ∃ v ∈ s.vaults, v.id = vaultId ∧ e.esm = true ∧ e.pastCoolOff = true ∧
      s'.supply = s.supply ∧
      s'.redeem p.app p.denomOut = s.redeem p.app p.denomOut + v.amountOut ∧
      s'.extSupply p.denomOut = s.extSupply p.denomOut + v.amountOut := by
  unfold esmVault at h
  cases hf : findVault s vaultId with
  | none => simp [hf] at h
  | some v0 =>
    simp only [hf] at h
    split at h; · cases h
    next hg =>
    simp only [not_or, Decidable.not_not] at hg
    unfold findVault at hf
    obtain ⟨hm, hid⟩ := find_mem (·.id) s.vaults vaultId v0 hf
    simp only [Option.map_eq_some_iff] at h
    obtain ⟨s1, hb, rfl⟩ := h
    have eff := runBank_effect _ s s1 hb
    refine ⟨v0, hm, hid, hg.2.1, hg.2.2, ?_, ?_, ?_⟩
    · funext d; simp [eff.supply, netSup, BankOp.dSup]
    · simp [eff.same.redeem, upd2]
    · simp [eff.same.extSupply, upd1]

theorem esmBurn_burns_registered (s s' : State) (from_ app d : Nat) (x : Int) (h : esmBurn s from_ app d x = some s') :
    0 < x ∧ x ≤ s.redeem app d ∧ s'.supply d = s.supply d - x ∧ s'.redeem app d = s.redeem app d - x ∧
      s'.bal from_ d = s.bal from_ d - x ∧ s'.vaults = s.vaults ∧ s'.stables = s.stables ∧ s'.locked = s.locked := by
  unfold esmBurn at h
  split at h; · cases h
  next hg =>
  simp only [not_or, Int.not_le, Int.not_lt] at hg
  cases h
  refine ⟨hg.1, by omega, by simp [upd1], by simp [upd2], by simp [upd2], rfl, rfl, rfl⟩

end Comdex.C02
