import Comdex.Props.C01
import Comdex.Lemmas.VaultAcct
import Comdex.Lemmas.VaultSupply
/-!
# C02 — No unbacked stablecoin: minted supply is covered by recorded vault principal

Property clause → theorem (quantified over every history of vault / stable-mint messages, every admissible fee
configuration — zero and non-zero draw-down, stability and closing fees — and every pair of asset decimal scales):

* "circulating supply … never exceeds the principal recorded on open vaults, stable-mint vaults, vaults awaiting
   auction …, and in histories without liquidations it is exactly equal"                → `C02.supply_le_principal`
   (inequality for EVERY history incl. seizures and auction settlements) and `C02.supply_eq_principal` (equality for
   histories without second-generation auction settlement). Emergency redemption (x/esm): `esmVault_registers_principal`,
   `esmBurn_burns_registered`.
* "every successful mint delivers to the user exactly the recorded new principal less the configured draw-down fee
   (which goes to the fee collector)"                                                   → `C02.mint_delivers_create`,
                                                              `C02.mint_delivers_draw`, `C02.mint_delivers_stable`
* "every repayment or close burns exactly the principal it retires, and interest and closing fees are paid out of
   existing supply, never minted"                                                       → `C02.supply_moves_with_principal`
* cross-decimal conversion of the stable-mint path is total and non-negative            → `Vault.otherToken_nonneg`

Per message (every one of the 22 modelled step kinds; `supplyDelta` is read off the message and the pre-state):
* exact supply effect of every accepted step                                            → `C02.supply_moves_exactly`
* "every successful mint delivers exactly the new principal less the draw-down fee" for EVERY minting message
      → `mint_delivers_create`, `mint_delivers_draw`, `mint_delivers_depositAndDraw`, `mint_delivers_stable` (create),
        `mint_delivers_stableDeposit`
* "every repayment or close burns exactly the principal it retires"
      → `C02.burn_exact_repay`, `C02.burn_exact_close`, `C02.burn_exact_stableWithdraw`
* "interest and closing fees are paid out of existing supply, never minted"
      → `C02.interest_not_minted` (deposit, withdraw, interest booking, donation, seizure, redemption of a vault: Δsupply = 0),
        `C02.burn_exact_repay` (interest-only repayment: Δsupply = 0), `C02.burn_exact_close` (interest + closing fee move, only the
        principal is burnt)
* no mint on the liquidation / auction / emergency paths of either generation           → `C02.liquidation_paths_never_mint`
* the supply clauses with the product configuration changing between messages           → `C02.supply_le_principal_reconfig`
-/
namespace Comdex.C02
open Comdex Comdex.Vault Comdex.C01

/-- **Supply = principal** (histories without auction settlement, liquidation seizures included): the supply of every
denom equals the principal recorded on open vaults, stable-mint vaults and vaults awaiting auction, plus whatever was
minted outside the vault module (`extSupply`, zero for an asset that is minted only through vaults). -/
theorem supply_eq_principal (cfg : Nat → Option Product) (hc : CfgOk cfg) (h : History) (hu : UsersOk h) (hne : EsmRegular h) (hn : NoSettle h)
    (d : Nat) :
    let s := runAll cfg State.init h
    s.supply d = principalRecorded cfg s d + s.extSupply d :=
  (inv_always cfg hc h hu hne hn).2.2.2.2.1 d

/-- **Supply ≤ principal** after EVERY history — vault messages, liquidation seizures AND auction settlements (which
burn principal + interest + closing fee of the seized vault): the circulating supply never exceeds the recorded
principal of open, stable-mint and awaiting-auction vaults (plus outside funding). -/
theorem supply_le_principal (cfg : Nat → Option Product) (hc : CfgOk cfg) (h : History) (hu : UsersOk h) (hne : EsmRegular h) (d : Nat) :
    let s := runAll cfg State.init h
    s.supply d ≤ principalRecorded cfg s d + s.extSupply d := by
  obtain ⟨G', h', g, _⟩ := invG_always cfg hc h hu hne Gaps.zero State.init ((invG_zero cfg _).mpr (init_inv cfg hc)) goodGaps_zero
  have := h'.2.2.2.2.1 d
  have := g.2.2.2.2 d
  simp only [SupplyAtG] at *
  omega

/-- **Burn exactly what is retired / never mint interest**: across any accepted vault message the supply of a denom
moves by exactly the change of recorded principal (plus outside funding). Interest and closing-fee transfers do not
touch recorded principal, hence do not touch supply. -/
theorem supply_moves_with_principal (cfg : Nat → Option Product) (hc : CfgOk cfg) (s s' : State) (e : Env) (m : Msg)
    (hm : m.userOk) (hns : m.notSettle) (hne : m.esmRegular) (hinv : Inv cfg s) (h : step cfg s e m = some s') (d : Nat) :
    s'.supply d - s.supply d =
      (principalRecorded cfg s' d - principalRecorded cfg s d) + (s'.extSupply d - s.extSupply d) := by
  have h1 := hinv.2.2.2.2.1 d
  have h2 := ((invG_zero cfg s').mp (step_inv cfg Gaps.zero hc s s' e m hm hns hne ((invG_zero cfg s).mpr hinv) h)).2.2.2.2.1 d
  unfold SupplyAt at h1 h2
  omega

/-- **Mint delivers (create)**: an accepted `create` credits the user's debt balance with `amtOut − ⌊amtOut·fee⌋`
(less the collateral taken, when collateral and debt are the same denom) and the collector with `⌊amtOut·fee⌋`. -/
theorem mint_delivers_create (s s' : State) (p : Product) (e : Env) (from_ app prod : Nat) (amtIn amtOut : Int)
    (hpo : ProductOk p) (hu : from_ ≠ vm) (huc : from_ ≠ cm)
    (h : create s p e from_ app prod amtIn amtOut = some s') :
    s'.bal from_ p.denomOut = s.bal from_ p.denomOut + (amtOut - feeOf amtOut p.drawDownFee)
        - (if p.denomOut = p.denomIn then amtIn else 0) ∧
    s'.bal cm p.denomOut = s.bal cm p.denomOut + feeOf amtOut p.drawDownFee := by
  unfold create at h
  split at h; · cases h
  split at h; · cases h
  next hg =>
  simp only [not_or, Int.not_le] at hg
  split at h; · cases h
  split at h; · cases h
  split at h; · cases h
  split at h; · cases h
  split at h; · cases h
  simp only [Option.map_eq_some_iff] at h
  obtain ⟨s1, hb, rfl⟩ := h
  have hd := mintAndSplit_delivers p from_ amtOut hu huc hpo hg.2
  have hcu : ¬ cm = from_ := fun h => huc h.symm
  have hvc : ¬ vm = cm := by decide
  constructor
  · show s1.bal from_ p.denomOut = _
    rw [runBank_acct _ s s1 hb from_ p.denomOut]
    have : netAcct from_ (BankOp.sendPos from_ vm p.denomIn amtIn :: mintAndSplit p from_ amtOut) p.denomOut
        = BankOp.dAcct from_ (.sendPos from_ vm p.denomIn amtIn) p.denomOut + netAcct from_ (mintAndSplit p from_ amtOut) p.denomOut := by
      simp [netAcct]
    rw [this, hd.1]
    simp only [BankOp.dAcct, hg.1, hu, true_and]
    have hvu : ¬ vm = from_ := fun h => hu h.symm
    by_cases hdd : p.denomOut = p.denomIn <;> simp [hdd, hvu] <;> omega
  · show s1.bal cm p.denomOut = _
    rw [runBank_acct _ s s1 hb cm p.denomOut]
    have : netAcct cm (BankOp.sendPos from_ vm p.denomIn amtIn :: mintAndSplit p from_ amtOut) p.denomOut
        = BankOp.dAcct cm (.sendPos from_ vm p.denomIn amtIn) p.denomOut + netAcct cm (mintAndSplit p from_ amtOut) p.denomOut := by
      simp [netAcct]
    rw [this, hd.2]
    simp [BankOp.dAcct, hvc, huc]

/-- **Mint delivers (draw)** -/
theorem mint_delivers_draw (s s' : State) (p : Product) (e : Env) (from_ app prod vaultId : Nat) (amt : Int)
    (hpo : ProductOk p) (hu : from_ ≠ vm) (huc : from_ ≠ cm)
    (h : draw s p e from_ app prod vaultId amt = some s') :
    s'.bal from_ p.denomOut = s.bal from_ p.denomOut + (amt - feeOf amt p.drawDownFee) ∧
    s'.bal cm p.denomOut = s.bal cm p.denomOut + feeOf amt p.drawDownFee := by
  unfold draw at h
  split at h; · cases h
  next hg =>
  simp only [not_or, Int.not_le] at hg
  split at h; · cases h
  split at h; · cases h
  split at h; · cases h
  simp only [Option.map_eq_some_iff] at h
  obtain ⟨s1, hb, rfl⟩ := h
  have hd := mintAndSplit_delivers p from_ amt hu huc hpo hg.2.2.2
  exact ⟨by show s1.bal from_ p.denomOut = _; rw [runBank_acct _ s s1 hb, hd.1],
         by show s1.bal cm p.denomOut = _; rw [runBank_acct _ s s1 hb, hd.2]⟩

/-- **Mint delivers (stable mint create; deposit is identical)**: the user receives the *converted* amount
`otherToken amt` less the fee — not the deposited amount (the defect repaired by the `fix:` commit on
MsgCreateStableMint). -/
theorem mint_delivers_stable (s s' : State) (p : Product) (e : Env) (from_ app prod : Nat) (amt : Int)
    (hpo : ProductOk p) (hu : from_ ≠ vm) (huc : from_ ≠ cm) (hdd : p.denomOut ≠ p.denomIn)
    (h : stableCreate s p e from_ app prod amt = some s') :
    let out := otherToken amt p.decIn p.decOut
    s'.bal from_ p.denomOut = s.bal from_ p.denomOut + (out - feeOf out p.drawDownFee) ∧
    s'.bal cm p.denomOut = s.bal cm p.denomOut + feeOf out p.drawDownFee := by
  unfold stableCreate at h
  split at h; · cases h
  split at h; · cases h
  split at h; · cases h
  split at h; · cases h
  simp only [Option.map_eq_some_iff] at h
  obtain ⟨s1, hb, rfl⟩ := h
  obtain ⟨s0, _, hb2⟩ := runBank_cons _ _ _ _ hb
  have hout := mintAndSplit_pos _ _ _ _ _ hb2
  have hd := mintAndSplit_delivers p from_ _ hu huc hpo hout
  have hvc : ¬ vm = cm := by decide
  constructor
  · show s1.bal from_ p.denomOut = _
    rw [runBank_acct _ s s1 hb from_ p.denomOut]
    have : netAcct from_ (BankOp.send from_ vm p.denomIn amt :: mintAndSplit p from_ (otherToken amt p.decIn p.decOut)) p.denomOut
        = BankOp.dAcct from_ (.send from_ vm p.denomIn amt) p.denomOut +
          netAcct from_ (mintAndSplit p from_ (otherToken amt p.decIn p.decOut)) p.denomOut := by
      simp [netAcct]
    rw [this, hd.1]; simp [BankOp.dAcct, hdd]
  · show s1.bal cm p.denomOut = _
    rw [runBank_acct _ s s1 hb cm p.denomOut]
    have : netAcct cm (BankOp.send from_ vm p.denomIn amt :: mintAndSplit p from_ (otherToken amt p.decIn p.decOut)) p.denomOut
        = BankOp.dAcct cm (.send from_ vm p.denomIn amt) p.denomOut +
          netAcct cm (mintAndSplit p from_ (otherToken amt p.decIn p.decOut)) p.denomOut := by
      simp [netAcct]
    rw [this, hd.2]; simp [BankOp.dAcct, hdd]

/-! ### Non-vacuity -/
example : (runAll demoCfg State.init demoHistory).supply 3 = 2000000 ∧
    principalRecorded demoCfg (runAll demoCfg State.init demoHistory) 3 = 2000000 := by decide
example : ∃ s', create (runAll demoCfg State.init [(demoEnv, .fund 10 1 5000000)]) demoProduct demoEnv 10 1 1 3000000 2000000 = some s' ∧
    s'.bal 10 3 = 1980000 ∧ s'.bal cm 3 = 20000 := ⟨_, rfl, by decide, by decide⟩

/-! ### emergency redemption (x/esm): "debt registered for emergency redemption"

In the supply equation the register is part of `extSupply` (supply not backed by a vault record); the two theorems below
tie it to the explicit register `redeem`: redemption of a vault moves exactly its principal from the vault record to the
register without touching the supply, and a holder's redemption burns exactly what it takes off the register and never
more than is registered. -/

theorem esmVault_registers_principal (s s' : State) (p : Product) (e : Env) (vaultId : Nat)
    (h : esmVault s p e vaultId = some s') :
    ∃ v ∈ s.vaults, v.id = vaultId ∧ e.esm = true ∧ e.pastCoolOff = true ∧
      s'.supply = s.supply ∧
      s'.redeem p.app p.denomOut = s.redeem p.app p.denomOut + v.amountOut ∧
      s'.extSupply p.denomOut = s.extSupply p.denomOut + v.amountOut := by
  unfold esmVault at h
  cases hf : findVault s vaultId with
  | none => simp [hf] at h
  | some v0 =>
    simp only [hf] at h
    split at h; · cases h
    next hg =>
    simp only [not_or, Decidable.not_not] at hg
    unfold findVault at hf
    obtain ⟨hm, hid⟩ := find_mem (·.id) s.vaults vaultId v0 hf
    simp only [Option.map_eq_some_iff] at h
    obtain ⟨s1, hb, rfl⟩ := h
    have eff := runBank_effect _ s s1 hb
    refine ⟨v0, hm, hid, hg.2.1, hg.2.2, ?_, ?_, ?_⟩
    · funext d; simp [eff.supply, netSup, BankOp.dSup]
    · simp [eff.same.redeem, upd2]
    · simp [eff.same.extSupply, upd1]

theorem esmBurn_burns_registered (s s' : State) (from_ app d : Nat) (x : Int) (h : esmBurn s from_ app d x = some s') :
    0 < x ∧ x ≤ s.redeem app d ∧ s'.supply d = s.supply d - x ∧ s'.redeem app d = s.redeem app d - x ∧
      s'.bal from_ d = s.bal from_ d - x ∧ s'.vaults = s.vaults ∧ s'.stables = s.stables ∧ s'.locked = s.locked := by
  unfold esmBurn at h
  split at h; · cases h
  next hg =>
  simp only [not_or, Int.not_le, Int.not_lt] at hg
  cases h
  refine ⟨hg.1, by omega, by simp [upd1], by simp [upd2], by simp [upd2], rfl, rfl, rfl⟩


/-! ### every message's exact effect on the supply

`supply_moves_exactly` gives, for EVERY modelled step (the eleven vault messages incl. `MsgDepositAndDraw` and the stable-mint
deposit, seizures by either liquidation generation, both generations' auction closes, every emergency-shutdown step), the
exact change of the supply of every denom as a quantity read off the message and the pre-state (`supplyDelta`). The clauses
of the property are its instances: -/

/-- **Exact supply effect of every accepted step.** -/
theorem supply_moves_exactly (cfg : Nat → Option Product) (hc : CfgOk cfg) (s s' : State) (e : Env) (m : Msg)
    (hwf : Wf cfg s) (h : step cfg s e m = some s') (d : Nat) :
    s'.supply d = s.supply d + supplyDelta cfg s e m d :=
  supply_delta_exact cfg hc s s' e m (fun w hw => (hwf.2.1 w hw).2.2.2.1) h d

/-- the steps that involve no principal at all: collateral deposits and withdrawals, interest booking, unsolicited sends,
seizure hand-overs, emergency redemption of (stable-mint) vaults -/
def _root_.Comdex.Vault.Msg.neutral : Msg → Bool
  | .deposit .. | .withdraw .. | .interestCalc .. | .donate .. | .seize .. | .esmVault .. | .esmStable .. => true
  | _ => false

/-- **Interest and fees are never minted (1)**: a step that retires or creates no principal leaves every supply unchanged —
whatever interest it books on the vault (`iota`), whatever it moves. -/
theorem interest_not_minted (cfg : Nat → Option Product) (hc : CfgOk cfg) (s s' : State) (e : Env) (m : Msg)
    (hwf : Wf cfg s) (hn : m.neutral = true) (h : step cfg s e m = some s') : s'.supply = s.supply := by
  funext d
  rw [supply_moves_exactly cfg hc s s' e m hwf h d]
  have z : supplyDelta cfg s e m d = 0 := by
    cases m with
    | deposit f a pr v x => simp only [supplyDelta, supplyDeltaP]; (repeat' split) <;> rfl
    | withdraw f a pr v x => simp only [supplyDelta, supplyDeltaP]; (repeat' split) <;> rfl
    | interestCalc a v => simp only [supplyDelta, supplyDeltaP]; (repeat' split) <;> rfl
    | donate f d0 x => rfl
    | seize v => simp only [supplyDelta, supplyDeltaP]; (repeat' split) <;> rfl
    | esmVault v => simp only [supplyDelta, supplyDeltaP]; (repeat' split) <;> rfl
    | esmStable v => simp only [supplyDelta, supplyDeltaP]; (repeat' split) <;> rfl
    | _ => simp [Msg.neutral] at hn
  omega

/-- **Interest and fees are never minted (2)**: a repayment that does not exceed the interest owed (the interest accrued
inside the message included) is forwarded to the collector in full and burns nothing; a larger one burns exactly the part
beyond the interest — the principal it retires. -/
theorem burn_exact_repay (s s' : State) (p : Product) (e : Env) (from_ app prod vaultId : Nat) (amt : Int)
    (h : repay s p e from_ app prod vaultId amt = some s') :
    ∃ v ∈ s.vaults, ∃ i, v.id = vaultId ∧ e.iota = some i ∧
      s'.supply p.denomOut = s.supply p.denomOut - (if amt ≤ v.interest + i then 0 else amt - (v.interest + i)) ∧
      (∀ d, d ≠ p.denomOut → s'.supply d = s.supply d) := by
  have hs := repay_supply s s' p e from_ app prod vaultId amt h
  unfold repay at h
  split at h; · cases h
  split at h; · cases h
  next w hov =>
  obtain ⟨v0, i, hf, hi, rfl⟩ := ownedVault_find s p e from_ app prod vaultId w hov
  obtain ⟨hm, hid⟩ := find_some_mem s vaultId v0 hf
  refine ⟨v0, hm, i, hid, hi, ?_, fun d hd => by rw [hs d]; simp [hd]⟩
  rw [hs p.denomOut]
  simp only [supplyDeltaP, hf, hi, if_true]
  split <;> omega

/-- **Close burns exactly the principal**: interest and closing fee travel user → custody → collector, the recorded principal
is burnt, nothing else. -/
theorem burn_exact_close (s s' : State) (p : Product) (e : Env) (from_ app prod vaultId : Nat)
    (hwf : ∀ w ∈ s.vaults, 0 ≤ w.amountOut) (h : close s p e from_ app prod vaultId = some s') :
    ∃ v ∈ s.vaults, v.id = vaultId ∧ s'.supply p.denomOut = s.supply p.denomOut - v.amountOut ∧
      (∀ d, d ≠ p.denomOut → s'.supply d = s.supply d) ∧ (∀ w ∈ s'.vaults, w.id ≠ vaultId) := by
  have hs := close_supply s s' p e from_ app prod vaultId hwf h
  unfold close at h
  split at h; · cases h
  split at h; · cases h
  next w hov =>
  obtain ⟨v0, i, hf, hi, rfl⟩ := ownedVault_find s p e from_ app prod vaultId w hov
  obtain ⟨hm, hid⟩ := find_some_mem s vaultId v0 hf
  refine ⟨v0, hm, hid, ?_, fun d hd => by rw [hs d]; simp [hd], ?_⟩
  · rw [hs p.denomOut]; simp only [supplyDeltaP, hf, if_true]; omega
  · simp only [Option.map_eq_some_iff] at h
    obtain ⟨s1, hb, rfl⟩ := h
    intro w hw
    simp only [(runBank_effect _ s s1 hb).same.vaults, delVault, delBy, List.mem_filter, decide_eq_true_eq] at hw
    rw [← hid]; exact hw.2

/-- **Stable-mint withdrawal burns exactly what it takes off the record**: the draw-down fee share goes to the collector
out of the coins handed in, the rest is burnt, and the recorded principal falls by exactly that rest. -/
theorem burn_exact_stableWithdraw (s s' : State) (p : Product) (e : Env) (from_ app prod stableId : Nat) (amt : Int)
    (hp : ProductOk p) (h : stableWithdraw s p e from_ app prod stableId amt = some s') :
    s'.supply p.denomOut = s.supply p.denomOut - (stableWithdrawAmounts p amt).1 ∧
    s'.minted prod = s.minted prod - (stableWithdrawAmounts p amt).1 ∧
    0 < (stableWithdrawAmounts p amt).1 ∧ (stableWithdrawAmounts p amt).1 = amt - (if p.drawDownFee = 0 then 0 else feeOf amt p.drawDownFee) := by
  have hs := stableWithdraw_supply s s' p e from_ app prod stableId amt hp h p.denomOut
  unfold stableWithdraw at h
  split at h; · cases h
  next g1 =>
  simp only [not_or, Int.not_le] at g1
  split at h; · cases h
  split at h; · cases h
  split at h; · cases h
  split at h; · cases h
  simp only [Option.map_eq_some_iff] at h
  obtain ⟨s1, hb, rfl⟩ := h
  have hx : 0 < amt := g1.2.2.2.2.2
  have hlt := feeOf_lt amt p.drawDownFee hx hp.1 hp.2.1
  refine ⟨by rw [hs]; simp only [if_true]; omega, by simp [upd1, (runBank_effect _ s s1 hb).same.minted], ?_, ?_⟩
  · unfold stableWithdrawAmounts
    by_cases hz : p.drawDownFee = 0
    · simp only [hz, if_true]; exact hx
    · simp only [hz, if_false]; split <;> (simp only; omega)
  · unfold stableWithdrawAmounts
    by_cases hz : p.drawDownFee = 0
    · simp only [hz, if_true]; omega
    · simp only [hz, if_false]; split <;> rfl

/-- the steps of the liquidation / auction / emergency paths of both generations -/
def _root_.Comdex.Vault.Msg.liquidationPath : Msg → Bool
  | .seize .. | .settle .. | .settle1 .. | .esmVault .. | .esmStable .. | .esmReturn1 .. | .esmReturn2 .. | .esmCollector .. | .esmBurn .. => true
  | _ => false

/-- **No mint on the liquidation, auction and emergency paths** of either generation: every such step leaves each supply
where it was or burns. -/
theorem liquidation_paths_never_mint (cfg : Nat → Option Product) (hc : CfgOk cfg) (s s' : State) (e : Env) (m : Msg)
    (hwf : Wf cfg s) (hl : m.liquidationPath = true) (h : step cfg s e m = some s') (d : Nat) : s'.supply d ≤ s.supply d := by
  rw [supply_moves_exactly cfg hc s s' e m hwf h d]
  have hlk : ∀ l ∈ s.locked, 0 ≤ l.amountOut ∧ l.amountOut ≤ l.debt := fun l hl => (hwf.2.2.2.2 l hl).2
  have hfind : ∀ v l, s.locked.find? (fun x => decide (x.vaultId = v)) = some l → 0 ≤ l.amountOut ∧ l.amountOut ≤ l.debt :=
    fun v l hf => hlk l (find_mem (·.vaultId) s.locked v l hf).1
  cases m with
  | seize v => simp only [supplyDelta, supplyDeltaP]; (repeat' split) <;> simp
  | esmVault v => simp only [supplyDelta, supplyDeltaP]; (repeat' split) <;> simp
  | esmStable v => simp only [supplyDelta, supplyDeltaP]; (repeat' split) <;> simp
  | settle v =>
    simp only [supplyDelta, supplyDeltaP, Msg.product]
    cases hf : s.locked.find? (fun x => decide (x.vaultId = v)) with
    | none => simp
    | some l => have := hfind v l hf; simp only [Option.map_some]; (repeat' split) <;> omega
  | settle1 v =>
    simp only [supplyDelta, supplyDeltaP, Msg.product]
    cases hf : s.locked.find? (fun x => decide (x.vaultId = v)) with
    | none => simp
    | some l => have := hfind v l hf; simp only [Option.map_some]; (repeat' split) <;> omega
  | esmReturn2 v o c dd f =>
    simp only [supplyDelta, supplyDeltaP, Msg.product]
    cases hf : s.locked.find? (fun x => decide (x.vaultId = v)) with
    | none => simp
    | some l =>
      simp only [Option.map_some]
      have : 0 ≤ trigger2Burn l dd f := by unfold trigger2Burn; split <;> omega
      (repeat' split) <;> omega
  | esmReturn1 v o c i =>
    -- accepted ⇒ the collected amount `i` is non-negative (guard of the step)
    have hi : 0 ≤ i := by
      simp only [step, Msg.product] at h
      cases hf : s.locked.find? (fun x => decide (x.vaultId = v)) with
      | none => simp [hf] at h
      | some l =>
        simp only [hf, Option.map_some] at h
        cases hp : cfg l.product with
        | none => simp [hp] at h
        | some p =>
          simp only [hp] at h
          split at h; · cases h
          simp only [stepP, esmReturn1, hf] at h
          split at h; · cases h
          next hg => simp only [not_or, Int.not_lt] at hg; exact hg.2.2.2.2.1
    simp only [supplyDelta, supplyDeltaP]
    (repeat' split) <;> omega
  | esmCollector a d0 x =>
    simp only [step, esmCollector] at h
    split at h; · cases h
    next hg => simp only [not_or, Int.not_le] at hg; simp only [supplyDelta]; split <;> omega
  | esmBurn f a d0 x =>
    simp only [step, esmBurn] at h
    split at h; · cases h
    next hg => simp only [not_or, Int.not_le] at hg; simp only [supplyDelta]; split <;> omega
  | _ => simp [Msg.liquidationPath] at hl

theorem deposit_acct (s s1 : State) (p : Product) (e : Env) (from_ app prod vaultId : Nat) (amt : Int)
    (h : deposit s p e from_ app prod vaultId amt = some s1) (a d : Nat) :
    0 < amt ∧ s1.bal a d = s.bal a d + netAcct a [BankOp.sendPos from_ vm p.denomIn amt] d := by
  unfold deposit at h
  split at h; · cases h
  next hg =>
  simp only [not_or, Int.not_le] at hg
  split at h; · cases h
  split at h; · cases h
  simp only [Option.map_eq_some_iff] at h
  obtain ⟨s0, hb, rfl⟩ := h
  exact ⟨hg.2.2.2, runBank_acct _ s s0 hb a d⟩

/-- **Mint delivers (deposit-and-draw)**: the message mints `AmountOut·amt / AmountIn` (the stored vault's ratio, truncated);
the user receives that less the draw-down fee (less the collateral handed in, when collateral and debt are one denom), the
collector the fee. -/
theorem mint_delivers_depositAndDraw (s s' : State) (p : Product) (e : Env) (from_ app prod vaultId : Nat) (amt : Int)
    (hpo : ProductOk p) (hu : from_ ≠ vm) (huc : from_ ≠ cm)
    (h : depositAndDraw s p e from_ app prod vaultId amt = some s') :
    ∃ v ∈ s.vaults, v.id = vaultId ∧ ∃ out, userToken v amt = some out ∧
      s'.supply p.denomOut = s.supply p.denomOut + out ∧
      s'.bal from_ p.denomOut = s.bal from_ p.denomOut + (out - feeOf out p.drawDownFee)
        - (if p.denomOut = p.denomIn then amt else 0) ∧
      s'.bal cm p.denomOut = s.bal cm p.denomOut + feeOf out p.drawDownFee := by
  have hs := depositAndDraw_supply s s' p e from_ app prod vaultId amt h p.denomOut
  unfold depositAndDraw at h
  cases hf : findVault s vaultId with
  | none => simp [hf] at h
  | some v0 =>
    simp only [hf] at h
    cases hut : userToken v0 amt with
    | none => simp [hut] at h
    | some na =>
      simp only [hut] at h
      cases hd : deposit s p e from_ app prod vaultId amt with
      | none => simp [hd] at h
      | some s1 =>
        simp only [hd] at h
        obtain ⟨hm, hid⟩ := find_some_mem s vaultId v0 hf
        obtain ⟨d1, d2⟩ := mint_delivers_draw s1 s' p _ from_ app prod vaultId na hpo hu huc h
        refine ⟨v0, hm, hid, na, hut, by rw [hs]; simp [supplyDeltaP, hf, hut], ?_, ?_⟩
        · obtain ⟨hpos, hbal⟩ := deposit_acct s s1 p e from_ app prod vaultId amt hd from_ p.denomOut
          rw [d1, hbal]
          have hvu : ¬ vm = from_ := fun h => hu h.symm
          by_cases hdd : p.denomOut = p.denomIn <;> simp [netAcct, BankOp.dAcct, hpos, hdd, hvu] <;> omega
        · obtain ⟨hpos, hbal⟩ := deposit_acct s s1 p e from_ app prod vaultId amt hd cm p.denomOut
          rw [d2, hbal]
          have hvc : ¬ vm = cm := by decide
          have hcu : ¬ from_ = cm := huc
          simp [netAcct, BankOp.dAcct, hvc, hcu]

/-- **Mint delivers (stable-mint deposit)**: as for the stable-mint create — the converted amount less the fee. -/
theorem mint_delivers_stableDeposit (s s' : State) (p : Product) (e : Env) (from_ app prod stableId : Nat) (amt : Int)
    (hpo : ProductOk p) (hu : from_ ≠ vm) (huc : from_ ≠ cm) (hdd : p.denomOut ≠ p.denomIn)
    (h : stableDeposit s p e from_ app prod stableId amt = some s') :
    let out := otherToken amt p.decIn p.decOut
    s'.supply p.denomOut = s.supply p.denomOut + out ∧
    s'.bal from_ p.denomOut = s.bal from_ p.denomOut + (out - feeOf out p.drawDownFee) ∧
    s'.bal cm p.denomOut = s.bal cm p.denomOut + feeOf out p.drawDownFee := by
  have hs := stableDeposit_supply s s' p e from_ app prod stableId amt h p.denomOut
  unfold stableDeposit at h
  split at h; · cases h
  split at h; · cases h
  split at h; · cases h
  split at h; · cases h
  split at h; · cases h
  split at h; · cases h
  simp only [Option.map_eq_some_iff] at h
  obtain ⟨s1, hb, rfl⟩ := h
  obtain ⟨s0, _, hb2⟩ := runBank_cons _ _ _ _ hb
  have hout := mintAndSplit_pos _ _ _ _ _ hb2
  have hd := mintAndSplit_delivers p from_ _ hu huc hpo hout
  have hvc : ¬ vm = cm := by decide
  refine ⟨by rw [hs]; simp, ?_, ?_⟩
  · show s1.bal from_ p.denomOut = _
    rw [runBank_acct _ s s1 hb from_ p.denomOut]
    have : netAcct from_ (BankOp.send from_ vm p.denomIn amt :: mintAndSplit p from_ (otherToken amt p.decIn p.decOut)) p.denomOut
        = BankOp.dAcct from_ (.send from_ vm p.denomIn amt) p.denomOut +
          netAcct from_ (mintAndSplit p from_ (otherToken amt p.decIn p.decOut)) p.denomOut := by
      simp [netAcct]
    rw [this, hd.1]; simp [BankOp.dAcct, hdd]
  · show s1.bal cm p.denomOut = _
    rw [runBank_acct _ s s1 hb cm p.denomOut]
    have : netAcct cm (BankOp.send from_ vm p.denomIn amt :: mintAndSplit p from_ (otherToken amt p.decIn p.decOut)) p.denomOut
        = BankOp.dAcct cm (.send from_ vm p.denomIn amt) p.denomOut +
          netAcct cm (mintAndSplit p from_ (otherToken amt p.decIn p.decOut)) p.denomOut := by
      simp [netAcct]
    rw [this, hd.2]; simp [BankOp.dAcct, hdd]

/-- **Supply under reconfiguration**: with the product parameters changing between messages, the supply of every denom never
exceeds the recorded principal (+ outside funding), and equals it in histories without second-generation settlement. -/
theorem supply_le_principal_reconfig (cfg0 : Nat → Option Product) (hc : CfgOk cfg0) (h : List Ev) (hok : EvOk cfg0 h) (d : Nat) :
    let cfg := (runC (cfg0, State.init) h).1
    let s := (runC (cfg0, State.init) h).2
    s.supply d ≤ principalRecorded cfg s d + s.extSupply d ∧
    (NoSettleC h → s.supply d = principalRecorded cfg s d + s.extSupply d) := by
  obtain ⟨G', h', g, _, e⟩ := invL_always_reconfig h cfg0 hc hok Gaps.zero State.init (invL_init cfg0 hc) goodGaps_zero
  have h1 := h'.2.2.2.2 d
  have h2 := g.2.2.2.2 d
  refine ⟨by simp only [SupplyAtG] at h1; omega, fun hn => ?_⟩
  rw [e hn] at h1
  simpa [SupplyAtG, Gaps.zero] using h1

/-! non-vacuity of the per-message supply theorems on the demo history -/
example : supplyDelta demoCfg (runAll demoCfg State.init [(demoEnv, .fund 10 1 5000000)]) demoEnv (.create 10 1 1 3000000 2000000) 3 = 2000000 := by decide
example : let s := runAll demoCfg State.init (demoHistory.take 3)
    (step demoCfg s { demoEnv with iota := some 5 } (.deposit 10 1 1 1 1000)).isSome ∧
    supplyDelta demoCfg s { demoEnv with iota := some 5 } (.deposit 10 1 1 1 1000) 3 = 0 ∧
    (step demoCfg s { demoEnv with iota := some 700 } (.repay 10 1 1 1 600)).isSome ∧
    supplyDelta demoCfg s { demoEnv with iota := some 700 } (.repay 10 1 1 1 600) 3 = 0 ∧
    (step demoCfg s { demoEnv with iota := some 700 } (.repay 10 1 1 1 1700)).isSome ∧
    supplyDelta demoCfg s { demoEnv with iota := some 700 } (.repay 10 1 1 1 1700) 3 = -1000 := by decide
example : let s := runAll demoCfg State.init demoHistory
    (step demoCfg s demoEnv (.settle 1)).isSome ∧ supplyDelta demoCfg s demoEnv (.settle 1) 3 = -2000005 ∧
    supplyDelta demoCfg s demoEnv (.settle1 1) 3 = -2000000 := by decide
example : let s := runAll demoCfg State.init (demoHistory.take 3)
    (step demoCfg s demoEnv (.depositAndDraw 10 1 1 1 300000)).isSome ∧
    supplyDelta demoCfg s demoEnv (.depositAndDraw 10 1 1 1 300000) 3 = 200000 := by decide

end Comdex.C02
