import Comdex.Lemmas.Locker
import Comdex.Lemmas.Accrual
/-!
# C13 — Savings and fee books are backed: locker balances and collector net fees

Property clause → theorem
* "for every (app, asset) the locker deposited-amount total equals the sum of the net balances of its lockers"
                                                                  → `C13.deposited_eq_sum_netbalance`
* "the locker custody account holds at least that much"           → `C13.locker_custody_ge_deposited` (per asset, summed over
                                                                     apps) and `C13.locker_custody_ge_each_deposited` (per (app, asset))
* "a withdrawal or close pays the owner exactly the requested amount or the full net balance"
                                                                  → `C13.withdraw_pays_exactly`, `C13.close_pays_exactly`
* "the fee collector's custody account holds, for every asset, at least the sum over apps of the recorded net fees"
     FALSE of the code as it is (second-generation surplus / debt auction close, x/auctionsV2/keeper/auctions.go:367-438):
                                                                  → `C13.collector_custody_ge_sum_netfees_counterexample`,
                                                                    `C13.collector_custody_ge_sum_netfees_counterexample_debt`
     what IS true of every history                                → `C13.collector_shortfall_bounded` (shortfall ≤ Σ over the
                                                                    second-generation closes of 2·lot resp. recorded − received)
     and therefore, for histories without those two closes        → `C13.collector_custody_ge_sum_netfees_partial`
     the second-generation liquidation penalty (recorded under the collateral asset until fix d8b6c2e, finding D34) is an exact
     inflow now → `C13.v2_penalty_exact`; what the unrepaired code did → `C13.v2_penalty_before_fix_counterexample`
* "recorded net fees never go negative"                           → `C13.netfees_nonneg` (every history, including those closes)
* "increase exactly by the fees, interest and penalties paid in, and decrease exactly by what is paid out as locker savings,
   auction lots and debt cover"                                   → `C13.netfees_delta_exact_partial` (every op except the two closes,
                                                                    on backed books), `C13.decrease_exact`,
                                                                    `C13.netfees_delta_exact_counterexample`
* the two closes after the repair proposed in notes/C13.md        → `C13.repaired_surplus_close_exact`, `C13.repaired_debt_close_exact`

Depth round (the savings reward, the auction start decision and the emergency guards are now INSIDE the model):
* the reward handed to the ledger is ≥ 1 whole unit, whatever `math.Pow` returned                → `C13.reward_paid_pos`
* accrued amount ≥ 0; zero for zero rate / zero elapsed time; monotone in the balance            → `C13.accrued_nonneg`, `C13.accrued_zero_rate`,
                                                              `C13.accrued_zero_time` + `C13.nothing_paid_for_zero_accrual`, `C13.accrued_mono_balance`
* never more than the collector's net fees of the (app, asset); unpayable ⇒ message rejected     → `C13.reward_le_netfees`,
                                                              `C13.reward_calc_le_netfees`, `C13.reward_unpayable_rejects`
* paying it keeps `deposited = Σ net` and custody ≥ Σ net fees — histories with the reward COMPUTED, no assumption about it
                                                            → `C13.reachableT_inv`, `C13.deposited_eq_sum_netbalance_timed`,
                                                              `C13.locker_custody_ge_deposited_timed`, `C13.netfees_nonneg_timed`,
                                                              `C13.collector_custody_timed_partial`
* a surplus auction starts only if net fees ≥ surplus threshold + lot and takes exactly the lot; a debt auction only if net fees ≤
  debt threshold − lot; nothing starts when switched off; a sweep keeps the books
                                                            → `C13.surplus_start_only_above_threshold`, `C13.debt_start_only_below_threshold`,
                                                              `C13.no_start_when_switched_off`, `C13.activation_sweep_keeps_books`
* emergency shutdown / kill switch on ⇒ create, deposit, whitelist rejected, nothing changes      → `C13.shutdown_blocks_create_deposit_whitelist`

All statements quantify over every configuration (asset ids, app ids, collector lookup keys), every finite op list
(`Comdex.Locker.Op`: funding, whitelisting, locker create / deposit / withdraw / close / reward calculation, saving-rate change,
fee inflows from vault create-draw / repay / close, liquidation penalties, auction returns, raw net-fee decrease,
`GetAmountFromCollector`, surplus fund, second-generation surplus / debt close) started from empty books, a rejected message
leaving the state unchanged (`runSkip`), and every value of the external inputs subject to `Op.extOk` (an accrued reward that is
paid is ≥ 0 — a THEOREM for the computed reward; a raw decrease is ≥ 0; interest and closing fee of a vault close are ≥ 0) — the driver
checks these on every line.
-/
namespace Comdex.C13
open Comdex.Locker

/-- empty books over an arbitrary configuration -/
def init (assets apps : List Nat) (collk : Store (Nat × Nat) CL) : State :=
  { assets := assets, apps := apps, collk := collk }

def ExtOk (ops : List Op) : Prop := ∀ op ∈ ops, op.extOk
def NoV2Close (ops : List Op) : Prop := ∀ op ∈ ops, op.isV2Close = false

/-- per-asset bound on the custody shortfall a history can have caused -/
def dmgTotal : List Op → Nat → Int
  | [] => fun _ => 0
  | op :: ops => fun a => op.dmg a + dmgTotal ops a

theorem dmgTotal_zero {ops : List Op} (h : NoV2Close ops) (a : Nat) : dmgTotal ops a = 0 := by
  induction ops with
  | nil => rfl
  | cons op ops ih =>
    simp only [dmgTotal]
    rw [Op.dmg_zero (h op (by simp)), ih (fun o ho => h o (by simp [ho]))]; rfl

theorem inv_init (assets apps : List Nat) (collk : Store (Nat × Nat) CL) :
    LInv (init assets apps collk) ∧ CInvD (fun _ => 0) (init assets apps collk) := by
  refine ⟨⟨?_, ?_, ?_, ?_, ?_, ?_⟩, ⟨?_, ?_⟩⟩ <;> simp [init, dep, lockSum, depAsset, feeAsset, Store.sumBy, Store.get, bal, Bank.bal, IdsInvS]

theorem inv_runSkip (ops : List Op) : ∀ (s : State) (D : Nat → Int), LInv s → CInvD D s → ExtOk ops →
    LInv (runSkip s ops) ∧ CInvD (fun a => D a + dmgTotal ops a) (runSkip s ops) := by
  induction ops with
  | nil => intro s D hL hC _; exact ⟨hL, hC.mono (fun a => by simp [dmgTotal])⟩
  | cons op ops ih =>
    intro s D hL hC hext
    simp only [runSkip]
    have hop := hext op (by simp)
    have hrest : ExtOk ops := fun o ho => hext o (by simp [ho])
    cases hs : step s op with
    | none =>
      simp only [Option.getD]
      obtain ⟨a, b⟩ := ih s D hL hC hrest
      exact ⟨a, b.mono (fun x => by simp only [dmgTotal]; have := Op.dmg_nonneg op x; omega)⟩
    | some s1 =>
      simp only [Option.getD]
      obtain ⟨hL1, hC1⟩ := step_invD hL hC hop hs
      obtain ⟨a, b⟩ := ih s1 _ hL1 hC1 hrest
      exact ⟨a, b.mono (fun x => by simp only [dmgTotal]; omega)⟩

/-- every reachable state satisfies the locker invariants, and the collector invariants up to the bounded shortfall -/
theorem reachable_inv (assets apps : List Nat) (collk : Store (Nat × Nat) CL) (ops : List Op) (h : ExtOk ops) :
    LInv (runSkip (init assets apps collk) ops) ∧ CInvD (dmgTotal ops) (runSkip (init assets apps collk) ops) := by
  obtain ⟨hL, hC⟩ := inv_init assets apps collk
  obtain ⟨a, b⟩ := inv_runSkip ops _ _ hL hC h
  exact ⟨a, b.mono (fun x => by omega)⟩

/-! ## locker books -/

/-- **Deposited total = Σ net balances**, for every (app, asset), after every history. -/
theorem deposited_eq_sum_netbalance (assets apps : List Nat) (collk : Store (Nat × Nat) CL) (ops : List Op) (h : ExtOk ops)
    (app asset : Nat) :
    dep (runSkip (init assets apps collk) ops) (app, asset) = lockSum (app, asset) (runSkip (init assets apps collk) ops).lockers :=
  (reachable_inv assets apps collk ops h).1.depEq (app, asset)

/-- **Locker custody**: per asset the custody account holds at least the deposited totals summed over all apps. -/
theorem locker_custody_ge_deposited (assets apps : List Nat) (collk : Store (Nat × Nat) CL) (ops : List Op) (h : ExtOk ops)
    (asset : Nat) :
    depAsset asset (runSkip (init assets apps collk) ops).lookup ≤ bal (runSkip (init assets apps collk) ops) .locker asset :=
  (reachable_inv assets apps collk ops h).1.custody asset

/-- … and therefore at least each single (app, asset) total. -/
theorem locker_custody_ge_each_deposited (assets apps : List Nat) (collk : Store (Nat × Nat) CL) (ops : List Op) (h : ExtOk ops)
    (app asset : Nat) :
    dep (runSkip (init assets apps collk) ops) (app, asset) ≤ bal (runSkip (init assets apps collk) ops) .locker asset := by
  obtain ⟨hL, _⟩ := reachable_inv assets apps collk ops h
  refine Int.le_trans ?_ (hL.custody asset)
  have h1 := (Store.at0_le_sumBy (fun (k : Nat × Nat) (e : Lk) => if k.2 = asset then e.deposited else 0)
    (runSkip (init assets apps collk) ops).lookup (app, asset)
    (by intro p hp; have := hL.depNonneg p hp; split <;> omega)).1
  unfold depAsset
  unfold Store.at0 at h1
  unfold dep
  cases hg : Store.get (runSkip (init assets apps collk) ops).lookup (app, asset) with
  | none =>
    simp [hg] at h1 ⊢; exact h1
  | some e => simp [hg] at h1 ⊢; exact h1

/-- **A withdrawal pays exactly the requested amount**: in every reachable state, a successful `MsgWithdrawAsset` raises the
owner's balance by exactly `amt`, and the locker keeps `net + reward − amt`. -/
theorem withdraw_pays_exactly (assets apps : List Nat) (collk : Store (Nat × Nat) CL) (ops : List Op) (h : ExtOk ops)
    (u app asset id : Nat) (amt : Int) (rw : Rw) (hrw : rw.ok) (s' : State)
    (hstep : step (runSkip (init assets apps collk) ops) (.withdraw u app asset id amt rw) = some s') :
    bal s' (.user u) asset = bal (runSkip (init assets apps collk) ops) (.user u) asset + amt ∧
    ∃ l l', Store.get (runSkip (init assets apps collk) ops).lockers id = some l ∧ l.owner = u ∧
      Store.get s'.lockers id = some l' ∧ l'.net = l.net + rw.amount - amt := by
  obtain ⟨hL, hC⟩ := reachable_inv assets apps collk ops h
  exact withdraw_pays hL hC hrw hstep

/-- **A close pays exactly the full net balance** (the stored net balance plus the reward credited by the same message). -/
theorem close_pays_exactly (assets apps : List Nat) (collk : Store (Nat × Nat) CL) (ops : List Op) (h : ExtOk ops)
    (u app asset id : Nat) (rw : Rw) (hrw : rw.ok) (s' : State)
    (hstep : step (runSkip (init assets apps collk) ops) (.close u app asset id rw) = some s') :
    ∃ l, Store.get (runSkip (init assets apps collk) ops).lockers id = some l ∧ l.owner = u ∧
      bal s' (.user u) asset = bal (runSkip (init assets apps collk) ops) (.user u) asset + (l.net + rw.amount) := by
  obtain ⟨hL, hC⟩ := reachable_inv assets apps collk ops h
  exact close_pays hL hC hrw hstep

/-! ## collector books -/

/-- **Recorded net fees never go negative** — every history, the defective closes included. -/
theorem netfees_nonneg (assets apps : List Nat) (collk : Store (Nat × Nat) CL) (ops : List Op) (h : ExtOk ops) :
    ∀ p ∈ (runSkip (init assets apps collk) ops).fees, 0 ≤ p.2 :=
  (reachable_inv assets apps collk ops h).2.nonneg

/-- What is true of the collector custody after EVERY history: the shortfall of asset `a` is at most the damage done by the
second-generation closes (2·lot per surplus close, recorded − received per debt close). -/
theorem collector_shortfall_bounded (assets apps : List Nat) (collk : Store (Nat × Nat) CL) (ops : List Op) (h : ExtOk ops)
    (asset : Nat) :
    feeAsset asset (runSkip (init assets apps collk) ops).fees
      ≤ bal (runSkip (init assets apps collk) ops) .collector asset + dmgTotal ops asset :=
  (reachable_inv assets apps collk ops h).2.custody asset

/-- **Collector custody ≥ Σ over apps of recorded net fees**, per asset — for every history that contains no second-generation
surplus / debt auction close. (The unrestricted statement is false: see the two counterexamples.) -/
theorem collector_custody_ge_sum_netfees_partial (assets apps : List Nat) (collk : Store (Nat × Nat) CL) (ops : List Op)
    (h : ExtOk ops) (hv2 : NoV2Close ops) (asset : Nat) :
    feeAsset asset (runSkip (init assets apps collk) ops).fees ≤ bal (runSkip (init assets apps collk) ops) .collector asset := by
  have := collector_shortfall_bounded assets apps collk ops h asset
  rw [dmgTotal_zero hv2] at this
  omega

/-- witness 1 (reproduced on the real chain code, first sequence of the harness run): fees 20 are paid in and recorded; a surplus
auction of lot 2 starts (`GetAmountFromCollector`); its second-generation close takes the lot from the collector again and
ADDS it to the record ⇒ recorded 20, custody 16; the shortfall 4 = 2·lot attains the bound of `collector_shortfall_bounded`. -/
def witnessSurplus : List Op :=
  [.config (.amap 1 2 { surplus := true, active := true }), .feeVault 1 2 20, .getAmount 1 2 2, .v2SurplusClose 1 2 0 2]

/-- witness 2: fees 20; a second-generation debt auction closes with bid `c = 15` units of the OTHER asset for `d = 2` of this
asset: 2 arrive, 15 are recorded ⇒ recorded 35, custody 22. -/
def witnessDebt : List Op := [.config (.amap 1 2 { debt := true, active := true }), .feeVault 1 2 20, .v2DebtClose 1 2 15 2]

theorem collector_custody_ge_sum_netfees_counterexample :
    ExtOk witnessSurplus ∧
    feeAsset 2 (runSkip (init [1, 2] [1] [((1, 2), {})]) witnessSurplus).fees = 20 ∧
    bal (runSkip (init [1, 2] [1] [((1, 2), {})]) witnessSurplus) .collector 2 = 16 ∧
    ¬ (feeAsset 2 (runSkip (init [1, 2] [1] [((1, 2), {})]) witnessSurplus).fees
        ≤ bal (runSkip (init [1, 2] [1] [((1, 2), {})]) witnessSurplus) .collector 2) := by
  refine ⟨?_, by decide, by decide, by decide⟩
  intro op hop
  simp [witnessSurplus] at hop
  rcases hop with e | e | e | e <;> subst e <;> simp [Op.extOk]

theorem collector_custody_ge_sum_netfees_counterexample_debt :
    ExtOk witnessDebt ∧
    feeAsset 2 (runSkip (init [1, 2] [1] [((1, 2), {})]) witnessDebt).fees = 35 ∧
    bal (runSkip (init [1, 2] [1] [((1, 2), {})]) witnessDebt) .collector 2 = 22 := by
  refine ⟨?_, by decide, by decide⟩
  intro op hop
  simp [witnessDebt] at hop
  rcases hop with e | e | e <;> subst e <;> simp [Op.extOk]

/-- **The second-generation liquidation penalty is an ordinary exact inflow** (code as it is since fix d8b6c2e, finding D34): the
penalty coins arrive in the debt asset and are recorded under the debt asset — every invariant is kept with the same shortfall and
record and custody move together. It is therefore covered by `collector_custody_ge_sum_netfees_partial` / `netfees_delta_exact_partial`
(it is not one of the two defective closes). -/
theorem v2_penalty_exact {D : Nat → Int} (s s' : State) (app coll debt : Nat) (x : Int) (hL : LInv s) (hC : CInvD D s)
    (h : step s (.v2Penalty app coll debt x) = some s') : LInv s' ∧ CInvD D s' ∧ Delta s s' :=
  penalty_inv (app := app) (asset := debt) (x := x) hL hC h

/-- what the UNREPAIRED code did (before d8b6c2e; a revert is reported by the correspondence run): fees 20 recorded and held in asset
2; a penalty of 30 arrives in the debt asset 2 and is recorded under the collateral asset 1 ⇒ asset 1 has 30 recorded and 0 custody,
30 coins of asset 2 are unrecorded. -/
theorem v2_penalty_before_fix_counterexample :
    ∃ s', v2PenaltyBeforeFix (runSkip (init [1, 2] [1] [((1, 2), {})]) [.feeVault 1 2 20]) 1 1 2 30 = some s' ∧
      feeAsset 1 s'.fees = 30 ∧ bal s' .collector 1 = 0 ∧ feeAsset 2 s'.fees = 20 ∧ bal s' .collector 2 = 50 :=
  ⟨_, rfl, by decide, by decide, by decide, by decide⟩

/-- **Net fees move exactly with the coins**: on backed books (no second-generation close so far) every successful operation
other than those two closes and a bare `DecreaseNetFeeCollectedData` changes, for every asset, the sum of the recorded net
fees by exactly the change of the collector's custody balance — fees, interest, penalties, returned lots and debt-auction
proceeds in; locker savings, auction lots, debt cover and surplus funds out. -/
theorem netfees_delta_exact_partial (assets apps : List Nat) (collk : Store (Nat × Nat) CL) (ops : List Op)
    (h : ExtOk ops) (hv2 : NoV2Close ops) (op : Op) (hop : op.extOk) (hopv2 : op.isV2Close = false)
    (hraw : op.isRawDecrease = false) (s' : State) (hstep : step (runSkip (init assets apps collk) ops) op = some s')
    (asset : Nat) :
    feeAsset asset s'.fees - feeAsset asset (runSkip (init assets apps collk) ops).fees
      = bal s' .collector asset - bal (runSkip (init assets apps collk) ops) .collector asset := by
  obtain ⟨hL, hC⟩ := reachable_inv assets apps collk ops h
  obtain ⟨_, _, hD⟩ := step_inv hL hC hop hopv2 hstep
  have := hD hraw (dmgTotal_zero hv2) asset
  omega

/-- only the addressed record moves: a bare decrease lowers exactly its own record by exactly `x`. -/
theorem decrease_exact (s s' : State) (app asset : Nat) (x : Int) (h : step s (.decreaseNetFee app asset x) = some s') :
    fee s' (app, asset) = fee s (app, asset) - x ∧ ∀ k, k ≠ (app, asset) → fee s' k = fee s k := by
  simp only [step] at h
  obtain ⟨_, _, hs'⟩ := decNetFee_spec h
  subst hs'
  refine ⟨by simp [fee, Store.get_put_self], ?_⟩
  intro k hk
  simp only [fee]
  rw [Store.get_put_ne _ _ _ _ (fun e => hk e.symm)]

/-- the second-generation surplus close pays the lot OUT of the collector and moves the record UP by the lot. -/
theorem netfees_delta_exact_counterexample :
    ∃ s s', step s (.v2SurplusClose 1 2 0 2) = some s' ∧
      feeAsset 2 s'.fees - feeAsset 2 s.fees = 2 ∧ bal s' .collector 2 - bal s .collector 2 = -2 :=
  ⟨runSkip (init [1, 2] [1] [((1, 2), {})]) [.config (.amap 1 2 { surplus := true, active := true }), .feeVault 1 2 20, .getAmount 1 2 2],
   runSkip (init [1, 2] [1] [((1, 2), {})]) witnessSurplus, by decide, by decide, by decide⟩

/-- After the small repair proposed in notes/C13.md the two closes are exact like every other operation: the invariants are
preserved without any shortfall (`D` unchanged), so `collector_custody_ge_sum_netfees_partial` then covers them as well. -/
theorem repaired_surplus_close_exact {D : Nat → Int} (s s' : State) (app asset u : Nat) (lot : Int) (hL : LInv s) (hC : CInvD D s)
    (h : stepRepaired s (.v2SurplusClose app asset u lot) = some s') : LInv s' ∧ CInvD D s' ∧ Delta s s' :=
  repairedSurplusClose_inv hL hC h

theorem repaired_debt_close_exact {D : Nat → Int} (s s' : State) (app asset : Nat) (c d : Int) (hL : LInv s) (hC : CInvD D s)
    (h : stepRepaired s (.v2DebtClose app asset c d) = some s') : LInv s' ∧ CInvD D s' ∧ Delta s s' :=
  repairedDebtClose_inv hL hC h

/-- on the surplus witness the repaired close leaves record and custody equal (18 = 18) -/
example : ((stepRepaired (runSkip (init [1, 2] [1] [((1, 2), {})]) [.config (.amap 1 2 { surplus := true, active := true }), .feeVault 1 2 20, .getAmount 1 2 2]) (.v2SurplusClose 1 2 0 2)).map
    fun s => (feeAsset 2 s.fees, bal s .collector 2, bal s (.user 0) 2)) = some (18, 18, 2) := by decide

/-! ## the savings reward, computed inside the model

`accrue` is the model of `CalculateLockerRewards` up to the ledger code: elapsed time from the locker's (or, for block height 0, the
collector entry's) time stamp, `CalculationOfRewards` = exact IEEE-754 arithmetic around one `math.Pow` call (`Comdex.Accrual`,
the value `pw` of that call is the only input), tracker accumulation, whole units handed on. Timed histories
(`runSkipT`, ops `OpT`) need NO assumption about the reward: admissibility is a theorem (`reward_paid_pos`). -/

/-- **A paid reward is at least one whole unit** (in particular ≥ 0), whatever `math.Pow` returned. -/
theorem reward_paid_pos (s : State) (ctx : Ctx) (app asset id : Nat) (pw : Option Int) (ρ : Int)
    (h : (accrue s ctx app asset id pw).1 = .pay ρ) : 1 ≤ ρ :=
  accrue_pay_pos s ctx app asset id pw ρ h

/-- **The accrued amount is ≥ 0** for a non-negative balance whenever the power value is ≥ 1.0 (`U`; checked on every real call). -/
theorem accrued_nonneg (n : Int) (lsr : Dec) (secs : Int) (p : Int) (x : Dec) (hn : 0 ≤ n) (hp : (Accrual.U : Int) ≤ p)
    (h : Accrual.calcRewards n lsr secs (some p) = .ok x) : 0 ≤ x := by
  unfold Accrual.calcRewards at h
  split at h; · simp at h
  split at h; · simp at h
  simp only at h
  split at h; · simp at h
  split at h
  · simp at h; subst h
    exact Accrual.interestOfPow_nonneg p _ hp (Accrual.aF_nonneg n hn)
  · simp at h

/-- **Zero saving rate ⇒ nothing accrues and nothing is paid** (the function returns before touching anything). -/
theorem accrued_zero_rate (s : State) (ctx : Ctx) (app asset id : Nat) (pw : Option Int) (c : CL)
    (hc : Store.get s.collk (app, asset) = some c) (h0 : c.lsr = 0) :
    accrue s ctx app asset id pw = (.none, none) := by
  unfold accrue
  split
  · rfl
  · simp [hc, h0]

/-- **Zero elapsed time ⇒ nothing accrues**: `math.Pow(x, 0) = 1.0` (IEEE-754 / Go specification; checked on every real call with
zero elapsed time) gives an accrued amount of exactly 0 … -/
theorem accrued_zero_time (n : Int) (lsr : Dec) (hn : Accrual.isInt64 n = true) :
    Accrual.calcRewards n lsr 0 (some (Accrual.U : Int)) = .ok 0 := by
  unfold Accrual.calcRewards
  have h1 : Accrual.productOfPow (Accrual.U : Int) (Accrual.aF n) = 0 := by
    unfold Accrual.productOfPow; rw [Accrual.fsub_self]; exact Accrual.fmul_zero_left _
  simp [hn, h1, Accrual.finite, Accrual.fmt18_zero, Accrual.maxU, Dec.fits]

/-- … so with a tracker below one whole unit nothing is paid and the tracker is unchanged. -/
theorem nothing_paid_for_zero_accrual (tr : Dec) (h : tr < Dec.one) :
    ¬ (Dec.one ≤ tr + 0) ∧ tr + 0 = tr := by
  simp only [Dec, Dec.one, Dec.P] at *; omega

/-- **Monotone in the balance**: for the same rate and elapsed time (hence the same power value ≥ 1.0) a larger balance accrues at
least as much. (Monotonicity in time or rate is NOT true of the code: `math.Pow` is not monotone — C18, D-C18.) -/
theorem accrued_mono_balance (n n' : Int) (lsr : Dec) (secs : Int) (p : Int) (x x' : Dec) (hn : 0 ≤ n) (hnn : n ≤ n')
    (hp : (Accrual.U : Int) ≤ p) (h : Accrual.calcRewards n lsr secs (some p) = .ok x)
    (h' : Accrual.calcRewards n' lsr secs (some p) = .ok x') : x ≤ x' := by
  have key : ∀ (m : Int) (y : Dec), Accrual.calcRewards m lsr secs (some p) = .ok y → y = Accrual.interestOfPow p (Accrual.aF m) := by
    intro m y hm
    unfold Accrual.calcRewards at hm
    split at hm; · simp at hm
    split at hm; · simp at hm
    simp only at hm
    split at hm; · simp at hm
    split at hm
    · simp at hm; exact hm.symm
    · simp at hm
  rw [key n x h, key n' x' h']
  exact Accrual.interestOfPow_mono p p _ _ hp (Int.le_refl p) (Accrual.aF_nonneg n hn) (Accrual.aF_mono n n' hn hnn)

/-- **Never more than the collector's recorded net fees** for that (app, asset): a message that pays a reward `ρ` succeeds only
if `ρ ≤ netFees(app, asset)`, and the record drops by exactly `ρ` in the reward step. Contrapositive: when the collector cannot
pay, the whole deposit / withdraw / close / reward-calc message is rejected and nothing changes. -/
theorem reward_le_netfees (s s' : State) (ctx : Ctx) (u app asset id : Nat) (amt : Int) (pw : Option Int) (ρ : Int)
    (hpay : (accrue s ctx app asset id pw).1 = .pay ρ)
    (h : stepT s ctx (.deposit u app asset id amt pw) = some s' ∨ stepT s ctx (.withdraw u app asset id amt pw) = some s' ∨
         stepT s ctx (.close u app asset id pw) = some s') :
    ρ ≤ fee s (app, asset) := by
  have hρ : 0 ≤ ρ := by have := accrue_pay_pos s ctx app asset id pw ρ hpay; omega
  rcases h with h | h | h <;> simp only [stepT, Option.map_eq_some_iff] at h <;> obtain ⟨s1, hs, _⟩ := h <;> rw [hpay] at hs
  · obtain ⟨l, s2, hl, ha, hr⟩ := (msg_reward_some hs).1 _ _ _ _ _ _ rfl
    exact (reward_pay_le_fee hρ hl ha hr).1
  · obtain ⟨l, s2, hl, ha, hr⟩ := (msg_reward_some hs).2.1 _ _ _ _ _ _ rfl
    exact (reward_pay_le_fee hρ hl ha hr).1
  · obtain ⟨l, s2, hl, ha, hr⟩ := (msg_reward_some hs).2.2.1 _ _ _ _ _ rfl
    exact (reward_pay_le_fee hρ hl ha hr).1

theorem reward_unpayable_rejects (s : State) (ctx : Ctx) (u app asset id : Nat) (amt : Int) (pw : Option Int) (ρ : Int)
    (hpay : (accrue s ctx app asset id pw).1 = .pay ρ) (hshort : fee s (app, asset) < ρ) :
    stepT s ctx (.deposit u app asset id amt pw) = none ∧ stepT s ctx (.withdraw u app asset id amt pw) = none ∧
    stepT s ctx (.close u app asset id pw) = none := by
  refine ⟨?_, ?_, ?_⟩
  · cases h : stepT s ctx (.deposit u app asset id amt pw) with
    | none => rfl
    | some s' => have := reward_le_netfees s s' ctx u app asset id amt pw ρ hpay (Or.inl h); omega
  · cases h : stepT s ctx (.withdraw u app asset id amt pw) with
    | none => rfl
    | some s' => have := reward_le_netfees s s' ctx u app asset id amt pw ρ hpay (Or.inr (Or.inl h)); omega
  · cases h : stepT s ctx (.close u app asset id pw) with
    | none => rfl
    | some s' => have := reward_le_netfees s s' ctx u app asset id amt pw ρ hpay (Or.inr (Or.inr h)); omega

/-- the reward-calculation message: same bound, and the record drops by exactly the paid reward -/
theorem reward_calc_le_netfees (s s' : State) (ctx : Ctx) (app id : Nat) (pw : Option Int) (l : Locker) (ρ : Int)
    (hl : Store.get s.lockers id = some l) (hpay : (accrue s ctx app l.asset id pw).1 = .pay ρ)
    (h : stepT s ctx (.rewardCalc app id pw) = some s') :
    ρ ≤ fee s (app, l.asset) ∧ fee s' (app, l.asset) = fee s (app, l.asset) - ρ := by
  have hρ : 0 ≤ ρ := by have := accrue_pay_pos s ctx app l.asset id pw ρ hpay; omega
  simp only [stepT, hl, Option.map_eq_some_iff] at h
  obtain ⟨s1, hs, hs'⟩ := h
  rw [hpay] at hs
  obtain ⟨l0, hl0, hr⟩ := (msg_reward_some hs).2.2.2 _ _ _ rfl
  rw [hl] at hl0; cases hl0
  obtain ⟨a, b⟩ := reward_pay_le_fee hρ hl rfl hr
  refine ⟨a, ?_⟩
  rw [← b, ← hs']
  split <;> rfl

/-! ### histories with the reward computed inside: no assumption about the reward is left -/

def ExtOkT (h : List (Ctx × OpT)) : Prop := ∀ p ∈ h, p.2.extOk
def dmgTotalT : List (Ctx × OpT) → Nat → Int
  | [] => fun _ => 0
  | p :: ps => fun a => p.2.dmg a + dmgTotalT ps a
def NoV2CloseT (h : List (Ctx × OpT)) : Prop := ∀ p ∈ h, ∀ a, p.2.dmg a = 0

theorem inv_runSkipT (h : List (Ctx × OpT)) : ∀ (s : State) (D : Nat → Int), LInv s → CInvD D s → ExtOkT h →
    LInv (runSkipT s h) ∧ CInvD (fun a => D a + dmgTotalT h a) (runSkipT s h) := by
  induction h with
  | nil => intro s D hL hC _; exact ⟨hL, hC.mono (fun a => by simp [dmgTotalT])⟩
  | cons p ps ih =>
    intro s D hL hC hext
    obtain ⟨ctx, op⟩ := p
    simp only [runSkipT]
    have hop : op.extOk := hext (ctx, op) (by simp)
    have hrest : ExtOkT ps := fun o ho => hext o (by simp [ho])
    cases hs : stepT s ctx op with
    | none =>
      simp only [Option.getD]
      obtain ⟨a, b⟩ := ih s D hL hC hrest
      exact ⟨a, b.mono (fun x => by simp only [dmgTotalT]; have := OpT.dmg_nonneg op x; omega)⟩
    | some s1 =>
      simp only [Option.getD]
      obtain ⟨hL1, hC1⟩ := stepT_inv hL hC hop hs
      obtain ⟨a, b⟩ := ih s1 _ hL1 hC1 hrest
      exact ⟨a, b.mono (fun x => by simp only [dmgTotalT]; omega)⟩

/-- **Paying the computed reward keeps the books**: after every timed history (locker messages with the reward computed from
balance, rate, time stamps, tracker and the `math.Pow` value; saving-rate updates iterating over all lockers; every other
operation) `deposited = Σ net balances`, locker custody ≥ Σ deposited, net fees ≥ 0, and collector custody ≥ Σ net fees up to the
bounded shortfall of the second-generation closes. -/
theorem reachableT_inv (assets apps : List Nat) (collk : Store (Nat × Nat) CL) (h : List (Ctx × OpT)) (hext : ExtOkT h) :
    LInv (runSkipT (init assets apps collk) h) ∧ CInvD (dmgTotalT h) (runSkipT (init assets apps collk) h) := by
  obtain ⟨hL, hC⟩ := inv_init assets apps collk
  obtain ⟨a, b⟩ := inv_runSkipT h _ _ hL hC hext
  exact ⟨a, b.mono (fun x => by omega)⟩

theorem deposited_eq_sum_netbalance_timed (assets apps : List Nat) (collk : Store (Nat × Nat) CL) (h : List (Ctx × OpT))
    (hext : ExtOkT h) (app asset : Nat) :
    dep (runSkipT (init assets apps collk) h) (app, asset) = lockSum (app, asset) (runSkipT (init assets apps collk) h).lockers :=
  (reachableT_inv assets apps collk h hext).1.depEq (app, asset)

theorem locker_custody_ge_deposited_timed (assets apps : List Nat) (collk : Store (Nat × Nat) CL) (h : List (Ctx × OpT))
    (hext : ExtOkT h) (asset : Nat) :
    depAsset asset (runSkipT (init assets apps collk) h).lookup ≤ bal (runSkipT (init assets apps collk) h) .locker asset :=
  (reachableT_inv assets apps collk h hext).1.custody asset

theorem netfees_nonneg_timed (assets apps : List Nat) (collk : Store (Nat × Nat) CL) (h : List (Ctx × OpT)) (hext : ExtOkT h) :
    ∀ p ∈ (runSkipT (init assets apps collk) h).fees, 0 ≤ p.2 :=
  (reachableT_inv assets apps collk h hext).2.nonneg

theorem collector_custody_timed_partial (assets apps : List Nat) (collk : Store (Nat × Nat) CL) (h : List (Ctx × OpT))
    (hext : ExtOkT h) (hv2 : NoV2CloseT h) (asset : Nat) :
    feeAsset asset (runSkipT (init assets apps collk) h).fees ≤ bal (runSkipT (init assets apps collk) h) .collector asset := by
  have := (reachableT_inv assets apps collk h hext).2.custody asset
  have hz : dmgTotalT h asset = 0 := by
    induction h with
    | nil => rfl
    | cons p ps ih =>
      simp only [dmgTotalT]
      rw [hv2 p (by simp) asset, ih (fun o ho => hext o (by simp [ho])) (fun o ho => hv2 o (by simp [ho]))]
      · rfl
      · exact (reachableT_inv assets apps collk ps (fun o ho => hext o (by simp [ho]))).2.custody asset
  omega

/-- a timed history: fees 50 in, a locker of 4·10⁸, one year at 10 % with the power value 1.1 (bits 0x3FF199999999999A) -/
def cl10 : CL := { lsr := 100000000000000000, bt := 1000 }
def pow11 : Option Int := Accrual.ofBits 0x3FF199999999999A
def demoT : List (Ctx × OpT) :=
  [(⟨1000, 1⟩, .plain (.fund 7 2 1000000000)), (⟨1000, 1⟩, .plain (.whitelist 1 2)), (⟨1000, 1⟩, .wlReward 1 2),
   (⟨1000, 1⟩, .create 7 1 2 400000000), (⟨2000, 2⟩, .plain (.feeVault 1 2 50000000)),
   (⟨1000 + 31557600, 9⟩, .rewardCalc 1 1 pow11)]

/-- one year at 10 % on 400 000 000 pays 40 000 000 (the float product is 40000000.00000003…, whole units are paid) -/
example : (runSkipT (init [2] [1] [((1, 2), cl10)]) demoT).lockers = [(1, { owner := 7, app := 1, asset := 2, net := 440000000, ret := 40000000 })] := by
  decide +kernel
example : fee (runSkipT (init [2] [1] [((1, 2), cl10)]) demoT) (1, 2) = 10000000 := by decide +kernel
/-- a second year would accrue 44 000 000 > 10 000 000 recorded: the withdrawal is rejected as a whole -/
example : stepT (runSkipT (init [2] [1] [((1, 2), cl10)]) demoT) ⟨1000 + 2 * 31557600, 20⟩ (.withdraw 7 1 2 1 5 pow11) = none := by
  decide +kernel

/-! ## when surplus and debt auctions start (collector lookup thresholds against the recorded net fees) -/

/-- **A surplus auction starts only above the threshold and takes exactly the lot.** Whenever the begin-block start decision of
either generation changes anything for a surplus entry, `netFees ≥ surplusThreshold + lotSize` held, the record and the collector's
custody both dropped by exactly `lotSize`, and the lot sits in the first-generation auction account. -/
theorem surplus_start_only_above_threshold (s : State) (gen2 : Bool) (k : Nat × Nat) (m : AMap)
    (hm : Store.get s.amap k = some m) (hs : m.surplus = true) (hd : m.debt = false)
    (hch : (activateOne s gen2 k).1 ≠ s) :
    ∃ c, Store.get s.collk k = some c ∧ c.surplusThr + c.lot ≤ fee s k ∧ m.active = false ∧
      fee (activateOne s gen2 k).1 k = fee s k - c.lot ∧
      bal (activateOne s gen2 k).1 .collector k.2 = bal s .collector k.2 - c.lot ∧
      bal (activateOne s gen2 k).1 .auction k.2 = bal s .auction k.2 + c.lot := by
  rcases activateOne_spec s gen2 k with h | ⟨m', c, hm', hc, hact, _, _, h⟩
  · exact absurd h hch
  · rw [hm] at hm'; cases hm'
    rcases h with ⟨hdebt, _⟩ | ⟨_, hthr, s1, hg, hres⟩
    · rw [hd] at hdebt; cases hdebt
    · obtain ⟨_, _, e1, e2, e3, _⟩ := getAmount_exact hg
      refine ⟨c, hc, hthr, hact, ?_⟩
      rw [hres]; exact ⟨e1, e2, e3⟩

/-- **A debt auction starts only at or below `debtThreshold − lotSize`** (hence below the debt threshold for a non-negative lot), and
starting it moves nothing: only the active flag is raised. -/
theorem debt_start_only_below_threshold (s : State) (gen2 : Bool) (k : Nat × Nat) (m : AMap)
    (hm : Store.get s.amap k = some m) (hd : m.debt = true) (hs : m.surplus = false)
    (hch : (activateOne s gen2 k).1 ≠ s) :
    ∃ c, Store.get s.collk k = some c ∧ fee s k ≤ c.debtThr - c.lot ∧ (0 ≤ c.lot → fee s k ≤ c.debtThr) ∧
      (activateOne s gen2 k).1 = setActive s k m ∧
      (activateOne s gen2 k).1.fees = s.fees ∧ (activateOne s gen2 k).1.bank = s.bank := by
  rcases activateOne_spec s gen2 k with h | ⟨m', c, hm', hc, _, _, _, h⟩
  · exact absurd h hch
  · rw [hm] at hm'; cases hm'
    rcases h with ⟨_, hthr, hres⟩ | ⟨hsur, _⟩
    · exact ⟨c, hc, hthr, fun h0 => by omega, hres, by rw [hres]; rfl, by rw [hres]; rfl⟩
    · rw [hs] at hsur; cases hsur

/-- **Switched off ⇒ no start**: with the kill switch on (either generation) or after an emergency shutdown (first generation)
the start decision changes nothing; an entry whose auction is already active is left alone as well. -/
theorem no_start_when_switched_off (s : State) (gen2 : Bool) (k : Nat × Nat)
    (h : k.1 ∈ s.killOn ∨ (gen2 = false ∧ k.1 ∈ s.esmOn) ∨ ∃ m, Store.get s.amap k = some m ∧ m.active = true) :
    activateOne s gen2 k = (s, false) := by
  unfold activateOne
  split
  · rfl
  · rename_i m hm
    have : (m.active || decide (k.1 ∈ s.killOn) || (!gen2 && decide (k.1 ∈ s.esmOn))) = true := by
      rcases h with h | ⟨h1, h2⟩ | ⟨m', hm', ha⟩
      · simp [h]
      · simp [h1, h2]
      · rw [hm] at hm'; cases hm'; simp [ha]
    simp [this]

/-- a whole begin-block sweep keeps every invariant and is delta-exact (it only ever calls `GetAmountFromCollector`) -/
theorem activation_sweep_keeps_books {D : Nat → Int} (s : State) (gen2 : Bool) (keys : List (Nat × Nat)) (hL : LInv s) (hC : CInvD D s) :
    LInv (activate s gen2 keys) ∧ CInvD D (activate s gen2 keys) ∧ Delta s (activate s gen2 keys) :=
  activate_inv gen2 keys hL hC

/-- books of 12 000 000 with surplus threshold 10 000 000 and lot 2 000 000: exactly at the boundary the auction starts … -/
def actDemo (fees : Int) (eng : Bool) : State :=
  runSkip (init [2, 3] [1] [((1, 2), { surplusThr := 10000000, debtThr := 5000000, lot := 2000000, debtLot := 1 })])
    [.penalty 1 2 fees, .config (.amap 1 2 { surplus := true }), .config (.english 1 eng)]
example : fee (activate (actDemo 12000000 true) true [(1, 2)]) (1, 2) = 10000000 := by decide
example : Store.get (activate (actDemo 12000000 true) false [(1, 2)]).amap (1, 2) = some { surplus := true, active := true } := by decide
/-- … one unit below it does not … -/
example : activate (actDemo 11999999 true) true [(1, 2)] = actDemo 11999999 true := by decide
example : activate (actDemo 11999999 true) false [(1, 2)] = actDemo 11999999 true := by decide
/-- … and in the second generation, when English auctions are not activated for the app, the kick-off fails AFTER the lot has left the
collector; since fix 6f0df35 in /repo the unit is rolled back: nothing moves, the entry stays inactive, and later entries of the sweep
are still looked at (before the fix the lots piled up in `auctionV1`, one per block). -/
example : activate (activate (actDemo 14000000 false) true [(1, 2)]) true [(1, 2)] = actDemo 14000000 false := by decide

/-! ## first-generation surplus / debt auctions: every close path (x/auction/keeper/surplus.go, debt.go) -/

/-- **Every close path keeps the books and is exact**: winner, no bids, emergency shutdown with and without a standing bid, for
surplus and debt auctions alike — locker books untouched, collector custody ≥ Σ net fees per asset preserved (same shortfall `D`),
and per asset the recorded net fees move by exactly what entered or left the collector account. -/
theorem gen1_close_keeps_books {D : Nat → Int} (s s' : State) (a : Auc1) (esm : Bool) (hL : LInv s) (hC : CInvD D s)
    (h : closeAuc s a esm = some s') : LInv s' ∧ CInvD D s' ∧ Delta s s' :=
  closeAuc_inv hL hC h

/-- which record moves by how much, and which coins enter the collector, path by path:
the lot comes BACK to the collector and is recorded under the auction's own (app, asset) exactly when
 (surplus auction: no bid, or emergency shutdown with a standing bid — the bid is refunded)  or
 (debt auction: a winner and no shutdown — his payment is what arrives);
on every other path (surplus winner: lot to the winner, bid burnt; debt shutdown: payment refunded; debt without bids) no record
and no collector balance moves. -/
theorem gen1_close_collector_effect {D : Nat → Int} (s s' : State) (a : Auc1) (esm : Bool) (hL : LInv s) (hC : CInvD D s)
    (h : closeMoves s a esm = some s') :
    let back := (a.surplus = true ∧ (a.bidder = none ∨ esm = true)) ∨ (a.surplus = false ∧ a.bidder ≠ none ∧ esm = false)
    (back → fee s' (a.app, a.asset) = fee s (a.app, a.asset) + a.lot ∧
            bal s' .collector a.asset = bal s .collector a.asset + a.lot) ∧
    (¬ back → s'.fees = s.fees ∧ ∀ d, bal s' .collector d = bal s .collector d) := by
  unfold closeMoves at h
  simp only at h
  intro back
  cases hsur : a.surplus <;> cases hb : a.bidder <;> cases esm <;> simp only [hsur, hb] at h <;>
    simp only [back, hsur, hb] <;> simp
  all_goals first
    | (simp at h; subst h; exact ⟨rfl, fun _ => rfl⟩)
    | (obtain ⟨_, _, _, e1, e2⟩ := toCollector_inv hL hC h; exact ⟨e1, e2⟩)
    | (obtain ⟨_, _, _, e1, e2⟩ := toUser_inv hL hC h; exact ⟨e1, e2⟩)

/-- the whole first-generation begin-blocker (starts, restarts, closes of every entry) keeps the books and is exact -/
theorem gen1_begin_block_keeps_books {D : Nat → Int} (s : State) (now : Int) (keys : List (Nat × Nat)) (hL : LInv s) (hC : CInvD D s) :
    LInv (begin1Loop s s.amap now keys) ∧ CInvD D (begin1Loop s s.amap now keys) ∧ Delta s (begin1Loop s s.amap now keys) :=
  begin1Loop_inv s.amap now keys hL hC

/-- bids never touch the collector or the locker books -/
theorem gen1_bids_keep_books {D : Nat → Int} (s s' : State) (app id u : Nat) (x e now : Int) (hL : LInv s) (hC : CInvD D s)
    (h : surplusBid s app id u x now = some s' ∨ debtBid s app id u x e now = some s') : LInv s' ∧ CInvD D s' ∧ Delta s s' := by
  rcases h with h | h
  · exact surplusBid_inv hL hC h
  · exact debtBid_inv hL hC h

/-- a surplus auction of lot 2 000 000 starts at the boundary, gets a bid, the app is shut down, the begin-blocker winds it down:
the lot is back in the collector AND recorded under the sold asset (record = custody = 12 000 000 again), the entry is inactive,
no auction is left -/
def windDown : State :=
  runSkip ({ init [2, 3] [1] [((1, 2), { surplusThr := 10000000, debtThr := 5000000, lot := 2000000, debtLot := 1 })] with aucDur := 1000, bidDur := 100 })
    [.penalty 1 2 12000000, .config (.amap 1 2 { surplus := true }), .begin1 50 [(1, 2)], .surplusBid 1 1 7 5 60,
     .config (.esm 1 true), .begin1 70 [(1, 2)]]
example : fee windDown (1, 2) = 12000000 ∧ bal windDown .collector 2 = 12000000 ∧ fee windDown (1, 3) = 0 ∧
    windDown.auctions = [] ∧ Store.get windDown.amap (1, 2) = some { surplus := true } := by decide
/-- without the shutdown the same auction ends with its winner: the lot leaves to user 7, the collector keeps 10 000 000 = record -/
example :
    let s := runSkip ({ init [2, 3] [1] [((1, 2), { surplusThr := 10000000, debtThr := 5000000, lot := 2000000, debtLot := 1 })] with aucDur := 1000, bidDur := 100 })
      [.penalty 1 2 12000000, .config (.amap 1 2 { surplus := true }), .begin1 50 [(1, 2)], .surplusBid 1 1 7 5 60, .begin1 170 [(1, 2)]]
    fee s (1, 2) = 10000000 ∧ bal s .collector 2 = 10000000 ∧ bal s (.user 7) 2 = 2000000 ∧ s.auctions = [] := by decide

/-! ## emergency shutdown and kill switch: the first guards of the locker messages -/

/-- **Guard on ⇒ rejected, nothing changes**: after an emergency shutdown of the app, or with its kill switch on, creating a locker,
depositing into one and whitelisting an asset are rejected (`none`: the books are untouched), with or without the reward computed
in the model, for every state and every argument. -/
theorem shutdown_blocks_create_deposit_whitelist (s : State) (app : Nat) (h : app ∈ s.esmOn ∨ app ∈ s.killOn)
    (u asset id : Nat) (amt : Int) (rw : Rw) (ctx : Ctx) (pw : Option Int) :
    step s (.create u app asset amt) = none ∧ step s (.deposit u app asset id amt rw) = none ∧
    step s (.whitelist app asset) = none ∧
    stepT s ctx (.create u app asset amt) = none ∧ stepT s ctx (.deposit u app asset id amt pw) = none := by
  have hc : step s (.create u app asset amt) = none := by
    simp only [step]; rcases h with h | h <;> simp [h]
  have hd : ∀ rw, step s (.deposit u app asset id amt rw) = none := by
    intro rw; simp only [step]; rcases h with h | h <;> simp [h]
  have hw : step s (.whitelist app asset) = none := by
    simp only [step]; rcases h with h | h <;> simp [h]
  refine ⟨hc, hd rw, hw, ?_, ?_⟩
  · simp [stepT, hc]
  · simp [stepT, hd]

/-- a rejected message leaves the history's state unchanged -/
theorem rejected_is_noop (s : State) (op : Op) (ops : List Op) (h : step s op = none) : runSkip s (op :: ops) = runSkip s ops := by
  simp [runSkip, h]

/-- withdraw and close carry NO such guard (msg_server.go:218-371): savers can leave after a shutdown -/
example :
    let s := runSkip (init [2] [1] [((1, 2), {})]) [.fund 7 2 1000, .whitelist 1 2, .create 7 1 2 400, .config (.esm 1 true), .config (.kill 1 true)]
    step s (.deposit 7 1 2 1 5 .none) = none ∧ (step s (.withdraw 7 1 2 1 100 .none)).isSome = true ∧
    (step s (.close 7 1 2 1 .none)).isSome = true := by decide

/-! ## non-vacuity: concrete histories on which the hypotheses hold and the interesting branches fire -/

/-- a history with a funded user, a whitelisted asset, a locker created, a fee paid in, a reward of 3 paid on withdraw, a close -/
def demo : List Op :=
  [.fund 7 2 1000, .whitelist 1 2, .create 7 1 2 400, .feeVault 1 2 50, .withdraw 7 1 2 1 100 (.pay 3),
   .deposit 7 1 2 1 10 .none, .rewardCalc 1 1 (.pay 5), .lsrChange 1 2 [.pay 2], .getAmount 1 2 4]

example : ExtOk demo ∧ NoV2Close demo := by
  refine ⟨?_, ?_⟩ <;> intro op hop <;> simp [demo] at hop <;>
    rcases hop with e | e | e | e | e | e | e | e | e <;> subst e <;> simp [Op.extOk, Op.isV2Close, Rw.ok]

/-- every op of `demo` is accepted, the locker ends with 400 − 100 + 3 + 10 + 5 + 2 = 320, the net fees with 50 − 3 − 5 − 2 − 4 = 36 -/
example : (run (init [2] [1] [((1, 2), {})]) demo).isSome = true := by decide
example : dep (runSkip (init [2] [1] [((1, 2), {})]) demo) (1, 2) = 320 := by decide
example : fee (runSkip (init [2] [1] [((1, 2), {})]) demo) (1, 2) = 36 := by decide
example : bal (runSkip (init [2] [1] [((1, 2), {})]) demo) .collector 2 = 36 := by decide
example : bal (runSkip (init [2] [1] [((1, 2), {})]) demo) .locker 2 = 320 := by decide
example : bal (runSkip (init [2] [1] [((1, 2), {})]) demo) (.user 7) 2 = 690 := by decide
/-- the close pays the full 320 -/
example : bal (runSkip (init [2] [1] [((1, 2), {})]) (demo ++ [.close 7 1 2 1 .none])) (.user 7) 2 = 1010 := by decide
/-- a withdrawal above the balance, a foreign owner and a zero amount are rejected -/
example : step (runSkip (init [2] [1] [((1, 2), {})]) demo) (.withdraw 7 1 2 1 321 .none) = none := by decide
example : step (runSkip (init [2] [1] [((1, 2), {})]) demo) (.withdraw 8 1 2 1 1 .none) = none := by decide
example : step (runSkip (init [2] [1] [((1, 2), {})]) demo) (.deposit 7 1 2 1 0 .none) = none := by decide
/-- a reward larger than the recorded net fees makes the whole message fail -/
example : step (runSkip (init [2] [1] [((1, 2), {})]) demo) (.withdraw 7 1 2 1 1 (.pay 37)) = none := by decide
/-- `GetAmountFromCollector` refuses to empty the record (strict comparison) -/
example : step (runSkip (init [2] [1] [((1, 2), {})]) demo) (.getAmount 1 2 36) = none := by decide
example : (step (runSkip (init [2] [1] [((1, 2), {})]) demo) (.getAmount 1 2 35)).isSome = true := by decide

end Comdex.C13
