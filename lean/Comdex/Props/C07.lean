import Comdex.Lemmas.LiqOrders
import Comdex.Lemmas.LiqAmmBridge
import Comdex.Lemmas.LiqIndex
import Comdex.Lemmas.LiqFee
/-!
# C07 — Every order is settled exactly: fills, refunds and swap fees add up

Model: `Comdex.LiqLedger` (shared with C04).  Each order carries a ghost ledger (`taken`, `refunded`, `feeFwd`) that
is written only where the corresponding coins move; the step theorems tie it to the bank.  Order lookup is keyed by
`(appId, pairId, id)` as in `store.go`; `Cfg.swapLookup` selects between swap.go:559 as it stands
(`GetOrder(ctx, pair.Id, appID, id)`) and the repaired call.

Property clause → theorem
* "the coins taken from an orderer equal the offer coin plus the swap-fee reserve"
      → `placement_takes_exactly` (bank movement of the placing message), `taken_eq_offer_plus_fee` (every order, any history)
* "what the orderer gets back in total equals the demand coins of its fills plus the unspent offer coin plus the part of the
  fee reserve not attributable to the executed portion"
      → `finish_moves_exactly` (what `FinishOrder` pays to whom), `fill_pays_demand_coins` (each fill's demand coins go to
        the owner), `terminated_settled` (ledger of every ended order, any history)
* (swap fee at batch execution and in every message, end to end)
      → `fee_collector_exact` (every operation: the pair's swap-fee collector grows by exactly the fee on the executed portions of
        the orders of that pair that ended in the step), `pruning_moves_nothing`, `ended_order_accounts` (escrow out = refund to
        the owner + fee to the collector = remaining + reserve, in balances of a reachable state)
* "nothing of a terminated order remains in escrow"
      → `terminated_settled` (taken = spent + refunded + forwarded) with `escrow_holds_only_live_orders`
* "an order that is not in its placement batch can always be cancelled by its owner"
      → `cancellable_after_batch` (hypothesis: the match results of THAT pair lost nothing, `lostOf a p ops = 0`),
        `lostOf_zero_of_modelled` (proved for lossless runs of C05's modelled matcher), `cancellable_after_batch_of_conserving`
* "every way of ending (… cancel-all …)" + "can always be cancelled by its owner", for `MsgCancelAllOrders`
      → `cancel_all_cancels_every_old_order` (every live order of the owner in the named pairs — all pairs of the app if none is
        named — that is not in its placement batch is ended, in EVERY pair and whatever the order of pair ids; orders still in
        their placement batch are left exactly as they were)
* "cancelling or replacing market-making orders cancels and refunds every previously placed market-making order of that
  owner in that pair — for every combination of app id and pair id"
      → `mm_index_complete` (INDUCTIVE INVARIANT over every history — placement, fills, expiry, cancel, cancel-all, MM cancel,
          MM replace, begin-block pruning: every live market-making order is in its owner's index for the (app, pair)) with
          `order_keys_unique` (order keys are unique; ids never re-used),
        `mm_cancel_cancels_all`, `mm_replace_cancels_all` (repaired lookup, all app / pair ids, reachable states, NO premise
          about the index: after the accepted message NO market-making order of the owner in the pair is live, none has
          disappeared, each is settled with refund = unspent offer; the replace appends the new ones),
        `mm_cancel_cancels_indexed` (any state: every order listed in the index is ended),
        `mm_cancel_cancels_all_counterexample` (the lookup as it stands in swap.go:559: app 2 / pair 1 — defect D4)
* (round 5, seed s87) the registered store migration 1 → 2 (`Migrator.Migrate1to2`, legacy/v2/store.go) is an operation of the
  model (`Op.migrate`): `migration_preserves_orders` (identity on bank, pairs, requests, indexes, farmers and on every field of
  every order except its type; fee reserves unchanged); the ledger invariant and the index invariant are preserved
  (`migrate_inv`, `idx_migrate`), so every theorem here covers histories with migrations
* (round 5) the order price, the tick grid, the price limits around the pair's last price, `MMOrderTicks` and the offer / demand
  denom checks are part of the model (`orderPrice`, `mmTicks`, `placeOrderMsg`, `mmOrderMsg`): `placement_takes_exactly` states
  the recorded price as `orderPrice` of the message price
-/
namespace Comdex.C07
open Comdex.LiqLedger

def after (cfg : Cfg) (funds : List (Nat × Nat × Nat)) (ops : List Op) : State := runT cfg (genesis funds) ops

theorem reachable_inv {cfg : Cfg} (hc : CfgOk cfg) (funds : List (Nat × Nat × Nat)) (ops : List Op) :
    Inv cfg (after cfg funds ops) :=
  runT_inv hc ops _ (genesis_inv cfg funds)

/-- **Placement takes exactly offer + fee reserve**: a successful limit / market order moves exactly
`offer + ⌊offer·feeRate⌋` of the offer denom from the orderer to the pair's escrow, and records exactly that. -/
theorem placement_takes_exactly {cfg : Cfg} {s s' : State} {app user pair : Nat} {typ : OType} {buy : Bool} {od dd : Denom}
    {msgOffer msgPrice amount : Nat} {lifespan : Int}
    (h : step cfg s (.order app user pair typ buy od dd msgOffer msgPrice amount lifespan) = some s') :
    ∃ p ac o price, s.pair? app pair = some p ∧ cfg.app? app = some ac ∧ orderPrice ac p typ buy msgPrice = some price ∧
      s'.orders = s.orders ++ [o] ∧ o.app = app ∧ o.pair = pair ∧ o.owner = user ∧ o.od = sideIn p buy ∧ o.od = od ∧
      o.offer = offerAmt buy price amount ∧ o.remaining = o.offer ∧ o.status = .notExecuted ∧ o.batch = p.curBatch ∧
      o.taken = o.offer + feeOf ac.feeRate o.offer ∧
      s.bal (.user user) o.od = s'.bal (.user user) o.od + o.taken ∧
      s'.bal (.pairEscrow app pair) o.od = s.bal (.pairEscrow app pair) o.od + o.taken :=
  placeOrderMsg_takes h

/-- **Taken = offer + fee reserve**, for every order in every reachable state (the reserve of a market-making order
is zero: swap.go:377 escrows the offer coins only). -/
theorem taken_eq_offer_plus_fee {cfg : Cfg} (hc : CfgOk cfg) (funds : List (Nat × Nat × Nat)) (ops : List Op) :
    ∀ o ∈ (after cfg funds ops).orders, o.taken = o.offer + feeRes (rateOf cfg o.app) o :=
  fun o ho => ((reachable_inv hc funds ops).ords o ho).1

/-- **What `FinishOrder` moves**: ending a live order pays the owner exactly the unspent offer coin plus the part of the
fee reserve not attributable to the executed portion, forwards exactly the fee on the executed portion to the pair's
swap-fee collector, and the escrow gives up exactly remaining + reserve. -/
theorem finish_moves_exactly {cfg : Cfg} {s s' : State} {k : OKey} {st : OStatus} {o : Order}
    (hi : Inv cfg s) (ho : s.order? k = some o) (hl : o.status.live = true) (h : finishOrder cfg s k st = some s') :
    s'.bal (.user o.owner) o.od =
      s.bal (.user o.owner) o.od + (o.remaining + (feeRes (rateOf cfg o.app) o - fwdSpec (rateOf cfg o.app) o)) ∧
    s'.bal (.swapFee o.app o.pair) o.od = s.bal (.swapFee o.app o.pair) o.od + fwdSpec (rateOf cfg o.app) o ∧
    s'.bal (.pairEscrow o.app o.pair) o.od + (o.remaining + feeRes (rateOf cfg o.app) o) = s.bal (.pairEscrow o.app o.pair) o.od :=
  finishOrder_moves ho hl (hi.ords o (order?_some ho).1).2.1 h

/-- **Demand coins of a fill go to the owner.** -/
theorem fill_pays_demand_coins {p : Pair} {s s' : State} {f : Fill} {o : Order}
    (ho : s.order? (p.app, p.id, f.id) = some o) (h : fillPayOut p s f = some s') :
    s'.bal (.user o.owner) (sideOut p f.buy) = s.bal (.user o.owner) (sideOut p f.buy) + f.recv := by
  unfold fillPayOut at h
  simp only [ho] at h
  split at h; · cases h
  rename_i s1 h1
  cases h
  obtain ⟨-, -, b1⟩ := State.send_some (by simp) h1
  rw [State.bal_credit]
  simp only [reduceCtorEq, false_and, if_false]
  rw [b1]; simp

/-- **Settled at termination**: in every reachable state every ended order (completed, cancelled, expired) has been
refunded exactly `remaining + (reserve − fee on the executed part)`, has forwarded exactly the fee on the executed part,
and nothing of what was taken is unaccounted for: taken = executed + refunded + forwarded. -/
theorem terminated_settled {cfg : Cfg} (hc : CfgOk cfg) (funds : List (Nat × Nat × Nat)) (ops : List Op) :
    ∀ o ∈ (after cfg funds ops).orders, o.status.live = false →
      o.refunded = o.remaining + (feeRes (rateOf cfg o.app) o - fwdSpec (rateOf cfg o.app) o) ∧
      o.feeFwd = fwdSpec (rateOf cfg o.app) o ∧
      o.taken = (o.offer - o.remaining) + o.refunded + o.feeFwd := by
  intro o ho hl
  obtain ⟨ht, hle, -, hterm⟩ := (reachable_inv hc funds ops).ords o ho
  obtain ⟨hr, hf⟩ := hterm hl
  refine ⟨hr, hf, ?_⟩
  have := fwdSpec_le (rateOf cfg o.app) o
  rw [ht, hr, hf]; omega

/-- **Nothing of an ended order remains in escrow**: the escrow of a pair equals the claims of its *live* orders
(remaining + reserve) plus the net of what matching took in and handed out — ended orders contribute nothing. -/
theorem escrow_holds_only_live_orders {cfg : Cfg} (hc : CfgOk cfg) (funds : List (Nat × Nat × Nat)) (ops : List Op)
    (a p : Nat) (d : Denom) :
    (after cfg funds ops).bal (.pairEscrow a p) d + (after cfg funds ops).bal (.mOut a p) d =
      liveSum cfg a p d (after cfg funds ops).orders + (after cfg funds ops).bal (.mIn a p) d :=
  (reachable_inv hc funds ops).pairEsc a p d

/-- **Cancellable after the placement batch**: in every state reached by a history in which the match results *of that
pair* lost nothing (`lostOf a p ops = 0`; other pairs and apps are unconstrained), the owner's `MsgCancelOrder` for a live
order placed in an earlier batch succeeds, the order becomes cancelled and the owner receives the refund. -/
theorem cancellable_after_batch {cfg : Cfg} (hc : CfgOk cfg) (funds : List (Nat × Nat × Nat)) (ops : List Op)
    {a u p i : Nat} (hlost : lostOf a p ops = 0) {o : Order} {pp : Pair} {ac : AppCfg}
    (hp0 : p ≠ 0) (hi0 : i ≠ 0) (hac : cfg.app? a = some ac)
    (ho : (after cfg funds ops).order? (a, p, i) = some o) (hown : o.owner = u) (hl : o.status.live = true)
    (hpp : (after cfg funds ops).pair? a p = some pp) (hb : o.batch ≠ pp.curBatch) :
    ∃ s', step cfg (after cfg funds ops) (.cancel a u p i) = some s' ∧
      (∀ o', s'.order? (a, p, i) = some o' → o'.status = .canceled) ∧
      s'.bal (.user u) o.od = (after cfg funds ops).bal (.user u) o.od + (o.remaining + (feeRes ac.feeRate o - fwdSpec ac.feeRate o)) := by
  have hs : ∀ d, (after cfg funds ops).bal (.mOut a p) d ≤ (after cfg funds ops).bal (.mIn a p) d := by
    intro d
    have h0 : (genesis funds).bal (.mOut a p) d ≤ (genesis funds).bal (.mIn a p) d + 0 := by
      rw [genesis_bal _ _ _ (by simp), genesis_bal _ _ _ (by simp)]
    have := runT_slack (cfg := cfg) a p d ops (genesis funds) 0 h0
    rw [hlost] at this
    unfold after; omega
  exact cancelOrder_succeeds (reachable_inv hc funds ops) hs hp0 hi0 hac ho hown hl hpp hb

/-- the same from the conservation law on all observed match results -/
theorem cancellable_after_batch_of_conserving {cfg : Cfg} (hc : CfgOk cfg) (funds : List (Nat × Nat × Nat)) (ops : List Op)
    (hcons : ∀ op ∈ ops, OpConserving op) {a u p i : Nat} {o : Order} {pp : Pair} {ac : AppCfg}
    (hp0 : p ≠ 0) (hi0 : i ≠ 0) (hac : cfg.app? a = some ac)
    (ho : (after cfg funds ops).order? (a, p, i) = some o) (hown : o.owner = u) (hl : o.status.live = true)
    (hpp : (after cfg funds ops).pair? a p = some pp) (hb : o.batch ≠ pp.curBatch) :
    ∃ s', step cfg (after cfg funds ops) (.cancel a u p i) = some s' ∧
      (∀ o', s'.order? (a, p, i) = some o' → o'.status = .canceled) ∧
      s'.bal (.user u) o.od = (after cfg funds ops).bal (.user u) o.od + (o.remaining + (feeRes ac.feeRate o - fwdSpec ac.feeRate o)) :=
  cancellable_after_batch hc funds ops (lostOf_zero_of_conserving a p ops hcons) hp0 hi0 hac ho hown hl hpp hb

/-- a lossless run of the modelled matcher (C05) with non-negative dust loses nothing: for histories whose match results
are such runs, `lostOf = 0` is PROVED, not assumed -/
theorem lostOf_zero_of_modelled (a p : Nat) (ops : List Op)
    (hm : ∀ a' ms ds ws, Op.endBlock a' ms ds ws ∈ ops → ∀ m ∈ ms,
      ∃ (b b' : Amm.Book) (lp mp q : Int), LiqBridge.ModelledRun b lp b' mp q ∧ 0 ≤ q ∧ Amm.matchLossless b lp = true ∧
        m = LiqBridge.matchInOf m.pair b b' q) :
    lostOf a p ops = 0 := by
  apply lostOf_zero_of_conserving
  intro op hop
  cases op <;> try trivial
  rename_i a' ms ds ws
  intro m hmm
  obtain ⟨b, b', lp, mp, q, hr, hq, hl, he⟩ := hm a' ms ds ws hop m hmm
  rw [he]; exact LiqBridge.modelled_conserving hr hq hl m.pair

/-- **`MsgCancelAllOrders` cancels every old order it addresses and nothing else of the owner's**: after a successful
cancel-all, for every order `o` stored under a key `k`: if `o` belongs to the sender, lies in the message's app and in one of
the named pairs (any pair when the list is empty), is live and was placed in an earlier batch of its pair, then the order under
`k` is ended (and refunded: `finish_moves_exactly`, `terminated_settled`); if `o` is still in its placement batch it is
untouched.  No assumption on pair ids or on the position of the order in any index. -/
theorem cancel_all_cancels_every_old_order {cfg : Cfg} {s s' : State} {app user : Nat} {pairs : List Nat}
    (h : step cfg s (.cancelAll app user pairs) = some s') (k : OKey) (o : Order) (pp : Pair)
    (ho : s.order? k = some o) (hp : s.pair? app o.pair = some pp) :
    (o.app = app ∧ o.owner = user ∧ (pairs = [] ∨ o.pair ∈ pairs) → o.status.live = true → o.batch < pp.curBatch →
      ∀ o', s'.order? k = some o' → o'.status.live = false) ∧
    (¬ o.batch < pp.curBatch → s'.order? k = some o) :=
  cancelAll_all h k o pp ho hp

/-! ### the swap-fee collector -/

/-- **The swap-fee collector of a pair, every message and every block hook**: for every operation other than the begin-block
pruning, the balance of the pair's swap-fee collector in denom `d` plus the fee attributable to the executed portions of the
orders that were ALREADY ended before = its balance before plus that of the orders ended after — it grows by exactly
`Σ ⌊executed·feeRate⌋` over the orders of the pair (offer denom `d`) that ended in this step: cancels, cancel-all, MM cancel /
replace, and at batch execution the expiry pre-pass, completed fills and the expiry / too-small sweep.  Partially filled
orders that stay live forward nothing (their whole reserve stays in escrow: `escrow_holds_only_live_orders`). -/
theorem fee_collector_exact (cfg : Cfg) (s : State) (op : Op) (a p : Nat) (d : Denom) (hop : ∀ x, op ≠ .beginBlock x) :
    (stepT cfg s op).bal (.swapFee a p) d + fwdSum cfg a p d s.orders =
      s.bal (.swapFee a p) d + fwdSum cfg a p d (stepT cfg s op).orders := by
  unfold stepT
  cases hs : step cfg s op with
  | none => simp
  | some s' => simp only [Option.getD_some]; exact step_feeEq a p d hop hs

/-- the begin-block pruning moves no coin at all (it deletes ended orders and executed requests) -/
theorem pruning_moves_nothing (cfg : Cfg) (s : State) (app : Nat) : (stepT cfg s (.beginBlock app)).bank = s.bank := rfl

/-- **End to end for one ended order, against the account balances**: when a live order of a reachable state is ended, the
escrow gives up exactly remaining + reserve, of which exactly `⌊executed·rate⌋` reaches the swap-fee collector and exactly
the rest — the unspent offer coin plus the part of the reserve not attributable to the executed portion — reaches the owner;
`taken = executed + that refund + that fee`. -/
theorem ended_order_accounts {cfg : Cfg} (hc : CfgOk cfg) (funds : List (Nat × Nat × Nat)) (ops : List Op)
    {k : OKey} {st : OStatus} {o : Order} {s' : State}
    (ho : (after cfg funds ops).order? k = some o) (hl : o.status.live = true)
    (h : finishOrder cfg (after cfg funds ops) k st = some s') :
    let r := rateOf cfg o.app
    let refund := o.remaining + (feeRes r o - fwdSpec r o)
    s'.bal (.user o.owner) o.od = (after cfg funds ops).bal (.user o.owner) o.od + refund ∧
    s'.bal (.swapFee o.app o.pair) o.od = (after cfg funds ops).bal (.swapFee o.app o.pair) o.od + fwdSpec r o ∧
    s'.bal (.pairEscrow o.app o.pair) o.od + refund + fwdSpec r o = (after cfg funds ops).bal (.pairEscrow o.app o.pair) o.od ∧
    o.taken = (o.offer - o.remaining) + refund + fwdSpec r o := by
  have hi := reachable_inv hc funds ops
  obtain ⟨m1, m2, m3⟩ := finish_moves_exactly hi ho hl h
  obtain ⟨ht, hle, -, -⟩ := hi.ords o (order?_some ho).1
  have := fwdSpec_le (rateOf cfg o.app) o
  refine ⟨m1, m2, ?_, ?_⟩
  · omega
  · rw [ht]; omega

/-! ### index completeness as an inductive invariant, and what it gives for `MsgCancelMMOrder` / `MsgMMOrder` -/

theorem reachable_idx {cfg : Cfg} (hsw : cfg.swapLookup = false) (funds : List (Nat × Nat × Nat)) (ops : List Op) :
    IdxInv (after cfg funds ops) :=
  runT_idx hsw ops _ (genesis_idx funds)

/-- **Order keys are unique** in every reachable state: the store lookup `(appId, pairId, id)` of an order's key returns
that very order (ids are allotted by the pair's counter and never re-used, also after begin-block pruning). -/
theorem order_keys_unique {cfg : Cfg} (hsw : cfg.swapLookup = false) (funds : List (Nat × Nat × Nat)) (ops : List Op) :
    ((after cfg funds ops).orders.map Order.key).Nodup ∧
    ∀ o ∈ (after cfg funds ops).orders, (after cfg funds ops).order? o.key = some o :=
  ⟨(reachable_idx hsw funds ops).uniq, fun _ ho => (reachable_idx hsw funds ops).lookup ho⟩

/-- **Index completeness** (every history: placement, fills, expiry, cancel, cancel-all, MM cancel, MM replace, begin-block
pruning, …): every LIVE market-making order is listed in the market-making index of its owner for its (app, pair). -/
theorem mm_index_complete {cfg : Cfg} (hsw : cfg.swapLookup = false) (funds : List (Nat × Nat × Nat)) (ops : List Op) :
    ∀ o ∈ (after cfg funds ops).orders, o.typ = .mm → o.status.live = true →
      ∃ idx, findBy (isMM o.app o.pair o.owner) (after cfg funds ops).mm = some idx ∧ o.id ∈ idx.ids :=
  (reachable_idx hsw funds ops).complete

/-- **MsgCancelMMOrder cancels EVERY market-making order of the owner in the pair** (repaired lookup; every app id and pair id;
NO premise about the index): in every reachable state, after an accepted `MsgCancelMMOrder(app, user, pair)` no order has
disappeared, no market-making order of that owner in that (app, pair) is live any more, each of them carries its settlement
(refund = unspent offer, `terminated_settled`'s formula), and the index entry is gone. -/
theorem mm_cancel_cancels_all {cfg : Cfg} (hc : CfgOk cfg) (hsw : cfg.swapLookup = false) (funds : List (Nat × Nat × Nat))
    (ops : List Op) {s' : State} {app user pair : Nat}
    (h : step cfg (after cfg funds ops) (.cancelMM app user pair) = some s') :
    s'.orders.map Order.key = (after cfg funds ops).orders.map Order.key ∧
    (∀ o ∈ s'.orders, o.app = app → o.pair = pair → o.owner = user → o.typ = .mm →
      o.status.live = false ∧ o.refunded = o.remaining ∧ o.feeFwd = 0) ∧
    findBy (isMM app pair user) s'.mm = none := by
  have hi := reachable_idx hsw funds ops
  have hinv : Inv cfg s' := step_inv hc (reachable_inv hc funds ops) h
  simp only [step] at h
  unfold cancelMM at h
  split at h; · cases h
  split at h; · cases h
  rename_i p hp
  obtain ⟨-, -, hpi⟩ := pair?_some hp
  obtain ⟨-, b, c⟩ := idx_cancelMMCore hsw hi h
  rw [hpi] at b c
  refine ⟨keys_cancelMMCore h, ?_, c⟩
  intro o ho e1 e2 e3 ht
  have hl := b o ho e1 e2 e3 ht
  obtain ⟨-, -, -, hterm⟩ := hinv.ords o ho
  obtain ⟨hr, hf⟩ := hterm hl
  simp only [feeRes, fwdSpec, ht, if_true, Nat.sub_zero, Nat.add_zero] at hr hf
  exact ⟨hl, hr, hf⟩

/-- **MsgMMOrder (replace) cancels EVERY previous market-making order of the owner in the pair** (repaired lookup, NO premise
about the index): the accepted message's result is `s1.orders ++ new` where `s1` holds exactly the orders that were there before
(same keys), none of the owner's market-making orders in the pair is live in `s1`, and `new` are the freshly placed ones. -/
theorem mm_replace_cancels_all {cfg : Cfg} (hsw : cfg.swapLookup = false) (funds : List (Nat × Nat × Nat)) (ops : List Op)
    {s' : State} {app user pair : Nat} {maxSell minSell sellAmt maxBuy minBuy buyAmt : Nat} {lifespan : Int}
    (h : step cfg (after cfg funds ops) (.mmOrder app user pair maxSell minSell sellAmt maxBuy minBuy buyAmt lifespan) = some s') :
    ∃ (s1 : State) (new : List Order), s'.orders = s1.orders ++ new ∧
      s1.orders.map Order.key = (after cfg funds ops).orders.map Order.key ∧
      (∀ o ∈ s1.orders, o.app = app → o.pair = pair → o.owner = user → o.typ = .mm → o.status.live = false) ∧
      (∀ o ∈ new, o.status = .notExecuted ∧ o.typ = .mm ∧ o.owner = user ∧ o.app = app ∧ o.pair = pair) := by
  have hi := reachable_idx hsw funds ops
  simp only [step] at h
  obtain ⟨buys, sells, h⟩ := mmOrderMsg_core h
  obtain ⟨p, s1, new, hp, hc1, ho, hn⟩ := mmOrder_split h
  obtain ⟨-, -, hpi⟩ := pair?_some hp
  obtain ⟨-, b, -⟩ := idx_cancelMMCore hsw hi hc1
  rw [hpi] at b
  exact ⟨s1, new, ho, keys_cancelMMCore hc1, b, hn⟩

/-- the index-relative form (any state, not only reachable ones): every order listed in the owner's index is ended -/
theorem mm_cancel_cancels_indexed {cfg : Cfg} (hsw : cfg.swapLookup = false) {s s' : State} {app user pair : Nat} {idx : MMIndex}
    (hidx : findBy (isMM app pair user) s.mm = some idx) (h : step cfg s (.cancelMM app user pair) = some s') :
    (∀ i ∈ idx.ids, ∀ o, s'.order? (app, pair, i) = some o → o.status.live = false) ∧
    findBy (isMM app pair user) s'.mm = none := by
  simp only [step] at h
  unfold cancelMM at h
  split at h; · cases h
  split at h; · cases h
  rename_i p hp
  obtain ⟨-, -, hpi⟩ := pair?_some hp
  rw [← hpi] at hidx ⊢
  exact cancelMMCore_all hsw hidx h

/-! ### the store migration 1 → 2 (`Migrator.Migrate1to2`) -/

/-- everything of an order record except its type -/
def orderAmounts (o : Order) :=
  (o.key, o.owner, o.buy, o.od, o.dd, o.price, o.amount, o.openAmt, o.offer, o.remaining, o.received, o.status, o.batch, o.expireAt,
   o.taken, o.refunded, o.feeFwd)

/-- **The store migration is the identity on what the property speaks about**: no coin moves, pairs / requests / MM indexes /
farmers are untouched, every order keeps its key, owner, offer coin, REMAINING offer coin, received coin, open amount, status,
batch and expiry and its fee reserve; only the order type is rewritten (`market` becomes `limit` — same fee rule), and pool
records keep everything but the `ranged` flag.  With `step_inv` (`reachable_inv`) every theorem of this file holds for
histories that contain migrations: an order that is partially filled, lives through the migration and is cancelled / expires
afterwards is settled by `terminated_settled`'s formula. -/
theorem migration_preserves_orders {cfg : Cfg} {s s' : State} (h : step cfg s .migrate = some s') :
    s'.bank = s.bank ∧ s'.pairs = s.pairs ∧ s'.deps = s.deps ∧ s'.wdrs = s.wdrs ∧ s'.mm = s.mm ∧ s'.farmers = s.farmers ∧
    s'.orders.map orderAmounts = s.orders.map orderAmounts ∧
    (∀ r, s'.orders.map (feeRes r) = s.orders.map (feeRes r)) ∧
    s'.pools.map (fun q => (q.app, q.id, q.pair, q.disabled, q.ps, q.lastDep, q.lastWdr)) =
      s.pools.map (fun q => (q.app, q.id, q.pair, q.disabled, q.ps, q.lastDep, q.lastWdr)) := by
  simp only [step] at h
  unfold migrate at h
  split at h
  · rename_i hv
    cases h
    obtain ⟨hty, -, -⟩ := hv
    refine ⟨rfl, rfl, rfl, rfl, rfl, rfl, ?_, ?_, ?_⟩
    · show (s.orders.map _).map orderAmounts = _
      rw [List.map_map]
      apply List.map_congr_left
      intro o _
      simp only [Function.comp]
      split <;> rfl
    · intro r
      show (s.orders.map _).map (feeRes r) = _
      rw [List.map_map]
      apply List.map_congr_left
      intro o ho
      simp only [Function.comp]
      split
      · simp [feeRes, hty o ho]
      · rfl
    · show (s.pools.map _).map _ = _
      rw [List.map_map]
      apply List.map_congr_left
      intro q _
      simp only [Function.comp]
      split <;> rfl
  · cases h

/-! ### Defect D4: with the lookup as it stands in swap.go:559 the claim is false for app id ≠ pair id -/

def cfgD4 (swapped : Bool) : Cfg :=
  { apps := [{ app := 1, feeRate := 3000000000000000, batchSize := 1, maxLifespan := 86400, pairFee := 5, poolFee := 5,
               minInitDeposit := 10, minInitSupply := 1000, maxPools := 20 },
             { app := 2, feeRate := 3000000000000000, batchSize := 1, maxLifespan := 86400, pairFee := 5, poolFee := 5,
               minInitDeposit := 10, minInitSupply := 1000, maxPools := 20 }],
    swapLookup := swapped, queueDur := 86400 }

def fundsD4 : List (Nat × Nat × Nat) := [(0, 0, 100), (1, 1, 10000000), (1, 2, 10000000), (2, 2, 10000000)]

/-- app 2 / pair 1: a market-making order of two ticks by user 1; a stranger's (user 2) limit order under the mirrored key
(app 1, pair 2, id 1); next batch; user 1 sends MsgCancelMMOrder -/
def opsD4 : List Op :=
  [ .block 1 100,
    .createPair 2 0 (.coin 1) (.coin 2) true,
    .createPair 1 0 (.coin 1) (.coin 2) true,
    .createPair 1 0 (.coin 2) (.coin 3) true,
    .mmOrder 2 1 1 1100000000000000000 1100000000000000000 1000000 900000000000000000 900000000000000000 1000000 3600,
    .order 1 2 2 .limit false (.coin 2) (.coin 3) 2000000 1000000000000000000 1000000 3600,
    .endBlock 1 [] [] [], .endBlock 2 [] [] [],
    .block 2 105,
    .cancelMM 2 1 1 ]

/-- The message succeeds (the index is deleted), yet both indexed orders are still live, and the stranger's order in
(app 1, pair 2) has been cancelled instead. -/
theorem mm_cancel_cancels_all_counterexample :
    let s := after (cfgD4 true) fundsD4 opsD4
    s.mm = [] ∧
    (s.orders.filter (fun o => o.app == 2 && o.pair == 1)).map (fun o => (o.id, o.status)) = [(1, .notMatched), (2, .notMatched)] ∧
    (s.orders.filter (fun o => o.app == 1 && o.pair == 2)).map (fun o => (o.id, o.owner, o.status)) = [(1, 2, .canceled)] := by
  decide +kernel

/-- the same history with the repaired lookup: both orders cancelled, the stranger's order untouched -/
example :
    let s := after (cfgD4 false) fundsD4 opsD4
    s.mm = [] ∧
    (s.orders.filter (fun o => o.app == 2 && o.pair == 1)).map (fun o => (o.id, o.status)) = [(1, .canceled), (2, .canceled)] ∧
    (s.orders.filter (fun o => o.app == 1 && o.pair == 2)).map (fun o => (o.id, o.owner, o.status)) = [(1, 2, .notMatched)] := by
  decide +kernel

/-- non-vacuity of `mm_index_complete` / `mm_cancel_cancels_all` / `order_keys_unique`: before the cancel both market-making
orders of user 1 in (app 2, pair 1) are live and listed in the index, the stranger's order has the mirrored key, the message is
accepted -/
example :
    let s := after (cfgD4 false) fundsD4 opsD4.dropLast
    (s.orders.filter (fun o => o.typ == .mm && o.status.live)).map (fun o => (o.key, o.owner)) = [((2, 1, 1), 1), ((2, 1, 2), 1)] ∧
    s.mm.map (fun x => (x.app, x.pair, x.owner, x.ids)) = [(2, 1, 1, [1, 2])] ∧
    s.orders.map Order.key = [(2, 1, 1), (2, 1, 2), (1, 2, 1)] ∧
    (step (cfgD4 false) s (.cancelMM 2 1 1)).isSome = true := by
  decide +kernel

/-- non-vacuity of `mm_replace_cancels_all`: a second `MsgMMOrder` in the next batch ends orders 1, 2 and places 3, 4 -/
example :
    ((after (cfgD4 false) fundsD4 (opsD4.dropLast ++
        [.mmOrder 2 1 1 1200000000000000000 1200000000000000000 1000000 800000000000000000 800000000000000000 1000000 3600])).orders.filter
      (fun o => o.app == 2)).map (fun o => (o.id, o.status)) =
    [(1, .canceled), (2, .canceled), (3, .notExecuted), (4, .notExecuted)] := by
  decide +kernel

/-- two pairs of one app; user 1 has an older sell order in pair 2 and a fresh one in pair 1; cancel-all (no pair named) ends
the older one although a current-batch order of a LOWER pair id comes first in the owner's index -/
def opsCancelAll : List Op :=
  [ .block 1 100,
    .createPair 1 0 (.coin 1) (.coin 2) true,
    .createPair 1 0 (.coin 2) (.coin 3) true,
    .order 1 1 2 .limit false (.coin 2) (.coin 3) 2000000 1000000000000000000 1000000 3600,
    .endBlock 1 [] [] [],
    .block 2 105,
    .order 1 1 1 .limit false (.coin 1) (.coin 2) 2000000 1000000000000000000 1000000 3600,
    .cancelAll 1 1 [] ]

example : ((after (cfgD4 false) fundsD4 opsCancelAll).orders.map fun o => (o.pair, o.id, o.status)) =
    [(2, 1, .canceled), (1, 1, .notExecuted)] := by decide +kernel

/-! ### Non-vacuity -/

theorem cfgD4_ok (b : Bool) : CfgOk (cfgD4 b) := by
  intro ac h
  simp [cfgD4] at h
  rcases h with rfl | rfl <;> decide

/-- a history with a partial fill, a completion, a cancellation and an expiry, fee rate 0.3 % -/
def opsLife : List Op :=
  [ .block 1 100,
    .createPair 1 0 (.coin 1) (.coin 2) true,
    .order 1 1 1 .limit false (.coin 1) (.coin 2) 2000000 1000000000000000000 1000000 50,   -- sell 1 000 000, fee 3000
    .order 1 2 1 .limit true (.coin 2) (.coin 1) 2000000 1000000000000000000 400000 3600,   -- buy 400 000, fee 1200
    .endBlock 1 [{ pair := 1, fills := [{ id := 1, buy := false, paid := 400000, recv := 400000, matched := 400000 },
                                        { id := 2, buy := true, paid := 400000, recv := 400000, matched := 400000 }],
                   pools := [], dust := 0 }] [] [],
    .block 2 105,
    .cancel 1 1 1 1 ]

/-- seller: taken 1 003 000 = offer + ⌊0.3 %⌋; after the cancel: refunded 600 000 + (3000 − 1200) = 601 800, forwarded 1200;
buyer completed: refunded 0, forwarded 1200 -/
example : ((after (cfgD4 false) fundsD4 opsLife).orders.map fun o => (o.id, o.status, o.taken, o.remaining, o.refunded, o.feeFwd)) =
    [(1, .canceled, 1003000, 600000, 601800, 1200), (2, .completed, 401200, 0, 0, 1200)] := by
  decide +kernel

example : (after (cfgD4 false) fundsD4 opsLife).bal (.pairEscrow 1 1) (.coin 1) = 0 ∧
    (after (cfgD4 false) fundsD4 opsLife).bal (.swapFee 1 1) (.coin 1) = 1200 ∧
    (after (cfgD4 false) fundsD4 opsLife).bal (.user 1) (.coin 1) = 10000000 - 1003000 + 601800 := by
  decide +kernel

/-- non-vacuity of `fee_collector_exact`: the batch of `opsLife` completes the buyer (fee 1200 of coin 2 forwarded in the batch),
the later cancel of the partially filled seller forwards 1200 of coin 1 -/
example :
    (after (cfgD4 false) fundsD4 (opsLife.take 4)).bal (.swapFee 1 1) (.coin 2) = 0 ∧
    (after (cfgD4 false) fundsD4 (opsLife.take 5)).bal (.swapFee 1 1) (.coin 2) = 1200 ∧
    fwdSum (cfgD4 false) 1 1 (.coin 2) (after (cfgD4 false) fundsD4 (opsLife.take 5)).orders = 1200 ∧
    fwdSum (cfgD4 false) 1 1 (.coin 1) (after (cfgD4 false) fundsD4 (opsLife.take 5)).orders = 0 ∧
    fwdSum (cfgD4 false) 1 1 (.coin 1) (after (cfgD4 false) fundsD4 opsLife).orders = 1200 := by
  decide +kernel

/-- non-vacuity of `ended_order_accounts` / `finish_moves_exactly`: before the last op of `opsLife` the seller's order (key (1, 1, 1)) is
live and partially filled, and `FinishOrder` on it succeeds -/
example :
    let s := after (cfgD4 false) fundsD4 opsLife.dropLast
    (s.order? (1, 1, 1)).map (fun o => (o.status, o.offer, o.remaining)) = some (.partially, 1000000, 600000) ∧
    (finishOrder (cfgD4 false) s (1, 1, 1) .canceled).isSome = true := by
  decide +kernel

/-- the partially filled seller of `opsLife` lives through the migration and cancels afterwards: refunded 600 000 + (3000 − 1200),
forwarded 1200 — exactly as without the migration (the seeded change s87, which copies the OFFER coin into the remaining offer
coin, makes the real chain refund 1 003 000 here) -/
example : ((after (cfgD4 false) fundsD4 (opsLife.dropLast ++ [.migrate, .cancel 1 1 1 1])).orders.map
      fun o => (o.id, o.status, o.taken, o.remaining, o.refunded, o.feeFwd)) =
    [(1, .canceled, 1003000, 600000, 601800, 1200), (2, .completed, 401200, 0, 0, 1200)] := by
  decide +kernel

/-- and the migration is accepted there (the store is a version-1 store: no market-making orders, no ranged pools) -/
example : (step (cfgD4 false) (after (cfgD4 false) fundsD4 opsLife.dropLast) .migrate).isSome = true := by decide +kernel

end Comdex.C07
