import Comdex.Base.Line
import Comdex.Model.Hooks
/-! Driver for the block-hook model (C15).

Lines (tab separated), written by `harness/c15_*_test.go`:
  hooks.shape.single  okVisible okNil okEscaped errVisible errNil errEscaped panicVisible panicNil panicEscaped
  hooks.begin  scenario blocker nUnits parents ownAccesses commits returned
  hooks.fault  unit k returned stateEqualsSkipped laterUnitsRan parentsK commitsK parents0 commits0 [stores that differ]
  hooks.env.single    scenario blocker reach returned plain
  hooks.env.single    scenario blocker reach returned sweep cap counter batch offsets
  hooks.env.single    scenario blocker reach returned uloop n i kind wrote atomic remaining
returned ∈ ok | panic;   hooks.natural.single scenario blocker unit site writesBeforeFailure stateEqualsSkipped laterUnitsSame [stores]
  hooks.steps.single  scenario blocker reach nItems nFailing nLate stateEqualsAllFailingSkipped detail [stores]
  hooks.sub.single    scenario blocker substep outcome wrote
  hooks.post.single   scenario blocker reach ok vaultStepsWrapped halfAppliedVaults borrowStepsWrapped halfAppliedBorrows itemsV itemsB topUnits [detail]
  hooks.items.single  scenario blocker nItems k kind j returned natFail observed decomposes [detail]
      (per-item granularity, c15_apps_test.go: fault in item k — 0 = none —; natFail = items failing by themselves; observed =
       items visible as processed in the real result, found by comparison with the real one-item runs, `?` = no set of whole items)
  hooks.kick.single   scenario blocker reach returned position mode due blockedBy lotMoved lockedVault auction active [detail]
      (surplus kick-off of liquidationsV2.BeginBlocker, unwrapped; mode 0 = app not whitelisted, 1 = English off, 2 = English on)
parents: csv of unit numbers (0 = top level) or `-`; commits: string of 0/1 per unit or `-`.

DIFF = the model's prediction differs from the real blocker; MON = the property is false on the real behaviour:
`no_panic` (a panic escaped a real Begin/EndBlocker in a reachable state), `unit_atomic` (writes of a failed step are
visible), `remaining_run` (the steps after a failed one were not processed); for the unwrapped surplus kick-off of the second generation
`kickoff_atomic` (the lot left the collector although no auction was started) and `kickoff_remaining` (a due entry behind a failing
one was not looked at) — both fire on the unchanged tree: finding D-C15-1 of notes/C15.md.
-/
-- DRIVER: prefix=hooks ns=Comdex.Drv.Hooks
namespace Comdex.Drv.Hooks
open Comdex.Hooks Comdex.Line

structure St where
  scen : String := ""
  blocker : String := ""

def init : St := {}

def parseCsv (s : String) : Option (List Nat) := if s = "-" then some [] else parseNatList s

def parseBits (s : String) : Option (List Bool) :=
  if s = "-" then some [] else s.toList.mapM fun c => if c = '1' then some true else if c = '0' then some false else none

def b01 (b : Bool) : String := if b then "1" else "0"
def ret (b : Bool) : String := if b then "ok" else "panic"

/-- visible units outside the subtree of `u`, by the model, for a run given by (parents, own commit flags),
with `u` forced to fail -/
def visibleOutside (parents : List Nat) (flags : List Bool) (u : Nat) : List Nat :=
  let ok := fun i => i != u && flags.getD (i - 1) false
  (visibleUnits parents ok).filter fun v => !(insideOf parents (parents.length + 1) v u)

/-- the wrapper on a raw step that writes and then ends in the given way: (visible, err == nil, escaped) -/
def shapeRow (r : Option Fail) : List Bool :=
  let x := applyShaped goodShape (fun (n : Nat) => (n + 1, r)) 0
  [x.1 == 1, x.2.1, x.2.2]

def monIf (seq : String) (c : Bool) (name : String) : List String := if c then [s!"MON\t{seq}\t{name}"] else []

def handle (st : St) (seq : String) (f : List String) : St × List String :=
  match f with
  | "hooks.shape.single" :: rest =>
    let model := (shapeRow none ++ shapeRow (some .err) ++ shapeRow (some .panic)).map b01
    if model = rest then (st, []) else
      (st, [s!"DIFF\t{seq}\twrapper probe model={model} impl={rest}"] ++
        monIf seq (rest.getD 3 "1" = "1" || rest.getD 6 "1" = "1") "unit_atomic" ++
        monIf seq (rest.getD 8 "1" = "1") "no_panic")
  | ["hooks.begin", scen, blocker, _n, _parents, _owns, _commits, returned] =>
    -- a baseline panic is reported by the `hooks.env.single` line the harness writes next (it carries the model's inputs)
    ({ scen := scen, blocker := blocker }, if returned = "ok" || returned = "panic" then [] else [s!"BAD\t{seq}\tbegin line"])
  | "hooks.fault" :: unit :: k :: returned :: stateEq :: later :: pk :: ck :: p0 :: c0 :: rest =>
    match parseNat? unit, parseCsv pk, parseBits ck, parseCsv p0, parseBits c0 with
    | some u, some pk, some ck, some p0, some c0 =>
      -- model: the wrapper recovers ⇒ returns; the unit's writes are dropped ⇒ state as if skipped; the fold goes on ⇒
      -- the units outside `u` are exactly those of the reference run (fault at the unit's first access)
      let predicted := visibleOutside p0 c0 u
      let observed := visibleOutside pk ck u
      let uFailed := !(ck.getD (u - 1) true)
      let d1 := if predicted = observed && uFailed then [] else
        [s!"DIFF\t{seq}\t{st.scen} {st.blocker} unit {u} k {k}: visible units model={predicted} impl={observed} unitFailed={uFailed}"]
      let d2 := if returned = "ok" && stateEq = "1" && later = "1" then [] else
        [s!"DIFF\t{seq}\t{st.scen} {st.blocker} unit {u} k {k}: model=returned,atomic,remaining impl={returned},{stateEq},{later} {rest}"]
      (st, d1 ++ d2 ++ monIf seq (returned != "ok") "no_panic" ++ monIf seq (stateEq != "1") "unit_atomic" ++ monIf seq (later != "1") "remaining_run")
    | _, _, _, _, _ => (st, [s!"BAD\t{seq}\tfault line"])
  | ["hooks.env.single", scen, blocker, reach, returned, "plain"] =>
    -- `blocker_total`: every unwrapped part is on the reviewed totality list ⇒ the blocker returns
    if returned = "ok" then (st, []) else
      (st, [s!"DIFF\t{seq}\t{scen} {blocker}: model=returns impl=panic"] ++ monIf seq (reach = "1") "no_panic")
  | ["hooks.env.single", scen, blocker, reach, returned, "sweep", cap, counter, batch, offs] =>
    match parseNat? cap, parseNat? counter, parseNat? batch, parseCsv offs with
    | some cap, some counter, some batch, some offs =>
      let ok := offs.all fun o => sweepSliceOk cap counter o batch
      let d := if ret ok = returned then [] else
        [s!"DIFF\t{seq}\t{scen} {blocker}: sweep cap={cap} counter={counter} batch={batch} offsets={offs} model={ret ok} impl={returned}"]
      (st, d ++ monIf seq (returned != "ok" && reach = "1") "no_panic")
    | _, _, _, _ => (st, [s!"BAD\t{seq}\tsweep line"])
  | ["hooks.env.single", scen, blocker, reach, returned, "uloop", n, i, kind, wrote, atomic, remaining] =>
    match parseNat? n, parseNat? i with
    | some n, some i =>
      let fail := if kind = "panic" then Fail.panic else Fail.err
      -- items as the harness measured them: i good ones, the failing one (leaving a partial write iff `wrote`), the rest
      let items : List (Raw (List Nat)) := (List.range n).map fun j =>
        if j < i then (fun s => (s ++ [j], none))
        else if j = i then (fun s => ((if wrote = "1" then s ++ [1000 + j] else s), some fail))
        else (fun s => (s ++ [j], none))
      let r := runUnwrappedLoop items []
      let mRet := kind != "panic"
      let mAtomic := !(r.1.any fun x => x ≥ 1000)
      let mRemaining := r.2.1 == none
      -- the source table says every borrow step is a wrapped unit (`units_of_work_wrapped`); the harness writes this
      -- line only when it saw the borrows run OUTSIDE units, so the line is a divergence by itself; the unwrapped-loop
      -- model says what to expect then
      let agree := ret mRet = returned && b01 mAtomic = atomic && b01 mRemaining = remaining
      let d := [s!"DIFF\t{seq}\t{scen} {blocker}: model=borrow steps are wrapped units impl=unwrapped loop n={n} first failure at {i} ({kind}, wrote={wrote}): returned,atomic,remaining={returned},{atomic},{remaining}; unwrapped-loop model {ret mRet},{b01 mAtomic},{b01 mRemaining} agrees={agree}"]
      (st, d ++ monIf seq (returned != "ok" && reach = "1") "no_panic" ++ monIf seq (atomic = "0" && reach = "1") "unit_atomic" ++
        monIf seq (remaining = "0" && reach = "1") "remaining_run")
    | _, _ => (st, [s!"BAD\t{seq}\tuloop line"])
  | "hooks.natural.single" :: scen :: blocker :: unit :: site :: writes :: stateEq :: later :: rest =>
    -- a unit that reported failure by itself (returned error / panic, late or early): `wrapped_unit_atomic` +
    -- `failing_unit_skipped` ⇒ the run equals the run with that unit skipped
    if stateEq = "1" && later = "1" then (st, []) else
      (st, [s!"DIFF\t{seq}\t{scen} {blocker} unit {unit} ({site}) failed after {writes} writes: model=invisible impl=stateEq {stateEq}, later {later} {rest}"] ++
        monIf seq (stateEq != "1") "unit_atomic" ++ monIf seq (later != "1") "remaining_run")
  | "hooks.steps.single" :: scen :: blocker :: reach :: n :: nFail :: nLate :: stateEq :: rest =>
    -- per-item steps that report failure when run by themselves must be invisible after the real blocker:
    -- model = the run with all of them skipped (iterated `failing_unit_skipped`)
    if stateEq = "1" then (st, []) else
      (st, [s!"DIFF\t{seq}\t{scen} {blocker}: {nFail} of {n} item steps report failure ({nLate} after writes): model=state of the run with those units skipped impl=differs {rest}"] ++
        monIf seq (reach = "1") "unit_atomic")
  | "hooks.sub.single" :: _scen :: _blocker :: _name :: out :: wrote :: _ =>
    -- information only (hooks that log a sub-step's error and go on; reviewed in Props/C15 `swallowReviewed`)
    if (out = "ok" || out = "err" || out = "panic") && (wrote = "0" || wrote = "1") then (st, []) else (st, [s!"BAD\t{seq}\tsub line"])
  | "hooks.post.single" :: scen :: blocker :: reach :: _ret :: vaultW :: halfV :: borrowW :: halfB :: rest =>
    -- per-item oracle of the liquidation sweeps: a step that runs as a wrapped unit cannot be half-applied
    match parseNat? halfV, parseNat? halfB with
    | some hv, some hb =>
      -- the model's reading of the source (Props/C15 `units_of_work_wrapped`): vault and borrow steps of both
      -- generations are wrapped units, hence atomic
      let d := (if hv > 0 then [s!"DIFF\t{seq}\t{scen} {blocker}: model=vault steps atomic (seen wrapped={vaultW}) impl={hv} half-applied {rest}"] else []) ++
               (if hb > 0 then [s!"DIFF\t{seq}\t{scen} {blocker}: model=borrow steps atomic (seen wrapped={borrowW}) impl={hb} half-applied {rest}"] else [])
      (st, d ++ monIf seq (reach = "1" && hv + hb > 0) "unit_atomic")
    | _, _ => (st, [s!"BAD\t{seq}\tpost line"])
  | "hooks.items.single" :: scen :: blocker :: n :: k :: kind :: j :: returned :: natFail :: observed :: decomposes :: rest =>
    match parseNat? n, parseNat? k, parseBits natFail with
    | some n, some k, some nat =>
      -- model (`per_item_loop_processes_ok_items`): every item under its own wrapper ⇒ exactly the items that do not fail
      -- are processed, whatever the others do; the blocker over all items = the one-item blockers in sequence
      -- (`blocker_splits_per_item`)
      let oks := (List.range n).map fun i => !(nat.getD i false) && i + 1 != k
      let vis := (runUnits (itemUnits oks 1) []).1
      let predicted := (List.range n).map fun i => vis.contains (i + 1)
      let obs := if observed = "?" then none else parseBits observed
      let agree := obs == some predicted
      let d := (if agree && returned = "ok" then [] else
          [s!"DIFF\t{seq}\t{scen} {blocker} fault in item {k} ({kind}, access {j}): processed items model={predicted.map b01} impl={observed} returned={returned} {rest}"]) ++
        (if decomposes = "1" then [] else
          [s!"DIFF\t{seq}\t{scen} {blocker}: model=the blocker over all items equals the one-item blockers in sequence impl=differs"])
      let leaked := match obs with
        | none => true
        | some o => (List.range n).any fun i => o.getD i false && !(predicted.getD i false)
      let dropped := match obs with
        | none => false
        | some o => (List.range n).any fun i => !(o.getD i true) && predicted.getD i false
      (st, d ++ monIf seq (returned != "ok") "no_panic" ++ monIf seq (returned = "ok" && leaked) "unit_atomic" ++
        monIf seq (returned = "ok" && dropped) "remaining_run")
    | _, _, _ => (st, [s!"BAD\t{seq}\titems line"])
  | "hooks.kick.single" :: scen :: blocker :: reach :: returned :: pos :: mode :: due :: blockedBy :: lotMoved :: lv :: auc :: active :: _ =>
    -- model = the code as it is (`surplusKickRaw` inside `runUnwrappedLoop`): an entry behind a failing one is not looked at; a
    -- due entry loses its lot BEFORE the test whether an English auction can start
    let s0 : Kick := { collector := 1000, parked := 0, netFees := 1000, lockedVaults := 0, auctions := 0, active := false }
    let processed := due = "1" && blockedBy = "0"
    let r := if processed then (surplusKickRaw 1 (mode = "2") s0).1 else s0
    let model := [b01 (r.netFees != s0.netFees), b01 (r.lockedVaults > 0), b01 (r.auctions > 0)] ++ (if processed then [b01 r.active] else [active])
    -- the repaired code (every entry under its own wrapper, `kickoff_wrapped_is_atomic`) is accepted as well: a due entry is
    -- processed whatever the entries before it do, and leaves nothing behind if it fails
    let r' := if due = "1" then (applyIfNoError (surplusKickRaw 1 (mode = "2")).toExcept s0).1 else s0
    let repaired := [b01 (r'.netFees != s0.netFees), b01 (r'.lockedVaults > 0), b01 (r'.auctions > 0)] ++ (if due = "1" && mode = "2" then ["1"] else [active])
    let impl := [lotMoved, lv, auc, active]
    let d := if (model = impl || repaired = impl) && returned = "ok" then [] else
      [s!"DIFF\t{seq}\t{scen} {blocker} entry {pos} (mode {mode}, due {due}, blocked by {blockedBy}): lotMoved,lockedVault,auction,active model={model} (repaired: {repaired}) impl={impl} returned={returned}"]
    (st, d ++ monIf seq (returned != "ok" && reach = "1") "no_panic" ++
      monIf seq (reach = "1" && lotMoved = "1" && auc = "0") "kickoff_atomic" ++
      monIf seq (reach = "1" && due = "1" && blockedBy != "0" && mode = "2" && auc = "0") "kickoff_remaining")
  | _ => (st, [s!"BAD\t{seq}\tunknown hooks line"])

end Comdex.Drv.Hooks
