import Comdex.Base.Line
import Comdex.Model.Pool
/-! Driver for the Pool model (property C06).  Pure-function checks, no sequences.

Lines (tab separated; integers decimal, Dec values raw 10^-18 integers):
  pool.deposit   rx ry ps x y            <ok|panic> ax ay pc
  pool.withdraw  rx ry ps pc fee         <ok|panic> x y
  pool.create    x y min max init        <ok|err|panic> rx ry ps transX transY <ok|panic|-> price
  pool.derive    rx ry min max           <ok|panic> transX transY <ok|panic|-> price
  pool.setbal    rx0 ry0 min max rx ry derive tx0 ty0  <ok|panic> transX transY <ok|panic|-> price  <ok|panic> ftx fty <ok|panic|-> fprice
      the pool `NewRangedPool(rx0, ry0, 1, min, max)` (translation tx0, ty0) after `SetBalances(rx, ry, derive)`; the last
      group is the FRESH pool `NewRangedPool(rx, ry, 1, min, max)`
(`-` for fields that do not exist for the outcome.)

DIFF = the model does not reproduce the real output exactly.
MON  = a law of C06 is false on the REAL output (names are stable):
  deposit_no_panic deposit_takes_at_most_offered deposit_rate_not_better deposit_reserves_per_share
  withdraw_no_panic withdraw_at_most_prorata withdraw_reserves_per_share last_share_gets_all
  ranged_price_in_range ranged_create_takes_at_most_offered (the latter is monitored only, no theorem)
  ranged_fixed_translation_kept ranged_price_within_own_endpoints (derive = false)   ranged_rederive_is_fresh (derive = true)
-/
-- DRIVER: prefix=pool ns=Comdex.Drv.Pool
namespace Comdex.Drv.Pool
open Comdex Comdex.Pool Comdex.Line

abbrev St := Unit
def init : St := ()

def ints (l : List String) : Option (List Int) := l.mapM parseInt?

def mon (seq : String) (name : String) (ok : Bool) : List String :=
  if ok then [] else [s!"MON\t{seq}\t{name}"]

def diff (seq what m r : String) : List String :=
  if m = r then [] else [s!"DIFF\t{seq}\t{what}: model={m}\timpl={r}"]

def handleDeposit (seq : String) (args : List String) (outcome : String) (res : List String) : List String :=
  match ints args with
  | some [rx, ry, ps, x, y] =>
    let m := match deposit rx ry ps x y with
      | none => "panic\t-\t-\t-"
      | some (ax, ay, pc) => s!"ok\t{ax}\t{ay}\t{pc}"
    let r := "\t".intercalate (outcome :: res)
    let d := diff seq s!"deposit {rx} {ry} {ps} {x} {y}" m r
    let mons :=
      if decide (DepositDom rx ry ps x y) then
        if outcome = "ok" then
          match ints res with
          | some [ax, ay, pc] =>
            mon seq "deposit_takes_at_most_offered"
              (decide (TakesAtMostOffered x ax ∧ TakesAtMostOffered y ay ∧ 0 ≤ pc)) ++
            mon seq "deposit_rate_not_better"
              (decide (RateNotBetter rx ps ax pc ∧ RateNotBetter ry ps ay pc)) ++
            mon seq "deposit_reserves_per_share"
              (decide (PerShareAfterDeposit rx ps ax pc ∧ PerShareAfterDeposit ry ps ay pc))
          | _ => [s!"BAD\t{seq}\tdeposit result"]
        else mon seq "deposit_no_panic" false
      else []
    d ++ mons
  | _ => [s!"BAD\t{seq}\tdeposit args"]

def handleWithdraw (seq : String) (args : List String) (outcome : String) (res : List String) : List String :=
  match ints args with
  | some [rx, ry, ps, pc, fee] =>
    let m := match withdraw rx ry ps pc fee with
      | none => "panic\t-\t-"
      | some (x, y) => s!"ok\t{x}\t{y}"
    let r := "\t".intercalate (outcome :: res)
    let d := diff seq s!"withdraw {rx} {ry} {ps} {pc} {fee}" m r
    let mons :=
      if decide (WithdrawDom rx ry ps pc fee) then
        if outcome = "ok" then
          match ints res with
          | some [x, y] =>
            mon seq "withdraw_at_most_prorata"
              (decide (pc ≠ ps → (AtMostProrata rx ps pc fee x ∧ AtMostProrata ry ps pc fee y))) ++
            mon seq "withdraw_reserves_per_share"
              (decide (PerShareAfterWithdraw rx ps pc x ∧ PerShareAfterWithdraw ry ps pc y ∧ x ≤ rx ∧ y ≤ ry)) ++
            mon seq "last_share_gets_all" (decide (pc = ps → (x = rx ∧ y = ry)))
          | _ => [s!"BAD\t{seq}\twithdraw result"]
        else mon seq "withdraw_no_panic" false
      else []
    d ++ mons
  | _ => [s!"BAD\t{seq}\twithdraw args"]

def showPool (p : RPool) : String := s!"{p.rx}\t{p.ry}\t{p.ps}\t{p.transX}\t{p.transY}"

def showPrice (p : RPool) : String :=
  match rangedPrice p with
  | .ok v => s!"ok\t{v}"
  | .error _ => "panic\t-"

/-- the price-range law on the REAL price -/
def monPrice (seq : String) (minP maxP : Dec) (po pv : String) : List String :=
  if po = "ok" then
    match parseInt? pv with
    | some price => mon seq "ranged_price_in_range" (decide (PriceInRange minP maxP price))
    | none => [s!"BAD\t{seq}\tprice"]
  else []

def handleCreate (seq : String) (args : List String) (rest : List String) : List String :=
  match ints args with
  | some [x, y, minP, maxP, initP] =>
    let m := match createRangedPool x y minP maxP initP with
      | .error _ => "panic\t-\t-\t-\t-\t-\t-\t-"
      | .ok none => "err\t-\t-\t-\t-\t-\t-\t-"
      | .ok (some p) => s!"ok\t{showPool p}\t{showPrice p}"
    let r := "\t".intercalate rest
    let d := diff seq s!"create {x} {y} {minP} {maxP} {initP}" m r
    let mons := match rest with
      | ["ok", rx, ry, _, _, _, po, pv] =>
        (match parseInt? rx, parseInt? ry with
         | some rx, some ry =>
           mon seq "ranged_create_takes_at_most_offered"
             (decide (TakesAtMostOffered (max x 0) rx ∧ TakesAtMostOffered (max y 0) ry))
         | _, _ => [s!"BAD\t{seq}\tcreate reserves"]) ++
        monPrice seq minP maxP po pv
      | _ => []
    d ++ mons
  | _ => [s!"BAD\t{seq}\tcreate args"]

def handleDerive (seq : String) (args : List String) (rest : List String) : List String :=
  match ints args with
  | some [rx, ry, minP, maxP] =>
    let m := match newRangedPool rx ry 1 minP maxP with
      | .error _ => "panic\t-\t-\t-\t-"
      | .ok p => s!"ok\t{p.transX}\t{p.transY}\t{showPrice p}"
    let r := "\t".intercalate rest
    let d := diff seq s!"derive {rx} {ry} {minP} {maxP}" m r
    let mons := match rest with
      | ["ok", _, _, po, pv] => monPrice seq minP maxP po pv
      | _ => []
    d ++ mons
  | _ => [s!"BAD\t{seq}\tderive args"]

def handleSetbal (seq : String) (args : List String) (derive : String) (rest : List String) : List String :=
  match ints args, parseBool? derive with
  | some [rx0, ry0, minP, maxP, rx, ry], some dv =>
    let m := match newRangedPool rx0 ry0 1 minP maxP with
      | .error _ => "-\t-\tpanic\t-\t-\t-\t-"
      | .ok p0 =>
        s!"{p0.transX}\t{p0.transY}\t" ++
        (match setBalances p0 rx ry dv with
         | .error _ => "panic\t-\t-\t-\t-"
         | .ok p => s!"ok\t{p.transX}\t{p.transY}\t{showPrice p}")
    let mf := match newRangedPool rx ry 1 minP maxP with
      | .error _ => "panic\t-\t-\t-\t-"
      | .ok p => s!"ok\t{p.transX}\t{p.transY}\t{showPrice p}"
    let r := "\t".intercalate rest
    let d := diff seq s!"setbal {rx0} {ry0} {minP} {maxP} {rx} {ry} {derive}" (m ++ "\t" ++ mf) r
    let mons := match rest with
      | [tx0, ty0, "ok", tx, ty, po, pv, fo, ftx, fty, fpo, fpv] =>
        if dv then
          -- REAL re-derived pool = REAL fresh pool
          mon seq "ranged_rederive_is_fresh" (fo = "ok" && tx = ftx && ty = fty && po = fpo && pv = fpv) ++
          monPrice seq minP maxP po pv
        else
          (match parseInt? tx0, parseInt? ty0 with
           | some tx0, some ty0 =>
             mon seq "ranged_fixed_translation_kept" (tx = toString tx0 && ty = toString ty0) ++
             (if po = "ok" && decide (0 ≤ tx0 ∧ 0 < ty0 ∧ 0 ≤ rx ∧ 0 ≤ ry) then
               match parseInt? pv with
               | some price =>
                 mon seq "ranged_price_within_own_endpoints"
                   (decide (Dec.quo tx0 (Dec.add (toDec ry) ty0) ≤ price ∧ price ≤ Dec.quo (Dec.add (toDec rx) tx0) ty0))
               | none => [s!"BAD\t{seq}\tsetbal price"]
              else [])
           | _, _ => [s!"BAD\t{seq}\tsetbal translation"])
      | _ => []
    d ++ mons
  | _, _ => [s!"BAD\t{seq}\tsetbal args"]

def handle1 (seq : String) (f : List String) : List String :=
  match f with
  | ["pool.deposit", rx, ry, ps, x, y, o, ax, ay, pc] => handleDeposit seq [rx, ry, ps, x, y] o [ax, ay, pc]
  | ["pool.withdraw", rx, ry, ps, pc, fee, o, x, y] => handleWithdraw seq [rx, ry, ps, pc, fee] o [x, y]
  | "pool.create" :: x :: y :: mn :: mx :: ip :: rest => handleCreate seq [x, y, mn, mx, ip] rest
  | "pool.derive" :: rx :: ry :: mn :: mx :: rest => handleDerive seq [rx, ry, mn, mx] rest
  | "pool.setbal" :: rx0 :: ry0 :: mn :: mx :: rx :: ry :: dv :: rest => handleSetbal seq [rx0, ry0, mn, mx, rx, ry] dv rest
  | _ => [s!"BAD\t{seq}\tunknown pool line"]

def handle (st : St) (seq : String) (f : List String) : St × List String := (st, handle1 seq f)

end Comdex.Drv.Pool
