import Comdex.Base.Line
import Comdex.Model.LockerAccrual
/-! Driver plug-in for the locker savings bookkeeping (C18, state level; paid out of the net fees: C13).

  la.begin  <state> now
  la.op     kind now height amt rate pow  outcome <state>  legit          one real message / binding call
  la.once   kind now height amt rate pow  outcome <state>                 the same call on a BRANCH of the current real state
                                                                          (discarded): the single accrual over the interval the next
                                                                          two la.op lines cover
<state> := wl lsr cbh cbt fees has net ret lbh lbt tracker|none   (eleven fields: the real records after the call)
kind ∈ create deposit withdraw close calc lsr wlon wloff;  outcome ∈ ok err panic;  amt / rate: `0` where not applicable.
pow   := xbits:ybits:pbits of the ONE `math.Pow` call the real code makes for this call (arguments mirrored from the REAL records
         before the call), or `-` (no locker).  The driver recomputes both arguments from ITS state and reports a DIFF otherwise.
legit := xbits:ybits:pbits for the interval the SPECIFICATION allows this call to accrue — computed by the harness's own ghost
         bookkeeping, which never looks at the stamps: from max(last rate update, last settlement of this locker) to now, at the
         rate in force — or `-` (no accrual due).  The driver keeps the same ghost (`Spec`) and reports BAD if the arguments differ.

The model state is replaced by the real projection after every line.  Monitors, all on REAL credited amounts
(credited = Δ(ReturnsAccumulated·10¹⁸ + tracker); for a close, which deletes the tracker: what the net fees paid minus the fraction
carried in — a lower bound of what was accrued):
  `zero_time`          credited > 0 although no time has passed at a non-zero rate since the locker was last settled
  `zero_rate_window`   credited more than the formula over the legit interval, and the rate was zero for part of the time since the
                       locker was last settled
  `accrued_interval`   credited more than the formula over the legit interval (no zero-rate window involved: double accrual)
  `zero_rate`          credited > 0 by a call made while the rate is zero
  `credited_nonneg`    credited < 0
  `accrual_subadditive` two consecutive calls (la.op, la.op) booked more than the single one (la.once) + `subaddErr 2⁴⁰` + the
                       interest on the whole units the first call moved into the balance
  suffix `_touched`:   the locker was deposited into / withdrawn from while the rate was zero (the code then loses the
                       `BlockHeight = 0` flag: reproduced defect, see notes/C18.md). -/
namespace Comdex.Drv.LockerAccrualDrv
open Comdex Comdex.Line Comdex.Accrual Comdex.LockerAccrual

/-- specification-side ghost: what SHOULD be accrued, from the history of calls alone -/
structure Spec where
  rate : Dec := 0
  wl : Bool := true
  segStart : Int := 0      -- time of the last accepted rate update
  has : Bool := false
  settled : Int := 0       -- time the locker was last settled (created, deposited into, withdrawn from, accrued, swept)
  zeroSeen : Bool := false -- the rate was zero at some time since `settled`
  touched : Bool := false  -- deposit / withdraw while the rate was zero, since the last settlement at a non-zero rate
  muted : Bool := false    -- whitelist switched / a sweep could not pay / the clock was set back: no specification until
                           -- the next settlement
  clockMax : Int := 0      -- latest block time seen (the chain's clock never runs backwards; the harness exercises it as an error path)
  deriving Repr

structure Once where
  n : Int
  pw : Int
  now : Int
  kind : String
  booked : Int
  steps : List (Int × Int × Int) := []   -- (principal, pow value, time) of the real calls that followed

structure St where
  s : Option LockerAccrual.St := none
  spec : Spec := {}
  once : Option Once := none

def init : St := {}

def monE : Nat := 2 ^ 40

def parseTr (s : String) : Option (Option Int) := if s = "none" then some none else (parseInt? s).map some
def showTr : Option Int → String | none => "none" | some t => toString t

def showSt (s : LockerAccrual.St) : String :=
  let l := match s.locker with | some l => s!"1 {l.net} {l.ret} {l.bh} {l.bt}" | none => "0 0 0 0 0"
  s!"{s.wl} {s.coll.lsr} {s.coll.bh} {s.coll.bt} {s.fees} {l} {showTr s.tracker}"

def parseState (f : List String) : Option LockerAccrual.St :=
  match f with
  | [wl, lsr, cbh, cbt, fees, has, net, ret, lbh, lbt, tr] =>
    match parseBool? wl, parseInt? lsr, parseInt? cbh, parseInt? cbt, parseInt? fees, parseBool? has, parseInt? net, parseInt? ret,
          parseInt? lbh, parseInt? lbt, parseTr tr with
    | some wl, some lsr, some cbh, some cbt, some fees, some has, some net, some ret, some lbh, some lbt, some tr =>
      some { wl := wl, coll := ⟨lsr, cbh, cbt⟩, fees := fees,
             locker := if has then some ⟨net, ret, lbh, lbt⟩ else none, tracker := tr }
    | _, _, _, _, _, _, _, _, _, _, _ => none
  | _ => none

/-- `xbits:ybits:pbits` -/
def parsePow (s : String) : Option (Nat × Nat × Nat) :=
  match s.splitOn ":" with
  | [x, y, p] => match parseNat? x, parseNat? y, parseNat? p with
    | some x, some y, some p => some (x, y, p)
    | _, _, _ => none
  | _ => none

def parseOp (kind : String) (amt rate : Int) : Option Op :=
  match kind with
  | "create" => some (.create amt)
  | "deposit" => some (.deposit amt)
  | "withdraw" => some (.withdraw amt)
  | "close" => some .close
  | "calc" => some .rewardCalc
  | "lsr" => some (.lsrUpdate rate)
  | "wlon" => some .wlOn
  | "wloff" => some .wlOff
  | _ => none

def outcomeOf : Res → String | .ok _ => "ok" | .err => "err" | .panic => "panic"

def isAccruing (kind : String) : Bool :=
  kind = "deposit" || kind = "withdraw" || kind = "close" || kind = "calc" || kind = "lsr"

/-- the model on one call: DIFF lines for the power arguments, the outcome and the state; returns the real state -/
def replay (seq : String) (cur : LockerAccrual.St) (ctx : Ctx) (op : Op) (pow : String) (o : String) (proj : List String) :
    Option (LockerAccrual.St × Option Int × List String) :=
  match parseState proj with
  | none => none
  | some real =>
    let (pw, chk) : Option Int × List String :=
      match parsePow pow, cur.locker with
      | some (xb, yb, pb), some l =>
        let secs := ctx.now - clock cur l
        (ofBits pb,
         (if ofBits xb = some (xF cur.coll.lsr) then [] else [s!"DIFF\t{seq}\tpow base: model={xF cur.coll.lsr}\timpl bits={xb}"]) ++
         (if secs < 0 || ofBits yb = some (yF secs) then [] else
            [s!"DIFF\t{seq}\tpow exponent (accrued interval): model={secs} s\timpl bits={yb}"]))
      | _, _ => (none, [])
    let m := step cur ctx op pw
    -- deposit / withdraw are also accepted in their repaired form (D45, notes/C18.md): a repaired tree checks clean
    let mf := stepFix cur ctx op pw
    let m := if (outcomeOf m != o || m.getD cur != real) && outcomeOf mf = o && mf.getD cur = real then mf else m
    let ms := m.getD cur
    let d := if outcomeOf m = o && ms = real then [] else
      [s!"DIFF\t{seq}\t{repr op}: model={outcomeOf m} {showSt ms}\timpl={o} {showSt real}"]
    some (real, pw, chk ++ d)

def active (s : LockerAccrual.St) : Bool := s.wl && s.coll.lsr != 0 && s.locker.isSome

def netOf (s : LockerAccrual.St) : Int := match s.locker with | some l => l.net | none => 0

/-- the specification ghost after an accepted call -/
def specAfter (sp : Spec) (cur : LockerAccrual.St) (ctx : Ctx) (kind : String) (rate : Int) (pw : Option Int) : Spec :=
  let positive := sp.wl && sp.rate != 0
  match kind with
  | "create" => { sp with has := true, settled := ctx.now, zeroSeen := !positive, touched := false, muted := !sp.wl }
  | "deposit" | "withdraw" =>
    if positive then { sp with settled := ctx.now, zeroSeen := false, touched := false, muted := false }
    else { sp with settled := ctx.now, zeroSeen := true, touched := true }
  | "calc" =>
    if positive then { sp with settled := ctx.now, zeroSeen := false, touched := false, muted := false } else sp
  | "close" => { sp with has := false, touched := false, zeroSeen := false, muted := false }
  | "lsr" =>
    if sp.wl then
      let swept := sp.has && sp.rate != 0
      let lost := swept && !(sweepFine cur ctx pw)
      { sp with rate := rate, segStart := ctx.now,
                settled := if swept then ctx.now else sp.settled,
                zeroSeen := if swept then decide (rate = 0) else (sp.zeroSeen || decide (rate = 0) || decide (sp.rate = 0)),
                touched := if swept then false else sp.touched,
                muted := sp.muted || lost }
    else { sp with rate := rate }
  | "wlon" => { sp with wl := true, muted := true }
  | "wloff" => { sp with wl := false, muted := true }
  | _ => sp

-- DRIVER: prefix=la ns=Comdex.Drv.LockerAccrualDrv
def handle (st : St) (seq : String) (f : List String) : St × List String :=
  match f with
  | "la.begin" :: rest =>
    match rest.reverse with
    | now :: projR =>
      match parseState projR.reverse, parseInt? now with
      | some s, some now =>
        ({ s := some s, once := none,
           spec := { rate := s.coll.lsr, wl := s.wl, segStart := now, has := s.locker.isSome, settled := now,
                     zeroSeen := decide (s.coll.lsr = 0), touched := false, muted := !s.wl, clockMax := now } }, [])
      | _, _ => (st, [s!"BAD\t{seq}\tla.begin args"])
    | [] => (st, [s!"BAD\t{seq}\tla.begin args"])
  | "la.op" :: kind :: now :: h :: amt :: rate :: pow :: o :: rest =>
    match st.s, parseInt? now, parseInt? h, parseInt? amt, parseInt? rate, rest.reverse with
    | some cur, some now, some h, some amt, some rate, legit :: projR =>
      match parseOp kind amt rate with
      | none => (st, [s!"BAD\t{seq}\tla.op kind"])
      | some op =>
        let ctx : Ctx := ⟨now, h⟩
        match replay seq cur ctx op pow o projR.reverse with
        | none => (st, [s!"BAD\t{seq}\tcannot parse state"])
        | some (real, pw, d) =>
          let sp := st.spec
          -- what the call really credited
          let credited : Int :=
            if kind = "close" then (cur.fees - real.fees) * Dec.P - cur.tracker.getD 0
            else booked real - booked cur
          let sfx := if sp.touched then "_touched" else ""
          let due := sp.wl && sp.rate != 0 && sp.has
          let start := if sp.segStart ≤ sp.settled then sp.settled else sp.segStart
          let back := decide (now < sp.clockMax)
          -- a sweep whose payment the net fees cannot cover lowers the tracker and skips the locker: the whole units are lost
          -- (observation recorded in notes/C13.md); the credited amount of such a call is not judged
          let lostNow := kind = "lsr" && active cur && !(sweepFine cur ctx pw)
          let nonneg : List String := if credited < 0 && kind != "close" then ["credited_nonneg"] else []
          let (bad, mon) : List String × List String :=
            if o != "ok" || !isAccruing kind || !cur.locker.isSome || sp.muted || back || lostNow then ([], [])
            else if !due then
              ([], if credited > 0 then ["zero_rate" ++ sfx] else nonneg)
            else match parsePow legit with
              | none => ([s!"BAD\t{seq}\tlegit pow missing"], [])
              | some (xb, yb, pb) =>
                let secs := now - start
                let argsOk := ofBits xb = some (xF sp.rate) && ofBits yb = some (yF secs)
                if !argsOk then ([s!"BAD\t{seq}\tlegit pow arguments: harness ghost and driver ghost disagree (driver: rate {sp.rate}, {secs} s)"], [])
                else match ofBits pb with
                  | none => ([], [])
                  | some p =>
                    let bound := interestOfPow p (aF (netOf cur))
                    ([], nonneg ++
                         (if secs = 0 && credited > 0 then ["zero_time" ++ sfx]
                          else if credited > bound then [(if sp.zeroSeen then "zero_rate_window" else "accrued_interval") ++ sfx]
                          else []))
          -- two consecutive real calls against the announced single one
          let (once', mon2) : Option Once × List String :=
            match st.once, pw with
            | some oc, some p =>
              if o = "ok" && active cur && isAccruing kind && !lostNow then
                let steps := oc.steps ++ [(netOf cur, p, now)]
                match steps with
                | [_] => (some { oc with steps := steps }, [])
                | [(n1, _, t1), (n2, p2, t2)] =>
                  if t2 = oc.now && kind = oc.kind && n1 = oc.n && t1 ≤ t2 && n1 ≤ n2 then
                    let compounding : Int := interestOfPow p2 (aF n2) - interestOfPow p2 (aF n1)
                    let lhs : Rat := ((booked real : Int) : Rat)
                    let rhs : Rat := ((oc.booked + compounding : Int) : Rat) + subaddErr monE (aF oc.n) oc.pw
                    (none, if lhs ≤ rhs then [] else ["accrual_subadditive"])
                  else (none, [])
                | _ => (none, [])
              else (none, [])
            | _, _ => (none, [])
          let sp' := if o != "ok" then sp else if back then { (specAfter sp cur ctx kind rate pw) with muted := true }
            else specAfter sp cur ctx kind rate pw
          let sp' := { sp' with clockMax := if sp.clockMax < now then now else sp.clockMax }
          ({ s := some real, spec := sp', once := once' },
           d ++ bad ++ (mon ++ mon2).map fun m => s!"MON\t{seq}\t{m}")
    | _, _, _, _, _, _ => (st, [s!"BAD\t{seq}\tla.op args"])
  | "la.once" :: kind :: now :: h :: amt :: rate :: pow :: o :: proj =>
    match st.s, parseInt? now, parseInt? h, parseInt? amt, parseInt? rate with
    | some cur, some now, some h, some amt, some rate =>
      match parseOp kind amt rate with
      | none => (st, [s!"BAD\t{seq}\tla.once kind"])
      | some op =>
        match replay seq cur ⟨now, h⟩ op pow o proj with
        | none => (st, [s!"BAD\t{seq}\tcannot parse state"])
        | some (real, pw, d) =>
          let oc : Option Once := match pw with
            | some p => if o = "ok" && active cur && isAccruing kind && kind != "close" &&
                  !(kind = "lsr" && !(sweepFine cur ⟨now, h⟩ pw)) then
                some { n := netOf cur, pw := p, now := now, kind := kind, booked := booked real } else none
            | none => none
          -- the branch is discarded: model state and ghost stay
          ({ st with once := oc }, d)
    | _, _, _, _, _ => (st, [s!"BAD\t{seq}\tla.once args"])
  | _ => (st, [s!"BAD\t{seq}\tunknown la line"])

end Comdex.Drv.LockerAccrualDrv
