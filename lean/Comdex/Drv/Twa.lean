import Comdex.Base.Line
import Comdex.Model.Twa
/-! Driver for the Twa model.

Lines (tab separated):
  twa.begin   N acc
  twa.sample  rate height  <outcome> <state>
  twa.discard              <outcome> <state>
  twa.deact                <outcome> <state>
  twa.latest               <outcome> <value|->        outcome ∈ ok err panic
  twa.val                  <outcome>                  outcome ∈ ok err
state := `none` | `vals=..;idx=..;twa=..;act=..;disc=..`
-/
-- DRIVER: prefix=twa ns=Comdex.Drv.Twa
namespace Comdex.Drv.Twa
open Comdex.Twa Comdex.Line

structure St where
  N : Nat := 1
  acc : Int := 0
  s : Option Rec := none
  samples : List Nat := []   -- ghost: every positive sample since the last reset (for the monitor)

def init : St := {}

def showRec : Option Rec → String
  | none => "none"
  | some r => s!"vals={showNatList r.values};idx={r.idx};twa={r.twa};act={r.active};disc={r.discarded}"

def parseRec (s : String) : Option (Option Rec) :=
  if s = "none" then some none else
  let fs := s.splitOn ";"
  do
    let vals ← field? fs "vals" >>= parseNatList
    let idx ← field? fs "idx" >>= parseNat?
    let twa ← field? fs "twa" >>= parseNat?
    let act ← field? fs "act" >>= parseBool?
    let disc ← field? fs "disc" >>= parseInt?
    pure (some { values := vals, idx := idx, twa := twa, active := act, discarded := disc })

/-- monitor on a real stored record: ring well-formedness, and `abs` agrees with the spec step -/
def monitor (N : Nat) (acc : Int) (before after : Option Rec) (op : Op) : List String :=
  let m1 := if decide (WfO N after) then [] else ["wf"]
  let m2 := if decide (WfO N before) && abs after != (abs before).step N acc op then ["spec"] else []
  m1 ++ m2

def applyOp (st : St) (tag : String) (op : Op) (outcome : String) (implState : String) : St × List String :=
  match step st.N st.acc st.s op with
  | .error _ =>
    if outcome = "panic" then (st, [])
    else (st, [s!"DIFF\t{tag}\tmodel=panic\timpl={outcome} {implState}"])
  | .ok s' =>
    if outcome = "panic" then ({ st with s := s' }, [s!"DIFF\t{tag}\tmodel=ok {showRec s'}\timpl=panic", s!"MON\t{tag}\tno_panic"])
    else match parseRec implState with
      | none => (st, [s!"BAD\t{tag}\tcannot parse impl state {implState}"])
      | some impl =>
        let mons := (monitor st.N st.acc st.s impl op).map fun m => s!"MON\t{tag}\t{m}"
        let d := if impl = s' then [] else [s!"DIFF\t{tag}\tmodel={showRec s'}\timpl={implState}"]
        ({ st with s := impl }, d ++ mons)

def handle (st : St) (seq : String) (f : List String) : St × List String :=
  match f with
  | ["twa.begin", n, a] =>
    match parseNat? n, parseInt? a with
    | some n, some a => ({ N := n, acc := a }, [])
    | _, _ => (st, [s!"BAD\t{seq}\tbegin"])
  | ["twa.sample", r, h, o, is] =>
    match parseNat? r, parseInt? h with
    | some r, some h => applyOp st seq (.sample r h) o is
    | _, _ => (st, [s!"BAD\t{seq}\tsample"])
  | ["twa.discard", o, is] => applyOp st seq .discardAll o is
  | ["twa.deact", o, is] => applyOp st seq .deactivate o is
  | ["twa.latest", o, v] =>
    let m := match latestPrice st.s with
      | .error _ => "panic\t-"
      | .ok none => "err\t-"
      | .ok (some x) => s!"ok\t{x}"
    if m = s!"{o}\t{v}" then (st, []) else
      (st, [s!"DIFF\t{seq}\tmodel={m}\timpl={o} {v}"] ++ (if o = "panic" then [s!"MON\t{seq}\tno_panic"] else []))
  | ["twa.val", o, v] =>
    let m := match valuation st.s with | none => "err\t-" | some t => s!"ok\t{t}"
    let mon := if (o = "ok") != ((abs st.s).active) then [s!"MON\t{seq}\tfail_closed"] else []
    if m = s!"{o}\t{v}" then (st, mon) else (st, [s!"DIFF\t{seq}\tmodel={m}\timpl={o} {v}"] ++ mon)
  | _ => (st, [s!"BAD\t{seq}\tunknown twa line"])

end Comdex.Drv.Twa
