import Comdex.Base.Line
/-! Driver plug-in for C16 (determinism). A Lean function is deterministic by construction, so there is no model
output to compare with; the plug-in evaluates the property's decidable form on what the REAL application produced.

Lines (tab separated):
  det.begin  <label> <n>
  det.block  <height> <ok|empty> <txOk> <txFail> <hashA> <hashB> <hashChildA> <hashChildB> <hashChildF> [<hashC>]
      hashes of (ordered dump of every IAVL store ‖ all bank balances ‖ app hash ‖ validator updates) after the
      block, on two in-process instances (B after A and after a different warm-up workload in the same process, with
      wall-clock jitter; C, thorough only, after a longer unrelated history) and in three fresh OS processes (childF with
      a shifted wall clock and another time zone). Monitor `replay_equal`: at least five hashes, all equal, none missing.
  det.results <height> <nTx> <resA> <resB> <resChildA> <resChildB> <resChildF> [<resC>]
      hashes of the block's transaction results (code, codespace, data, gas wanted / used, events with their attributes
      in emitted order, of every DeliverTx) on the same replicas. Monitor `results_equal`: at least five, all equal.
  det.site   <name> <ok> <runs> <distinct>
      the named function / block hook was run `runs` times in one process on identical inputs and produced `distinct`
      different results. Monitor `site_stable`: distinct = 1.
  det.sanity <name> <ok> <runs> <distinct>
      control: a deliberately order-DEPENDENT loop in the harness; BAD unless distinct > 1.
-/
-- DRIVER: prefix=det ns=Comdex.Drv.Determinism
namespace Comdex.Drv.Determinism
open Comdex.Line

structure St where
  blocks : Nat := 0
  deriving Inhabited

def init : St := {}

/-- the decidable form of "the replays agree" -/
def replayEqual (hs : List String) : Bool :=
  match hs with
  | [] => false
  | h :: rest => h.length ≥ 16 && h != "missing" && rest.all (· == h)

def handle (st : St) (seq : String) (f : List String) : St × List String :=
  match f with
  | ["det.begin", _, _] => ({ blocks := 0 }, [])
  | "det.block" :: h :: _ :: ok :: fail :: a :: b :: ca :: cb :: more =>
    match parseNat? h, parseNat? ok, parseNat? fail with
    | some _, some _, some _ =>
      if 1 ≤ more.length && more.length ≤ 2 && replayEqual ([a, b, ca, cb] ++ more) then ({ st with blocks := st.blocks + 1 }, [])
      else ({ st with blocks := st.blocks + 1 }, [s!"MON\t{seq}\treplay_equal"])
    | _, _, _ => (st, [s!"BAD\t{seq}\tdet.block fields"])
  | "det.results" :: h :: n :: a :: b :: ca :: cb :: more =>
    match parseNat? h, parseNat? n with
    | some _, some _ =>
      if 1 ≤ more.length && more.length ≤ 2 && replayEqual ([a, b, ca, cb] ++ more) then (st, [])
      else (st, [s!"MON\t{seq}\tresults_equal"])
    | _, _ => (st, [s!"BAD\t{seq}\tdet.results fields"])
  | ["det.site", _, _, runs, distinct] =>
    match parseNat? runs, parseNat? distinct with
    | some r, some d =>
      if r > 0 && d == 1 then (st, []) else (st, [s!"MON\t{seq}\tsite_stable"])
    | _, _ => (st, [s!"BAD\t{seq}\tdet.site fields"])
  | ["det.sanity", _, _, runs, distinct] =>
    -- an order-dependent control loop must show more than one result, otherwise the site test sees nothing
    match parseNat? runs, parseNat? distinct with
    | some _, some d => if d > 1 then (st, []) else (st, [s!"BAD\t{seq}\tmap iteration order not observable by the harness"])
    | _, _ => (st, [s!"BAD\t{seq}\tdet.sanity fields"])
  | _ => (st, [s!"BAD\t{seq}\tunknown det line"])

end Comdex.Drv.Determinism
