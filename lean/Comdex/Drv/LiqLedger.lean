import Comdex.Base.Line
import Comdex.Model.LiqLedger
/-! Driver for the liquidity ledger model (C04, C07).

Lines (tab separated, after `seq`):
  lq.begin   prop queueDur apps funds
                 apps  = app:feeRate:batch:maxLife:pairFee:poolFee:minDep:minSup:maxPools:tickPrec:maxPriceRatio:maxMMTicks;…
                 funds = user:coin:amt;…
  lq.block   height now
  lq.createPair app user base quote ext <outcome>
  lq.createPool app user pair ranged dx dy ammPs ext <outcome>
  lq.deposit app user pool dx dy ext <outcome>
  lq.withdraw app user pool pc poolCoinDenom <outcome>     (the denom check — THIS pool's pool coin, app AND pool id — is `poolCoinOk`)
  lq.order   app user pair typ buy offerDenom demandDenom msgOffer msgPrice amount lifespan <outcome>
  lq.mmOrder app user pair maxSell minSell sellAmt maxBuy minBuy buyAmt lifespan <outcome>
                 (the tick-fitted price, the ticks of a market-making order and the price / tick / denom validations are
                  computed by the MODEL from the message and the pair's last price — a change to them in the code is a DIFF)
  lq.cancel  app user pair id <outcome>
  lq.cancelAll app user pairs <outcome>
  lq.cancelMM app user pair <outcome>
  lq.farm / liq.unfarm  app user pool amt poolCoinDenom <outcome>
  lq.depositAndFarm app user pool dx dy ax ay pc ext <outcome>
  lq.unfarmAndWithdraw app user pool amt x y ext <outcome>
  lq.bb      app
  lq.migrate <outcome>                      the REAL `Migrator.Migrate1to2` on a store re-encoded in the version-1 layout
  lq.eb      app matches deps wdrs <outcome>
                 matches = pair/fills/flows/dust/last|…   fill = id:buy:paid:recv:matched   flow = pool:buy:paid:recv
                           last = the pair's LastPrice after the batch (raw) or "-"
                 deps = pool:id:ax:ay:pc,…   wdrs = pool:id:x:y,…
  lq.state   bal=… pairs=… pools=… deps=… wdrs=… orders=… mm=… farm=…      (the REAL state projection)
  lq.inv     ok|broken msg                                                   (the repository's AllInvariants)

outcome ∈ ok err panic; only ok / not-ok is compared.  At every `liq.state` line the model state is compared
with the real projection (DIFF) and the monitors of the property named in `liq.begin` are evaluated on the REAL
projection (MON).  Monitor names: C04 — escrow_requests pair_escrow farm_custody zero_supply_disabled
poolcoin_supply repo_invariants; C07 — taken_exact settled_exact cancellable mm_cancel_all cancel_all_cancels_all
mm_index_complete fee_collector_exact; both — migration_identity.
-/
-- DRIVER: prefix=lq ns=Comdex.Drv.LiqLedger
namespace Comdex.Drv.LiqLedger
open Comdex.LiqLedger Comdex.Line

structure St where
  prop : String := "C04"
  cfg : Cfg := { apps := [], swapLookup := false, queueDur := 86400 }
  s : State := {}
  alt : Option State := none           -- result of the last MM cancel / replace under the swapped lookup (D4)
  real : State := {}                   -- last real projection
  haveReal : Bool := false
  lastOp : Option Op := none
  lastOk : Bool := false
  pendingDiff : List String := []

def init : St := {}

/-! ### parsing -/

def splitList (s : String) (sep : String) : List String := if s = "" then [] else s.splitOn sep

def pNat (s : String) : Option Nat := s.toNat?
def pInt (s : String) : Option Int := s.toInt?
def pBool (s : String) : Option Bool := parseBool? s

def pDenom (s : String) : Option Denom :=
  if s.startsWith "c" then (s.drop 1).toString.toNat?.map .coin
  else if s.startsWith "p" then
    match (s.drop 1).toString.splitOn "." with
    | [a, p] => do pure (.pool (← a.toNat?) (← p.toNat?))
    | _ => none
  else none

def pTwo (s : String) : Option (Nat × Nat) :=
  match s.splitOn "." with
  | [a, p] => do pure (← a.toNat?, ← p.toNat?)
  | _ => none

def pAcct (s : String) : Option Acct :=
  if s = "ge" then some .gEscrow
  else if s = "mo" then some .module
  else
    let pre := (s.take 2).toString
    let rest := (s.drop 2).toString
    if pre = "pe" then (pTwo rest).map fun x => .pairEscrow x.1 x.2
    else if pre = "sf" then (pTwo rest).map fun x => .swapFee x.1 x.2
    else if pre = "rs" then (pTwo rest).map fun x => .reserve x.1 x.2
    else if pre = "du" then rest.toNat?.map .dust
    else if pre = "fc" then rest.toNat?.map .feeColl
    else if s.startsWith "u" then (s.drop 1).toString.toNat?.map .user
    else none

def pRStatus : String → Option RStatus
  | "1" => some .pending | "2" => some .succeeded | "3" => some .failed | _ => none
def pOStatus : String → Option OStatus
  | "1" => some .notExecuted | "2" => some .notMatched | "3" => some .partially
  | "4" => some .completed | "5" => some .canceled | "6" => some .expired | _ => none
def pOType : String → Option OType
  | "1" => some .limit | "2" => some .market | "3" => some .mm | _ => none

def pBank (s : String) : Option Bank :=
  (splitList s ",").foldlM (init := ([] : Bank)) fun b e =>
    match e.splitOn ":" with
    | [k, v] => match k.splitOn "/" with
      | [a, d] => do pure (b.set (← pAcct a, ← pDenom d) (← pNat v))
      | _ => none
    | _ => none

def pOptNat (s : String) : Option (Option Nat) := if s = "-" then some none else (pNat s).map some

def pPairs (s : String) : Option (List Pair) :=
  (splitList s ",").mapM fun e =>
    match e.splitOn ":" with
    | [a, i, b, q, l, bt, lp] => do
      pure { app := ← pNat a, id := ← pNat i, base := ← pDenom b, quote := ← pDenom q, lastOrderId := ← pNat l, curBatch := ← pNat bt,
             lastPrice := ← pOptNat lp }
    | _ => none

def pPools (s : String) : Option (List Pool) :=
  (splitList s ",").mapM fun e =>
    match e.splitOn ":" with
    | [a, i, p, r, d, ps, ld, lw] => do
      pure { app := ← pNat a, id := ← pNat i, pair := ← pNat p, ranged := ← pBool r, disabled := ← pBool d, ps := ← pNat ps,
             lastDep := ← pNat ld, lastWdr := ← pNat lw }
    | _ => none

def poolPair (pairs : List Pair) (pools : List Pool) (a pl : Nat) : Option Pair :=
  match findBy (isPool a pl) pools with
  | none => none
  | some q => findBy (isPair a q.pair) pairs

def pDeps (pairs : List Pair) (pools : List Pool) (s : String) : Option (List DepReq) :=
  (splitList s ",").mapM fun e =>
    match e.splitOn ":" with
    | [a, pl, i, o, dx, dy, st, ax, ay, m] => do
      let a ← pNat a; let pl ← pNat pl
      let p ← poolPair pairs pools a pl
      pure { app := a, pool := pl, id := ← pNat i, owner := ← pNat o, qd := p.quote, bd := p.base, dx := ← pNat dx, dy := ← pNat dy,
             status := ← pRStatus st, ax := ← pNat ax, ay := ← pNat ay, minted := ← pNat m }
    | _ => none

def pWdrs (s : String) : Option (List WdrReq) :=
  (splitList s ",").mapM fun e =>
    match e.splitOn ":" with
    | [a, pl, i, o, pc, st, wx, wy] => do
      pure { app := ← pNat a, pool := ← pNat pl, id := ← pNat i, owner := ← pNat o, pc := ← pNat pc, status := ← pRStatus st,
             wx := ← pNat wx, wy := ← pNat wy }
    | _ => none

def pOrders (pairs : List Pair) (s : String) : Option (List Order) :=
  (splitList s ",").mapM fun e =>
    match e.splitOn ":" with
    | [a, p, i, o, t, b, pr, am, op, off, rem, rc, st, bt, ex] => do
      let a ← pNat a; let p ← pNat p
      let pp ← findBy (isPair a p) pairs
      let buy ← pBool b
      pure { app := a, pair := p, id := ← pNat i, owner := ← pNat o, typ := ← pOType t, buy := buy,
             od := if buy then pp.quote else pp.base, dd := if buy then pp.base else pp.quote,
             price := ← pNat pr, amount := ← pNat am, openAmt := ← pNat op, offer := ← pNat off, remaining := ← pNat rem,
             received := ← pNat rc, status := ← pOStatus st, batch := ← pNat bt, expireAt := ← pInt ex,
             taken := 0, refunded := 0, feeFwd := 0 }
    | _ => none

def pMM (s : String) : Option (List MMIndex) :=
  (splitList s ",").mapM fun e =>
    match e.splitOn ":" with
    | [a, p, o, ids] => do
      pure { app := ← pNat a, pair := ← pNat p, owner := ← pNat o, ids := ← (splitList ids ";").mapM pNat }
    | _ => none

def pFarm (s : String) : Option (List Farmer) :=
  (splitList s ",").mapM fun e =>
    match e.splitOn ":" with
    | [a, p, o, act, q] => do
      let qs ← (splitList q ";").mapM fun x => match x.splitOn "@" with
        | [n, t] => do pure ((← pNat n), (← pInt t))
        | _ => none
      pure { app := ← pNat a, pool := ← pNat p, owner := ← pNat o, queued := qs, active := ← pNat act }
    | _ => none

def pReal (f : List String) : Option State := do
  let bank ← field? f "bal" >>= pBank
  let pairs ← field? f "pairs" >>= pPairs
  let pools ← field? f "pools" >>= pPools
  let deps ← field? f "deps" >>= pDeps pairs pools
  let wdrs ← field? f "wdrs" >>= pWdrs
  let orders ← field? f "orders" >>= pOrders pairs
  let mm ← field? f "mm" >>= pMM
  let farmers ← field? f "farm" >>= pFarm
  pure { bank := bank, pairs := pairs, pools := pools, deps := deps, wdrs := wdrs, orders := orders, mm := mm, farmers := farmers }

def pApps (s : String) : Option (List AppCfg) :=
  (splitList s ";").mapM fun e =>
    match e.splitOn ":" with
    | [a, fr, b, ml, pf, plf, md, ms, mp, tp, mr, mt] => do
      pure { app := ← pNat a, feeRate := ← pNat fr, batchSize := ← pNat b, maxLifespan := ← pInt ml, pairFee := ← pNat pf,
             poolFee := ← pNat plf, minInitDeposit := ← pNat md, minInitSupply := ← pNat ms, maxPools := ← pNat mp,
             tickPrec := ← pNat tp, maxPriceRatio := ← pNat mr, maxMMTicks := ← pNat mt }
    | _ => none

def pFunds (s : String) : Option (List (Nat × Nat × Nat)) :=
  (splitList s ";").mapM fun e =>
    match e.splitOn ":" with
    | [u, c, n] => do pure (← pNat u, ← pNat c, ← pNat n)
    | _ => none

def pTicks (s : String) : Option (List Tick) :=
  (splitList s ",").mapM fun e =>
    match e.splitOn ":" with
    | [o, p, a] => do pure { offer := ← pNat o, price := ← pNat p, amount := ← pNat a }
    | _ => none

def pFills (s : String) : Option (List Fill) :=
  (splitList s ",").mapM fun e =>
    match e.splitOn ":" with
    | [i, b, p, r, m] => do pure { id := ← pNat i, buy := ← pBool b, paid := ← pNat p, recv := ← pNat r, matched := ← pNat m }
    | _ => none

def pFlows (s : String) : Option (List PoolFlow) :=
  (splitList s ",").mapM fun e =>
    match e.splitOn ":" with
    | [i, b, p, r] => do pure { pool := ← pNat i, buy := ← pBool b, paid := ← pNat p, recv := ← pNat r }
    | _ => none

def pMatches (s : String) : Option (List MatchIn) :=
  (splitList s "|").mapM fun e =>
    match e.splitOn "/" with
    | [p, fs, fl, d, lp] => do
      pure { pair := ← pNat p, fills := ← pFills fs, pools := ← pFlows fl, dust := ← pNat d, last := ← pOptNat lp }
    | _ => none

def pDepIns (s : String) : Option (List DepIn) :=
  (splitList s ",").mapM fun e =>
    match e.splitOn ":" with
    | [p, i, ax, ay, pc] => do pure { pool := ← pNat p, id := ← pNat i, ax := ← pNat ax, ay := ← pNat ay, pc := ← pNat pc }
    | _ => none

def pWdrIns (s : String) : Option (List WdrIn) :=
  (splitList s ",").mapM fun e =>
    match e.splitOn ":" with
    | [p, i, x, y] => do pure { pool := ← pNat p, id := ← pNat i, x := ← pNat x, y := ← pNat y }
    | _ => none

/-- op line → (op, real outcome) -/
def pOp (f : List String) : Option (Op × String) :=
  match f with
  | ["lq.block", h, t] => do pure (.block (← pNat h) (← pInt t), "ok")
  | ["lq.createPair", a, u, b, q, e, o] => do pure (.createPair (← pNat a) (← pNat u) (← pDenom b) (← pDenom q) (← pBool e), o)
  | ["lq.createPool", a, u, p, r, dx, dy, ps, e, o] => do
    pure (.createPool (← pNat a) (← pNat u) (← pNat p) (← pBool r) (← pNat dx) (← pNat dy) (← pNat ps) (← pBool e), o)
  | ["lq.deposit", a, u, p, dx, dy, e, o] => do pure (.deposit (← pNat a) (← pNat u) (← pNat p) (← pNat dx) (← pNat dy) (← pBool e), o)
  | ["lq.withdraw", a, u, p, pc, d, o] => do
    let a ← pNat a; let p ← pNat p
    pure (.withdraw a (← pNat u) p (← pNat pc) (poolCoinOk a p (← pDenom d)), o)
  | ["lq.order", a, u, p, t, b, od, dd, mo, mp, am, l, o] => do
    pure (.order (← pNat a) (← pNat u) (← pNat p) (← pOType t) (← pBool b) (← pDenom od) (← pDenom dd) (← pNat mo) (← pNat mp)
            (← pNat am) (← pInt l), o)
  | ["lq.mmOrder", a, u, p, xs, ns, sa, xb, nb, ba, l, o] => do
    pure (.mmOrder (← pNat a) (← pNat u) (← pNat p) (← pNat xs) (← pNat ns) (← pNat sa) (← pNat xb) (← pNat nb) (← pNat ba) (← pInt l), o)
  | ["lq.cancel", a, u, p, i, o] => do pure (.cancel (← pNat a) (← pNat u) (← pNat p) (← pNat i), o)
  | ["lq.cancelAll", a, u, ps, o] => do pure (.cancelAll (← pNat a) (← pNat u) (← parseNatList ps), o)
  | ["lq.cancelMM", a, u, p, o] => do pure (.cancelMM (← pNat a) (← pNat u) (← pNat p), o)
  | ["lq.farm", a, u, p, n, d, o] => do
    let a ← pNat a; let p ← pNat p
    pure (.farm a (← pNat u) p (← pNat n) (poolCoinOk a p (← pDenom d)), o)
  | ["lq.unfarm", a, u, p, n, d, o] => do
    let a ← pNat a; let p ← pNat p
    pure (.unfarm a (← pNat u) p (← pNat n) (poolCoinOk a p (← pDenom d)), o)
  | ["lq.depositAndFarm", a, u, p, dx, dy, ax, ay, pc, e, o] => do
    pure (.depositAndFarm (← pNat a) (← pNat u) (← pNat p) (← pNat dx) (← pNat dy) (← pNat ax) (← pNat ay) (← pNat pc) (← pBool e), o)
  | ["lq.unfarmAndWithdraw", a, u, p, n, x, y, d, o] => do
    let a ← pNat a; let p ← pNat p
    pure (.unfarmAndWithdraw a (← pNat u) p (← pNat n) (← pNat x) (← pNat y) (poolCoinOk a p (← pDenom d)), o)
  | ["lq.bb", a] => do pure (.beginBlock (← pNat a), "ok")
  | ["lq.migrate", o] => some (.migrate, o)
  | ["lq.eb", a, ms, ds, ws, o] => do pure (.endBlock (← pNat a) (← pMatches ms) (← pDepIns ds) (← pWdrIns ws), o)
  | _ => none

/-! ### comparison of the model state with the real projection -/

def isGhost : Acct → Bool
  | .mIn _ _ | .mOut _ _ => true
  | _ => false

def bankLe (a b : Bank) : Bool := a.all fun e => isGhost e.1.1 || e.2 == b.get e.1

def leO (x y : Order) : Bool := x.app < y.app || (x.app == y.app && (x.pair < y.pair || (x.pair == y.pair && x.id ≤ y.id)))
def leD (x y : DepReq) : Bool := x.app < y.app || (x.app == y.app && (x.pool < y.pool || (x.pool == y.pool && x.id ≤ y.id)))
def leW (x y : WdrReq) : Bool := x.app < y.app || (x.app == y.app && (x.pool < y.pool || (x.pool == y.pool && x.id ≤ y.id)))
def leP (x y : Pair) : Bool := x.app < y.app || (x.app == y.app && x.id ≤ y.id)
def leQ (x y : Pool) : Bool := x.app < y.app || (x.app == y.app && x.id ≤ y.id)
def leM (x y : MMIndex) : Bool := x.app < y.app || (x.app == y.app && (x.pair < y.pair || (x.pair == y.pair && x.owner ≤ y.owner)))
def leF (x y : Farmer) : Bool := x.app < y.app || (x.app == y.app && (x.pool < y.pool || (x.pool == y.pool && x.owner ≤ y.owner)))

def unghost (o : Order) : Order := { o with taken := 0, refunded := 0, feeFwd := 0 }

def firstDiff [BEq α] [Repr α] : List α → List α → String
  | [], [] => ""
  | x :: _, [] => s!"model has extra {(repr x).pretty 400}"
  | [], y :: _ => s!"impl has extra {(repr y).pretty 400}"
  | x :: xs, y :: ys => if x == y then firstDiff xs ys else s!"model {(repr x).pretty 400} impl {(repr y).pretty 400}"

def bankDiff (m r : Bank) : String :=
  let a := m.filter fun e => !(isGhost e.1.1 || e.2 == r.get e.1)
  let b := r.filter fun e => !(e.2 == m.get e.1)
  match a, b with
  | e :: _, _ => s!"{(repr e.1).pretty 200} model={e.2} impl={r.get e.1}"
  | [], e :: _ => s!"{(repr e.1).pretty 200} model={m.get e.1} impl={e.2}"
  | [], [] => ""

/-- list of (section, detail) in which model and real projection disagree -/
def stateDiff (m r : State) : List String :=
  let secs : List (String × String) := [
    ("bal", if bankLe m.bank r.bank && bankLe r.bank m.bank then "" else bankDiff m.bank r.bank),
    ("pairs", firstDiff (m.pairs.mergeSort leP) (r.pairs.mergeSort leP)),
    ("pools", firstDiff (m.pools.mergeSort leQ) (r.pools.mergeSort leQ)),
    ("deps", firstDiff (m.deps.mergeSort leD) (r.deps.mergeSort leD)),
    ("wdrs", firstDiff (m.wdrs.mergeSort leW) (r.wdrs.mergeSort leW)),
    ("orders", firstDiff ((m.orders.map unghost).mergeSort leO) (r.orders.mergeSort leO)),
    ("mm", firstDiff (m.mm.mergeSort leM) (r.mm.mergeSort leM)),
    ("farm", firstDiff (m.farmers.mergeSort leF) (r.farmers.mergeSort leF))]
  secs.filterMap fun x => if x.2 = "" then none else some s!"{x.1}: {x.2}"

/-! ### monitors, evaluated on the REAL projection only -/

def allDenoms (r : State) : List Denom :=
  (List.range 6).map Denom.coin ++ r.pools.map fun q => Denom.pool q.app q.id

def monEscrowRequests (r : State) : Bool :=
  (allDenoms r).all fun d => depSum d r.deps + wdrSum d r.wdrs ≤ r.bal .gEscrow d

def monPairEscrow (r : State) : Bool :=
  r.pairs.all fun p => [p.base, p.quote].all fun d => remSum p.app p.id d r.orders ≤ r.bal (.pairEscrow p.app p.id) d

def monFarmCustody (r : State) : Bool :=
  r.pools.all fun q => r.bal .module (.pool q.app q.id) == farmSum q.app q.id r.farmers

def monZeroSupply (r : State) : Bool := r.pools.all fun q => q.ps != 0 || q.disabled

def sumBy (f : α → Nat) (l : List α) : Nat := (l.map f).foldl (· + ·) 0
def sumI (f : α → Int) (l : List α) : Int := (l.map f).foldl (· + ·) 0

def newlyDep (prev : State) (r : DepReq) (st : RStatus) : Bool :=
  r.status == st && match findBy (isDep r.app r.pool r.id) prev.deps with
    | none => true
    | some p => p.status == .pending
def newlyWdr (prev : State) (r : WdrReq) (st : RStatus) : Bool :=
  r.status == st && match findBy (isWdr r.app r.pool r.id) prev.wdrs with
    | none => true
    | some p => p.status == .pending

/-- pool-coin supply changes only by pool creation and by executed deposits / withdrawals of that pool, and by
exactly the minted / burned amounts -/
def monSupply (prev cur : State) (op : Option Op) (ok : Bool) : Bool :=
  cur.pools.all fun q =>
    let minted := sumBy (fun r => if r.app == q.app && r.pool == q.id && newlyDep prev r .succeeded then r.minted else 0) cur.deps
    let burned := sumBy (fun r => if r.app == q.app && r.pool == q.id && newlyWdr prev r .succeeded then r.pc else 0) cur.wdrs
    match prev.pool? q.app q.id with
    | none => (match op with | some (.createPool a ..) => ok && a == q.app | _ => false) && q.ps > 0 && minted == 0 && burned == 0
    | some p =>
      q.ps + burned == p.ps + minted &&
      (q.ps == p.ps || match op with
        | some (.endBlock ..) => true      -- one EndBlocker call runs the batches of all apps
        | some (.depositAndFarm a _ pl ..) => a == q.app && pl == q.id
        | some (.unfarmAndWithdraw a _ pl ..) => a == q.app && pl == q.id
        | _ => false)

/-- the property's refund: unspent offer coin + the part of the fee reserve not attributable to the executed portion -/
def specRefund (cfg : Cfg) (o : Order) : Nat :=
  let r := rateOf cfg o.app
  o.remaining + (feeRes r o - (if o.typ == .mm then 0 else feeOf r (o.offer - o.remaining)))

def specFeeFwd (cfg : Cfg) (o : Order) : Nat :=
  if o.typ == .mm then 0 else feeOf (rateOf cfg o.app) (o.offer - o.remaining)

def isNewOrder (prev : State) (o : Order) : Bool := (prev.order? o.key).isNone
def newlyTerminated (prev : State) (o : Order) : Bool :=
  !o.status.live && match prev.order? o.key with
    | none => true
    | some p => p.status.live
def prevReceived (prev : State) (o : Order) : Nat := ((prev.order? o.key).map (·.received)).getD 0

def farmTotal (s : State) (a p u : Nat) : Nat :=
  sumBy (fun f => if f.app == a && f.pool == p && f.owner == u then qTotal f.queued + f.active else 0) s.farmers

/-- what the records say user `u`'s balance in denom `d` must have changed by -/
def explain (cfg : Cfg) (prev cur : State) (op : Option Op) (ok : Bool) (u : Nat) (d : Denom) : Int :=
  let rate := fun (o : Order) => rateOf cfg o.app
  let ords : Int := sumI (fun o =>
      if o.owner != u then 0 else
      (if o.od == d && isNewOrder prev o then - ((o.offer + feeRes (rate o) o : Nat) : Int) else 0)
      + (if o.od == d && newlyTerminated prev o then (specRefund cfg o : Int) else 0)
      + (if o.dd == d then (o.received : Int) - (prevReceived prev o : Int) else 0)) cur.orders
  let deps : Int := sumI (fun r =>
      if r.owner != u then 0 else
      let whole : Int := (if r.qd == d then (r.dx : Int) else 0) + (if r.bd == d then (r.dy : Int) else 0)
      (if (findBy (isDep r.app r.pool r.id) prev.deps).isNone then - whole else 0)
      + (if newlyDep prev r .failed then whole else 0)
      + (if newlyDep prev r .succeeded then
          (if r.qd == d then (r.dx : Int) - r.ax else 0) + (if r.bd == d then (r.dy : Int) - r.ay else 0)
          + (if d == Denom.pool r.app r.pool then (r.minted : Int) else 0) else 0)) cur.deps
  let wdrs : Int := sumI (fun r =>
      if r.owner != u then 0 else
      let pcd : Int := if d == Denom.pool r.app r.pool then (r.pc : Int) else 0
      (if (findBy (isWdr r.app r.pool r.id) prev.wdrs).isNone then - pcd else 0)
      + (if newlyWdr prev r .failed then pcd else 0)
      + (if newlyWdr prev r .succeeded then
          match poolPair cur.pairs cur.pools r.app r.pool with
          | none => 0
          | some p => (if p.quote == d then (r.wx : Int) else 0) + (if p.base == d then (r.wy : Int) else 0)
        else 0)) cur.wdrs
  let farm : Int := match d with
    | .pool a p => (farmTotal prev a p u : Int) - farmTotal cur a p u
    | _ => 0
  let create : Int := if !ok then 0 else match op with
    | some (.createPair a c _ _ _) => if c == u && d == .coin 0 then - (((cfg.app? a).map (·.pairFee)).getD 0 : Int) else 0
    | some (.createPool a c p _ dx dy _ _) =>
      if c != u then 0 else
      (if d == .coin 0 then - (((cfg.app? a).map (·.poolFee)).getD 0 : Int) else 0)
      + (match findBy (isPair a p) cur.pairs with
         | none => 0
         | some pp => (if pp.quote == d then - (dx : Int) else 0) + (if pp.base == d then - (dy : Int) else 0))
      + (match d with
         | .pool a' pl => if a' == a && (prev.pool? a pl).isNone then (((cur.pool? a pl).map (·.ps)).getD 0 : Int) else 0
         | _ => 0)
    | _ => 0
  ords + deps + wdrs + farm + create

def users (r : State) : List Nat :=
  (r.bank.filterMap fun e => match e.1.1 with | .user n => some n | _ => none).eraseDups

/-- every user's balance change is explained by the order / request / farm records (C07: taken and returned exactly) -/
def monUsersExplained (cfg : Cfg) (prev cur : State) (op : Option Op) (ok : Bool) : Bool :=
  (users cur ++ users prev).eraseDups.all fun u => (allDenoms cur).all fun d =>
    (cur.bal (.user u) d : Int) - prev.bal (.user u) d == explain cfg prev cur op ok u d

/-- the pair escrow holds exactly the live orders' remaining offer + fee reserve, plus what matching left
(model ghost accounts `mIn − mOut`, accumulated from the observed fills): nothing of a terminated order remains -/
def monEscrowExact (cfg : Cfg) (m cur : State) : Bool :=
  cur.pairs.all fun p => [p.base, p.quote].all fun d =>
    (cur.bal (.pairEscrow p.app p.id) d : Int) + m.bal (.mOut p.app p.id) d
      == (liveSum cfg p.app p.id d cur.orders : Int) + m.bal (.mIn p.app p.id) d

/-- the swap-fee collector received exactly the fee attributable to the executed portion of the orders that ended -/
def monFeeFwd (cfg : Cfg) (prev cur : State) : Bool :=
  cur.pairs.all fun p => [p.base, p.quote].all fun d =>
    cur.bal (.swapFee p.app p.id) d ==
      prev.bal (.swapFee p.app p.id) d +
      sumBy (fun o => if o.app == p.app && o.pair == p.id && o.od == d && newlyTerminated prev o then specFeeFwd cfg o else 0) cur.orders

def monCancellable (cfg : Cfg) (prev : State) (op : Option Op) (ok : Bool) : Bool :=
  match op with
  | some (.cancel a u p i) =>
    match prev.order? (a, p, i), prev.pair? a p, cfg.app? a with
    | some o, some pp, some _ => !(o.owner == u && o.status.live && o.batch != pp.curBatch) || ok
    | _, _, _ => true
  | _ => true

/-- the owner's live market-making orders in a pair, taken from the ORDER records (not from the code's MM index, which is
exactly what a defect in this mechanism may corrupt) -/
def liveMM (r : State) (a u p : Nat) : List Order :=
  r.orders.filter fun o => o.app == a && o.pair == p && o.owner == u && o.typ == .mm && o.status.live

/-- "cancelling or replacing market-making orders cancels every previously placed market-making order of that owner in
that pair": (1) after an ACCEPTED cancel / replace none of the owner's previously live MM orders of the pair is still live;
(2) a cancel by an owner who has live MM orders there, none of them placed in the current batch, must be accepted. -/
def monMMCancelAll (prev cur : State) (op : Option Op) (ok : Bool) : Bool :=
  let allEnded := fun (a u p : Nat) =>
    (liveMM prev a u p).all fun o => match cur.order? o.key with
      | none => true
      | some o' => !o'.status.live
  let mustAccept := fun (a u p : Nat) =>
    match prev.pair? a p with
    | none => false
    | some pp => !(liveMM prev a u p).isEmpty && (liveMM prev a u p).all fun o => o.batch != pp.curBatch
  match op with
  | some (.cancelMM a u p) => if ok then allEnded a u p else !mustAccept a u p
  | some (.mmOrder a u p ..) => !ok || allEnded a u p
  | _ => true

/-- `MsgCancelAllOrders`, from the REAL order records before the message: (1) the message is accepted iff the app exists, no
pair id is 0 or repeated and every named pair exists; (2) after an accepted message every live order of that owner in the
named pairs (all pairs of the app if none is named) that is not in its placement batch is ended, and every order of the owner
that is still in its placement batch is exactly as it was. -/
def monCancelAll (cfg : Cfg) (prev cur : State) (op : Option Op) (ok : Bool) : Bool :=
  match op with
  | some (.cancelAll a u ps) =>
    let accept := (cfg.app? a).isSome && !ps.any (· == 0) && ps.eraseDups.length == ps.length &&
      ps.all fun p => (prev.pair? a p).isSome
    if ok != accept then false else
    !ok || prev.orders.all fun o =>
      if o.app == a && o.owner == u && o.status.live && (ps.isEmpty || ps.contains o.pair) then
        match prev.pair? a o.pair with
        | none => true
        | some pp =>
          if o.batch < pp.curBatch then
            match cur.order? o.key with
            | none => false
            | some o' => o'.status == .canceled
          else cur.order? o.key == some o
      else true
  | _ => true

/-- the store migration is the identity on the projection, up to the order type (→ limit) and the pool type (→ basic):
in particular every order keeps offer / REMAINING offer / received / open amount / status / batch / expiry, no coin moves -/
def monMigration (prev cur : State) (op : Option Op) (ok : Bool) : Bool :=
  match op with
  | some .migrate =>
    ok &&
    bankLe prev.bank cur.bank && bankLe cur.bank prev.bank &&
    prev.pairs == cur.pairs && prev.deps == cur.deps && prev.wdrs == cur.wdrs && prev.mm == cur.mm && prev.farmers == cur.farmers &&
    prev.orders.map (fun o => { o with typ := OType.limit }) == cur.orders.map (fun o => { o with typ := OType.limit }) &&
    cur.orders.all (fun o => o.typ == .limit) &&
    prev.pools.map (fun q => { q with ranged := false }) == cur.pools
  | _ => true

/-- index completeness on the REAL records: order keys are unique, and every live market-making order is listed in the
real MM index of its owner for its (app, pair) -/
def monIndexComplete (r : State) : Bool :=
  (r.orders.map Order.key).eraseDups.length == r.orders.length &&
  r.orders.all fun o => !(o.typ == .mm && o.status.live) ||
    match findBy (isMM o.app o.pair o.owner) r.mm with
    | none => false
    | some idx => idx.ids.contains o.id

def monitors (st : St) (cur : State) : List String :=
  let prev := st.real
  let m (name : String) (b : Bool) : List String := if b then [] else [name]
  (if st.haveReal then m "migration_identity" (monMigration prev cur st.lastOp st.lastOk) else []) ++
  if st.prop = "C04" then
    m "escrow_requests" (monEscrowRequests cur) ++ m "pair_escrow" (monPairEscrow cur) ++ m "farm_custody" (monFarmCustody cur)
    ++ m "zero_supply_disabled" (monZeroSupply cur)
    ++ (if st.haveReal then m "poolcoin_supply" (monSupply prev cur st.lastOp st.lastOk) else [])
  else
    if !st.haveReal then [] else
    let placing := match st.lastOp with | some (.order ..) => true | some (.mmOrder ..) => true | _ => false
    let explained := monUsersExplained st.cfg prev cur st.lastOp st.lastOk
    m (if placing then "taken_exact" else "settled_exact") explained
    ++ m "settled_exact" (monEscrowExact st.cfg st.s cur)
    ++ m "fee_collector_exact" (monFeeFwd st.cfg prev cur)
    ++ m "cancellable" (monCancellable st.cfg prev st.lastOp st.lastOk)
    ++ m "mm_cancel_all" (monMMCancelAll prev cur st.lastOp st.lastOk)
    ++ m "cancel_all_cancels_all" (monCancelAll st.cfg prev cur st.lastOp st.lastOk)
    ++ m "mm_index_complete" (monIndexComplete cur)

/-! ### line handler -/

def isMMOp : Op → Bool
  | .cancelMM .. => true
  | .mmOrder .. => true
  | _ => false

def handle (st : St) (seq : String) (f : List String) : St × List String :=
  match f with
  | ["lq.begin", prop, qd, apps, funds] =>
    match pInt qd, pApps apps, pFunds funds with
    | some qd, some apps, some funds =>
      ({ prop := prop, cfg := { apps := apps, swapLookup := false, queueDur := qd }, s := genesis funds }, [])
    | _, _, _ => (st, [s!"BAD\t{seq}\tbegin"])
  | "lq.state" :: rest =>
    match pReal rest with
    | none => (st, [s!"BAD\t{seq}\tcannot parse state"])
    | some cur =>
      let d := stateDiff st.s cur
      let (s', out) :=
        if d.isEmpty then (st.s, st.pendingDiff)
        else match st.alt with
          | some a =>
            if (stateDiff a cur).isEmpty then
              -- the implementation behaves as the swapped-lookup variant (swap.go:559, D4)
              (a, if st.prop = "C07" then [s!"DIFF\t{seq}\tmodel(repaired lookup) ≠ impl; impl = swapped (pairId, appId) lookup variant: {d.head!}"] else [])
            else (st.s, st.pendingDiff ++ d.map fun x => s!"DIFF\t{seq}\t{x}")
          | none => (st.s, st.pendingDiff ++ d.map fun x => s!"DIFF\t{seq}\t{x}")
      let st1 := { st with s := s' }
      let mons := (monitors st1 cur).map fun n => s!"MON\t{seq}\t{n}"
      ({ st1 with alt := none, real := cur, haveReal := true, pendingDiff := [], lastOp := none }, out ++ mons)
  | ["lq.inv", r, msg] =>
    if r = "broken" && st.prop = "C04" then (st, [s!"MON\t{seq}\trepo_invariants\t{msg}"]) else (st, [])
  | _ =>
    match pOp f with
    | none => (st, [s!"BAD\t{seq}\tcannot parse {f.head!}"])
    | some (op, outcome) =>
      let ok := outcome = "ok"
      let r := step st.cfg st.s op
      let s' := r.getD st.s
      if isMMOp op then
        -- outcome and state are judged together at the next state line, against both lookup variants
        let ra := step { st.cfg with swapLookup := true } st.s op
        let main := if r.isSome == ok then [] else [s!"DIFF\t{seq}\toutcome model(repaired lookup)={r.isSome} impl={outcome}"]
        let alt := if ra.isSome == ok then some (ra.getD st.s) else none
        ({ st with s := s', alt := alt, lastOp := some op, lastOk := ok, pendingDiff := main }, [])
      else
        let d := if r.isSome == ok then [] else [s!"DIFF\t{seq}\toutcome model={r.isSome} impl={outcome}"]
        -- informational (not a verdict): an observed match result that hands out more than it took in (D2)
        let info := match op with
          | .endBlock a ms _ _ => ms.filterMap fun m =>
              if decide (MatchConserving m) then none
              else some s!"INFO\t{seq}\tnonconserving app={a} pair={m.pair} inQ={inQ m} outQ={outQ m} inB={inB m} outB={outB m}"
          | _ => []
        let keepOp := match op with | .block .. => st.lastOp | _ => some op
        ({ st with s := s', lastOp := keepOp, lastOk := ok }, d ++ info)

end Comdex.Drv.LiqLedger
