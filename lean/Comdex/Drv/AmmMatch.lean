import Comdex.Base.Line
import Comdex.Model.AmmPool
import Comdex.Model.AmmKeeper
import Comdex.Model.AmmDust
import Comdex.Model.AmmRanged
import Comdex.Model.AmmOrders
import Comdex.Model.AmmMultiView
/-! Driver for the batch-matching model (property C05).

Lines (tab separated, after the sequence number):
  amm.begin
  amm.order  id kind oid dir(1=buy,2=sell) price amount offer open paid received batch
  amm.op single <p> <fma|none> <ok|nomatch|panic> <qcd|-> <results>
        real NewOrderBook(orders) ; FindMatchableAmountAtSinglePrice(p) ; MatchAtSinglePrice(p)
  amm.op match <lastPrice> <dir 1|2|3> <ok|nomatch|panic> <matchPrice|-> <qcd|-> <results>
        real NewOrderBook(orders) ; PriceDirection(lastPrice) ; Match(lastPrice)
  amm.op dist <amt> <p> <ok|panic> <qcd|-> <results>
        real SortOrders(orders) ; DistributeOrderAmountToOrders(orders, amt, p)
  amm.op fill <id> <amt> <p> <matchable|-> <ok|panic> <qcd|-> <results>
        real MatchableAmount(order, p) ; FillOrder(order, amt, p)
  amm.op first <prec> <price|none> <ok|nomatch|panic> <qcd|-> <results>
        real NewOrderBook(orders) ; FindMatchPrice(ob.MakeView(), prec) ; MatchAtSinglePrice(price)   (keeper's first batch)
  amm.pv <poolId> basic <rx> <ry> | amm.pv <poolId> ranged <rx> <ry> <min> <max>      a pool of the sequence's pair
  amm.op firstp <prec> <price|none> <ok|nomatch|panic> <qcd|-> <poolOrders> <results>
        real FindMatchPrice(MultipleOrderViews{ob.MakeView(), pools…}, prec); per pool a buy / sell order at that price
        (`id:poolId:dir:price:amount:offer`); MatchAtSinglePrice(price)       (keeper's first batch WITH pools)
  amm.fmp <prec> <price|none>                       real FindMatchPrice(NewOrderBook(orders).MakeView(), prec)
  amm.fmpx <prec> <price|none>                      the same at a precision the order prices are not ticks of (compared, not monitored)
  amm.view <price> <hb|none> <ls|none> <buyOver> <sellUnder>
        real MakeView: HighestBuyPrice, LowestSellPrice, BuyAmountOver(price,true), SellAmountUnder(price,true)
  amm.tk <fn> <prec> <arg> <result>                 tick.go primitives: down (PriceToDownTick), up (UpTick), ptup (PriceToUpTick),
        dn (DownTick), toidx (TickToIndex), fromidx (TickFromIndex), round (RoundPrice), hi (HighestTick), lo (LowestTick)
  amm.pool <rx> <ry> <lowest> <highest> <prec> <buys> <sells>
        real PoolBuyOrders / PoolSellOrders(NewBasicPool(rx, ry), DefaultOrderer, lowest, highest, prec); lists `price:amount,…`
        monitors pool_within_reserves / pool_not_worse_than_curve on the REAL lists
  amm.bp <fn> <rx> <ry> <price> <result|panic>      BasicPool: price, bo (BuyAmountOver), su (SellAmountUnder), bt (BuyAmountTo), st (SellAmountTo)
  amm.rp <fn> <rx> <ry> <min> <max> <price> <result|panic>   RangedPool built by NewRangedPool(rx, ry, min, max): trans (Translation,
        `transX:transY`), price, bo, su, bt, st as for amm.bp
  amm.rpool <rx> <ry> <min> <max> <lowest> <highest> <prec> <buys> <sells>
        real PoolBuyOrders / PoolSellOrders(NewRangedPool(rx, ry, min, max), DefaultOrderer, lowest, highest, prec)
        monitor pool_within_reserves_and_curve on the REAL lists (`monRPoolBuyOrders`, `monRPoolSellOrders`)
  amm.k.begin <tickPrecision>                        a fresh pair on the REAL keeper (no pools)
  amm.k.place <dir> <msgPrice> <amount> <expireAt> <ok|err> <id> <price> <offer> <batchId>
        real MsgLimitOrder through the message router; the stored order's id / tick-fitted price / offer coin / batch id
        monitor placed_price_within_limit on the REAL stored price (a grid tick; buy: ≤ the message price, sell: ≥ it)
  amm.k.params <maxPriceLimitRatio> <maxNumMarketMakingOrderTicks>     the pair's parameters (after amm.k.begin)
  amm.k.market <dir> <amount> <expireAt> <ok|err> <id> <price> <offer> <batchId>
        real MsgMarketOrder through the message router; price = last price ± ratio fitted to the grid (`placeMarket`)
  amm.k.mm <owner> <buyMin> <buyMax> <buyAmt> <sellMin> <sellMax> <sellAmt> <expireAt> <ok|err> <orders>
        real MsgMMOrder; the stored tick orders `id:dir:price:amount:offer:batch` (`placeMM`: MMOrderTicks, cancelMMOrder)
  amm.k.batch <now> <lastPrice|none> <currentBatchId> <orders>
        real liquidity.EndBlocker (ExecuteRequests → ExecuteMatching, ApplyMatchResult, expiry); every stored order of the pair
        `id:open:remaining:received:status` joined by `;` (before the next BeginBlocker prunes finished orders)
        monitors order_within_amount, order_limit_respected on the REAL stored orders; batch_executed (the batch id advanced)
results := `id:open:paid:received:matched` joined by `;`, every order of the sequence, ascending id.
Prices are Dec raws.  After every op the model continues from the REAL resulting order states.

Monitors (evaluated on the REAL results): base_conserved (only where the D2 ghost `matchLossless`/`ticksLossless` predicts the
loss; base_conserved_unexplained for any other disagreement with the prediction), quote_dust (`monQuoteDustAt` on the orders of
the book before / after the real call = the statement of `quote_dust_bounds_match` / `_single`; every order outside the book
untouched), quote_dust_exceeds_fills (the clause as written, `dust < #fills`, false on a real result on which the D2 ghost
predicts a loss — `quote_dust_counterexample`; without the ghost's prediction it is reported as quote_dust), fill_within_limits,
fill_price_within_limit, matched_receives_positive (definitions: `Comdex.Amm.Mon*` in the model file's
companion section below — they are the decidable forms of the theorems of `Props/C05.lean`).
-/
-- DRIVER: prefix=amm ns=Comdex.Drv.AmmMatch
namespace Comdex.Drv.AmmMatch
open Comdex.Amm Comdex.Line

structure St where
  orders : List Order := []
  k : KState := KState.init        -- stored orders of the keeper-level sequences
  kprec : Nat := 4
  kratio : Int := 100000000000000000          -- MaxPriceLimitRatio (raw)
  kticks : Nat := 10                          -- MaxNumMarketMakingOrderTicks
  mmIndex : List (Nat × List Nat) := []
  pools : List (Nat × PoolV) := []            -- the pools of a first-batch-with-pools case (amm.pv lines)

def init : St := {}

def parseOrder (f : List String) : Option Order :=
  match f with
  | [id, kind, oid, dir, price, amount, offer, opn, paid, recv, batch] => do
    let id ← parseNat? id
    let kind ← parseNat? kind
    let oid ← parseNat? oid
    let dir ← (if dir = "1" then some Dir.buy else if dir = "2" then some Dir.sell else none)
    let price ← parseInt? price
    let amount ← parseInt? amount
    let offer ← parseInt? offer
    let opn ← parseInt? opn
    let paid ← parseInt? paid
    let recv ← parseInt? recv
    let batch ← parseNat? batch
    pure { id, kind, oid, dir, price, amount, offer, opn, paid, received := recv, batchId := batch }
  | _ => none

def showRes (os : List Order) : String :=
  ";".intercalate (os.map fun o =>
    s!"{o.id}:{o.opn}:{o.paid}:{o.received}:{if o.isMatched then 1 else 0}")

/-- the real results, as orders: static fields from the pre-state, `fills` (ghost) from the model's post-state -/
def parseRes (pre : List Order) (modelPost : List Order) (s : String) (diverged : Bool := false) : Option (List Order) :=
  if s = "" then (if pre.isEmpty then some [] else none) else
  let parts := s.splitOn ";"
  if parts.length ≠ pre.length then none else
  (pre.zip parts).mapM fun (o, part) =>
    match part.splitOn ":" with
    | [id, opn, paid, recv, _m] => do
      let id ← parseNat? id
      if id ≠ o.id then none
      let opn ← parseInt? opn
      let paid ← parseInt? paid
      let recv ← parseInt? recv
      -- number of individual fills: the model's count; when model and code disagree on this call (a DIFF is printed)
      -- the count is unknown and the generous bound "one fill per order of the book, plus one" is used instead
      let fills := if diverged then (if opn < o.opn then o.fills + pre.length + 1 else o.fills)
        else match modelPost.find? (·.id == o.id) with | some m => m.fills | none => o.fills
      pure { o with opn, paid, received := recv, fills }
    | _ => none

/-- matched flags as printed by the real `IsMatched` -/
def realFlags (s : String) : List String :=
  if s = "" then [] else (s.splitOn ";").map fun part => (part.splitOn ":").getLast?.getD ""

/-- model post-state of every order of the sequence: taken from the book when it is there, else unchanged -/
def project (pre : List Order) (after : List Order) : List Order :=
  pre.map fun o => match after.find? (·.id == o.id) with | some o' => o' | none => o

def resetFills (os : List Order) : List Order := os.map fun o => { o with fills := 0 }

/-- evaluate the monitors on real results -/
def monitors (seq : String) (pre post : List Order) (q : Option Int) (outcome : String) (flags : List String)
    (lossless : Bool := true) (dustAt : Option (List Order × Int × Int) := none) : List String :=
  let m0 := if outcome = "panic" then [s!"MON\t{seq}\tfill_within_limits"] else
            if monFillWithinLimits pre post then [] else [s!"MON\t{seq}\tfill_within_limits"]
  -- `lossless` is the ghost of `base_conserved_iff_lossless`, computed from the INPUT: it is false exactly on the books on which
  -- defect D2 drops a remainder. Base coin not conserved where the ghost predicts it = the known finding `base_conserved`;
  -- any disagreement between the real result and the prediction = `base_conserved_unexplained`.
  let m1 := match monBaseConserved pre post, lossless with
    | true, true => []
    | false, false => [s!"MON\t{seq}\tbase_conserved"]
    | _, _ => [s!"MON\t{seq}\tbase_conserved_unexplained"]
  let m2 := match q, dustAt with
    | some q, some (bookPre, lo, hi) =>
      -- the statement of `quote_dust_bounds_match` / `_single` on the REAL result: the orders of the book before and after
      let bookPost := realBookOrders bookPre post
      let outside := (pre.zip post).all fun (o, o') => bookPre.any (fun x => x.id == o.id) ||
        (decide (o'.opn = o.opn) && decide (o'.paid = o.paid) && decide (o'.received = o.received))
      if !(monQuoteDustAt bookPre bookPost q lo hi && outside) then [s!"MON\t{seq}\tquote_dust"]
      else if monDustBelowFills bookPre bookPost q then []
      else if lossless then [s!"MON\t{seq}\tquote_dust"] else [s!"MON\t{seq}\tquote_dust_exceeds_fills"]
    | some q, none => if monQuoteDust pre post q then [] else [s!"MON\t{seq}\tquote_dust"]
    | none, _ => if monUntouched pre post then [] else [s!"MON\t{seq}\tquote_dust"]
  let m3 := if monFillPriceWithinLimit pre post then [] else [s!"MON\t{seq}\tfill_price_within_limit"]
  let m4 := if monMatchedReceivesPositive pre post &&
              flags == post.map (fun o => if o.isMatched then "1" else "0") then [] else [s!"MON\t{seq}\tmatched_receives_positive"]
  m0 ++ m1 ++ m2 ++ m3 ++ m4

/-- compare a model answer (already rendered) with the real one, then monitor the real one -/
def finish (st : St) (seq : String) (modelHead : String) (modelPost : Option (List Order)) (implHead : String)
    (outcome : String) (qcd : String) (res : String) (fillOp : Bool := false) (distOp : Bool := false)
    (lossless : Bool := true) (dustAt : Option (List Order × Int × Int) := none) : St × List String :=
  let pre := st.orders
  let mpost := (modelPost.getD pre)
  let modelLine := s!"{modelHead}\t{showRes mpost}"
  let implLine := s!"{implHead}\t{res}"
  let d := if modelLine = implLine then [] else [s!"DIFF\t{seq}\tmodel={modelLine}\timpl={implLine}"]
  match parseRes pre mpost res (diverged := !d.isEmpty) with
  | none => (st, [s!"BAD\t{seq}\tcannot parse results {res}"])
  | some real =>
    let q := if qcd = "-" then none else parseInt? qcd
    let mons :=
      if fillOp then
        -- a direct FillOrder call with an arbitrary amount and price: a panic is the guard working; an accepted fill
        -- must stay within the order's limits (the other clauses speak about the engine's fills only)
        if outcome = "panic" then (if monUntouched pre real then [] else [s!"MON\t{seq}\tfill_within_limits"])
        else (if monFillWithinLimits pre real then [] else [s!"MON\t{seq}\tfill_within_limits"])
      else if distOp then
        (monitors seq pre real none outcome (realFlags res)).filter
          (fun m => m.endsWith "fill_within_limits" || m.endsWith "matched_receives_positive")
      else monitors seq pre real q outcome (realFlags res) lossless dustAt
    ({ st with orders := resetFills real }, d ++ mons)

def handle (st : St) (seq : String) (f : List String) : St × List String :=
  match f with
  | ["amm.begin"] => ({}, [])
  | "amm.order" :: rest =>
    match parseOrder rest with
    | some o => ({ st with orders := st.orders ++ [o] }, [])
    | none => (st, [s!"BAD\t{seq}\torder"])
  | ["amm.op", "single", p, fma, outcome, qcd, res] =>
    match parseInt? p with
    | none => (st, [s!"BAD\t{seq}\tsingle"])
    | some p =>
      let b := newBook st.orders
      let mf := match findMatchableAmount b p with | none => "none" | some a => toString a
      match matchAtSinglePrice b p with
      | .panic => finish st seq s!"{mf}\tpanic\t-" none s!"{fma}\t{outcome}\t{qcd}" outcome qcd res
      | .noMatch => finish st seq s!"{mf}\tnomatch\t-" none s!"{fma}\t{outcome}\t{qcd}" outcome qcd res
      | .ok b' q =>
        let ll := match findMatchableAmount b p with | none => true | some x => ticksLossless b.sells x p
        finish st seq s!"{mf}\tok\t{q}" (some (project st.orders b'.orders)) s!"{fma}\t{outcome}\t{qcd}" outcome qcd res (lossless := ll)
          (dustAt := some (b.orders, p, p))
  | ["amm.op", "match", lp, dir, outcome, mp, qcd, res] =>
    match parseInt? lp with
    | none => (st, [s!"BAD\t{seq}\tmatch"])
    | some lp =>
      let b := newBook st.orders
      let md := match priceDirection b lp with | .staying => "1" | .increasing => "2" | .decreasing => "3"
      match matchBook b lp with
      | .panic => finish st seq s!"{md}\tpanic\t-\t-" none s!"{dir}\t{outcome}\t{mp}\t{qcd}" outcome qcd res
      | .noMatch =>
        -- Go evaluates PriceDirection on an empty side too; the model's `matchBook` returns before it
        finish st seq s!"{md}\tnomatch\t-\t-" none s!"{dir}\t{outcome}\t{mp}\t{qcd}" outcome qcd res
      | .ok b' mpr q =>
        finish st seq s!"{md}\tok\t{mpr}\t{q}" (some (project st.orders b'.orders)) s!"{dir}\t{outcome}\t{mp}\t{qcd}" outcome qcd res
          (lossless := matchLossless b lp) (dustAt := some (b.orders, priceLo b.orders, priceHi b.orders))
  | ["amm.op", "dist", amt, p, outcome, qcd, res] =>
    match parseInt? amt, parseInt? p with
    | some amt, some p =>
      match distributeToOrders (sortOrders st.orders) amt p with
      | none => finish st seq "panic\t-" none s!"{outcome}\t{qcd}" outcome qcd res (distOp := true)
      | some (os', q) => finish st seq s!"ok\t{q}" (some (project st.orders os')) s!"{outcome}\t{qcd}" outcome qcd res (distOp := true)
    | _, _ => (st, [s!"BAD\t{seq}\tdist"])
  | ["amm.op", "fill", id, amt, p, mat, outcome, qcd, res] =>
    match parseNat? id, parseInt? amt, parseInt? p with
    | some id, some amt, some p =>
      match st.orders.find? (·.id == id) with
      | none => (st, [s!"BAD\t{seq}\tfill: no such order"])
      | some o =>
        let mm := toString (matchableAmount o p)
        match fillOrder o amt p with
        | none => finish st seq s!"{mm}\tpanic\t-" none s!"{mat}\t{outcome}\t{qcd}" outcome qcd res (fillOp := true)
        | some (o', q) =>
          finish st seq s!"{mm}\tok\t{q}" (some (project st.orders [o'])) s!"{mat}\t{outcome}\t{qcd}" outcome qcd res (fillOp := true)
    | _, _, _ => (st, [s!"BAD\t{seq}\tfill"])
  | ["amm.op", "first", prec, fmp, outcome, qcd, res] =>
    match parseNat? prec with
    | none => (st, [s!"BAD\t{seq}\tfirst"])
    | some prec =>
      let b := newBook st.orders
      let mf := match findMatchPrice (makeView b) prec with | none => "none" | some a => toString a
      -- monitor: a found price is positive, on the tick grid and between the lowest sell and the highest buy price
      let pm := match findMatchPrice (makeView b) prec with
        | none => []
        | some a => if monMatchPrice (makeView b) prec a then [] else [s!"MON\t{seq}\tfound_price_in_spread"]
      let (st', out) := match matchFirstBatch b prec with
        | .panic => finish st seq s!"{mf}\tpanic\t-" none s!"{fmp}\t{outcome}\t{qcd}" outcome qcd res
        | .noMatch => finish st seq s!"{mf}\tnomatch\t-" none s!"{fmp}\t{outcome}\t{qcd}" outcome qcd res
        | .ok b' q =>
          let ll := match findMatchPrice (makeView b) prec with
            | none => true
            | some pr => match findMatchableAmount b pr with | none => true | some x => ticksLossless b.sells x pr
          let pr := (findMatchPrice (makeView b) prec).getD 0
          finish st seq s!"{mf}\tok\t{q}" (some (project st.orders b'.orders)) s!"{fmp}\t{outcome}\t{qcd}" outcome qcd res (lossless := ll)
            (dustAt := some (b.orders, pr, pr))
      (st', out ++ pm)
  | "amm.pv" :: pid :: kind :: rest =>
    match parseNat? pid, kind, rest.mapM parseInt? with
    | some pid, "basic", some [rx, ry] => ({ st with pools := st.pools ++ [(pid, PoolV.basic ⟨rx, ry⟩)] }, [])
    | some pid, "ranged", some [rx, ry, mn, mx] =>
      match RPool.new rx ry mn mx with
      | some pl => ({ st with pools := st.pools ++ [(pid, PoolV.ranged pl)] }, [])
      | none => (st, [s!"DIFF\t{seq}\tpv: the model's NewRangedPool panics"])
    | _, _, _ => (st, [s!"BAD\t{seq}\tpv"])
  | ["amm.op", "firstp", prec, fmp, outcome, qcd, pcreate, res] =>
    match parseNat? prec with
    | none => (st, [s!"BAD\t{seq}\tfirstp"])
    | some prec =>
      let firstId := st.orders.length
      let (mp, pos, r) := matchFirstBatchPools st.orders st.pools prec firstId
      let mf := match mp with | none => "none" | some a => toString a
      -- the orders the pools placed: model against code
      let mcreate := ",".intercalate (pos.map fun (o : Order) =>
        s!"{o.id}:{o.oid}:{if o.dir = Dir.buy then 1 else 2}:{o.price}:{o.amount}:{o.offer}")
      let d0 := if mcreate = pcreate then [] else [s!"DIFF\t{seq}\tpool orders model={mcreate}\timpl={pcreate}"]
      -- continue with the REAL pool orders
      let realPos : Option (List Order) := if pcreate = "" then some [] else
        (pcreate.splitOn ",").mapM fun x => match (x.splitOn ":").mapM parseInt? with
          | some [id, pid, dir, price, amt, offer] =>
            some { id := id.toNat, kind := 1, oid := pid.toNat, dir := if dir = 1 then Dir.buy else Dir.sell, price := price,
                   amount := amt, offer := offer, opn := amt, paid := 0, received := 0, batchId := 0 }
          | _ => none
      match realPos with
      | none => (st, [s!"BAD\t{seq}\tfirstp pool orders"])
      | some rpos =>
        let st1 := { st with orders := st.orders ++ rpos }
        let b := rpos.foldl addOrder (newBook st.orders)
        let pr := mp.getD 0
        let pm := match mp with
          | none => []
          | some a => if decide (0 < a) && isTick a prec then [] else [s!"MON\t{seq}\tfound_price_in_spread"]
        let (st', out) := match mp, r with
          | some _, .ok b' q =>
            let ll := match findMatchableAmount b pr with | none => true | some x => ticksLossless b.sells x pr
            finish st1 seq s!"{mf}\tok\t{q}" (some (project st1.orders b'.orders)) s!"{fmp}\t{outcome}\t{qcd}" outcome qcd res (lossless := ll)
              (dustAt := some (b.orders, pr, pr))
          | _, .panic => finish st1 seq s!"{mf}\tpanic\t-" none s!"{fmp}\t{outcome}\t{qcd}" outcome qcd res
          | _, _ => finish st1 seq s!"{mf}\tnomatch\t-" none s!"{fmp}\t{outcome}\t{qcd}" outcome qcd res
        (st', d0 ++ out ++ pm)
  | ["amm.fmp", prec, r] =>
    match parseNat? prec with
    | none => (st, [s!"BAD\t{seq}\tfmp"])
    | some prec =>
      let v := makeView (newBook st.orders)
      let m := match findMatchPrice v prec with | none => "none" | some a => toString a
      let d := if m = r then [] else [s!"DIFF\t{seq}\tmodel={m}\timpl={r}"]
      -- the monitor is evaluated on the REAL answer
      let mon := match parseInt? r with
        | some a => if monMatchPrice v prec a then [] else [s!"MON\t{seq}\tfound_price_in_spread"]
        | none => if r = "none" && monCrossing v then [s!"MON\t{seq}\tfound_price_iff_crossing"] else []
      (st, d ++ mon)
  | ["amm.fmpx", prec, r] =>
    match parseNat? prec with
    | none => (st, [s!"BAD\t{seq}\tfmpx"])
    | some prec =>
      let m := match findMatchPrice (makeView (newBook st.orders)) prec with | none => "none" | some a => toString a
      (st, if m = r then [] else [s!"DIFF\t{seq}\tmodel={m}\timpl={r}"])
  | ["amm.view", price, hb, ls, bo, su] =>
    match parseInt? price with
    | none => (st, [s!"BAD\t{seq}\tview"])
    | some price =>
      let v := makeView (newBook st.orders)
      let sh := fun (o : Option Int) => match o with | none => "none" | some a => toString a
      let m := s!"{sh v.highestBuyPrice}\t{sh v.lowestSellPrice}\t{v.buyAmountOver price}\t{v.sellAmountUnder price}"
      let r := s!"{hb}\t{ls}\t{bo}\t{su}"
      (st, if m = r then [] else [s!"DIFF\t{seq}\tmodel={m}\timpl={r}"])
  | ["amm.k.begin", prec] =>
    match parseNat? prec with
    | some prec => ({ st with k := KState.init, kprec := prec, mmIndex := [] }, [])
    | none => (st, [s!"BAD\t{seq}\tk.begin"])
  | ["amm.k.params", ratio, ticks] =>
    match parseInt? ratio, parseNat? ticks with
    | some r, some t => ({ st with kratio := r, kticks := t }, [])
    | _, _ => (st, [s!"BAD\t{seq}\tk.params"])
  | ["amm.k.market", dir, amt, exp, outcome, id, price, offer, batch] =>
    match (if dir = "1" then some Dir.buy else if dir = "2" then some Dir.sell else none), parseInt? amt, parseInt? exp with
    | some d, some amt, some exp =>
      match placeMarket st.k st.kprec st.kratio d amt exp with
      | none =>
        -- the model rejects (no last price): the real message must have been rejected too
        (st, if outcome = "ok" then [s!"DIFF\t{seq}\tmodel=rejected (no last price)\timpl=ok {id}"] else [])
      | some (k', so) =>
        if outcome != "ok" then (st, []) else
        let m := s!"{so.id}\t{so.price}\t{so.offer}\t{so.batchId}"
        let r := s!"{id}\t{price}\t{offer}\t{batch}"
        ({ st with k := k' }, if m = r then [] else [s!"DIFF\t{seq}\tmodel={m}\timpl={r}"])
    | _, _, _ => (st, [s!"BAD\t{seq}\tk.market"])
  | ["amm.k.mm", owner, bmin, bmax, bamt, smin, smax, samt, exp, outcome, orders] =>
    match parseNat? owner, parseInt? bmin, parseInt? bmax, parseInt? bamt, parseInt? smin, parseInt? smax, parseInt? samt, parseInt? exp with
    | some owner, some bmin, some bmax, some bamt, some smin, some smax, some samt, some exp =>
      let buy := if bamt > 0 then some (bmin, bmax, bamt) else none
      let sell := if samt > 0 then some (smin, smax, samt) else none
      match placeMM ⟨st.k, st.mmIndex⟩ st.kprec st.kticks owner buy sell exp with
      | none =>
        (st, if outcome = "ok" then [s!"DIFF\t{seq}\tmodel=rejected (same batch)\timpl=ok {orders}"] else [])
      | some st' =>
        if outcome != "ok" then (st, []) else
        let fresh := st'.k.orders.filter (fun so => decide (so.id ≥ st.k.nextId))
        let m := ";".intercalate (fresh.map fun so =>
          s!"{so.id}:{if so.dir = Dir.buy then 1 else 2}:{so.price}:{so.amount}:{so.offer}:{so.batchId}")
        ({ st with k := st'.k, mmIndex := st'.mmIndex }, if m = orders then [] else [s!"DIFF\t{seq}\tmodel={m}\timpl={orders}"])
    | _, _, _, _, _, _, _, _ => (st, [s!"BAD\t{seq}\tk.mm"])
  | ["amm.k.place", dir, mp, amt, exp, outcome, id, price, offer, batch] =>
    if outcome != "ok" then (st, []) else
    match (if dir = "1" then some Dir.buy else if dir = "2" then some Dir.sell else none), parseInt? mp, parseInt? amt, parseInt? exp with
    | some d, some mp, some amt, some exp =>
      let (k', so) := placeOrder st.k st.kprec d mp amt exp
      let m := s!"{so.id}\t{so.price}\t{so.offer}\t{so.batchId}"
      let r := s!"{id}\t{price}\t{offer}\t{batch}"
      -- monitor on the REAL stored price: a tick of the grid, not above the message price for a buy, not below it for a sell
      let mon := match parseInt? price with
        | some rp =>
          let within := match d with | .buy => decide (rp ≤ mp) | .sell => decide (mp ≤ rp)
          if within && isTick rp st.kprec && decide (0 < rp) then [] else [s!"MON\t{seq}\tplaced_price_within_limit"]
        | none => [s!"BAD\t{seq}\tk.place price"]
      ({ st with k := k' }, (if m = r then [] else [s!"DIFF\t{seq}\tmodel={m}\timpl={r}"]) ++ mon)
    | _, _, _, _ => (st, [s!"BAD\t{seq}\tk.place"])
  | ["amm.k.batch", now, lp, bid, orders] =>
    match parseInt? now with
    | none => (st, [s!"BAD\t{seq}\tk.batch"])
    | some now =>
      let k1 := batchStep st.k st.kprec now
      let shO := fun (l : List SOrder) => ";".intercalate (l.map fun so =>
        s!"{so.id}:{so.openAmt}:{so.remaining}:{so.received}:{so.status.code}")
      let shP := match k1.lastPrice with | none => "none" | some a => toString a
      let m := s!"{shP}\t{k1.batchId}\t{shO k1.orders}"
      let r := s!"{lp}\t{bid}\t{orders}"
      let d := if m = r then [] else [s!"DIFF\t{seq}\tmodel={m}\timpl={r}"]
      -- the REAL stored orders: static fields (direction, price, amount, offer coin) from the placement, the rest as dumped
      let parts := if orders = "" then [] else orders.splitOn ";"
      let real : Option (List SOrder) := parts.mapM fun part =>
        match part.splitOn ":" with
        | [id, op, rem, rcv, stc] => do
          let id ← parseNat? id
          let op ← parseInt? op
          let rem ← parseInt? rem
          let rcv ← parseInt? rcv
          let stc ← parseNat? stc
          let so ← k1.orders.find? (fun so => so.id == id)
          let status := if stc = 1 then OStatus.notExecuted else if stc = 2 then .notMatched else if stc = 3 then .partiallyMatched
            else if stc = 4 then .completed else if stc = 5 then .canceled else .expired
          -- fills: the model's count; after a divergence the generous bound "one fill per stored order per batch"
          let fills := if d.isEmpty then so.fills else so.fills + k1.orders.length * (k1.batchId + 1)
          pure { so with openAmt := op, remaining := rem, received := rcv, status, fills }
        | _ => none
      match real with
      | none => (st, d ++ [s!"BAD\t{seq}\tk.batch orders {orders}"])
      | some real =>
        -- the batch must have been EXECUTED: `pair.CurrentBatchId` advances by one in every EndBlocker; a batch that panicked inside
        -- `ApplyMatchResult` (e.g. a negative RemainingOfferCoin) is swallowed by the end-blocker's wrapper and silently skipped
        let m0 := if parseNat? bid == some (st.k.batchId + 1) then [] else [s!"MON\t{seq}\tbatch_executed"]
        let m1 := if real.all monOrderWithinAmount then [] else [s!"MON\t{seq}\torder_within_amount"]
        let m2 := if real.all monOrderLimit then [] else [s!"MON\t{seq}\torder_limit_respected"]
        let lpR := if lp = "none" then none else parseInt? lp
        -- continue from the REAL state
        let k2 : KState := prune { k1 with orders := real.map (fun so => { so with fills := (k1.orders.find? (fun x => x.id == so.id)).map (·.fills) |>.getD so.fills }), lastPrice := lpR, batchId := (parseNat? bid).getD k1.batchId }
        ({ st with k := k2 }, d ++ m0 ++ m1 ++ m2)
  | ["amm.pool", rx, ry, lo, hi, prec, buys, sells] =>
    match parseInt? rx, parseInt? ry, parseInt? lo, parseInt? hi, parseNat? prec with
    | some rx, some ry, some lo, some hi, some prec =>
      let sh := fun (l : List (Int × Int)) => ",".intercalate (l.map fun pa => s!"{pa.1}:{pa.2}")
      let pl : BPool := ⟨rx, ry⟩
      let m := s!"{sh (poolBuyOrders pl lo hi prec)}\t{sh (poolSellOrders pl lo hi prec)}"
      let r := s!"{buys}\t{sells}"
      let d := if m = r then [] else [s!"DIFF\t{seq}\tmodel={m}\timpl={r}"]
      let parse := fun (t : String) => if t = "" then some [] else
        (t.splitOn ",").mapM fun x => match x.splitOn ":" with
          | [a, b] => do let a ← parseInt? a; let b ← parseInt? b; pure (a, b)
          | _ => none
      match parse buys, parse sells with
      | some bl, some sl =>
        let m1 := if monPoolBuys pl bl && monPoolSells pl sl then [] else [s!"MON\t{seq}\tpool_within_reserves_and_curve"]
        (st, d ++ m1)
      | _, _ => (st, [s!"BAD\t{seq}\tpool lists"])
    | _, _, _, _, _ => (st, [s!"BAD\t{seq}\tpool"])
  | ["amm.rp", fn, rx, ry, mn, mx, price, r] =>
    match parseInt? rx, parseInt? ry, parseInt? mn, parseInt? mx, parseInt? price with
    | some rx, some ry, some mn, some mx, some price =>
      let ms : String := match RPool.new rx ry mn mx with
        | none => "panic"
        | some pl =>
          if fn = "trans" then s!"{pl.transX}:{pl.transY}" else
          let m : Option Int :=
            if fn = "price" then pl.price
            else if fn = "bo" then pl.buyAmountOver price
            else if fn = "su" then pl.sellAmountUnder price
            else if fn = "bt" then pl.buyAmountTo price
            else if fn = "st" then pl.sellAmountTo price
            else none
          match m with | none => "panic" | some a => toString a
      (st, if ms = r then [] else [s!"DIFF\t{seq}\trp {fn} {rx} {ry} {mn} {mx} {price}\tmodel={ms}\timpl={r}"])
    | _, _, _, _, _ => (st, [s!"BAD\t{seq}\trp"])
  | ["amm.rpool", rx, ry, mn, mx, lo, hi, prec, buys, sells] =>
    match parseInt? rx, parseInt? ry, parseInt? mn, parseInt? mx, parseInt? lo, parseInt? hi, parseNat? prec with
    | some rx, some ry, some mn, some mx, some lo, some hi, some prec =>
      let sh := fun (l : List (Int × Int)) => ",".intercalate (l.map fun pa => s!"{pa.1}:{pa.2}")
      match RPool.new rx ry mn mx with
      | none => (st, [s!"DIFF\t{seq}\trpool: the model's NewRangedPool panics"])
      | some pl =>
        let m := s!"{sh (rPoolBuyOrders pl lo hi prec)}\t{sh (rPoolSellOrders pl lo hi prec)}"
        let r := s!"{buys}\t{sells}"
        let d := if m = r then [] else [s!"DIFF\t{seq}\tmodel={m}\timpl={r}"]
        let parse := fun (t : String) => if t = "" then some [] else
          (t.splitOn ",").mapM fun x => match x.splitOn ":" with
            | [a, b] => do let a ← parseInt? a; let b ← parseInt? b; pure (a, b)
            | _ => none
        match parse buys, parse sells with
        | some bl, some sl =>
          let m1 := if monRPoolBuyOrders pl hi bl && monRPoolSellOrders pl lo sl then []
            else [s!"MON\t{seq}\tpool_within_reserves_and_curve"]
          (st, d ++ m1)
        | _, _ => (st, [s!"BAD\t{seq}\trpool lists"])
    | _, _, _, _, _, _, _ => (st, [s!"BAD\t{seq}\trpool"])
  | ["amm.bp", fn, rx, ry, price, r] =>
    match parseInt? rx, parseInt? ry, parseInt? price with
    | some rx, some ry, some price =>
      let pl : BPool := ⟨rx, ry⟩
      let m : Option Int :=
        if fn = "price" then pl.price
        else if fn = "bo" then pl.buyAmountOver price
        else if fn = "su" then pl.sellAmountUnder price
        else if fn = "bt" then pl.buyAmountTo price
        else if fn = "st" then pl.sellAmountTo price
        else none
      let ms := match m with | none => "panic" | some a => toString a
      (st, if ms = r then [] else [s!"DIFF\t{seq}\tbp {fn} {rx} {ry} {price}\tmodel={ms}\timpl={r}"])
    | _, _, _ => (st, [s!"BAD\t{seq}\tbp"])
  | ["amm.tk", fn, prec, arg, r] =>
    match parseNat? prec, parseInt? arg with
    | some prec, some a =>
      let m : Option Int :=
        if fn = "down" then some (priceToDownTick a prec)
        else if fn = "up" then some (upTick a prec)
        else if fn = "ptup" then some (priceToUpTick a prec)
        else if fn = "dn" then some (downTick a prec)
        else if fn = "toidx" then some (tickToIndex a prec)
        else if fn = "fromidx" then some (tickFromIndex a prec)
        else if fn = "round" then some (roundPrice a prec)
        else if fn = "hi" then some (highestTick prec)
        else if fn = "lo" then some (lowestTick prec)
        else none
      match m with
      | none => (st, [s!"BAD\t{seq}\ttk fn {fn}"])
      | some m => (st, if toString m = r then [] else [s!"DIFF\t{seq}\ttk {fn} {prec} {arg}\tmodel={m}\timpl={r}"])
    | _, _ => (st, [s!"BAD\t{seq}\ttk"])
  | _ => (st, [s!"BAD\t{seq}\tunknown amm line"])

end Comdex.Drv.AmmMatch
