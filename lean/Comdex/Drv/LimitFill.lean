import Comdex.Base.Line
import Comdex.Model.LimitFill
import Comdex.Drv.Dutch
/-! Driver plug-in for the joint model: limit-bid book + second-generation Dutch auction + module account (C11, auto-fill).

Lines (one seized position, one market; `<obs>` = `<rec> <balances> <misc>` exactly as in the `dutch.*` lines, `<book>` =
`deps=prem:bidder:amt,…|bv=<BidValue|none>` with the records in the STORE's order):
  lfill.begin    <env> cf=<raw>;wf=<raw>;order=b4,b1,…          <obs> <book>
  lfill.bid      who amt debtTwa                <outcome>        <obs> <book>      MsgPlaceMarketBid
  lfill.tick     esm now twaC actC twaD actD    <ok|panic>       <obs> <book>      real BeginBlocker of x/auctionsV2
  lfill.reserve  who amt                        <outcome>        <obs> <book>
  lfill.dep      who prem amt                   <outcome>        <obs> <book>      MsgDepositLimitBid
  lfill.cancel   who prem                       <outcome>        <obs> <book>      MsgCancelLimitBid
  lfill.wd       who prem amt                   <outcome>        <obs> <book>      MsgWithdrawLimitBid

DIFF: outcome / auction record / balances / reserve / fee records / supply / book differ from the model's.
MON (decidable forms of the C11 limit-bid clauses on the REAL values, evaluated after EVERY line, i.e. after every begin-block
and after every cancel / withdraw, also those that follow an auto-fill):
  bidvalue_sum              the gap `BidValue − Σ records` changed on this line (or a record is ≤ 0) …
  bidvalue_kept_after_exact_fill   … unless the change is exactly what the DIFF-free model attributes to an exact fill
                            (`auctions.go:561-566` deletes the record and leaves `BidValue` as it was)
  bidvalue_custody          the module account covers less than Σ records + retained fees (beyond what it held at the start) and the
                            cover got worse on this line …
  deposits_drained_by_esm_trigger  … unless the DIFF-free model says `TriggerEsm` paid out on this line (auctions.go:160-173, D39)
  deposits_drained_after_esm_trigger … or the line CLOSES an auction whose proceeds `TriggerEsm` had partly sent away (same finding)
  limit_own_deposit         an accepted withdraw exceeds the caller's own record / an accepted cancel or withdraw finds no record
  limit_payout              an accepted deposit / cancel / withdraw moved anything but `amount` resp. `amount − fee` of the caller
  fill_bucket_only          a begin-block changed a record outside the auction's premium bucket, raised a record, made one negative,
                            or moved the debt balance of a bidder (auto-fills are paid from the deposit, not from the account)
  limit_fill_overcharge     the records were debited by more than the (bank-checked, DIFF-free) model says the auction charged (D24)
-/
-- DRIVER: prefix=lfill ns=Comdex.Drv.LimitFill
namespace Comdex.Drv.LimitFill
open Comdex Comdex.Line Comdex.DutchV2 Comdex.LimitFill
open Comdex.Drv.Dutch (Obs parseObs parseEnv balOf bankOf bidderNo mon kv getI showObs sameObs acctOf)
open Comdex.LimitBid (getK getD0 fee)

structure Book where
  deps : List (Int × String × Int) := []     -- premium, bidder name, amount (store order)
  bv : Option Int := none
  deriving BEq, Repr

structure St where
  je : JEnv := {}
  s : JSt := {}
  prev : Option Obs := none
  prevBook : Book := {}
  supply0 : Int := 0
  base0 : Int := 0        -- module debt balance at the start (what is not deposits / proceeds of this sequence)
  feesR : Int := 0        -- fees retained, from REAL payouts
  gap : Int := 0          -- BidValue − Σ records on the previous REAL state
  cover : Int := 0        -- module debt balance − base0 − Σ records − fees on the previous REAL state

def init : St := {}

def parseDepItem (item : String) : Option (Int × String × Int) :=
  match item.splitOn ":" with
  | [p, n, a] => do
    let p ← parseInt? p
    let a ← parseInt? a
    pure (p, n, a)
  | _ => none

def parseBook (s : String) : Option Book :=
  match s.splitOn "|" with
  | [d, b] => do
    let d ← (d.dropPrefix? "deps=").map (·.toString)
    let b ← (b.dropPrefix? "bv=").map (·.toString)
    let deps ← (if d = "" ∨ d = "-" then some [] else (d.splitOn ",").mapM parseDepItem)
    let bv ← (if b = "none" then some none else (parseInt? b).map some)
    pure { deps := deps, bv := bv }
  | _ => none

def nameOf (w : Nat) : String := s!"b{w}"

def insertBy {α : Type} (lt : α → α → Bool) (x : α) : List α → List α
  | [] => [x]
  | y :: t => if lt x y then x :: y :: t else y :: insertBy lt x t
def sortBy {α : Type} (lt : α → α → Bool) (l : List α) : List α := l.foldr (insertBy lt) []

def depLt (a b : Int × String × Int) : Bool := a.1 < b.1 || (a.1 == b.1 && a.2.1 < b.2.1)

/-- the model's book in the shape of the real one (sorted; `bv` printed as `none` until the first deposit creates the record) -/
def modelBook (s : JSt) (real : Book) : Book :=
  { deps := sortBy depLt (s.deps.map fun ((p, w), a) => (p, nameOf w, a)),
    bv := match real.bv with | none => (if s.bv = 0 then none else some s.bv) | some _ => some s.bv }

def canon (b : Book) : Book := { b with deps := sortBy depLt b.deps }

def showBook (b : Book) : String :=
  "deps=" ++ ",".intercalate (b.deps.map fun (p, n, a) => s!"{p}:{n}:{a}") ++ "|bv=" ++ (match b.bv with | none => "none" | some v => toString v)

def modelObs (st : St) (o : Obs) : Obs :=
  { auc := st.s.d.auc,
    bals := o.bals.map fun (n, _, _) =>
      match acctOf n with
      | some a => (n, st.s.d.bank.get a .coll, st.s.d.bank.get a .debt)
      | none => (n, 0, 0),
    net := st.s.d.netFees, ext := st.s.d.extFees, res := st.s.d.reserve, supply := st.supply0 - st.s.d.burned,
    tr := (st.s.d.bank.get .pool .transit, st.s.d.bank.get .poolIn .transit) }

def sumDeps (b : Book) : Int := (b.deps.map fun (_, _, a) => a).sum
def recOf (b : Book) (p : Int) (n : String) : Option Int := (b.deps.find? fun (p', n', _) => p' = p ∧ n' = n).map (·.2.2)

/-- adopt the real observation (after a divergence), keeping the ghosts -/
def adopt (st : St) (o : Obs) (bk : Book) : St :=
  { st with s := { st.s with
      d := { st.s.d with auc := o.auc, bank := bankOf o, netFees := o.net, extFees := o.ext, reserve := o.res, burned := st.supply0 - o.supply },
      deps := bk.deps.filterMap (fun (p, n, a) => (bidderNo n).map fun w => ((p, w), a)), bv := bk.bv.getD 0 } }

def bidders : List String := ["b1", "b2", "b3", "b4"]

/-- finish a line: DIFF, the state monitors on the REAL book / balances, resync -/
def finish (st : St) (seq : String) (m' : JSt) (mOk : Bool) (outcome : String) (cmpOutcome : Bool) (o : Obs) (bk : Book)
    (feeNow : Int) (opMons : List String) : St × List String :=
  let st1 := { st with s := m' }
  let mo := modelObs st1 o
  let mb := modelBook m' bk
  let d0 := if cmpOutcome ∧ mOk != (outcome = "ok") then [s!"DIFF\t{seq}\toutcome model={mOk} impl={outcome}"] else []
  let d1 := if sameObs mo o then [] else [s!"DIFF\t{seq}\tmodel={showObs mo}\timpl={showObs o}"]
  let d2 := if mb == canon bk then [] else [s!"DIFF\t{seq}\tbook model={showBook mb}\timpl={showBook (canon bk)}"]
  let diffFree := d0.isEmpty && d1.isEmpty && d2.isEmpty
  -- BidValue against the records, on REAL values, as a change of the gap
  let gap := bk.bv.getD 0 - sumDeps bk
  let dExact := m'.exact - st.s.exact
  let posOk := bk.deps.all fun (_, _, a) => decide (a > 0)
  let mGap :=
    if gap = st.gap then []
    else if diffFree ∧ dExact ≠ 0 ∧ gap - st.gap = dExact then [s!"MON\t{seq}\tbidvalue_kept_after_exact_fill"]
    else [s!"MON\t{seq}\tbidvalue_sum"]
  let mPos := mon seq "bidvalue_sum" posOk
  -- custody against the records, on REAL values
  let feesR := st.feesR + feeNow
  let cover := (balOf o "auction").2 - st.base0 - sumDeps bk - feesR
  -- the cause the DIFF-free model names gets its own monitor name: `TriggerEsm` paid the auction's proceeds out again (D39)
  let esmPaid := decide (m'.d.esmOut > st.s.d.esmOut)
  let mCov := if cover < 0 ∧ cover < st.cover then
      (if diffFree ∧ esmPaid then [s!"MON\t{seq}\tdeposits_drained_by_esm_trigger"]
       -- … or a later close pays the whole target although `TriggerEsm` has already sent part of the proceeds away
       else if diffFree ∧ m'.d.esmOut > 0 ∧ st.s.d.auc.isSome ∧ m'.d.auc.isNone then [s!"MON\t{seq}\tdeposits_drained_after_esm_trigger"]
       else [s!"MON\t{seq}\tbidvalue_custody"])
    else []
  let st2 := { st1 with prev := some o, prevBook := bk, feesR := feesR, gap := gap, cover := cover }
  let st3 := if diffFree then st2 else adopt st2 o bk
  (st3, d0 ++ d1 ++ d2 ++ mGap ++ mPos ++ mCov ++ opMons)

/-- nobody but `who` moved, and `who` moved exactly `x` of the debt denom and no collateral -/
def onlyMoved (prev o : Obs) (who : String) (x : Int) : Bool :=
  bidders.all fun n =>
    let (c0, d0) := balOf prev n
    let (c1, d1) := balOf o n
    decide (c1 = c0) && decide (d1 - d0 = (if n = who then x else 0))

def parseFees (s : String) : Option (Int × Int × List Nat) := do
  let fs := kv s
  let cf ← getI fs "cf"
  let wf ← getI fs "wf"
  let ord ← field? fs "order"
  let order ← (if ord = "" then some [] else (ord.splitOn ",").mapM bidderNo)
  pure (cf, wf, order)

def handle (st : St) (seq : String) (f : List String) : St × List String :=
  match f with
  | ["lfill.begin", env, fees, r, b, m, book] =>
    match parseEnv env, parseFees fees, parseObs r b m, parseBook book with
    | some e, some (cf, wf, order), some o, some bk =>
      match o.auc with
      | none => (st, [s!"BAD\t{seq}\tbegin without auction"])
      | some a =>
        let je : JEnv := { e := e, closingFee := cf, withdrawalFee := wf, order := order }
        let s0 : JSt := { d := { initSt e a (bankOf o) o.res with netFees := o.net, extFees := o.ext } }
        let bad := if bk.deps.isEmpty ∧ bk.bv.getD 0 = 0 then [] else [s!"BAD\t{seq}\tbegin with a non-empty book"]
        ({ je := je, s := s0, prev := some o, prevBook := bk, supply0 := o.supply, base0 := (balOf o "auction").2 }, bad)
    | _, _, _, _ => (st, [s!"BAD\t{seq}\tbegin"])
  | ["lfill.bid", who, amt, dt, oc, r, b, m, book] =>
    match bidderNo who, parseInt? amt, parseInt? dt, parseObs r b m, parseBook book with
    | some w, some amt, some dt, some o, some bk =>
      let res := stepE st.je st.s (.bid w amt dt)
      let (ok, m') := match res with | .ok s' => (true, s') | .error _ => (false, st.s)
      finish st seq m' ok oc true o bk 0 []
    | _, _, _, _, _ => (st, [s!"BAD\t{seq}\tbid"])
  | ["lfill.reserve", who, amt, oc, r, b, m, book] =>
    match bidderNo who, parseInt? amt, parseObs r b m, parseBook book with
    | some w, some amt, some o, some bk =>
      let m' := step st.je st.s (.reserve w amt)
      finish st seq m' true oc false o bk 0 []
    | _, _, _, _ => (st, [s!"BAD\t{seq}\treserve"])
  | ["lfill.tick", esm, now, twaC, actC, twaD, actD, oc, r, b, m, book] =>
    match parseBool? esm, parseInt? now, parseInt? twaC, parseBool? actC, parseInt? twaD, parseBool? actD, parseObs r b m, parseBook book with
    | some esm, some now, some twaC, some actC, some twaD, some actD, some o, some bk =>
      let m' := step st.je st.s (.tick esm now twaC actC twaD actD)
      -- the bucket the auction is in after the price update of this block (model record; the fills do not change the price)
      let d1 := if esm then tickIterEsm st.je.e st.s.d now twaC actC twaD actD else tickIter st.je.e st.s.d now twaC actC twaD actD
      let bucketK : Option Int := match d1.auc with
        | some a => (match bucket a with | .ok k => k | .error _ => none)
        | none => none
      let prevB := st.prevBook
      -- every real record of the previous state against its value now
      let changes := prevB.deps.filterMap fun (p, n, a) =>
        let after := (recOf bk p n).getD 0
        if after ≠ a then some (p, n, a, after) else none
      let fresh := bk.deps.any fun (p, n, _) => (recOf prevB p n).isNone
      let okBucket := changes.all fun (p, _, a, after) => decide (some p = bucketK) && decide (0 ≤ after) && decide (after ≤ a)
      let prev := st.prev.getD o
      let okAccts := bidders.all fun n => decide ((balOf o n).2 = (balOf prev n).2) && decide ((balOf prev n).1 ≤ (balOf o n).1)
      let debited := (changes.map fun (_, _, a, after) => a - after).sum
      let charged := m'.d.paid - st.s.d.paid
      let mOver := mon seq "limit_fill_overcharge" (decide (debited ≤ charged))
      let dpanic := if oc = "ok" then [] else [s!"DIFF\t{seq}\tbegin blocker panicked"]
      let (st', outs) := finish st seq m' true "ok" false o bk 0 (mon seq "fill_bucket_only" (okBucket && okAccts && !fresh) ++ mOver)
      (st', dpanic ++ outs)
    | _, _, _, _, _, _, _, _ => (st, [s!"BAD\t{seq}\ttick"])
  | ["lfill.dep", who, prem, amt, oc, r, b, m, book] =>
    match bidderNo who, parseInt? prem, parseInt? amt, parseObs r b m, parseBook book with
    | some w, some prem, some amt, some o, some bk =>
      let res := stepE st.je st.s (.deposit w prem amt)
      let (ok, m') := match res with | .ok s' => (true, s') | .error _ => (false, st.s)
      let prev := st.prev.getD o
      let mons := if oc = "ok" then mon seq "limit_payout" (onlyMoved prev o who (-amt)) else []
      finish st seq m' ok oc true o bk 0 mons
    | _, _, _, _, _ => (st, [s!"BAD\t{seq}\tdep"])
  | ["lfill.cancel", who, prem, oc, r, b, m, book] =>
    match bidderNo who, parseInt? prem, parseObs r b m, parseBook book with
    | some w, some prem, some o, some bk =>
      let res := stepE st.je st.s (.cancel w prem)
      let (ok, m') := match res with | .ok s' => (true, s') | .error _ => (false, st.s)
      let prev := st.prev.getD o
      let (mons, fe) := if oc = "ok" then
          match recOf st.prevBook prem who with
          | some rec =>
            let fe := if rec > 0 then fee st.je.closingFee rec else 0
            (mon seq "limit_payout" (onlyMoved prev o who (if rec > 0 then rec - fe else 0)), fe)
          | none => ([s!"MON\t{seq}\tlimit_own_deposit"], 0)
        else ([], 0)
      finish st seq m' ok oc true o bk fe mons
    | _, _, _, _ => (st, [s!"BAD\t{seq}\tcancel"])
  | ["lfill.wd", who, prem, amt, oc, r, b, m, book] =>
    match bidderNo who, parseInt? prem, parseInt? amt, parseObs r b m, parseBook book with
    | some w, some prem, some amt, some o, some bk =>
      let res := stepE st.je st.s (.withdraw w prem amt)
      let (ok, m') := match res with | .ok s' => (true, s') | .error _ => (false, st.s)
      let prev := st.prev.getD o
      let (mons, fe) := if oc = "ok" then
          match recOf st.prevBook prem who with
          | some rec =>
            let fe := if rec > 0 then (if amt = rec then fee st.je.closingFee rec else fee st.je.withdrawalFee amt) else 0
            (mon seq "limit_own_deposit" (decide (amt ≤ rec)) ++
             mon seq "limit_payout" (onlyMoved prev o who (if rec > 0 then amt - fe else 0)), fe)
          | none => ([s!"MON\t{seq}\tlimit_own_deposit"], 0)
        else ([], 0)
      finish st seq m' ok oc true o bk fe mons
    | _, _, _, _, _ => (st, [s!"BAD\t{seq}\twd"])
  | _ => (st, [s!"BAD\t{seq}\tunknown lfill line"])

end Comdex.Drv.LimitFill
