import Comdex.Base.Line
import Comdex.Model.PoolKeeper
/-! Driver for the keeper level of pool deposits / withdrawals (`Model/PoolKeeper.lean`, property C06).

A sequence (`pkeep.begin`) is one chain instance; the plug-in keeps, per app, the withdraw fee rate, the batch size,
the pools (reserve balances, pool-coin supply, disabled) and the queue of pending requests.  After every line the
REAL projection printed by the harness is compared with the model's (DIFF) and then adopted.

Lines (tab separated; integers decimal, Dec values raw 10^-18 integers; lists `,`-separated with `:` inside):
  pkeep.begin   label
  pkeep.setfee  app value outcome feeAfter batch           UpdateGenericParams proposal (WithdrawFeeRate := value)
  pkeep.pool    app pool q b ranged minP maxP rx ry ps disabled      a pool exists now (created by a real message)
  pkeep.ext     app pool kind rx ry                        reserves changed from outside (swap batch / donation / drain)
  pkeep.dep     app pool owner x y bx by outcome reqid     MsgDeposit (bx, by: wallet before)
  pkeep.wdr     app pool owner pc bpc outcome reqid        MsgWithdraw
  pkeep.eb      app height fee orders mid=… deps=… wdrs=… post=… wal=… esc=… mod=…       the real EndBlocker
        mid  = pool:rx:ry:ps:disabled:m    state the requests started from (ps, disabled: before the EndBlocker;
                                           rx, ry: after the matching = post − Σaccepted + Σwithdrawn of the records;
                                           m = 1: the pair has orders or several active pools, the matching may have
                                           moved the reserves; m = 0: rx, ry must be the reserves before the EndBlocker)
        deps = pool:id:owner:x:y:status:ax:ay:mint   pending before, in store order, with the record afterwards
        wdrs = pool:id:owner:pc:status:wx:wy
        post = pool:rx:ry:ps:disabled      after the EndBlocker
        wal  = owner:denom:delta  esc = denom:delta  mod = denom:delta    REAL balance deltas (LP wallets, GlobalEscrow,
                                           module account) over the EndBlocker
  pkeep.daf     app pool owner x y bx by outcome status ax ay mint rx ry ps disabled wal=… esc=… mod=…   MsgDepositAndFarm
  pkeep.uaw     app pool owner pc farmed outcome status wx wy rx ry ps disabled wal=… esc=… mod=…        MsgUnfarmAndWithdraw
  pkeep.state   app post=…                                 nothing may have changed (after BeginBlocker etc.)
  pkeep.bad     what outcome                               a malformed message (unknown app / pool, coin not of the pair,
                                                           wrong pool coin denom, …): must be refused
status: 1 not executed, 2 succeeded, 3 failed.

MON (laws of C06 on REAL values; names are stable):
  keeper_withdraw_prorata keeper_last_share keeper_deposit_rate keeper_reserves_per_share keeper_failed_moves_nothing
  keeper_transfers_match_records keeper_batch_reserves_consistent keeper_fee_in_range
-/
-- DRIVER: prefix=pkeep ns=Comdex.Drv.PoolKeeper
namespace Comdex.Drv.PoolKeeper
open Comdex Comdex.Pool Comdex.PoolKeeper Comdex.Line

structure PoolInfo where
  pool : Nat
  q : String
  b : String

structure AppSt where
  id : Nat
  fee : Dec := 0
  batch : Nat := 1
  pools : List KPool := []
  infos : List PoolInfo := []
  deps : List DepReq := []
  wdrs : List WdrReq := []

structure St where
  apps : List AppSt := []

def init : St := {}

def getApp (st : St) (id : Nat) : AppSt :=
  match st.apps.find? (fun a => a.id = id) with
  | some a => a
  | none => { id := id }

def putApp (st : St) (a : AppSt) : St :=
  if st.apps.any (fun x => x.id = a.id) then { st with apps := st.apps.map (fun x => if x.id = a.id then a else x) }
  else { st with apps := st.apps ++ [a] }

def mon (seq name : String) (ok : Bool) : List String := if ok then [] else [s!"MON\t{seq}\t{name}"]
def diff (seq what m r : String) : List String := if m = r then [] else [s!"DIFF\t{seq}\t{what}: model={m}\timpl={r}"]

def b2s (b : Bool) : String := if b then "1" else "0"

/-! ### parsing -/

def splitList (s : String) : List String := if s = "" then [] else s.splitOn ","

def kv (fs : List String) (key : String) : Option String := field? fs key

structure PSnap where
  pool : Nat
  rx : Int
  ry : Int
  ps : Int
  disabled : Bool
  matched : Bool := false    -- `mid` only: the matching may have moved this pool's reserves (orders / sibling pools)

def parseSnap (s : String) : Option PSnap :=
  match s.splitOn ":" with
  | [p, rx, ry, ps, d] => do
    pure { pool := (← parseNat? p), rx := (← parseInt? rx), ry := (← parseInt? ry), ps := (← parseInt? ps), disabled := (← parseBool? d) }
  | [p, rx, ry, ps, d, m] => do
    pure { pool := (← parseNat? p), rx := (← parseInt? rx), ry := (← parseInt? ry), ps := (← parseInt? ps), disabled := (← parseBool? d),
           matched := (← parseBool? m) }
  | _ => none

def parseSnaps (s : String) : Option (List PSnap) := (splitList s).mapM parseSnap

def showSnap (p : KPool) : String := s!"{p.id}:{p.rx}:{p.ry}:{p.ps}:{b2s p.disabled}"
def showSnaps (ps : List KPool) : String := ",".intercalate (ps.map showSnap)
def showPSnaps (ps : List PSnap) : String :=
  ",".intercalate (ps.map fun p => s!"{p.pool}:{p.rx}:{p.ry}:{p.ps}:{b2s p.disabled}")

structure DepRec where
  req : DepReq
  status : Nat
  ax : Int
  ay : Int
  mint : Int

def parseDepRec (s : String) : Option DepRec :=
  match s.splitOn ":" with
  | [p, i, o, x, y, st, ax, ay, m] => do
    pure { req := { pool := (← parseNat? p), id := (← parseNat? i), owner := (← parseNat? o), x := (← parseInt? x), y := (← parseInt? y) },
           status := (← parseNat? st), ax := (← parseInt? ax), ay := (← parseInt? ay), mint := (← parseInt? m) }
  | _ => none

structure WdrRec where
  req : WdrReq
  status : Nat
  wx : Int
  wy : Int

def parseWdrRec (s : String) : Option WdrRec :=
  match s.splitOn ":" with
  | [p, i, o, pc, st, wx, wy] => do
    pure { req := { pool := (← parseNat? p), id := (← parseNat? i), owner := (← parseNat? o), pc := (← parseInt? pc) },
           status := (← parseNat? st), wx := (← parseInt? wx), wy := (← parseInt? wy) }
  | _ => none

/-! ### balance deltas: lists of (key, amount), normalised (merged, zeros dropped, sorted by key) -/

abbrev Deltas := List (String × Int)

def addDelta (d : Deltas) (k : String) (v : Int) : Deltas :=
  if d.any (fun e => e.1 = k) then d.map (fun e => if e.1 = k then (e.1, e.2 + v) else e) else d ++ [(k, v)]

def insertSorted (e : String × Int) : Deltas → Deltas
  | [] => [e]
  | x :: xs => if e.1 < x.1 then e :: x :: xs else x :: insertSorted e xs

def normDeltas (d : Deltas) : Deltas :=
  (d.filter (fun e => e.2 ≠ 0)).foldl (fun acc e => insertSorted e acc) []

def showDeltas (d : Deltas) : String := ",".intercalate ((normDeltas d).map fun e => s!"{e.1}={e.2}")

/-- `owner:denom:delta` or `denom:delta` entries; the key is everything before the last `:` -/
def parseDeltas (s : String) : Option Deltas :=
  (splitList s).mapM fun e =>
    match (e.splitOn ":").reverse with
    | v :: rest@(_ :: _) => do pure (":".intercalate rest.reverse, (← parseInt? v))
    | _ => none

structure Ledger where
  wal : Deltas := []
  esc : Deltas := []
  mod : Deltas := []

def showLedger (l : Ledger) : String := s!"wal[{showDeltas l.wal}] esc[{showDeltas l.esc}] mod[{showDeltas l.mod}]"

def infoOf (a : AppSt) (pool : Nat) : PoolInfo :=
  match a.infos.find? (fun i => i.pool = pool) with
  | some i => i
  | none => { pool := pool, q := "?", b := "?" }

def pcDenom (a : AppSt) (pool : Nat) : String := s!"p{a.id}.{pool}"

/-- what a batch execution of a deposit request moves (from the request's coins already in GlobalEscrow) -/
def ledgerDep (a : AppSt) (l : Ledger) (r : DepReq) (ax ay mint rfx rfy : Int) : Ledger :=
  let i := infoOf a r.pool
  let w := addDelta (addDelta (addDelta l.wal s!"{r.owner}:{i.q}" rfx) s!"{r.owner}:{i.b}" rfy) s!"{r.owner}:{pcDenom a r.pool}" mint
  let e := addDelta (addDelta l.esc i.q (-(ax + rfx))) i.b (-(ay + rfy))
  { l with wal := w, esc := e }

def ledgerWdr (a : AppSt) (l : Ledger) (r : WdrReq) (x y burn rfpc : Int) : Ledger :=
  let i := infoOf a r.pool
  let w := addDelta (addDelta (addDelta l.wal s!"{r.owner}:{i.q}" x) s!"{r.owner}:{i.b}" y) s!"{r.owner}:{pcDenom a r.pool}" rfpc
  let e := addDelta l.esc (pcDenom a r.pool) (-(burn + rfpc))
  { l with wal := w, esc := e }

/-! ### pools -/

def poolOf (ps : List KPool) (id : Nat) : Option KPool := findPool ps id

def adoptSnap (ps : List KPool) (s : PSnap) : List KPool :=
  ps.map fun p => if p.id = s.pool then { p with rx := s.rx, ry := s.ry, ps := s.ps, disabled := s.disabled } else p

def adoptSnaps (ps : List KPool) (ss : List PSnap) : List KPool := ss.foldl adoptSnap ps

def insertDep (r : DepReq) : List DepReq → List DepReq
  | [] => [r]
  | x :: xs => if r.pool < x.pool ∨ (r.pool = x.pool ∧ r.id < x.id) then r :: x :: xs else x :: insertDep r xs

def insertWdr (r : WdrReq) : List WdrReq → List WdrReq
  | [] => [r]
  | x :: xs => if r.pool < x.pool ∨ (r.pool = x.pool ∧ r.id < x.id) then r :: x :: xs else x :: insertWdr r xs

def showDepReq (r : DepReq) : String := s!"{r.pool}:{r.id}:{r.owner}:{r.x}:{r.y}"
def showWdrReq (r : WdrReq) : String := s!"{r.pool}:{r.id}:{r.owner}:{r.pc}"

def statusNum : Status → Nat
  | .succeeded => 2
  | .failed => 3

/-! ### monitors on REAL values -/

/-- the laws of one REAL deposit execution on the REAL pool state `(rx, ry, ps)` it started from -/
def monDep (seq : String) (rx ry ps : Int) (x y : Int) (status : Nat) (ax ay mint : Int) : List String :=
  if status = 2 then
    mon seq "keeper_deposit_rate"
      (decide (TakesAtMostOffered x ax ∧ TakesAtMostOffered y ay ∧ 0 < mint ∧
               RateNotBetter rx ps ax mint ∧ RateNotBetter ry ps ay mint)) ++
    mon seq "keeper_reserves_per_share"
      (decide (PerShareAfterDeposit rx ps ax mint ∧ PerShareAfterDeposit ry ps ay mint))
  else
    mon seq "keeper_failed_moves_nothing" (decide (ax = 0 ∧ ay = 0 ∧ mint = 0))

/-- the laws of one REAL withdraw execution; `fee` is the app's REAL WithdrawFeeRate -/
def monWdr (seq : String) (fee : Dec) (rx ry ps : Int) (pc : Int) (status : Nat) (wx wy : Int) : List String :=
  if status = 2 then
    mon seq "keeper_withdraw_prorata"
      (decide (pc ≠ ps → (AtMostProrata rx ps pc fee wx ∧ AtMostProrata ry ps pc fee wy))) ++
    mon seq "keeper_last_share" (decide (pc = ps → (wx = rx ∧ wy = ry))) ++
    mon seq "keeper_reserves_per_share"
      (decide (PerShareAfterWithdraw rx ps pc wx ∧ PerShareAfterWithdraw ry ps pc wy ∧ 0 ≤ wx ∧ wx ≤ rx ∧ 0 ≤ wy ∧ wy ≤ ry))
  else
    mon seq "keeper_failed_moves_nothing" (decide (wx = 0 ∧ wy = 0))

structure Run where
  rx : Int
  ry : Int
  ps : Int

def runOf (rs : List (Nat × Run)) (pool : Nat) : Run :=
  match rs.find? (fun e => e.1 = pool) with
  | some e => e.2
  | none => { rx := 0, ry := 0, ps := 0 }

def setRun (rs : List (Nat × Run)) (pool : Nat) (r : Run) : List (Nat × Run) :=
  rs.map fun e => if e.1 = pool then (pool, r) else e

/-! ### handlers -/

def handleSetFee (st : St) (seq : String) (app : Nat) (v : Int) (outcome : String) (feeAfter : Int) (batch : Nat) :
    St × List String :=
  let a := getApp st app
  let valid := decide (0 ≤ v ∧ v < Dec.one)          -- validateWithdrawFeeRate: not negative, not ≥ 1
  let mFee := if valid then v else a.fee
  let mOut := if valid then "ok" else "err"
  let d := diff seq s!"setfee {app} {v}" s!"{mOut} {mFee}" s!"{outcome} {feeAfter}"
  let m := mon seq "keeper_fee_in_range" (decide (0 ≤ feeAfter ∧ feeAfter < Dec.one))
  (putApp st { a with fee := feeAfter, batch := batch }, d ++ m)

def handlePool (st : St) (app pool : Nat) (q b : String) (ranged : Bool) (minP maxP rx ry ps : Int) (dis : Bool) : St :=
  let a := getApp st app
  let p : KPool := { id := pool, ranged := ranged, minP := minP, maxP := maxP, disabled := dis, rx := rx, ry := ry, ps := ps }
  let pools := if a.pools.any (fun x => x.id = pool) then setPool a.pools p else a.pools ++ [p]
  let infos := if a.infos.any (fun x => x.pool = pool) then a.infos else a.infos ++ [{ pool := pool, q := q, b := b }]
  putApp st { a with pools := pools, infos := infos }

def handleExt (st : St) (app pool : Nat) (rx ry : Int) : St :=
  let a := getApp st app
  putApp st { a with pools := a.pools.map fun p => if p.id = pool then { p with rx := rx, ry := ry } else p }

def handleDep (st : St) (seq : String) (app pool owner : Nat) (x y bx bY : Int) (outcome : String) (reqid : Nat) :
    St × List String :=
  let a := getApp st app
  let ok := msgDepositOk a.pools pool bx bY x y && decide (0 < x ∨ 0 < y)
  let d := diff seq s!"MsgDeposit {app} {pool} {x} {y}" (if ok then "ok" else "err") outcome
  let a' := if outcome = "ok" then { a with deps := insertDep { pool := pool, id := reqid, owner := owner, x := x, y := y } a.deps } else a
  (putApp st a', d)

def handleWdr (st : St) (seq : String) (app pool owner : Nat) (pc bpc : Int) (outcome : String) (reqid : Nat) :
    St × List String :=
  let a := getApp st app
  let ok := msgWithdrawOk a.pools pool bpc pc
  let d := diff seq s!"MsgWithdraw {app} {pool} {pc}" (if ok then "ok" else "err") outcome
  let a' := if outcome = "ok" then { a with wdrs := insertWdr { pool := pool, id := reqid, owner := owner, pc := pc } a.wdrs } else a
  (putApp st a', d)

/-- compare the model's pools with a REAL projection and adopt the real one -/
def comparePost (seq what : String) (pools : List KPool) (post : List PSnap) : List String :=
  let m := showSnaps (pools.filter fun p => post.any (fun s => s.pool = p.id))
  diff seq what m (showPSnaps post)

def handleEb (st : St) (seq : String) (app height : Nat) (feeReal : Int) (_orders : Bool) (fs : List String) :
    St × List String :=
  let a := getApp st app
  match (kv fs "mid" >>= parseSnaps), (kv fs "deps" >>= fun s => (splitList s).mapM parseDepRec),
        (kv fs "wdrs" >>= fun s => (splitList s).mapM parseWdrRec), (kv fs "post" >>= parseSnaps),
        (kv fs "wal" >>= parseDeltas), (kv fs "esc" >>= parseDeltas), (kv fs "mod" >>= parseDeltas) with
  | some mid, some deps, some wdrs, some post, some wal, some esc, some modd =>
    Id.run do
      let mut out : List String := []
      -- configuration and queue: the model's view against the real one
      out := out ++ diff seq s!"fee of app {app}" s!"{a.fee}" s!"{feeReal}"
      out := out ++ diff seq "pending deposit requests" (",".intercalate (a.deps.map showDepReq))
                      (",".intercalate (deps.map fun r => showDepReq r.req))
      out := out ++ diff seq "pending withdraw requests" (",".intercalate (a.wdrs.map showWdrReq))
                      (",".intercalate (wdrs.map fun r => showWdrReq r.req))
      -- the state the requests start from
      for s in mid do
        match poolOf a.pools s.pool with
        | none => out := out ++ [s!"BAD\t{seq}\tunknown pool {s.pool}"]
        | some p =>
          out := out ++ diff seq s!"pool {s.pool} before the batch (ps, disabled)" s!"{p.ps}:{b2s p.disabled}" s!"{s.ps}:{b2s s.disabled}"
          if !s.matched then
            out := out ++ mon seq "keeper_batch_reserves_consistent" (decide (p.rx = s.rx ∧ p.ry = s.ry))
      let pools0 := adoptSnaps a.pools mid
      let executes := height % a.batch = 0
      -- the model's batch
      let depReqs := deps.map (·.req)
      let wdrReqs := wdrs.map (·.req)
      let res := if executes then execRequests a.fee pools0 depReqs wdrReqs else none
      let (mPools, mDeps, mWdrs, mLedger) : List KPool × List String × List String × Ledger :=
        match res with
        | some (p2, dos, wos) =>
          let dl := (depReqs.zip dos).foldl (fun l (r, o) => ledgerDep a l r o.ax o.ay o.mint o.rfx o.rfy) ({} : Ledger)
          let wl := (wdrReqs.zip wos).foldl (fun l (r, o) => ledgerWdr a l r o.x o.y o.burn o.rfpc) dl
          (p2, (depReqs.zip dos).map (fun (r, o) => s!"{r.pool}:{r.id}:{statusNum o.status}:{o.ax}:{o.ay}:{o.mint}"),
               (wdrReqs.zip wos).map (fun (r, o) => s!"{r.pool}:{r.id}:{statusNum o.status}:{o.x}:{o.y}"), wl)
        | none =>
          (pools0, depReqs.map (fun r => s!"{r.pool}:{r.id}:1:0:0:0"), wdrReqs.map (fun r => s!"{r.pool}:{r.id}:1:0:0"), {})
      out := out ++ diff seq "deposit results" (",".intercalate mDeps)
        (",".intercalate (deps.map fun r => s!"{r.req.pool}:{r.req.id}:{r.status}:{r.ax}:{r.ay}:{r.mint}"))
      out := out ++ diff seq "withdraw results" (",".intercalate mWdrs)
        (",".intercalate (wdrs.map fun r => s!"{r.req.pool}:{r.req.id}:{r.status}:{r.wx}:{r.wy}"))
      out := out ++ comparePost seq "pools after the batch" mPools post
      let realLedger : Ledger := { wal := wal, esc := esc, mod := modd }
      out := out ++ diff seq "balance deltas" (showLedger mLedger) (showLedger realLedger)
      -- monitors on the REAL records, with the REAL running pool state
      let mut runs : List (Nat × Run) := mid.map fun s => (s.pool, { rx := s.rx, ry := s.ry, ps := s.ps })
      let mut recLedger : Ledger := {}
      for r in deps do
        let cur := runOf runs r.req.pool
        if r.status ≠ 1 then
          out := out ++ monDep seq cur.rx cur.ry cur.ps r.req.x r.req.y r.status r.ax r.ay r.mint
          runs := setRun runs r.req.pool { rx := cur.rx + r.ax, ry := cur.ry + r.ay, ps := cur.ps + r.mint }
          recLedger := ledgerDep a recLedger r.req r.ax r.ay r.mint (r.req.x - r.ax) (r.req.y - r.ay)
      for r in wdrs do
        let cur := runOf runs r.req.pool
        if r.status ≠ 1 then
          out := out ++ monWdr seq feeReal cur.rx cur.ry cur.ps r.req.pc r.status r.wx r.wy
          let burn := if r.status = 2 then r.req.pc else 0
          runs := setRun runs r.req.pool { rx := cur.rx - r.wx, ry := cur.ry - r.wy, ps := cur.ps - burn }
          recLedger := ledgerWdr a recLedger r.req r.wx r.wy burn (r.req.pc - burn)
      -- the records account for every real balance change
      out := out ++ mon seq "keeper_transfers_match_records" (showLedger recLedger = showLedger realLedger)
      for s in post do
        let cur := runOf runs s.pool
        out := out ++ mon seq "keeper_batch_reserves_consistent" (decide (cur.rx = s.rx ∧ cur.ry = s.ry ∧ cur.ps = s.ps))
        out := out ++ mon seq "keeper_last_share" (decide (s.ps = 0 → (s.disabled = true ∧ s.rx = 0 ∧ s.ry = 0)) ||
                                                  mid.any (fun m => m.pool = s.pool ∧ m.ps = 0))
      -- adopt the real state
      let pools1 := adoptSnaps a.pools post
      let a' := { a with pools := pools1,
                         deps := (deps.filter (fun r => r.status = 1)).map (·.req),
                         wdrs := (wdrs.filter (fun r => r.status = 1)).map (·.req) }
      return (putApp st a', out)
  | _, _, _, _, _, _, _ => (st, [s!"BAD\t{seq}\teb fields"])

def parseLedger (fs : List String) : Option Ledger := do
  pure { wal := (← kv fs "wal" >>= parseDeltas), esc := (← kv fs "esc" >>= parseDeltas), mod := (← kv fs "mod" >>= parseDeltas) }

def handleDaf (st : St) (seq : String) (app pool owner : Nat) (x y bx bY : Int) (outcome : String) (status : Nat)
    (ax ay mint : Int) (post : PSnap) (real : Ledger) : St × List String :=
  let a := getApp st app
  let i := infoOf a pool
  Id.run do
    let mut out : List String := []
    let okBasic := decide (0 < x ∨ 0 < y)
    let res := if okBasic then depositAndFarm a.pools pool bx bY x y else none
    let (mStr, mPools, mLedger) : String × List KPool × Ledger :=
      match res with
      | some (ps', o) =>
        (s!"ok:{statusNum o.status}:{o.ax}:{o.ay}:{o.mint}", ps',
          { wal := addDelta (addDelta [] s!"{owner}:{i.q}" (-o.ax)) s!"{owner}:{i.b}" (-o.ay), esc := [],
            mod := addDelta [] (pcDenom a pool) o.mint })
      | none => ("err:0:0:0:0", a.pools, {})
    let rStr := if outcome = "ok" then s!"ok:{status}:{ax}:{ay}:{mint}" else s!"{outcome}:0:0:0:0"
    out := out ++ diff seq s!"MsgDepositAndFarm {app} {pool} {x} {y}" mStr rStr
    out := out ++ comparePost seq "pool after MsgDepositAndFarm" mPools [post]
    out := out ++ diff seq "balance deltas" (showLedger mLedger) (showLedger real)
    -- monitors on real values: the pool before is the (real, adopted) tracked state
    match poolOf a.pools pool with
    | none => out := out ++ [s!"BAD\t{seq}\tunknown pool {pool}"]
    | some p =>
      if outcome = "ok" then
        out := out ++ monDep seq p.rx p.ry p.ps x y status ax ay mint
        out := out ++ mon seq "keeper_deposit_rate" (status = 2)   -- a successful message executed its request
        let recL : Ledger := { wal := addDelta (addDelta [] s!"{owner}:{i.q}" (-ax)) s!"{owner}:{i.b}" (-ay), esc := [],
                               mod := addDelta [] (pcDenom a pool) mint }
        out := out ++ mon seq "keeper_transfers_match_records" (showLedger recL = showLedger real)
        out := out ++ mon seq "keeper_batch_reserves_consistent"
          (decide (post.rx = p.rx + ax ∧ post.ry = p.ry + ay ∧ post.ps = p.ps + mint))
      else
        out := out ++ mon seq "keeper_failed_moves_nothing"
          (showLedger real = showLedger {} && decide (post.rx = p.rx ∧ post.ry = p.ry ∧ post.ps = p.ps))
    return (putApp st { a with pools := adoptSnaps a.pools [post] }, out)

def handleUaw (st : St) (seq : String) (app pool owner : Nat) (pc farmed : Int) (outcome : String) (status : Nat)
    (wx wy : Int) (post : PSnap) (real : Ledger) : St × List String :=
  let a := getApp st app
  let i := infoOf a pool
  let led (x y burn : Int) : Ledger :=
    { wal := addDelta (addDelta (addDelta [] s!"{owner}:{i.q}" x) s!"{owner}:{i.b}" y) s!"{owner}:{pcDenom a pool}" (pc - burn),
      esc := [], mod := addDelta [] (pcDenom a pool) (-pc) }
  Id.run do
    let mut out : List String := []
    let res := unfarmAndWithdraw a.fee a.pools pool farmed pc
    let (mStr, mPools, mLedger) : String × List KPool × Ledger :=
      match res with
      | some (ps', o) => (s!"ok:{statusNum o.status}:{o.x}:{o.y}", ps', led o.x o.y o.burn)
      | none => ("err:0:0:0", a.pools, {})
    let rStr := if outcome = "ok" then s!"ok:{status}:{wx}:{wy}" else s!"{outcome}:0:0:0"
    out := out ++ diff seq s!"MsgUnfarmAndWithdraw {app} {pool} {pc}" mStr rStr
    out := out ++ comparePost seq "pool after MsgUnfarmAndWithdraw" mPools [post]
    out := out ++ diff seq "balance deltas" (showLedger mLedger) (showLedger real)
    match poolOf a.pools pool with
    | none => out := out ++ [s!"BAD\t{seq}\tunknown pool {pool}"]
    | some p =>
      if outcome = "ok" then
        out := out ++ monWdr seq a.fee p.rx p.ry p.ps pc status wx wy
        let burn := if status = 2 then pc else 0
        out := out ++ mon seq "keeper_transfers_match_records" (showLedger (led wx wy burn) = showLedger real)
        out := out ++ mon seq "keeper_batch_reserves_consistent"
          (decide (post.rx = p.rx - wx ∧ post.ry = p.ry - wy ∧ post.ps = p.ps - burn))
        out := out ++ mon seq "keeper_last_share" (decide (post.ps = 0 → (post.disabled = true ∧ post.rx = 0 ∧ post.ry = 0)) || decide (p.ps = 0))
      else
        out := out ++ mon seq "keeper_failed_moves_nothing"
          (showLedger real = showLedger {} && decide (post.rx = p.rx ∧ post.ry = p.ry ∧ post.ps = p.ps))
    return (putApp st { a with pools := adoptSnaps a.pools [post] }, out)

def handleState (st : St) (seq : String) (app : Nat) (fs : List String) : St × List String :=
  let a := getApp st app
  match kv fs "post" >>= parseSnaps with
  | some post =>
    let d := comparePost seq "pools (nothing may have changed)" a.pools post
    (putApp st { a with pools := adoptSnaps a.pools post }, d)
  | none => (st, [s!"BAD\t{seq}\tstate fields"])

def handle (st : St) (seq : String) (f : List String) : St × List String :=
  match f with
  | ["pkeep.begin", _] => (init, [])
  | ["pkeep.setfee", app, v, o, fa, b] =>
    match parseNat? app, parseInt? v, parseInt? fa, parseNat? b with
    | some app, some v, some fa, some b => handleSetFee st seq app v o fa b
    | _, _, _, _ => (st, [s!"BAD\t{seq}\tsetfee"])
  | ["pkeep.pool", app, pool, q, b, rg, mn, mx, rx, ry, ps, d] =>
    match parseNat? app, parseNat? pool, parseBool? rg, parseInt? mn, parseInt? mx, parseInt? rx, parseInt? ry, parseInt? ps, parseBool? d with
    | some app, some pool, some rg, some mn, some mx, some rx, some ry, some ps, some d =>
      (handlePool st app pool q b rg mn mx rx ry ps d, [])
    | _, _, _, _, _, _, _, _, _ => (st, [s!"BAD\t{seq}\tpool"])
  | ["pkeep.ext", app, pool, _, rx, ry] =>
    match parseNat? app, parseNat? pool, parseInt? rx, parseInt? ry with
    | some app, some pool, some rx, some ry => (handleExt st app pool rx ry, [])
    | _, _, _, _ => (st, [s!"BAD\t{seq}\text"])
  | ["pkeep.dep", app, pool, owner, x, y, bx, bY, o, rid] =>
    match parseNat? app, parseNat? pool, parseNat? owner, parseInt? x, parseInt? y, parseInt? bx, parseInt? bY, parseNat? rid with
    | some app, some pool, some owner, some x, some y, some bx, some bY, some rid => handleDep st seq app pool owner x y bx bY o rid
    | _, _, _, _, _, _, _, _ => (st, [s!"BAD\t{seq}\tdep"])
  | ["pkeep.wdr", app, pool, owner, pc, bpc, o, rid] =>
    match parseNat? app, parseNat? pool, parseNat? owner, parseInt? pc, parseInt? bpc, parseNat? rid with
    | some app, some pool, some owner, some pc, some bpc, some rid => handleWdr st seq app pool owner pc bpc o rid
    | _, _, _, _, _, _ => (st, [s!"BAD\t{seq}\twdr"])
  | "pkeep.eb" :: app :: h :: fee :: ord :: fs =>
    match parseNat? app, parseNat? h, parseInt? fee, parseBool? ord with
    | some app, some h, some fee, some ord => handleEb st seq app h fee ord fs
    | _, _, _, _ => (st, [s!"BAD\t{seq}\teb"])
  | "pkeep.daf" :: app :: pool :: owner :: x :: y :: bx :: bY :: o :: stt :: ax :: ay :: mint :: rx :: ry :: ps :: d :: fs =>
    match parseNat? app, parseNat? pool, parseNat? owner, (([x, y, bx, bY, ax, ay, mint, rx, ry, ps].mapM parseInt?)),
          parseNat? stt, parseBool? d, parseLedger fs with
    | some app, some pool, some owner, some [x, y, bx, bY, ax, ay, mint, rx, ry, ps], some stt, some d, some l =>
      handleDaf st seq app pool owner x y bx bY o stt ax ay mint { pool := pool, rx := rx, ry := ry, ps := ps, disabled := d } l
    | _, _, _, _, _, _, _ => (st, [s!"BAD\t{seq}\tdaf"])
  | "pkeep.uaw" :: app :: pool :: owner :: pc :: farmed :: o :: stt :: wx :: wy :: rx :: ry :: ps :: d :: fs =>
    match parseNat? app, parseNat? pool, parseNat? owner, (([pc, farmed, wx, wy, rx, ry, ps].mapM parseInt?)),
          parseNat? stt, parseBool? d, parseLedger fs with
    | some app, some pool, some owner, some [pc, farmed, wx, wy, rx, ry, ps], some stt, some d, some l =>
      handleUaw st seq app pool owner pc farmed o stt wx wy { pool := pool, rx := rx, ry := ry, ps := ps, disabled := d } l
    | _, _, _, _, _, _, _ => (st, [s!"BAD\t{seq}\tuaw"])
  | "pkeep.state" :: app :: fs =>
    match parseNat? app with
    | some app => handleState st seq app fs
    | none => (st, [s!"BAD\t{seq}\tstate"])
  | ["pkeep.bad", what, o] => (st, diff seq s!"malformed message {what}" "err" o)
  | _ => (st, [s!"BAD\t{seq}\tunknown pkeep line"])

end Comdex.Drv.PoolKeeper
