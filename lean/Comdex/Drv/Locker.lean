import Comdex.Base.Line
import Comdex.Model.Locker
/-! Driver for the locker / collector model (property C13).

Lines (tab separated; `<o>` = `ok` | `err` | `panic`; `<S>` = real state projection AFTER the call, see `parseState`):
  lk.begin     assets=1,2,3  apps=1,2  collk=1:2;2:2
  lk.fund      u asset x                       <o> <S>
  lk.whitelist app asset                       <o> <S>
  lk.create    u app asset amt                 <o> <S>
  lk.deposit   u app asset id amt  <rw> <obs>  <o> <S>
  lk.withdraw  u app asset id amt  <rw> <obs>  <o> <S>
  lk.close     u app asset id      <rw> <obs>  <o> <S>
  lk.rewardcalc app id             <rw> <obs>  <o> <S>
  lk.lsr       app asset <rw,rw,…>             <o> <S>
  lk.feevault  app asset x                     <o> <S>
  lk.feeclose  app asset interest closing      <o> <S>
  lk.penalty   app asset x                     <o> <S>
  lk.aucreturn app asset x                     <o> <S>
  lk.decrease  app asset x                     <o> <S>
  lk.getamount app asset x                     <o> <S>
  lk.surplusfund app asset u x                 <o> <S>
  lk.v2sclose  app asset u lot                 <o> <S>
  lk.v2dclose  app asset c d                   <o> <S>
  lk.sync                                          <S>   (real steps that the model does not describe: bids, vault-side moves)
`<rw>` = `none` | `fail` | `pay:<ρ>` is the reward the harness predicted from the real keeper BEFORE the call (external input);
`<obs>` = what the real call then added to `LockerTotalRewardsByAssetAppWise` (`-` when the call failed).

`<S>` = `L=id:owner:app:asset:net:ret;…|K=app:asset:deposited:id,id,…;…|F=app:asset:net;…|B=acct:asset:amount;…`
with `acct` ∈ `u<n>` | `locker` | `collector`, every list sorted by key, zero balances omitted.

Outputs: `DIFF` (model ≠ code: outcome or any field of the projection), `MON` (a property monitor is false on the REAL state /
REAL call), `BAD` (protocol). After every line the model state is replaced by the real one, so one divergence is reported once.
Monitor names: deposited_eq_sum, locker_custody, withdraw_exact, collector_custody, netfees_nonneg, netfees_delta, ext_input.
-/
-- DRIVER: prefix=lk ns=Comdex.Drv.Locker
namespace Comdex.Drv.Locker
open Comdex.Locker Comdex.Line

structure St where
  s : State := {}
  deriving Inhabited

def init : St := {}

/-! ### parsing -/

def parsePair? (t : String) : Option (Nat × Nat) :=
  match t.splitOn ":" with
  | [a, b] => do pure (← a.toNat?, ← b.toNat?)
  | _ => none

def parsePairs (t : String) : Option (List (Nat × Nat)) :=
  if t = "" then some [] else (t.splitOn ";").mapM parsePair?

def parseList {α} (f : String → Option α) (t : String) : Option (List α) :=
  if t = "" then some [] else (t.splitOn ";").mapM f

def parseAcct? (t : String) : Option Acct :=
  if t = "locker" then some .locker
  else if t = "collector" then some .collector
  else if t = "auction" then some .auction
  else if t = "auctionV2" then some .auctionV2
  else if t.startsWith "u" then (t.drop 1).toNat?.map Acct.user
  else none

def parseLocker? (t : String) : Option (Nat × Locker) :=
  match t.splitOn ":" with
  | [id, o, ap, a, n, r] => do
    pure (← id.toNat?, { owner := ← o.toNat?, app := ← ap.toNat?, asset := ← a.toNat?, net := ← n.toInt?, ret := ← r.toInt? })
  | _ => none

def parseLk? (t : String) : Option ((Nat × Nat) × Lk) :=
  match t.splitOn ":" with
  | [ap, a, d, ids] => do pure ((← ap.toNat?, ← a.toNat?), { deposited := ← d.toInt?, ids := ← parseNatList ids })
  | _ => none

def parseFee? (t : String) : Option ((Nat × Nat) × Int) :=
  match t.splitOn ":" with
  | [ap, a, v] => do pure ((← ap.toNat?, ← a.toNat?), ← v.toInt?)
  | _ => none

def parseBal? (t : String) : Option ((Acct × Nat) × Int) :=
  match t.splitOn ":" with
  | [ac, a, v] => do pure ((← parseAcct? ac, ← a.toNat?), ← v.toInt?)
  | _ => none

def section? (parts : List String) (tag : String) : Option String :=
  parts.findSome? fun p => if p.startsWith (tag ++ "=") then some (p.drop (tag.length + 1)).toString else none

/-- the real projection, with the configuration and the id counter carried over from the model state -/
def parseState (cfg : State) (t : String) : Option State := do
  let parts := t.splitOn "|"
  let ls ← (section? parts "L") >>= parseList parseLocker?
  let ks ← (section? parts "K") >>= parseList parseLk?
  let fs ← (section? parts "F") >>= parseList parseFee?
  let bs ← (section? parts "B") >>= parseList parseBal?
  let maxId := ls.foldl (fun m p => max m p.1) cfg.lastId
  pure { cfg with bank := bs, lockers := ls, lookup := ks, fees := fs, lastId := maxId }

def parseRw? (t : String) : Option Rw :=
  if t = "none" then some .none
  else if t = "fail" then some .fail
  else if t.startsWith "pay:" then (t.drop 4).toInt?.map Rw.pay
  else none

def parseRws (t : String) : Option (List Rw) :=
  if t = "" then some [] else (t.splitOn ",").mapM parseRw?

/-! ### normal form of a state for comparison -/

def acctCode : Acct → Nat × Nat
  | .user n => (0, n)
  | .locker => (1, 0)
  | .collector => (2, 0)
  | .auction => (3, 0)
  | .auctionV2 => (4, 0)

def leNN (a b : Nat × Nat) : Bool := a.1 < b.1 || (a.1 == b.1 && a.2 ≤ b.2)

def compared (a : Acct) : Bool := match a with | .user _ | .locker | .collector => true | _ => false

structure Norm where
  ls : List (Nat × Locker)
  ks : List ((Nat × Nat) × Lk)
  fs : List ((Nat × Nat) × Int)
  bs : List ((Acct × Nat) × Int)
  deriving DecidableEq

def dedupKeys {K V} [DecidableEq K] (s : Store K V) : Store K V :=
  s.foldl (fun acc p => if acc.any (fun q => q.1 = p.1) then acc else acc ++ [p]) []

def norm (s : State) : Norm :=
  { ls := (dedupKeys s.lockers).mergeSort (fun a b => a.1 ≤ b.1)
    ks := (dedupKeys s.lookup).mergeSort (fun a b => leNN a.1 b.1)
    fs := (dedupKeys s.fees).mergeSort (fun a b => leNN a.1 b.1)
    bs := ((dedupKeys s.bank).filter (fun p => compared p.1.1 && p.2 != 0)).mergeSort
            (fun a b => leNN (acctCode a.1.1) (acctCode b.1.1) && (acctCode a.1.1 != acctCode b.1.1 || a.1.2 ≤ b.1.2)) }

def showAcct : Acct → String
  | .user n => s!"u{n}" | .locker => "locker" | .collector => "collector" | .auction => "auction" | .auctionV2 => "auctionV2"

def showNorm (n : Norm) : String :=
  "L=" ++ ";".intercalate (n.ls.map fun p => s!"{p.1}:{p.2.owner}:{p.2.app}:{p.2.asset}:{p.2.net}:{p.2.ret}") ++
  "|K=" ++ ";".intercalate (n.ks.map fun p => s!"{p.1.1}:{p.1.2}:{p.2.deposited}:{showNatList p.2.ids}") ++
  "|F=" ++ ";".intercalate (n.fs.map fun p => s!"{p.1.1}:{p.1.2}:{p.2}") ++
  "|B=" ++ ";".intercalate (n.bs.map fun p => s!"{showAcct p.1.1}:{p.1.2}:{p.2}")

/-! ### monitors on the real states -/

def extOkB : Op → Bool
  | .deposit _ _ _ _ _ (.pay ρ) | .withdraw _ _ _ _ _ (.pay ρ) | .close _ _ _ _ (.pay ρ) | .rewardCalc _ _ (.pay ρ) => decide (0 ≤ ρ)
  | .lsrChange _ _ rws => rws.all fun r => match r with | .pay ρ => decide (0 ≤ ρ) | _ => true
  | .decreaseNetFee _ _ x => decide (0 ≤ x)
  | .feeClose _ _ i c => decide (0 ≤ i) && decide (0 ≤ c)
  | _ => true

def rwAmount : Rw → Int | .pay ρ => ρ | _ => 0

/-- the per-call law `withdraw_exact` on the real balances before (`p`) and after (`r`) a successful call -/
def monWithdrawExact (p r : State) : Op → Bool
  | .withdraw u _ asset _ amt _ => bal r (.user u) asset == bal p (.user u) asset + amt
  | .close u _ asset id rw =>
    match Store.get p.lockers id with
    | some l => bal r (.user u) asset == bal p (.user u) asset + (l.net + rwAmount rw)
    | none => false
  | _ => true

/-- `netfees_delta`: per asset, Σ over apps of the recorded net fees moved by what the custody balance moved -/
def monNetFeesDelta (p r : State) (op : Op) : Bool :=
  match op with
  | .decreaseNetFee .. => true
  | _ => (assetsOf p ++ assetsOf r).all fun a =>
      feeAsset a r.fees - feeAsset a p.fees == bal r .collector a - bal p .collector a

def stateMonitors (p r : State) : List String :=
  (if !monDepositedEqSum r && monDepositedEqSum p then ["deposited_eq_sum"] else []) ++
  (if !monLockerCustody r && monLockerCustody p then ["locker_custody"] else []) ++
  (if !monCollectorCustody r && monCollectorCustody p then ["collector_custody"] else []) ++
  (if !monNetFeesNonneg r && monNetFeesNonneg p then ["netfees_nonneg"] else [])

/-! ### one op line -/

def applyOp (st : St) (seq : String) (op : Op) (obs : Option String) (outcome : String) (stateStr : String) : St × List String :=
  match parseState st.s stateStr with
  | none => (st, [s!"BAD\t{seq}\tcannot parse state {stateStr}"])
  | some r =>
    let p := st.s
    let ok := outcome == "ok"
    let ext := if extOkB op then [] else [s!"MON\t{seq}\text_input"]
    let m := step p op
    -- the second-generation closes are also accepted in their repaired form (notes/C13.md): a repaired tree checks clean
    let m := match stepRepaired p op with
      | some r' => if ok && norm r' == norm r && (m.map norm) != some (norm r) then some r' else m
      | none => m
    let dOutcome := if m.isSome != ok then [s!"DIFF\t{seq}\toutcome model={if m.isSome then "ok" else "rejected"} impl={outcome}"] else []
    let expect := if ok then m.getD p else p     -- a rejected message must leave the books untouched
    let dState := if norm expect == norm r then [] else
      [s!"DIFF\t{seq}\tstate model={showNorm (norm expect)}\timpl={showNorm (norm r)}"]
    -- predicted reward against what the real call then paid
    let dRw := match obs, ok with
      | some o, true =>
        let paid := match op with
          | .deposit _ _ _ _ _ rw | .withdraw _ _ _ _ _ rw | .close _ _ _ _ rw | .rewardCalc _ _ rw => some (rwAmount rw)
          | _ => none
        match paid, o.toInt? with
        | some x, some y => if x == y then [] else [s!"DIFF\t{seq}\treward predicted={x} observed={y}"]
        | _, _ => []
      | _, _ => []
    let mons :=
      (if ok && !monWithdrawExact p r op then [s!"MON\t{seq}\twithdraw_exact"] else []) ++
      (if ok && !monNetFeesDelta p r op then [s!"MON\t{seq}\tnetfees_delta"] else []) ++
      (stateMonitors p r).map fun n => s!"MON\t{seq}\t{n}"
    -- accounts outside the projection (auction escrows) keep the balance the model computed
    let carried := (dedupKeys expect.bank).filter fun q => !compared q.1.1
    ({ st with s := { r with bank := r.bank ++ carried } }, ext ++ dOutcome ++ dState ++ dRw ++ mons)

def nat3 (a b c : String) : Option (Nat × Nat × Nat) := do pure (← a.toNat?, ← b.toNat?, ← c.toNat?)

def handle (st : St) (seq : String) (f : List String) : St × List String :=
  let bad := (st, [s!"BAD\t{seq}\tcannot parse {"\t".intercalate f}"])
  match f with
  | ["lk.begin", a, ap, ck] =>
    match field? [a] "assets" >>= parseNatList, field? [ap] "apps" >>= parseNatList, field? [ck] "collk" >>= parsePairs with
    | some as, some aps, some cks => ({ s := { assets := as, apps := aps, collk := cks } }, [])
    | _, _, _ => bad
  | ["lk.sync", ss] =>
    match parseState st.s ss with
    | none => bad
    | some r =>
      let carried := (dedupKeys st.s.bank).filter fun q => !compared q.1.1
      ({ st with s := { r with bank := r.bank ++ carried } }, (stateMonitors st.s r).map fun n => s!"MON\t{seq}\t{n}")
  | ["lk.fund", u, a, x, o, ss] =>
    match u.toNat?, a.toNat?, x.toInt? with
    | some u, some a, some x => applyOp st seq (.fund u a x) none o ss
    | _, _, _ => bad
  | ["lk.whitelist", ap, a, o, ss] =>
    match ap.toNat?, a.toNat? with
    | some ap, some a => applyOp st seq (.whitelist ap a) none o ss
    | _, _ => bad
  | ["lk.create", u, ap, a, x, o, ss] =>
    match nat3 u ap a, x.toInt? with
    | some (u, ap, a), some x => applyOp st seq (.create u ap a x) none o ss
    | _, _ => bad
  | ["lk.deposit", u, ap, a, id, x, rw, obs, o, ss] =>
    match nat3 u ap a, id.toNat?, x.toInt?, parseRw? rw with
    | some (u, ap, a), some id, some x, some rw => applyOp st seq (.deposit u ap a id x rw) (some obs) o ss
    | _, _, _, _ => bad
  | ["lk.withdraw", u, ap, a, id, x, rw, obs, o, ss] =>
    match nat3 u ap a, id.toNat?, x.toInt?, parseRw? rw with
    | some (u, ap, a), some id, some x, some rw => applyOp st seq (.withdraw u ap a id x rw) (some obs) o ss
    | _, _, _, _ => bad
  | ["lk.close", u, ap, a, id, rw, obs, o, ss] =>
    match nat3 u ap a, id.toNat?, parseRw? rw with
    | some (u, ap, a), some id, some rw => applyOp st seq (.close u ap a id rw) (some obs) o ss
    | _, _, _ => bad
  | ["lk.rewardcalc", ap, id, rw, obs, o, ss] =>
    match ap.toNat?, id.toNat?, parseRw? rw with
    | some ap, some id, some rw => applyOp st seq (.rewardCalc ap id rw) (some obs) o ss
    | _, _, _ => bad
  | ["lk.lsr", ap, a, rws, o, ss] =>
    match ap.toNat?, a.toNat?, parseRws rws with
    | some ap, some a, some rws => applyOp st seq (.lsrChange ap a rws) none o ss
    | _, _, _ => bad
  | ["lk.feevault", ap, a, x, o, ss] =>
    match ap.toNat?, a.toNat?, x.toInt? with
    | some ap, some a, some x => applyOp st seq (.feeVault ap a x) none o ss
    | _, _, _ => bad
  | ["lk.feeclose", ap, a, i, c, o, ss] =>
    match ap.toNat?, a.toNat?, i.toInt?, c.toInt? with
    | some ap, some a, some i, some c => applyOp st seq (.feeClose ap a i c) none o ss
    | _, _, _, _ => bad
  | ["lk.penalty", ap, a, x, o, ss] =>
    match ap.toNat?, a.toNat?, x.toInt? with
    | some ap, some a, some x => applyOp st seq (.penalty ap a x) none o ss
    | _, _, _ => bad
  | ["lk.aucreturn", ap, a, x, o, ss] =>
    match ap.toNat?, a.toNat?, x.toInt? with
    | some ap, some a, some x => applyOp st seq (.auctionReturn ap a x) none o ss
    | _, _, _ => bad
  | ["lk.decrease", ap, a, x, o, ss] =>
    match ap.toNat?, a.toNat?, x.toInt? with
    | some ap, some a, some x => applyOp st seq (.decreaseNetFee ap a x) none o ss
    | _, _, _ => bad
  | ["lk.getamount", ap, a, x, o, ss] =>
    match ap.toNat?, a.toNat?, x.toInt? with
    | some ap, some a, some x => applyOp st seq (.getAmount ap a x) none o ss
    | _, _, _ => bad
  | ["lk.surplusfund", ap, a, u, x, o, ss] =>
    match nat3 ap a u, x.toInt? with
    | some (ap, a, u), some x => applyOp st seq (.surplusFund ap a u x) none o ss
    | _, _ => bad
  | ["lk.v2sclose", ap, a, u, x, o, ss] =>
    match nat3 ap a u, x.toInt? with
    | some (ap, a, u), some x => applyOp st seq (.v2SurplusClose ap a u x) none o ss
    | _, _ => bad
  | ["lk.v2dclose", ap, a, c, d, o, ss] =>
    match ap.toNat?, a.toNat?, c.toInt?, d.toInt? with
    | some ap, some a, some c, some d => applyOp st seq (.v2DebtClose ap a c d) none o ss
    | _, _, _, _ => bad
  | _ => (st, [s!"BAD\t{seq}\tunknown lk line"])

end Comdex.Drv.Locker
