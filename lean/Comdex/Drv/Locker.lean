import Comdex.Base.Line
import Comdex.Model.Locker
/-! Driver for the locker / collector model (property C13).

Lines (tab separated; `<o>` = `ok` | `err` | `panic`; `<S>` = real state projection AFTER the call, see `parseState`;
`<t>` = `now height` of the block; `<pw>` = `-` | `xbits:ybits:pbits` — the two arguments and the result of the ONE `math.Pow`
call of `CalculationOfRewards` as IEEE-754 bit patterns (decimal); the driver recomputes both arguments from the model state
and reports a DIFF if they differ, the result is the only input of the reward computation):
  lk.begin     assets=1,2,3  apps=1,2  collk=<C entries>
  lk.fund      u asset x                          <o> <S>
  lk.whitelist app asset                          <o> <S>
  lk.wlreward  app asset                          <o> <S>
  lk.create    <t> u app asset amt                <o> <S>
  lk.deposit   <t> u app asset id amt <pw> <obs>  <o> <S>
  lk.withdraw  <t> u app asset id amt <pw> <obs>  <o> <S>
  lk.close     <t> u app asset id     <pw> <obs>  <o> <S>
  lk.rewardcalc <t> app id            <pw> <obs>  <o> <S>
  lk.lsr       <t> app asset lsr sthr dthr lot dlot <pw,pw,…>  <o> <S>
  lk.feevault  app asset x                        <o> <S>
  lk.feeclose  app asset interest closing         <o> <S>
  lk.penalty   app asset x                        <o> <S>
  lk.v2penalty app collAsset debtAsset x          <o> <S>   (auctionsV2 bid closing a vault auction: penalty in the debt asset)
  lk.aucreturn app asset x                        <o> <S>
  lk.decrease  app asset x                        <o> <S>
  lk.getamount app asset x                        <o> <S>
  lk.surplusfund app asset u x                    <o> <S>
  lk.v2sclose  app asset u lot                    <o> <S>
  lk.v2dclose  app asset c d                      <o> <S>
  lk.config    amap app asset surplus debt active | esm app on | kill app on | english app on      <o> <S>
  lk.activate  gen(1|2) app:asset;app:asset;…     <o> <S>   (one begin-block: x/auction BeginBlocker resp. liquidationsV2 BeginBlocker;
                                                             the keys are the auction-mapping entries in store order)
  lk.begin1    now app:asset;…                    <o> <S>   (the whole x/auction BeginBlocker: starts, restarts, every close path)
  lk.sbid      app auctionId u amount now         <o> <S>   (MsgPlaceSurplusBid)
  lk.dbid      app auctionId u bid expected now   <o> <S>   (MsgPlaceDebtBid)
  lk.sync                                             <S>   (real steps that the model does not describe: bids, vault-side moves)
`<obs>` = what the real call added to `LockerTotalRewardsByAssetAppWise` (`-` when the call failed); compared with the reward
the model computed.

`<S>` = `L=id:owner:app:asset:net:ret:bh:bt;…|K=app:asset:deposited:id,id,…;…|F=app:asset:net;…|B=acct:asset:amount;…|
T=id:app:raw;…|C=app:asset:lsr:bh:bt:sthr:dthr:lot:dlot;…|W=app:asset;…`
with `acct` ∈ `u<n>` | `locker` | `collector`, every list sorted by key, zero balances omitted; `T` = reward trackers (raw 10^-18),
`C` = collector lookup table, `W` = (app, asset) pairs whitelisted for internal rewards; further
`|A=app:asset:surplus:debt:active;…|E=apps with ESM executed|X=apps with kill switch on|G=apps with English auctions activated`
`|S=id:app:asset:s|d:lot:other:bidder|-:endT:bidEndT;…` (running first-generation auctions) `|N=auction id counter`;
`lk.begin` may carry `adur=`, `bdur=`, `bf=` (auction duration, bid duration, bid factor raw).

Outputs: `DIFF` (model ≠ code: outcome or any field of the projection), `MON` (a property monitor is false on the REAL state /
REAL call), `BAD` (protocol). After every line the model state is replaced by the real one, so one divergence is reported once.
Monitor names: deposited_eq_sum, locker_custody, withdraw_exact, collector_custody, netfees_nonneg, netfees_delta, ext_input,
pow_ge_one, pow_zero_exp, reward_le_netfees, tracker_fraction, savings_zero_rate_window (suffix `_touched`).

`savings_zero_rate_window` (what is paid out of the net fees as savings is justified by rate × time): a specification ghost that
never reads the time stamps — per collector entry the rate in force and the time of the last accepted rate update, per locker the
time it was last settled (created, deposited into, withdrawn from, accrued, swept) — bounds the whole units a call credits to a
locker by `balance · ((1+r)^⌊y⌋·(1+r·frac y) − 1)` (≥ the exact formula, computed in rationals, plus float slack and the carried
fraction) over the interval from max(last rate update, last settlement) to now at the rate in force, and by 0 while the rate is
zero. Suffix `_touched`: the locker was deposited into / withdrawn from while the rate was zero (reproduced defect D45, notes/C18.md).
-/
-- DRIVER: prefix=lk ns=Comdex.Drv.Locker
namespace Comdex.Drv.Locker
open Comdex.Locker Comdex.Line

/-- specification ghost of one locker -/
structure LkGhost where
  settled : Int
  touched : Bool := false   -- deposit / withdraw while the rate was zero, since the last settlement at a running rate
  muted : Bool := false     -- whitelisted for rewards after the fact / a sweep could not pay: no specification until the next settlement
  deriving Inhabited

structure St where
  s : State := {}
  grate : Store (Nat × Nat) (Int × Int) := []   -- (app, asset) ↦ (rate in force, time of the last accepted rate update)
  glk : Store Nat LkGhost := []
  deriving Inhabited

def init : St := {}

/-! ### parsing -/

def parsePair? (t : String) : Option (Nat × Nat) :=
  match t.splitOn ":" with
  | [a, b] => do pure (← a.toNat?, ← b.toNat?)
  | _ => none

def parsePairs (t : String) : Option (List (Nat × Nat)) :=
  if t = "" then some [] else (t.splitOn ";").mapM parsePair?

def parseList {α} (f : String → Option α) (t : String) : Option (List α) :=
  if t = "" then some [] else (t.splitOn ";").mapM f

def parseAcct? (t : String) : Option Acct :=
  if t = "locker" then some .locker
  else if t = "collector" then some .collector
  else if t = "auction" then some .auction
  else if t = "auctionV2" then some .auctionV2
  else if t.startsWith "u" then (t.drop 1).toNat?.map Acct.user
  else none

def parseLocker? (t : String) : Option ((Nat × Locker) × (Int × Int)) :=
  match t.splitOn ":" with
  | [id, o, ap, a, n, r, bh, bt] => do
    pure ((← id.toNat?, { owner := ← o.toNat?, app := ← ap.toNat?, asset := ← a.toNat?, net := ← n.toInt?, ret := ← r.toInt? }),
          (← bh.toInt?, ← bt.toInt?))
  | _ => none

def parseTracker? (t : String) : Option ((Nat × Nat) × Dec) :=
  match t.splitOn ":" with
  | [id, ap, v] => do pure ((← id.toNat?, ← ap.toNat?), ← v.toInt?)
  | _ => none

def parseCL? (t : String) : Option ((Nat × Nat) × CL) :=
  match t.splitOn ":" with
  | [ap, a, lsr, bh, bt, st, dt, lot, dlot] => do
    let c : CL := { lsr := ← lsr.toInt?, bh := ← bh.toInt?, bt := ← bt.toInt?, surplusThr := ← st.toInt?,
                    debtThr := ← dt.toInt?, lot := ← lot.toInt?, debtLot := ← dlot.toInt? }
    pure ((← ap.toNat?, ← a.toNat?), c)
  | _ => none

def parseAMap? (t : String) : Option ((Nat × Nat) × AMap) :=
  match t.splitOn ":" with
  | [ap, a, sp, d, ac] => do
    let m : AMap := { surplus := ← parseBool? sp, debt := ← parseBool? d, active := ← parseBool? ac }
    pure ((← ap.toNat?, ← a.toNat?), m)
  | _ => none

def parseAuc? (t : String) : Option Auc1 :=
  match t.splitOn ":" with
  | [id, ap, a, kd, lot, oth, bd, e1, e2] => do
    let bidder : Option Nat ← if bd = "-" then pure none else (bd.toNat?).map some
    pure { id := ← id.toNat?, app := ← ap.toNat?, asset := ← a.toNat?, surplus := kd = "s", lot := ← lot.toInt?, other := ← oth.toInt?,
           bidder := bidder, endT := ← e1.toInt?, bidEndT := ← e2.toInt? }
  | _ => none

def parseLk? (t : String) : Option ((Nat × Nat) × Lk) :=
  match t.splitOn ":" with
  | [ap, a, d, ids] => do pure ((← ap.toNat?, ← a.toNat?), { deposited := ← d.toInt?, ids := ← parseNatList ids })
  | _ => none

def parseFee? (t : String) : Option ((Nat × Nat) × Int) :=
  match t.splitOn ":" with
  | [ap, a, v] => do pure ((← ap.toNat?, ← a.toNat?), ← v.toInt?)
  | _ => none

def parseBal? (t : String) : Option ((Acct × Nat) × Int) :=
  match t.splitOn ":" with
  | [ac, a, v] => do pure ((← parseAcct? ac, ← a.toNat?), ← v.toInt?)
  | _ => none

def section? (parts : List String) (tag : String) : Option String :=
  parts.findSome? fun p => if p.startsWith (tag ++ "=") then some (p.drop (tag.length + 1)).toString else none

/-- the real projection, with the configuration and the id counter carried over from the model state -/
def parseState (cfg : State) (t : String) : Option State := do
  let parts := t.splitOn "|"
  let ls ← (section? parts "L") >>= parseList parseLocker?
  let ks ← (section? parts "K") >>= parseList parseLk?
  let fs ← (section? parts "F") >>= parseList parseFee?
  let bs ← (section? parts "B") >>= parseList parseBal?
  let ts ← (section? parts "T") >>= parseList parseTracker?
  let cs ← (section? parts "C") >>= parseList parseCL?
  let ws ← (section? parts "W") >>= parsePairs
  let am ← (section? parts "A") >>= parseList parseAMap?
  let es ← (section? parts "E") >>= parseNatList
  let xs ← (section? parts "X") >>= parseNatList
  let gs ← (section? parts "G") >>= parseNatList
  let aucs ← match section? parts "S" with | some t => parseList parseAuc? t | none => some []
  let ctr := match (section? parts "N") >>= (·.toNat?) with | some n => n | none => cfg.lastAuc
  let maxId := ls.foldl (fun m p => max m p.1.1) cfg.lastId
  pure { cfg with bank := bs, lockers := ls.map (·.1), lookup := ks, fees := fs, lastId := maxId,
                  ltime := ls.map (fun p => (p.1.1, p.2)), trackers := ts, collk := cs, rewardWl := ws,
                  amap := am, esmOn := es, killOn := xs, englishOn := gs, auctions := aucs, lastAuc := ctr }

def parseRw? (t : String) : Option Rw :=
  if t = "none" then some .none
  else if t = "fail" then some .fail
  else if t.startsWith "pay:" then (t.drop 4).toInt?.map Rw.pay
  else none

def parseRws (t : String) : Option (List Rw) :=
  if t = "" then some [] else (t.splitOn ",").mapM parseRw?

/-! ### normal form of a state for comparison -/

def acctCode : Acct → Nat × Nat
  | .user n => (0, n)
  | .locker => (1, 0)
  | .collector => (2, 0)
  | .auction => (3, 0)
  | .auctionV2 => (4, 0)

def leNN (a b : Nat × Nat) : Bool := a.1 < b.1 || (a.1 == b.1 && a.2 ≤ b.2)

def compared (a : Acct) : Bool := match a with | .user _ | .locker | .collector => true | _ => false

structure Norm where
  ls : List (Nat × Locker)
  ks : List ((Nat × Nat) × Lk)
  fs : List ((Nat × Nat) × Int)
  bs : List ((Acct × Nat) × Int)
  lt : List (Nat × (Int × Int))
  ts : List ((Nat × Nat) × Dec)
  cs : List ((Nat × Nat) × CL)
  ws : List (Nat × Nat)
  am : List ((Nat × Nat) × AMap)
  es : List Nat
  xs : List Nat
  gs : List Nat
  aucs : List Auc1
  ctr : Nat
  deriving DecidableEq

def dedupKeys {K V} [DecidableEq K] (s : Store K V) : Store K V :=
  s.foldl (fun acc p => if acc.any (fun q => q.1 = p.1) then acc else acc ++ [p]) []

def norm (s : State) : Norm :=
  { ls := (dedupKeys s.lockers).mergeSort (fun a b => a.1 ≤ b.1)
    ks := (dedupKeys s.lookup).mergeSort (fun a b => leNN a.1 b.1)
    fs := (dedupKeys s.fees).mergeSort (fun a b => leNN a.1 b.1)
    bs := ((dedupKeys s.bank).filter (fun p => compared p.1.1 && p.2 != 0)).mergeSort
            (fun a b => leNN (acctCode a.1.1) (acctCode b.1.1) && (acctCode a.1.1 != acctCode b.1.1 || a.1.2 ≤ b.1.2))
    lt := (dedupKeys s.ltime).mergeSort (fun a b => a.1 ≤ b.1)
    ts := ((dedupKeys s.trackers).filter (fun p => p.2 != 0)).mergeSort (fun a b => leNN a.1 b.1)
    cs := (dedupKeys s.collk).mergeSort (fun a b => leNN a.1 b.1)
    ws := s.rewardWl.eraseDups.mergeSort leNN
    am := (dedupKeys s.amap).mergeSort (fun a b => leNN a.1 b.1)
    es := s.esmOn.eraseDups.mergeSort (· ≤ ·)
    xs := s.killOn.eraseDups.mergeSort (· ≤ ·)
    gs := s.englishOn.eraseDups.mergeSort (· ≤ ·)
    aucs := s.auctions.mergeSort (fun a b => a.id ≤ b.id)
    ctr := s.lastAuc }

def showAcct : Acct → String
  | .user n => s!"u{n}" | .locker => "locker" | .collector => "collector" | .auction => "auction" | .auctionV2 => "auctionV2"

def showNorm (n : Norm) : String :=
  "L=" ++ ";".intercalate (n.ls.map fun p => s!"{p.1}:{p.2.owner}:{p.2.app}:{p.2.asset}:{p.2.net}:{p.2.ret}") ++
  "|K=" ++ ";".intercalate (n.ks.map fun p => s!"{p.1.1}:{p.1.2}:{p.2.deposited}:{showNatList p.2.ids}") ++
  "|F=" ++ ";".intercalate (n.fs.map fun p => s!"{p.1.1}:{p.1.2}:{p.2}") ++
  "|B=" ++ ";".intercalate (n.bs.map fun p => s!"{showAcct p.1.1}:{p.1.2}:{p.2}") ++
  "|LT=" ++ ";".intercalate (n.lt.map fun p => s!"{p.1}:{p.2.1}:{p.2.2}") ++
  "|T=" ++ ";".intercalate (n.ts.map fun p => s!"{p.1.1}:{p.1.2}:{p.2}") ++
  "|C=" ++ ";".intercalate (n.cs.map fun p => s!"{p.1.1}:{p.1.2}:{p.2.lsr}:{p.2.bh}:{p.2.bt}:{p.2.surplusThr}:{p.2.debtThr}:{p.2.lot}:{p.2.debtLot}") ++
  "|W=" ++ ";".intercalate (n.ws.map fun p => s!"{p.1}:{p.2}") ++
  "|A=" ++ ";".intercalate (n.am.map fun p => s!"{p.1.1}:{p.1.2}:{p.2.surplus}:{p.2.debt}:{p.2.active}") ++
  "|E=" ++ showNatList n.es ++ "|X=" ++ showNatList n.xs ++ "|G=" ++ showNatList n.gs ++
  "|S=" ++ ";".intercalate (n.aucs.map fun a =>
    s!"{a.id}:{a.app}:{a.asset}:{if a.surplus then "s" else "d"}:{a.lot}:{a.other}:{match a.bidder with | some u => toString u | none => "-"}:{a.endT}:{a.bidEndT}") ++
  s!"|N={n.ctr}"

/-! ### monitors on the real states -/

def extOkB : Op → Bool
  | .deposit _ _ _ _ _ (.pay ρ) | .withdraw _ _ _ _ _ (.pay ρ) | .close _ _ _ _ (.pay ρ) | .rewardCalc _ _ (.pay ρ) => decide (0 ≤ ρ)
  | .lsrChange _ _ rws => rws.all fun r => match r with | .pay ρ => decide (0 ≤ ρ) | _ => true
  | .decreaseNetFee _ _ x => decide (0 ≤ x)
  | .feeClose _ _ i c => decide (0 ≤ i) && decide (0 ≤ c)
  | _ => true

def rwAmount : Rw → Int | .pay ρ => ρ | _ => 0

/-- the per-call law `withdraw_exact` on the real balances before (`p`) and after (`r`) a successful call -/
def monWithdrawExact (p r : State) (obs : Option Int) : Op → Bool
  | .withdraw u _ asset _ amt _ => bal r (.user u) asset == bal p (.user u) asset + amt
  | .close u _ asset id rw =>
    -- full net balance = stored balance + the reward the REAL call credited (observed), not the model's
    match Store.get p.lockers id with
    | some l => bal r (.user u) asset == bal p (.user u) asset + (l.net + obs.getD (rwAmount rw))
    | none => false
  | _ => true

/-- `netfees_delta`: per asset, Σ over apps of the recorded net fees moved by what the custody balance moved -/
def monNetFeesDelta (p r : State) (op : Op) : Bool :=
  match op with
  | .decreaseNetFee .. => true
  | _ => (assetsOf p ++ assetsOf r).all fun a =>
      feeAsset a r.fees - feeAsset a p.fees == bal r .collector a - bal p .collector a

def stateMonitors (p r : State) : List String :=
  (if !monDepositedEqSum r && monDepositedEqSum p then ["deposited_eq_sum"] else []) ++
  (if !monLockerCustody r && monLockerCustody p then ["locker_custody"] else []) ++
  (if !monCollectorCustody r && monCollectorCustody p then ["collector_custody"] else []) ++
  (if !monNetFeesNonneg r && monNetFeesNonneg p then ["netfees_nonneg"] else []) ++
  -- the carried fraction of every reward tracker stays in [0, 1) (hypothesis of `C13.nothing_paid_for_zero_accrual`)
  (if r.trackers.all (fun q => decide (0 ≤ q.2) && decide (q.2 < Dec.one)) then [] else ["tracker_fraction"])

/-! ### one op line -/

/-- `xbits:ybits:pbits` of the `math.Pow` call the harness mirrored, `none` for `-` -/
structure PowInfo where
  x : Nat
  y : Nat
  p : Nat

def parsePow? (t : String) : Option (Option PowInfo) :=
  if t = "-" || t = "" then some none else
  match t.splitOn ":" with
  | [x, y, p] => do pure (some { x := ← x.toNat?, y := ← y.toNat?, p := ← p.toNat? })
  | _ => none

def parsePows (t : String) : Option (List (Option PowInfo)) :=
  if t = "" then some [] else (t.splitOn ",").mapM parsePow?

def powVal (pi : Option PowInfo) : Option Int := pi.bind fun i => Accrual.ofBits i.p

/-- checks on one mirrored `math.Pow` call against the arguments the model derives (`lsr`, `secs`), and the hypotheses the
theorems make about its value -/
def powChecks (seq : String) (lsr : Dec) (secs : Int) (pi : Option PowInfo) : List String :=
  match pi with
  | none => []
  | some i =>
    (if Accrual.ofBits i.x = some (Accrual.xF lsr) then [] else [s!"DIFF\t{seq}\tpow base: model={Accrual.xF lsr} impl bits={i.x}"]) ++
    (if secs < 0 || Accrual.ofBits i.y = some (Accrual.yF secs) then [] else
      [s!"DIFF\t{seq}\tpow exponent: model={Accrual.yF secs} impl bits={i.y}"]) ++
    (match Accrual.ofBits i.p with
     | some p =>
       (if 0 ≤ lsr && 0 ≤ secs && p < (Accrual.U : Int) then [s!"MON\t{seq}\tpow_ge_one"] else []) ++
       (if secs == 0 && p != (Accrual.U : Int) then [s!"MON\t{seq}\tpow_zero_exp"] else [])
     | none => [])

/-- where the model reaches `CalculationOfRewards` for a locker message: (rate, seconds) -/
def accrueArgs (s : State) (ctx : Ctx) (app asset id : Nat) : Option (Dec × Int) :=
  if (app, asset) ∉ s.rewardWl then none
  else match Store.get s.collk (app, asset), Store.get s.lockers id, Store.get s.ltime id with
    | some c, some _, some lt => if c.lsr = 0 then none else some (c.lsr, elapsed ctx c lt)
    | _, _, _ => none

/-- the ledger operation a timed operation amounts to (with the reward the model computed), for the per-call monitors -/
def ledgerOp (s : State) (ctx : Ctx) : OpT → Op
  | .create u a b x => .create u a b x
  | .deposit u a b i x pw => .deposit u a b i x (accrue s ctx a b i pw).1
  | .withdraw u a b i x pw => .withdraw u a b i x (accrue s ctx a b i pw).1
  | .close u a b i pw => .close u a b i (accrue s ctx a b i pw).1
  | .rewardCalc a i pw =>
    match Store.get s.lockers i with
    | some l => .rewardCalc a i (accrue s ctx a l.asset i pw).1
    | none => .rewardCalc a i .none
  | .lsrUpdate a b _ _ => .lsrChange a b []
  | .wlReward a b => .whitelist a b
  | .plain op => op

def rewardKey (s : State) : OpT → Option (Nat × Nat × Nat)
  | .deposit _ a b i _ _ | .withdraw _ a b i _ _ | .close _ a b i _ => some (a, b, i)
  | .rewardCalc a i _ => (Store.get s.lockers i).map fun l => (a, l.asset, i)
  | _ => none

def opPow : OpT → Option (Option Int)
  | .deposit _ _ _ _ _ pw | .withdraw _ _ _ _ _ pw | .close _ _ _ _ pw | .rewardCalc _ _ pw => some pw
  | _ => none


/-- rational upper bound of `n·((1+r)^y − 1)` for `y = secs / year`: `(1+r)^y ≤ (1+r)^⌊y⌋·(1 + r·frac y)`, plus the float slack of
`CalculationOfRewards` (relative 2⁻⁵⁰ of `n·(1+r)^y`) and one unit for the carried tracker fraction -/
def savingsBound (n rate secs : Int) : Rat :=
  if secs ≤ 0 || n ≤ 0 || rate ≤ 0 then 1 else
  let k : Nat := (secs / 31557600).toNat
  let f : Rat := (secs : Rat) / 31557600 - (k : Rat)
  let r : Rat := (rate : Rat) / ((10 ^ 18 : Nat) : Rat)
  let g : Rat := (1 + r) ^ k * (1 + r * f)
  (n : Rat) * (g - 1) + (n : Rat) * g / ((2 ^ 50 : Nat) : Rat) + 2

/-- whole units the call credited to each locker (REAL records before / after; for a close: the observed reward) -/
def creditedUnits (p r : State) (opT : OpT) (obs : Option Int) : List (Nat × Int) :=
  p.lockers.filterMap fun (id, l) =>
    match Store.get r.lockers id with
    | some l' => if l'.ret > l.ret then some (id, l'.ret - l.ret) else none
    | none =>
      match opT with
      | .close _ _ _ i _ => if i = id then obs.bind fun x => if x > 0 then some (id, x) else none else none
      | _ => none

def ghostMon (st : St) (p : State) (now : Int) (cr : List (Nat × Int)) : List String :=
  cr.filterMap fun (id, d) =>
    match Store.get p.lockers id, Store.get st.glk id with
    | some l, some gl =>
      if gl.muted then none else
      let key := (l.app, l.asset)
      let (rate, seg) := (Store.get st.grate key).getD (0, 0)
      let start := if seg ≤ gl.settled then gl.settled else seg
      let bound : Rat := if key ∈ p.rewardWl && rate > 0 then savingsBound l.net rate (now - start) else 0
      if (d : Rat) > bound then some ("savings_zero_rate_window" ++ (if gl.touched then "_touched" else "")) else none
    | _, _ => none

/-- the ghost after an accepted call (`m` = the model's result, used only to see whether a sweep reached a locker) -/
def ghostAfter (st : St) (p r : State) (m : Option State) (now : Int) (opT : OpT) : Store (Nat × Nat) (Int × Int) × Store Nat LkGhost :=
  let running (k : Nat × Nat) : Bool := k ∈ p.rewardWl && ((Store.get st.grate k).getD (0, 0)).1 > 0
  let settle (g : Store Nat LkGhost) (id : Nat) (k : Nat × Nat) (touch : Bool) : Store Nat LkGhost :=
    let old := (Store.get g id).getD { settled := now }
    if running k then Store.put g id { settled := now }
    else if touch then Store.put g id { old with settled := now, touched := true }
    else g
  match opT with
  | .create .. =>
    (st.grate, r.lockers.foldl (fun g q => if (Store.get p.lockers q.1).isNone then Store.put g q.1 { settled := now } else g) st.glk)
  | .deposit _ a b i _ _ | .withdraw _ a b i _ _ => (st.grate, settle st.glk i (a, b) true)
  | .rewardCalc a i _ =>
    (match Store.get p.lockers i with
     | some l => (st.grate, settle st.glk i (a, l.asset) false)
     | none => (st.grate, st.glk))
  | .close _ _ _ i _ => (st.grate, Store.del st.glk i)
  | .lsrUpdate a b c _ =>
    let (oldRate, oldSeg) := (Store.get st.grate (a, b)).getD (0, 0)
    if (a, b) ∈ p.rewardWl then
      let ids := ((Store.get p.lookup (a, b)).map (·.ids)).getD []
      let g := if oldRate = 0 then st.glk else
        ids.foldl (fun g id =>
          let reached := match m.bind (fun s => Store.get s.ltime id) with | some lt => lt.2 == now | none => false
          let old := (Store.get g id).getD { settled := now }
          if reached then Store.put g id { old with settled := now, touched := false } else Store.put g id { old with muted := true }) st.glk
      (Store.put st.grate (a, b) (c.lsr, now), g)
    else (Store.put st.grate (a, b) (c.lsr, oldSeg), st.glk)
  | .wlReward a b =>
    (st.grate, p.lockers.foldl (fun g q => if q.2.app = a && q.2.asset = b then
        Store.put g q.1 { ((Store.get g q.1).getD { settled := now }) with muted := true } else g) st.glk)
  | .plain _ => (st.grate, st.glk)

def applyOp (st : St) (seq : String) (ctx : Ctx) (opT : OpT) (pis : List (Option PowInfo)) (obs : Option String)
    (outcome : String) (stateStr : String) : St × List String :=
  match parseState st.s stateStr with
  | none => (st, [s!"BAD\t{seq}\tcannot parse state {stateStr}"])
  | some r =>
    let p := st.s
    let ok := outcome == "ok"
    let op := ledgerOp p ctx opT
    let ext := if extOkB op then [] else [s!"MON\t{seq}\text_input"]
    -- the mirrored math.Pow calls
    let pows := match rewardKey p opT with
      | some (a, b, i) =>
        (match accrueArgs p ctx a b i with
         | some (lsr, secs) => powChecks seq lsr secs (pis.headD none)
         | none => [])
      | none =>
        match opT with
        | .lsrUpdate a b _ _ =>
          (match Store.get p.collk (a, b), Store.get p.lookup (a, b) with
           | some old, some lk =>
             (lk.ids.zip pis).flatMap fun (i, pi) =>
               match Store.get p.ltime i with
               | some lt => powChecks seq old.lsr (ctx.now - (if lt.1 = 0 then old.bt else lt.2)) pi
               | none => []
           | _, _ => [])
        | _ => []
    let m := stepT p ctx opT
    -- the second-generation closes are also accepted in their repaired form (notes/C13.md): a repaired tree checks clean
    let m := match opT with
      | .plain o =>
        (match stepRepaired p o with
         | some r' => if ok && norm r' == norm r && (m.map norm) != some (norm r) then some r' else m
         | none => m)
      | _ => m
    -- deposit / withdraw at rate zero are also accepted in their repaired form (D45, notes/C18.md: the locker keeps the flag
    -- `BlockHeight = 0`)
    let m := match opT with
      | .deposit _ a b i _ _ | .withdraw _ a b i _ _ =>
        (match m, Store.get p.collk (a, b) with
         | some s1, some c =>
           if c.lsr = 0 then
             let s2 := { s1 with ltime := Store.put s1.ltime i (0, ctx.now) }
             if ok && norm s2 == norm r && norm s1 != norm r then some s2 else m
           else m
         | _, _ => m)
      | _ => m
    let dOutcome := if m.isSome != ok then [s!"DIFF\t{seq}\toutcome model={if m.isSome then "ok" else "rejected"} impl={outcome}"] else []
    let expect := if ok then m.getD p else p     -- a rejected message must leave the books untouched
    let dState := if norm expect == norm r then [] else
      [s!"DIFF\t{seq}\tstate model={showNorm (norm expect)}\timpl={showNorm (norm r)}"]
    -- the reward the model computed against what the real call then paid
    let paid : Option Int := match op with
      | .deposit _ _ _ _ _ rw | .withdraw _ _ _ _ _ rw | .close _ _ _ _ rw | .rewardCalc _ _ rw => some (rwAmount rw)
      | _ => none
    let dRw := match obs, ok, paid with
      | some o, true, some x =>
        (match o.toInt? with
         | some y => if x == y then [] else [s!"DIFF\t{seq}\treward model={x} observed={y}"]
         | none => [])
      | _, _, _ => []
    let mRw := match ok, paid, rewardKey p opT with
      | true, some x, some (a, b, _) => if x ≤ fee p (a, b) then [] else [s!"MON\t{seq}\treward_le_netfees"]
      | _, _, _ => []
    let gmon := if ok then (ghostMon st p ctx.now (creditedUnits p r opT (obs.bind (·.toInt?)))).map fun n => s!"MON\t{seq}\t{n}" else []
    let (grate', glk') := if ok then ghostAfter st p r m ctx.now opT else (st.grate, st.glk)
    let mons := gmon ++
      (if ok && !monWithdrawExact p r (obs.bind (·.toInt?)) op then [s!"MON\t{seq}\twithdraw_exact"] else []) ++
      (if ok && !monNetFeesDelta p r op then [s!"MON\t{seq}\tnetfees_delta"] else []) ++
      (stateMonitors p r).map fun n => s!"MON\t{seq}\t{n}"
    -- accounts outside the projection (auction escrows) keep the balance the model computed
    let carried := (dedupKeys expect.bank).filter fun q => !compared q.1.1
    ({ st with s := { r with bank := r.bank ++ carried }, grate := grate', glk := glk' }, ext ++ pows ++ dOutcome ++ dState ++ dRw ++ mRw ++ mons)

def nat3 (a b c : String) : Option (Nat × Nat × Nat) := do pure (← a.toNat?, ← b.toNat?, ← c.toNat?)
def ctx? (a b : String) : Option Ctx := do pure { now := ← a.toInt?, height := ← b.toInt? }
def ctx0 : Ctx := { now := 0, height := 0 }

def handle (st : St) (seq : String) (f : List String) : St × List String :=
  let bad := (st, [s!"BAD\t{seq}\tcannot parse {"\t".intercalate f}"])
  let plain (op : Op) (o ss : String) := applyOp st seq ctx0 (.plain op) [] none o ss
  match f with
  | "lk.begin" :: a :: ap :: ck :: rest =>
    match field? [a] "assets" >>= parseNatList, field? [ap] "apps" >>= parseNatList, field? [ck] "collk" >>= parseList parseCL? with
    | some as, some aps, some cks =>
      let geti (key : String) : Int := ((field? rest key) >>= (·.toInt?)).getD 0
      ({ s := { assets := as, apps := aps, collk := cks, aucDur := geti "adur", bidDur := geti "bdur", bidFactor := geti "bf" },
         grate := cks.map fun q => (q.1, (q.2.lsr, q.2.bt)), glk := [] }, [])
    | _, _, _ => bad
  | ["lk.begin1", now, ks, o, ss] =>
    match now.toInt?, parsePairs ks with
    | some now, some ks => plain (.begin1 now ks) o ss
    | _, _ => bad
  | ["lk.sbid", ap, id, u, x, now, o, ss] =>
    match nat3 ap id u, x.toInt?, now.toInt? with
    | some (ap, id, u), some x, some now => plain (.surplusBid ap id u x now) o ss
    | _, _, _ => bad
  | ["lk.dbid", ap, id, u, b, e, now, o, ss] =>
    match nat3 ap id u, b.toInt?, e.toInt?, now.toInt? with
    | some (ap, id, u), some b, some e, some now => plain (.debtBid ap id u b e now) o ss
    | _, _, _, _ => bad
  | ["lk.sync", ss] =>
    match parseState st.s ss with
    | none => bad
    | some r =>
      let carried := (dedupKeys st.s.bank).filter fun q => !compared q.1.1
      ({ st with s := { r with bank := r.bank ++ carried } }, (stateMonitors st.s r).map fun n => s!"MON\t{seq}\t{n}")
  | ["lk.config", "amap", ap, a, sp, d, ac, o, ss] =>
    match ap.toNat?, a.toNat?, parseBool? sp, parseBool? d, parseBool? ac with
    | some ap, some a, some sp, some d, some ac => plain (.config (.amap ap a { surplus := sp, debt := d, active := ac })) o ss
    | _, _, _, _, _ => bad
  | ["lk.config", kind, ap, on, o, ss] =>
    match ap.toNat?, parseBool? on with
    | some ap, some on =>
      if kind = "esm" then plain (.config (.esm ap on)) o ss
      else if kind = "kill" then plain (.config (.kill ap on)) o ss
      else if kind = "english" then plain (.config (.english ap on)) o ss
      else bad
    | _, _ => bad
  | ["lk.activate", g, ks, o, ss] =>
    match g.toNat?, parsePairs ks with
    | some g, some ks => plain (.activate (g == 2) ks) o ss
    | _, _ => bad
  | ["lk.fund", u, a, x, o, ss] =>
    match u.toNat?, a.toNat?, x.toInt? with
    | some u, some a, some x => plain (.fund u a x) o ss
    | _, _, _ => bad
  | ["lk.whitelist", ap, a, o, ss] =>
    match ap.toNat?, a.toNat? with
    | some ap, some a => plain (.whitelist ap a) o ss
    | _, _ => bad
  | ["lk.wlreward", ap, a, o, ss] =>
    match ap.toNat?, a.toNat? with
    | some ap, some a => applyOp st seq ctx0 (.wlReward ap a) [] none o ss
    | _, _ => bad
  | ["lk.create", t1, t2, u, ap, a, x, o, ss] =>
    match ctx? t1 t2, nat3 u ap a, x.toInt? with
    | some c, some (u, ap, a), some x => applyOp st seq c (.create u ap a x) [] none o ss
    | _, _, _ => bad
  | ["lk.deposit", t1, t2, u, ap, a, id, x, pw, obs, o, ss] =>
    match ctx? t1 t2, nat3 u ap a, id.toNat?, x.toInt?, parsePow? pw with
    | some c, some (u, ap, a), some id, some x, some pi => applyOp st seq c (.deposit u ap a id x (powVal pi)) [pi] (some obs) o ss
    | _, _, _, _, _ => bad
  | ["lk.withdraw", t1, t2, u, ap, a, id, x, pw, obs, o, ss] =>
    match ctx? t1 t2, nat3 u ap a, id.toNat?, x.toInt?, parsePow? pw with
    | some c, some (u, ap, a), some id, some x, some pi => applyOp st seq c (.withdraw u ap a id x (powVal pi)) [pi] (some obs) o ss
    | _, _, _, _, _ => bad
  | ["lk.close", t1, t2, u, ap, a, id, pw, obs, o, ss] =>
    match ctx? t1 t2, nat3 u ap a, id.toNat?, parsePow? pw with
    | some c, some (u, ap, a), some id, some pi => applyOp st seq c (.close u ap a id (powVal pi)) [pi] (some obs) o ss
    | _, _, _, _ => bad
  | ["lk.rewardcalc", t1, t2, ap, id, pw, obs, o, ss] =>
    match ctx? t1 t2, ap.toNat?, id.toNat?, parsePow? pw with
    | some c, some ap, some id, some pi => applyOp st seq c (.rewardCalc ap id (powVal pi)) [pi] (some obs) o ss
    | _, _, _, _ => bad
  | ["lk.lsr", t1, t2, ap, a, lsr, sthr, dthr, lot, dlot, pws, o, ss] =>
    match ctx? t1 t2, ap.toNat?, a.toNat?, parseIntList (",".intercalate [lsr, sthr, dthr, lot, dlot]), parsePows pws with
    | some c, some ap, some a, some [lsr, sthr, dthr, lot, dlot], some pis =>
      applyOp st seq c (.lsrUpdate ap a { lsr := lsr, surplusThr := sthr, debtThr := dthr, lot := lot, debtLot := dlot } (pis.map powVal))
        pis none o ss
    | _, _, _, _, _ => bad
  | ["lk.feevault", ap, a, x, o, ss] =>
    match ap.toNat?, a.toNat?, x.toInt? with
    | some ap, some a, some x => plain (.feeVault ap a x) o ss
    | _, _, _ => bad
  | ["lk.feeclose", ap, a, i, c, o, ss] =>
    match ap.toNat?, a.toNat?, i.toInt?, c.toInt? with
    | some ap, some a, some i, some c => plain (.feeClose ap a i c) o ss
    | _, _, _, _ => bad
  | ["lk.penalty", ap, a, x, o, ss] =>
    match ap.toNat?, a.toNat?, x.toInt? with
    | some ap, some a, some x => plain (.penalty ap a x) o ss
    | _, _, _ => bad
  | ["lk.v2penalty", ap, c, d, x, o, ss] =>
    match nat3 ap c d, x.toInt? with
    | some (ap, c, d), some x => plain (.v2Penalty ap c d x) o ss
    | _, _ => bad
  | ["lk.aucreturn", ap, a, x, o, ss] =>
    match ap.toNat?, a.toNat?, x.toInt? with
    | some ap, some a, some x => plain (.auctionReturn ap a x) o ss
    | _, _, _ => bad
  | ["lk.decrease", ap, a, x, o, ss] =>
    match ap.toNat?, a.toNat?, x.toInt? with
    | some ap, some a, some x => plain (.decreaseNetFee ap a x) o ss
    | _, _, _ => bad
  | ["lk.getamount", ap, a, x, o, ss] =>
    match ap.toNat?, a.toNat?, x.toInt? with
    | some ap, some a, some x => plain (.getAmount ap a x) o ss
    | _, _, _ => bad
  | ["lk.surplusfund", ap, a, u, x, o, ss] =>
    match nat3 ap a u, x.toInt? with
    | some (ap, a, u), some x => plain (.surplusFund ap a u x) o ss
    | _, _ => bad
  | ["lk.v2sclose", ap, a, u, x, o, ss] =>
    match nat3 ap a u, x.toInt? with
    | some (ap, a, u), some x => plain (.v2SurplusClose ap a u x) o ss
    | _, _ => bad
  | ["lk.v2dclose", ap, a, c, d, o, ss] =>
    match ap.toNat?, a.toNat?, c.toInt?, d.toInt? with
    | some ap, some a, some c, some d => plain (.v2DebtClose ap a c d) o ss
    | _, _, _, _ => bad
  | _ => (st, [s!"BAD\t{seq}\tunknown lk line"])

end Comdex.Drv.Locker
