import Comdex.Base.Line
import Comdex.Model.Accrual
import Comdex.Model.LendRates
/-! Driver plug-ins for C18 (accrual laws). Two prefixes.

`acc.*` — floating-point family (x/rewards `CalculationOfRewards`, vault stability fee, locker savings)
  acc.begin
  acc.calc   amount lsrRaw secs xbits ybits powbits  outcome resRaw|-
  acc.track  kind(vault|locker) amount rateRaw now height posBTime cfgBTime xbits ybits powbits trBefore|none  outcome trAfter|none paid ctxHeight heightAfter bTimeAfter
  acc.hyp    name count failures            (statistics of the Go-side scan of the `FloatOps` hypotheses; informational)
`lr.*` — fixed-point family (x/lend)
  lr.begin
  lr.rates   uOpt base s1 s2 sbase ss1 ss2 rf bal bor   outcome u bv bs lend
  lr.lend    amount rate gi now prev                      outcome reward igc
  lr.borrow  amount rate rrate gi rgi now prev            outcome i igc ri rigc
  lr.stable  amount rate now prev                         outcome i
  lr.track   trBefore x  paid trAfter                     (real lend-reward tracker step)
  lr.routes  stable amount apr rr stableRate gi rgi now prev  outcomeA dA outcomeB dB   (one borrow accrued from the same state by
                                                          IterateBorrow (A) and CalculateBorrowInterestForLiquidation (B))
  lr.rebalance stableRate poolStableRate utilisation   outcome newStableRate     (real ReBalanceStableRates)
  lr.stamp   now lastInteractionAfter indexAfter indexReturned again   (real MsgCalculateLendRewards: the handler stores (index, now);
                                                          again = real reward of a second calculation in the same block)
outcome ∈ ok err panic. A `*.begin` line starts a new group; monitors relate the lines of one group pairwise
(monotonicity) and triple-wise (two consecutive intervals against the combined interval), on the REAL outputs.
-/
namespace Comdex.Drv
open Comdex Comdex.Line

/-- one real evaluation kept for the relational monitors -/
structure Ev where
  fam : String
  seq : String
  n : Int      -- principal
  r : Int      -- rate (raw)
  s : Int      -- seconds
  gi : Int     -- global index (fixed-point family), 0 otherwise
  out : Int    -- real result (raw)
  pw : Int     -- pow value in units of 2^-1074 (float family), 0 otherwise
  deriving Inhabited

def le3 (a b : Ev) : Bool := decide (a.n ≤ b.n) && decide (a.r ≤ b.r) && decide (a.s ≤ b.s)

/-- name of the monotonicity law relating `a ≤ b` (componentwise) -/
def monoName (a b : Ev) : String :=
  if a.s != b.s then "mono_time" else if a.n != b.n then "mono_principal" else "mono_rate"

/-- monotonicity between a new evaluation and the earlier ones of the group (same family, same index) -/
def monoMon (es : List Ev) (e : Ev) : List String :=
  es.filterMap fun o =>
    if o.fam != e.fam || o.gi != e.gi then none
    else if le3 o e && decide (o.out > e.out) then
      some (monoName o e ++ (if decide (o.pw > e.pw) then "_pow" else ""))
    else if le3 e o && decide (e.out > o.out) then
      some (monoName e o ++ (if decide (e.pw > o.pw) then "_pow" else ""))
    else none

namespace Accrual
open Comdex.Accrual

/-- reciprocal of the quasi-multiplicativity slack of `math.Pow` used by the monitor (ε = 2^-40) -/
def monE : Nat := 2 ^ 40

def subaddMon (es : List Ev) (e : Ev) : List String :=
  let all := e :: es
  -- triples (x, y, z) with the new evaluation among them, same principal and rate, x.s + y.s = z.s
  let trip := all.flatMap fun x => all.flatMap fun y => all.filterMap fun z =>
    if x.fam == "calc" && y.fam == "calc" && z.fam == "calc" &&
       (x.seq == e.seq || y.seq == e.seq || z.seq == e.seq) &&
       x.n == y.n && y.n == z.n && x.r == y.r && y.r == z.r && x.s + y.s == z.s
    then some (x, y, z) else none
  trip.filterMap fun (x, y, z) =>
    if ((x.out + y.out : Int) : Rat) ≤ (z.out : Rat) + subaddErr monE (aF z.n) z.pw then none else some "subadditive"

structure St where
  evs : List Ev := []
  lastTr : Option Int := none

def init : St := {}

def showOut : Out → String
  | .ok d => s!"ok\t{d}"
  | .err => "err\t-"
  | .panic => "panic\t-"

def parseBits (s : String) : Option (Option Int) := (parseNat? s).map ofBits

def mons (seq : String) (l : List String) : List String := l.map fun m => s!"MON\t{seq}\t{m}"

def handleCalc (st : St) (seq : String) (amount lsr secs : Int) (xb yb pb : Nat) (o r : String) : St × List String :=
  let pw := ofBits pb
  let chk :=
    (if ofBits xb = some (xF lsr) then [] else [s!"DIFF\t{seq}\tpow base: model={xF lsr}\timpl bits={xb}"]) ++
    (if secs < 0 || ofBits yb = some (yF secs) then [] else [s!"DIFF\t{seq}\tpow exponent: model={yF secs}\timpl bits={yb}"])
  let m := showOut (calcRewards amount lsr secs pw)
  let d := if m = s!"{o}\t{r}" then [] else [s!"DIFF\t{seq}\tcalc {amount} {lsr} {secs}: model={m}\timpl={o} {r}"]
  -- monitors on the REAL result, for admissible inputs
  match o, parseInt? r, pw with
  | "ok", some res, some p =>
    if amount < 0 || lsr < 0 || secs < 0 then (st, chk ++ d) else
    let e : Ev := { fam := "calc", seq := seq, n := amount, r := lsr, s := secs, gi := 0, out := res, pw := p }
    let m1 := if res < 0 then ["nonneg"] else []
    let m2 := if secs = 0 && res != 0 then ["zero_time"] else []
    let m3 := monoMon st.evs e
    let m4 := subaddMon st.evs e
    ({ st with evs := e :: st.evs }, chk ++ d ++ mons seq (m1 ++ m2 ++ m3 ++ m4))
  | _, _, _ => (st, chk ++ d)

def parseTr (s : String) : Option (Option Int) := if s = "none" then some none else (parseInt? s).map some

def handleTrack (st : St) (seq : String) (amount rate now height posBT cfgBT : Int) (pb : Nat)
    (trB : Option Int) (o ta paid : String) : St × List String :=
  let bt := if height = 0 then cfgBT else posBT
  let secs := now - bt
  let cont := match st.lastTr, trB with
    | some a, some b => if a = b then [] else [s!"DIFF\t{seq}\ttracker not continuous: previous after={a} now before={b}"]
    | _, _ => []
  -- zero rate: the function returns before touching anything
  if rate = 0 then
    let same := (o = "ok") && (parseTr ta == some trB) && (paid = "0")
    (st, cont ++ (if same then [] else [s!"DIFF\t{seq}\tzero rate must be a no-op\timpl={o} {ta} {paid}"]))
  else
  match calcRewards amount rate secs (ofBits pb) with
  | .ok x =>
    let (mp, mt) := trackerStep (trB.getD 0) x
    let m := s!"ok\t{mt}\t{mp}"
    let d := if m = s!"{o}\t{ta}\t{paid}" then [] else [s!"DIFF\t{seq}\ttrack: model={m}\timpl={o} {ta} {paid}"]
    match o, parseInt? ta, parseInt? paid with
    | "ok", some ta', some paid' =>
      let m1 := if ta' < 0 then ["tracker_nonneg"] else []
      let m2 := if (trB.getD 0) ≥ 0 && (trB.getD 0) < Dec.one && x ≥ 0 && !carryOk (trB.getD 0) x paid' ta' then ["tracker_carry"] else []
      ({ st with lastTr := some ta' }, cont ++ d ++ mons seq (m1 ++ m2))
    | _, _, _ => (st, cont ++ d)
  | .err =>
    let d := if o = "err" then [] else [s!"DIFF\t{seq}\ttrack: model=err\timpl={o} {ta} {paid}"]
    (st, cont ++ d)
  | .panic =>
    let d := if o = "panic" then [] else [s!"DIFF\t{seq}\ttrack: model=panic\timpl={o} {ta} {paid}"]
    (st, cont ++ d)

-- DRIVER: prefix=acc ns=Comdex.Drv.Accrual
def handle (st : St) (seq : String) (f : List String) : St × List String :=
  match f with
  | ["acc.begin"] => ({}, [])
  | ["acc.hyp", _, _, _] => (st, [])
  | ["acc.calc", a, l, s, xb, yb, pb, o, r] =>
    match parseInt? a, parseInt? l, parseInt? s, parseNat? xb, parseNat? yb, parseNat? pb with
    | some a, some l, some s, some xb, some yb, some pb => handleCalc st seq a l s xb yb pb o r
    | _, _, _, _, _, _ => (st, [s!"BAD\t{seq}\tacc.calc args"])
  | ["acc.track", _kind, a, rt, now, h, pbt, cbt, _xb, _yb, pb, trb, o, ta, paid, ch, ha, bta] =>
    match parseInt? a, parseInt? rt, parseInt? now, parseInt? h, parseInt? pbt, parseInt? cbt, parseNat? pb, parseTr trb with
    | some a, some rt, some now, some h, some pbt, some cbt, some pb, some trb =>
      let (st', out) := handleTrack st seq a rt now h pbt cbt pb trb o ta paid
      -- the stamp written on the position: (ctx height, now) after an accrual, untouched when the rate is zero or on error
      let want := if o = "ok" && rt != 0 then s!"{ch} {now}" else s!"{h} {pbt}"
      let d := if want = s!"{ha} {bta}" then [] else [s!"DIFF\t{seq}\tstamp after: model={want}\timpl={ha} {bta}"]
      (st', out ++ d)
    | _, _, _, _, _, _, _, _ => (st, [s!"BAD\t{seq}\tacc.track args"])
  | _ => (st, [s!"BAD\t{seq}\tunknown acc line"])

end Accrual

namespace LendRatesDrv
open Comdex.LendRates

/-- one real evaluation of the rate functions -/
structure RateEv where
  p : Params
  u : Int
  bv : Int
  bs : Int

structure St where
  evs : List Ev := []
  rates : List RateEv := []
  lastTr : Option Int := none

def init : St := {}

def showOut : Out → String
  | .ok vs => "ok\t" ++ "\t".intercalate (vs.map toString)
  | .err => "err"
  | .panic => "panic"

def mons (seq : String) (l : List String) : List String := l.map fun m => s!"MON\t{seq}\t{m}"

/-- left-continuity bound at the kink (theorem `C18.rate_continuous_at_kink`): for `u < uOpt`,
`0 ≤ f uOpt − f u` and `(f uOpt − f u − 1)·uOpt·P ≤ s1·(uOpt − u)·P + s1·uOpt` -/
def kinkOk (uOpt s1 u atKink below : Int) : Bool :=
  let gap := atKink - below
  decide (0 ≤ gap) && decide ((gap - 1) * uOpt * Dec.P ≤ s1 * (uOpt - u) * Dec.P + s1 * uOpt)

def rateMon (rs : List RateEv) (e : RateEv) : List String :=
  let p := e.p
  let m1 := if e.u = 0 && (e.bv != p.base || e.bs != p.stableBase) then ["rate_base"] else []
  let m2 := if e.u = p.uOpt && (e.bv != p.base + p.slope1 || e.bs != p.stableBase + p.stableSlope1) then ["rate_kink"] else []
  let rel := rs.flatMap fun o =>
    if o.p != p then [] else
    let (lo, hi) := if o.u ≤ e.u then (o, e) else (e, o)
    (if lo.bv > hi.bv || lo.bs > hi.bs then ["rate_mono_util"] else []) ++
    (if hi.u = p.uOpt && lo.u < p.uOpt &&
        (!kinkOk p.uOpt p.slope1 lo.u hi.bv lo.bv || !kinkOk p.uOpt p.stableSlope1 lo.u hi.bs lo.bs)
     then ["rate_kink"] else [])
  m1 ++ m2 ++ rel

def subaddMon (es : List Ev) (e : Ev) : List String :=
  let all := e :: es
  let trip := all.flatMap fun x => all.flatMap fun y => all.filterMap fun z =>
    if x.fam == e.fam && y.fam == e.fam && z.fam == e.fam &&
       (x.seq == e.seq || y.seq == e.seq || z.seq == e.seq) &&
       x.n == y.n && y.n == z.n && x.r == y.r && y.r == z.r && x.s + y.s == z.s
    then some (x, y, z) else none
  trip.filterMap fun (x, y, z) =>
    let slack : Int := if e.fam == "stable" then 1 else 4 * z.n
    if x.out + y.out ≤ z.out + slack then none else some "subadditive"

/-- monitors for one real accrual result with admissible inputs -/
def accrualMon (st : St) (e : Ev) : St × List String :=
  let m1 := if e.out < 0 then ["nonneg"] else []
  let m2 := if e.s = 0 && e.out != 0 then ["zero_time"] else []
  let m3 := monoMon st.evs e
  let m4 := subaddMon st.evs e
  ({ st with evs := e :: st.evs }, mons e.seq (m1 ++ m2 ++ m3 ++ m4))

def ints (l : List String) : Option (List Int) := l.mapM parseInt?

-- DRIVER: prefix=lr ns=Comdex.Drv.LendRatesDrv
def handle (st : St) (seq : String) (f : List String) : St × List String :=
  match f with
  | ["lr.begin"] => ({}, [])
  | "lr.rates" :: rest =>
    match rest with
    | [uo, b, s1, s2, sb, ss1, ss2, rf, bal, bor, o, u, bv, bs, ln] =>
      match ints [uo, b, s1, s2, sb, ss1, ss2, rf, bal, bor] with
      | some [uo, b, s1, s2, sb, ss1, ss2, rf, bal, bor] =>
        let p : Params := ⟨uo, b, s1, s2, sb, ss1, ss2, rf⟩
        let model : Option (List Int) := do
          let mu ← utilisation bal bor
          let v ← borrowRate p false mu
          let s ← borrowRate p true mu
          let l ← lendRate p mu
          pure [mu, v, s, l]
        let m := match model with | none => "panic" | some vs => "ok\t" ++ "\t".intercalate (vs.map toString)
        let impl := if o = "ok" then s!"ok\t{u}\t{bv}\t{bs}\t{ln}" else o
        let d := if m = impl then [] else [s!"DIFF\t{seq}\trates: model={m}\timpl={impl}"]
        match o, ints [u, bv, bs, ln] with
        | "ok", some [u, bv, bs, ln] =>
          if !admissible p || bal < 0 || bor < 0 then (st, d) else
          -- the monitors speak about the TRUE utilisation borrowed/(available+borrowed) of the real inputs, not
          -- about the number the code reports for it
          let e : RateEv := ⟨p, (utilisation bal bor).getD u, bv, bs⟩
          let m0 := (if ln > bv then ["lend_le_borrow"] else []) ++ (if bv < 0 || bs < 0 || ln < 0 then ["nonneg"] else [])
          ({ st with rates := e :: st.rates }, d ++ mons seq (m0 ++ rateMon st.rates e))
        | _, _ => (st, d)
      | _ => (st, [s!"BAD\t{seq}\tlr.rates args"])
    | _ => (st, [s!"BAD\t{seq}\tlr.rates arity"])
  | ["lr.lend", a, r, gi, now, prev, o, rw, igc] =>
    match ints [a, r, gi, now, prev] with
    | some [a, r, gi, now, prev] =>
      let m := showOut (lendReward a r gi now prev)
      let impl := if o = "ok" then s!"ok\t{rw}\t{igc}" else o
      let d := if m = impl then [] else [s!"DIFF\t{seq}\tlend: model={m}\timpl={impl}"]
      match o, parseInt? rw with
      | "ok", some rw =>
        if a < 0 || r < 0 || gi < Dec.one || elapsed now prev < 0 then (st, d) else
        let (st', ms) := accrualMon st { fam := "lend", seq := seq, n := a, r := r, s := elapsed now prev, gi := gi, out := rw, pw := 0 }
        (st', d ++ ms)
      | _, _ => (st, d)
    | _ => (st, [s!"BAD\t{seq}\tlr.lend args"])
  | ["lr.borrow", a, r, rr, gi, rgi, now, prev, o, i, igc, ri, rigc] =>
    match ints [a, r, rr, gi, rgi, now, prev] with
    | some [a, r, rr, gi, rgi, now, prev] =>
      let m := showOut (borrowInterest a r rr gi rgi now prev)
      let impl := if o = "ok" then s!"ok\t{i}\t{igc}\t{ri}\t{rigc}" else o
      let d := if m = impl then [] else [s!"DIFF\t{seq}\tborrow: model={m}\timpl={impl}"]
      match o, parseInt? i, parseInt? ri with
      | "ok", some i, some ri =>
        if a < 0 || r < 0 || rr < 0 || gi < Dec.one || rgi < Dec.one || elapsed now prev < 0 then (st, d) else
        let s := elapsed now prev
        let (st1, ms1) := accrualMon st { fam := "borrow", seq := seq, n := a, r := r, s := s, gi := gi, out := i, pw := 0 }
        let (st2, ms2) := accrualMon st1 { fam := "reserve", seq := seq, n := a, r := rr, s := s, gi := rgi, out := ri, pw := 0 }
        (st2, d ++ ms1 ++ ms2)
      | _, _, _ => (st, d)
    | _ => (st, [s!"BAD\t{seq}\tlr.borrow args"])
  | ["lr.stable", a, r, now, prev, o, i] =>
    match ints [a, r, now, prev] with
    | some [a, r, now, prev] =>
      let m := showOut (stableBorrowInterest a r now prev)
      let impl := if o = "ok" then s!"ok\t{i}" else o
      let d := if m = impl then [] else [s!"DIFF\t{seq}\tstable: model={m}\timpl={impl}"]
      match o, parseInt? i with
      | "ok", some i =>
        if a < 0 || r < 0 || elapsed now prev < 0 then (st, d) else
        let (st', ms) := accrualMon st { fam := "stable", seq := seq, n := a, r := r, s := elapsed now prev, gi := 0, out := i, pw := 0 }
        (st', d ++ ms)
      | _, _ => (st, d)
    | _ => (st, [s!"BAD\t{seq}\tlr.stable args"])
  | ["lr.track", tb, x, paid, ta] =>
    match ints [tb, x, paid, ta] with
    | some [tb, x, paid, ta] =>
      let (mp, mt) := Comdex.Accrual.trackerStep tb x
      let d := if mp = paid && mt = ta then [] else [s!"DIFF\t{seq}\tlend tracker: model={mp} {mt}\timpl={paid} {ta}"]
      let cont := match st.lastTr with
        | some a => if a = tb then [] else [s!"DIFF\t{seq}\tlend tracker not continuous: {a} vs {tb}"]
        | none => []
      let m1 := if ta < 0 then ["tracker_nonneg"] else []
      let m2 := if tb ≥ 0 && tb < Dec.one && x ≥ 0 && !Comdex.Accrual.carryOk tb x paid ta then ["tracker_carry"] else []
      ({ st with lastTr := some ta }, cont ++ d ++ mons seq (m1 ++ m2))
    | _ => (st, [s!"BAD\t{seq}\tlr.track args"])
  | ["lr.routes", stb, a, r, rr, sr, gi, rgi, now, prev, oA, dA, oB, dB] =>
    match ints [a, r, rr, sr, gi, rgi, now, prev], parseBool? stb with
    | some [a, r, rr, sr, gi, rgi, now, prev], some stb =>
      let m := borrowCharge stb a r rr sr gi rgi now prev
      let ms := match m with | .ok [d] => s!"ok\t{d}" | .ok _ => "err" | .err => "err" | .panic => "panic"
      let iA := if oA = "ok" then s!"ok\t{dA}" else oA
      let iB := if oB = "ok" then s!"ok\t{dB}" else oB
      let d := (if ms = iA then [] else [s!"DIFF\t{seq}\tborrow accrual (message route): model={ms}\timpl={iA}"]) ++
               (if ms = iB then [] else [s!"DIFF\t{seq}\tborrow accrual (liquidation route): model={ms}\timpl={iB}"])
      -- monitors on the REAL amounts: both routes book the same interest; the liquidation route books no more than the single
      -- accrual formula of the position's kind (locked rate for a stable borrow, index interest otherwise)
      let single : Option Int := if stb then (match stableBorrowInterest a sr now prev with | .ok [x] => some x | _ => none)
        else (match lendReward a r gi now prev with | .ok [x, _] => some x | _ => none)
      let m1 := if oA = "ok" && oB = "ok" && dA != dB then ["accrual_route_independent"] else []
      let m2 := match oB, parseInt? dB, single with
        | "ok", some y, some x => if y > x then ["liq_route_single_accrual"] else []
        | _, _, _ => []
      (st, d ++ mons seq (m1 ++ m2))
    | _, _ => (st, [s!"BAD\t{seq}\tlr.routes args"])
  | ["lr.rebalance", s0, stt, u, o, s1] =>
    match ints [s0, stt, u] with
    | some [s0, stt, u] =>
      let m := s!"ok\t{rebalance s0 stt u}"
      let impl := if o = "ok" then s!"ok\t{s1}" else o
      (st, if m = impl then [] else [s!"DIFF\t{seq}\trebalance {s0} {stt} {u}: model={m}\timpl={impl}"])
    | _ => (st, [s!"BAD\t{seq}\tlr.rebalance args"])
  | ["lr.stamp", now, last, gi, igc, again] =>
    -- after the keeper function behind MsgCalculateInterestAndRewards the position carries (index returned, now): `AccL.after`;
    -- `again` = what the REAL accrual function returns for a second calculation in the same block: zero time, zero reward
    (st, (if now = last && gi = igc then [] else
      [s!"DIFF\t{seq}\tlend position stamp: model=last {now} index {igc}\timpl=last {last} index {gi}"]) ++
      (if again = "0" then [] else mons seq ["zero_time"]))
  | _ => (st, [s!"BAD\t{seq}\tunknown lr line"])

end LendRatesDrv
end Comdex.Drv
