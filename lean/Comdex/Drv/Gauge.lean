import Comdex.Base.Line
import Comdex.Model.Gauge
/-! Driver plug-in for the gauge / incentive-payout model (property C19).  Core Lean only.

Pure lines (no sequence):
  gauge.split.single   total epochs <ok|panic> csv
  gauge.f64.single     raw bits                        -- TEST of the float hypothesis: real `MustFloat64` bit pattern
  gauge.shares.single  mode alloc mpos cpos <ok|err|panic> rewards   (mpos `amt:twa:dec,…` per master-pool farmer; cpos per farmer `amt:twa:dec+…` over child pools or `0`)      -- real `GetFarmingRewardsData` (mode 0 plain, 1 master)
Sequence lines:
  gauge.begin   minDur
  gauge.sfgauge gid denom dur now               -- swap-fee gauge created by pool creation (creates the epoch record)
  gauge.create  gid denom deposit total start now dur funds aux <ok|err> <ok:csv|panic|none>   -- last: real split(deposit,total)
  gauge.fund    denom amount
  gauge.extnew  eid denom amount funds <ok|err>
  gauge.block   now
  gauge.dist    gid alloc mode mpos cpos <ok|err|panic> recv rewards      -- inputs and result of the real share computation
  gauge.extpay  eid avail daysLeft totalShare nets recv paid             -- one external-programme payout in this block
  gauge.extoff  eid
  gauge.run     <ok>                            -- the real BeginBlocker ran; the model block is executed here
  gauge.epochs  dur:cur:count:fresh;…           -- real records after the block (compared + monitored)
  gauge.gauges  gid:denom:dep:dist:trig:total:act:sf:dur:start;…
  gauge.exts    eid:denom:avail:act;…
  gauge.bals    denom:amt;…
  gauge.paid    denom:farmer:amt;…
Monitors (on REAL values): split_sum zero_epochs epoch_cap cumulative_cap farmer_share farmer_share_1e12 custody
  custody_ext_overpaid float_hyp
-/
-- DRIVER: prefix=gauge ns=Comdex.Drv.Gauge
namespace Comdex.Drv.Gauge
open Comdex Comdex.Gauge Comdex.Line

structure GRec where
  gid : Nat
  denom : String
  g : Gauge
  sf : Bool
  dur : Int
  deriving Repr, DecidableEq

structure XRec where
  eid : Nat
  denom : String
  x : Ext
  deriving Repr, DecidableEq

structure DistIn where
  gid : Nat
  d : DistData
  recv : List Nat
  deriving Repr

structure ExtIn where
  eid : Nat
  pays : List Int
  recv : List Nat
  deriving Repr

structure St where
  minDur : Int := 0
  gs : List GRec := []
  xs : List XRec := []
  bals : List (String × Int) := []
  epochs : List Epoch := []
  now : Int := 0
  dists : List DistIn := []
  extIns : List ExtIn := []
  extOffs : List Nat := []
  -- state before the current block (for the per-block monitors) and predictions for the lines after `gauge.run`
  prevGs : List GRec := []
  prevXs : List XRec := []
  prevBals : List (String × Int) := []
  predGs : List GRec := []
  predXs : List XRec := []
  predBals : List (String × Int) := []
  predEpochs : List Epoch := []
  predPaid : List (String × Nat × Int) := []
  deriving Repr

def init : St := {}

/-! ### small helpers -/

def csvInts (s : String) : Option (List Int) := if s = "-" then some [] else parseIntList s
def csvNats (s : String) : Option (List Nat) := if s = "-" then some [] else parseNatList s

def parsePos (s : String) : Option Pos :=
  match s.splitOn ":" with
  | [a, t, d] => do let a ← parseInt? a; let t ← parseInt? t; let d ← parseInt? d; pure { amt := a, twa := t, dec := d }
  | _ => none

/-- master positions `a:t:d,a:t:d,…` and child positions per farmer `a:t:d+a:t:d,0,…` (`0` = no child position) -/
def parseFarmers (mpos cpos : String) : Option (List Farmer) :=
  if mpos = "-" || mpos = "" then some [] else do
    let ms ← (mpos.splitOn ",").mapM parsePos
    let cs ← if cpos = "-" || cpos = "" then pure (ms.map (fun _ => ([] : List Pos)))
             else (cpos.splitOn ",").mapM (fun e => if e = "0" then some [] else (e.splitOn "+").mapM parsePos)
    if cs.length = ms.length then pure ((ms.zip cs).map (fun p => { master := p.1, children := p.2 })) else none

def weightsOf (mode : String) (fs : List Farmer) : List Int :=
  if mode = "1" then fs.map weight else fs.map (fun f => posValue f.master)

def lookupBal (bals : List (String × Int)) (d : String) : Int :=
  match bals.find? (·.1 = d) with | some p => p.2 | none => 0

def setBal (bals : List (String × Int)) (d : String) (v : Int) : List (String × Int) :=
  if bals.any (·.1 = d) then bals.map (fun p => if p.1 = d then (d, v) else p) else bals ++ [(d, v)]

def insertEpoch (es : List Epoch) (e : Epoch) : List Epoch :=
  if es.any (·.dur = e.dur) then es
  else (es.filter (·.dur < e.dur)) ++ [e] ++ (es.filter (·.dur > e.dur))

def denomsOf (st : St) : List String :=
  (st.gs.map (·.denom) ++ st.xs.map (·.denom) ++ st.bals.map (·.1)).eraseDups

def recList {α : Type} (s : String) (f : List String → Option α) : Option (List α) :=
  if s = "" || s = "-" then some [] else (s.splitOn ";").mapM (fun r => f (r.splitOn ":"))

def parseG : List String → Option GRec
  | [gid, denom, dep, dist, trig, total, act, sf, dur, start] => do
    let gid ← parseNat? gid; let dep ← parseInt? dep; let dist ← parseInt? dist
    let trig ← parseNat? trig; let total ← parseNat? total; let act ← parseBool? act
    let sf ← parseBool? sf; let dur ← parseInt? dur; let start ← parseInt? start
    pure { gid := gid, denom := denom, sf := sf, dur := dur,
           g := { deposit := dep, distributed := dist, triggered := trig, total := total, active := act, start := start } }
  | _ => none

def parseX : List String → Option XRec
  | [eid, denom, avail, act] => do
    let eid ← parseNat? eid; let avail ← parseInt? avail; let act ← parseBool? act
    pure { eid := eid, denom := denom, x := { avail := avail, active := act } }
  | _ => none

def parseE : List String → Option Epoch
  | [dur, cur, count, fresh] => do
    let dur ← parseInt? dur; let cur ← parseInt? cur; let count ← parseNat? count; let fresh ← parseBool? fresh
    pure { fresh := fresh, cur := cur, dur := dur, count := count }
  | _ => none

def parseBalRec : List String → Option (String × Int)
  | [d, a] => do let a ← parseInt? a; pure (d, a)
  | _ => none

def parsePaid : List String → Option (String × Nat × Int)
  | [d, f, a] => do let f ← parseNat? f; let a ← parseInt? a; pure (d, f, a)
  | _ => none

def showG (r : GRec) : String :=
  s!"{r.gid}:{r.denom}:{r.g.deposit}:{r.g.distributed}:{r.g.triggered}:{r.g.total}:{r.g.active}"
def showE (e : Epoch) : String := s!"{e.dur}:{e.cur}:{e.count}:{e.fresh}"
def showX (r : XRec) : String := s!"{r.eid}:{r.denom}:{r.x.avail}:{r.x.active}"
def showPaid (p : String × Nat × Int) : String := s!"{p.1}:{p.2.1}:{p.2.2}"

/-! ### monitors on real values -/

/-- first clause on a real split result -/
def splitMon (total epochs : Nat) (real : List Nat) : Bool :=
  if epochs = 0 then false
  else if total < epochs then real.isEmpty
  else real.sum == total && real.length == epochs
        && real.all (fun x => decide (total / epochs ≤ x) && decide (x ≤ total / epochs + 1))

/-- the proved explicit bound, on a REAL payout -/
def shareBound (a S s r : Int) : Bool :=
  decide (r * TWO53 * (2 * Dec.P * Dec.P * S) ≤ (TWO53 + 1) * (2 * a * s * Dec.P * Dec.P + (s + Dec.P) * S))

/-- the literal clause: payout ≤ pro-rata · (1 + 10⁻¹²) -/
def share1e12 (a S s r : Int) : Bool := decide (r * 1000000000000 * S ≤ 1000000000001 * a * s)

def shareMons (tag : String) (a : Int) (el : List Int) (rewards : List Int) : List String :=
  let S := sumL el
  let pairs := el.zip rewards
  (if pairs.all (fun p => shareBound a S p.1 p.2) then [] else [s!"MON\t{tag}\tfarmer_share"]) ++
  (if pairs.all (fun p => share1e12 a S p.1 p.2) then [] else [s!"MON\t{tag}\tfarmer_share_1e12"])

/-- decode a real IEEE-754 bit pattern (normal, non-negative) into the rational `(n, d)` -/
def decodeBits (bits : Nat) : Int × Int :=
  if bits = 0 then (0, 1) else
  let ex : Int := (bits / 4503599627370496 % 2048 : Nat)
  let m : Int := (bits % 4503599627370496 + 4503599627370496 : Nat)
  let e := ex - 1075
  (m * 2 ^ e.toNat, 2 ^ (-e).toNat)

/-- `FloatUpper` (and the symmetric lower bound) on one real conversion -/
def floatHypOn (raw : Int) (bits : Nat) : Bool :=
  let q := decodeBits bits
  decide (0 < q.2) && decide (q.1 * Dec.P * TWO53 ≤ raw * q.2 * (TWO53 + 1))
    && decide (raw * q.2 * (TWO53 - 1) ≤ q.1 * Dec.P * TWO53)

/-! ### the model block -/

def gaugesOf (st : St) (d : String) : List GRec := st.gs.filter (fun r => r.denom = d && !r.sf)
def extsOf (st : St) (d : String) : List XRec := st.xs.filter (·.denom = d)

def idxOf (l : List Nat) (x : Nat) : Option Nat :=
  let rec go : List Nat → Nat → Option Nat
    | [], _ => none
    | y :: ys, i => if y = x then some i else go ys (i + 1)
  go l 0

/-- durations whose epoch triggers at `now`, and the epochs after the step -/
def stepEpochs (es : List Epoch) (now : Int) : List Epoch × List Int :=
  es.foldl (fun acc e =>
    let (e', t) := epochStep e now
    (acc.1 ++ [e'], if t then acc.2 ++ [e.dur] else acc.2)) ([], [])

def distFor (st : St) (gid : Nat) : Option DistIn := st.dists.find? (·.gid = gid)

/-- the begin-blocker ops of one denomination, in the order the real code executes them, or a BAD message -/
def blockOps (st : St) (d : String) (trigDurs : List Int) : Except String (List BOp) := do
  let mine := gaugesOf st d
  let gids := mine.map (·.gid)
  let mut ops : List BOp := []
  for dur in trigDurs do
    for r in st.gs do
      if r.dur = dur && r.denom = d && !r.sf then
        match idxOf gids r.gid with
        | none => throw "gauge index"
        | some i =>
          -- the distribution data is only consulted when the model gets as far as paying
          let dd := match distFor st r.gid with | some di => di.d | none => DistData.err
          let needs := match trigger r.g st.now (.ok []) with
            | .ok (g', _) => decide (g'.triggered = r.g.triggered + 1)
            | .error _ => false
          if needs && (distFor st r.gid).isNone then throw s!"no gauge.dist line for gauge {r.gid}"
          ops := ops ++ [BOp.trigger i st.now dd]
  let xids := (extsOf st d).map (·.eid)
  for x in st.extIns do
    match idxOf xids x.eid with
    | none => pure ()
    | some j => ops := ops ++ [BOp.extPay j x.pays]
  for e in st.extOffs do
    match idxOf xids e with
    | none => pure ()
    | some j => ops := ops ++ [BOp.extDeactivate j]
  return ops

def ledgerOf (st : St) (d : String) : Ledger :=
  { bal := lookupBal st.bals d, gauges := (gaugesOf st d).map (·.g), exts := (extsOf st d).map (·.x) }

/-- predicted per-farmer payouts of one denomination (sends in execution order against the running balance) -/
def paidOf (st : St) (d : String) (trigDurs : List Int) : List (Nat × Int) :=
  let step1 := trigDurs.foldl (fun (acc : Int × List (Nat × Int)) dur =>
    st.gs.foldl (fun (acc : Int × List (Nat × Int)) r =>
      if r.dur = dur && r.denom = d && !r.sf then
        match distFor st r.gid with
        | none => acc
        | some di =>
          match trigger r.g st.now di.d with
          | .ok (_, sends) =>
            let (b, got) := sendAll acc.1 sends
            (b, acc.2 ++ di.recv.zip got)
          | .error _ => acc
      else acc) acc) (lookupBal st.bals d, [])
  let xids := (extsOf st d).map (·.eid)
  let step2 := st.extIns.foldl (fun (acc : Int × List (Nat × Int)) x =>
    if xids.contains x.eid then
      let (b, got) := sendAll acc.1 x.pays
      (b, acc.2 ++ x.recv.zip got)
    else acc) step1
  step2.2

def mergePaid (l : List (String × Nat × Int)) : List (String × Nat × Int) :=
  let keys := (l.map (fun p => (p.1, p.2.1))).eraseDups
  let sums := keys.map (fun k => (k.1, k.2, sumL ((l.filter (fun p => p.1 = k.1 && p.2.1 = k.2)).map (·.2.2))))
  sums.filter (fun p => p.2.2 ≠ 0)

def sortPaid (l : List (String × Nat × Int)) : List (String × Nat × Int) :=
  (l.toArray.qsort (fun a b => a.1 < b.1 || (a.1 = b.1 && a.2.1 < b.2.1))).toList

/-- execute the model block; on a model panic everything (incl. the epoch clocks) stays as it was -/
def runBlock (st : St) : St × List String :=
  let (es', trigDurs) := stepEpochs st.epochs st.now
  let ds := denomsOf st
  let res : Except String (List (String × Ledger) × Bool) := ds.foldlM (fun (acc : List (String × Ledger) × Bool) d => do
    let ops ← blockOps st d trigDurs
    match runB (ledgerOf st d) ops with
    | .ok l' => pure (acc.1 ++ [(d, l')], acc.2)
    | .error _ => pure (acc.1, true)) ([], false)
  let base := { st with prevGs := st.gs, prevXs := st.xs, prevBals := st.bals }
  match res with
  | .error msg => ({ base with predGs := st.gs, predXs := st.xs, predBals := st.bals, predEpochs := st.epochs, predPaid := [] },
                   [s!"BAD\t-\t{msg}"])
  | .ok (_, true) =>
    ({ base with predGs := st.gs, predXs := st.xs, predBals := st.bals, predEpochs := st.epochs, predPaid := [] }, [])
  | .ok (ls, false) =>
    let predGs := st.gs.map (fun r =>
      if r.sf then r else
      match ls.find? (·.1 = r.denom) with
      | none => r
      | some (_, l) =>
        match idxOf ((gaugesOf st r.denom).map (·.gid)) r.gid with
        | none => r
        | some i => match l.gauges[i]? with | some g => { r with g := g } | none => r)
    let predXs := st.xs.map (fun r =>
      match ls.find? (·.1 = r.denom) with
      | none => r
      | some (_, l) =>
        match idxOf ((extsOf st r.denom).map (·.eid)) r.eid with
        | none => r
        | some j => match l.exts[j]? with | some x => { r with x := x } | none => r)
    let predBals := ls.foldl (fun b p => setBal b p.1 p.2.bal) st.bals
    let paid := ds.foldl (fun acc d => acc ++ (paidOf st d trigDurs).map (fun p => (d, p.1, p.2))) []
    ({ base with predGs := predGs, predXs := predXs, predBals := predBals, predEpochs := es',
                 predPaid := sortPaid (mergePaid paid) }, [])

/-! ### per-block monitors on the REAL records -/

def gaugeMons (tag : String) (prev : List GRec) (real : List GRec) : List String :=
  real.foldl (fun out r =>
    if r.sf then out else
    let cum := gaugeOk r.g &&
      decide (r.g.distributed ≤ (prefixSum r.g.deposit.toNat r.g.total r.g.triggered : Int))
    let o1 := if cum then [] else [s!"MON\t{tag}\tcumulative_cap\tgauge={r.gid}"]
    let o2 := match prev.find? (·.gid = r.gid) with
      | none => []
      | some p =>
        let ok :=
          if r.g.triggered = p.g.triggered + 1 then
            decide (p.g.distributed ≤ r.g.distributed) &&
            decide (r.g.distributed - p.g.distributed ≤ (splitAt p.g.deposit.toNat p.g.total p.g.triggered : Int))
          else if r.g.triggered = p.g.triggered then decide (r.g.distributed = p.g.distributed)
          else false
        if ok && decide (r.g.deposit = p.g.deposit) then [] else [s!"MON\t{tag}\tepoch_cap\tgauge={r.gid}"]
    out ++ o1 ++ o2) []

/-- custody per denomination; swap-fee gauges count with their whole (undistributed) deposit.
`custody`: the proved ledger invariant (signed sum of all remainders ≤ balance, every gauge within its deposit).
`custody_ext_overpaid`: the extra hypothesis of `custody_ge_active_remaining` — no programme has paid more than it
had; together they are the clause as worded. -/
def custodyMons (tag : String) (st : St) : List String :=
  (denomsOf st).foldl (fun out d =>
    let gs := (st.gs.filter (·.denom = d)).map (fun r => if r.sf then { r.g with distributed := 0 } else r.g)
    let xs := (extsOf st d).map (·.x)
    let nonSf := (gaugesOf st d).map (·.g)
    let ok := decide (remGauges gs + remExts xs ≤ lookupBal st.bals d) && nonSf.all gaugeOk
    let okx := xs.all (fun x => decide (0 ≤ x.avail))
    out ++ (if ok then [] else [s!"MON\t{tag}\tcustody\tdenom={d}"])
        ++ (if okx then [] else [s!"MON\t{tag}\tcustody_ext_overpaid\tdenom={d}"])) []

/-- bank-side epoch cap: what left the module account in this block is covered by the allocations of the
gauges that advanced plus what the external programmes booked as paid -/
def outflowMons (tag : String) (st : St) : List String :=
  (denomsOf st).foldl (fun out d =>
    let allocs := sumL ((st.gs.filter (fun r => r.denom = d && !r.sf)).map (fun r =>
      match st.prevGs.find? (·.gid = r.gid) with
      | some p => if r.g.triggered = p.g.triggered + 1 then (splitAt p.g.deposit.toNat p.g.total p.g.triggered : Int) else 0
      | none => 0))
    let extd := sumL ((extsOf st d).map (fun r =>
      match st.prevXs.find? (·.eid = r.eid) with | some p => p.x.avail - r.x.avail | none => 0))
    if lookupBal st.prevBals d - lookupBal st.bals d ≤ allocs + extd then out
    else out ++ [s!"MON\t{tag}\tepoch_cap\tdenom={d} outflow"]) []

/-! ### line handler -/

def handle (st : St) (seq : String) (f : List String) : St × List String :=
  match f with
  | ["gauge.split.single", total, epochs, outcome, real] =>
    match parseNat? total, parseNat? epochs, csvNats real with
    | some t, some n, some real =>
      let m := match split t n with | .ok l => s!"ok\t{showNatList l}" | .error _ => "panic\t"
      let d := if m = s!"{outcome}\t{showNatList real}" then [] else [s!"DIFF\t{seq}\tmodel={m}\timpl={outcome} {showNatList real}"]
      -- the clause speaks about accepted gauges: 1 ≤ epochs ≤ total (and total < epochs ⇒ no allocations)
      let mon := if n = 0 then (if outcome = "panic" then [] else [s!"MON\t{seq}\tsplit_sum"])
                 else if outcome = "ok" && splitMon t n real then [] else [s!"MON\t{seq}\tsplit_sum"]
      (st, d ++ mon)
    | _, _, _ => (st, [s!"BAD\t{seq}\tsplit"])
  | ["gauge.f64.single", raw, bits] =>
    match parseInt? raw, parseNat? bits with
    | some raw, some bits =>
      let d := if f64bits raw = bits then [] else [s!"DIFF\t{seq}\tfloat test: model bits={f64bits raw}\timpl={bits}"]
      let mon := if floatHypOn raw bits then [] else [s!"MON\t{seq}\tfloat_hyp"]
      (st, d ++ mon)
    | _, _ => (st, [s!"BAD\t{seq}\tf64"])
  | ["gauge.shares.single", mode, alloc, mpos, cpos, outcome, rewards] =>
    match parseInt? alloc, parseFarmers mpos cpos, csvInts rewards with
    | some a, some fs, some rewards =>
      let el := weightsOf mode fs
      let m := sharesFrom f64 a (mode = "1") fs
      let ms := match m with | .ok l => s!"ok\t{showIntList l}" | .error _ => "panic\t"
      let d := if ms = s!"{outcome}\t{showIntList rewards}" then [] else [s!"DIFF\t{seq}\tmodel={ms}\timpl={outcome} {showIntList rewards}"]
      let mon := if outcome = "ok" then shareMons seq a el rewards else []
      (st, d ++ mon)
    | _, _, _ => (st, [s!"BAD\t{seq}\tshares"])
  | ["gauge.begin", minDur] =>
    match parseInt? minDur with
    | some m => ({ minDur := m }, [])
    | none => (st, [s!"BAD\t{seq}\tbegin"])
  | ["gauge.sfgauge", gid, denom, dur, now] =>
    match parseNat? gid, parseInt? dur, parseInt? now with
    | some gid, some dur, some now =>
      let r : GRec := { gid := gid, denom := denom, sf := true, dur := dur,
                        g := { deposit := 0, distributed := 0, triggered := 0, total := 1, active := true, start := now } }
      ({ st with gs := st.gs ++ [r], epochs := insertEpoch st.epochs (newEpoch now dur) }, [])
    | _, _, _ => (st, [s!"BAD\t{seq}\tsfgauge"])
  | ["gauge.create", gid, denom, deposit, total, start, now, dur, funds, aux, outcome, sp] =>
    match parseNat? gid, parseInt? deposit, parseNat? total, parseInt? start, parseInt? now, parseInt? dur, parseInt? funds, parseBool? aux with
    | some gid, some dep, some total, some start, some now, some dur, some funds, some aux =>
      let l := ledgerOf st denom
      let l' := step l (.createGauge dep total start now dur st.minDur aux funds)
      let mok := decide (l'.gauges.length = l.gauges.length + 1)
      let d := if mok = (outcome = "ok") then [] else [s!"DIFF\t{seq}\tmodel accepted={mok}\timpl={outcome}"]
      if outcome = "ok" then
        let r : GRec := { gid := gid, denom := denom, sf := false, dur := dur, g := newGauge dep total start }
        let st' := { st with gs := st.gs ++ [r], bals := setBal st.bals denom (lookupBal st.bals denom + dep),
                             epochs := insertEpoch st.epochs (newEpoch now dur) }
        -- first clause on the REAL split of the accepted gauge (`zero_epochs`: a zero-epoch gauge got accepted again —
        -- regression of the repaired defect; the model refuses it, so a DIFF accompanies it)
        let mon :=
          if total = 0 then [s!"MON\t{seq}\tzero_epochs\tgauge={gid}"]
          else match sp.splitOn ":" with
            | ["ok", csv] => match csvNats csv with
              | some real => if splitMon dep.toNat total real then [] else [s!"MON\t{seq}\tsplit_sum\tgauge={gid}"]
              | none => [s!"BAD\t{seq}\tcreate split"]
            -- a deposit ≥ 2^64 has no split at all (`Uint64()` panics in every begin blocker, which is rolled back:
            -- nothing is ever paid; a liveness matter for C15, see notes/C19.md) — no allocation to check
            | ["none"] => []
            | _ => [s!"MON\t{seq}\tsplit_sum\tgauge={gid}"]
        (st', d ++ mon)
      else (st, d)
    | _, _, _, _, _, _, _, _ => (st, [s!"BAD\t{seq}\tcreate"])
  | ["gauge.fund", denom, amount] =>
    match parseInt? amount with
    | some a => ({ st with bals := setBal st.bals denom (lookupBal st.bals denom + a) }, [])
    | none => (st, [s!"BAD\t{seq}\tfund"])
  | ["gauge.extnew", eid, denom, amount, funds, outcome] =>
    match parseNat? eid, parseInt? amount, parseInt? funds with
    | some eid, some a, some funds =>
      let l := ledgerOf st denom
      let l' := step l (.createExt a funds)
      let mok := decide (l'.exts.length = l.exts.length + 1)
      let d := if mok = (outcome = "ok") then [] else [s!"DIFF\t{seq}\tmodel accepted={mok}\timpl={outcome}"]
      if outcome = "ok" then
        ({ st with xs := st.xs ++ [{ eid := eid, denom := denom, x := { avail := a, active := true } }],
                   bals := setBal st.bals denom (lookupBal st.bals denom + a) }, d)
      else (st, d)
    | _, _, _ => (st, [s!"BAD\t{seq}\textnew"])
  | ["gauge.block", now] =>
    match parseInt? now with
    | some now => ({ st with now := now, dists := [], extIns := [], extOffs := [] }, [])
    | none => (st, [s!"BAD\t{seq}\tblock"])
  | ["gauge.dist", gid, alloc, mode, mpos, cpos, outcome, recv, rewards] =>
    match parseNat? gid, parseInt? alloc, parseFarmers mpos cpos, csvNats recv, csvInts rewards with
    | some gid, some a, some fs, some recv, some rewards =>
      let el := weightsOf mode fs
      let m := sharesFrom f64 a (mode = "1") fs
      -- a disabled pool / missing price is an error before any arithmetic: taken from the implementation
      let ms := if outcome = "err" then "err\t" else match m with | .ok l => s!"ok\t{showIntList l}" | .error _ => "panic\t"
      let d := if ms = s!"{outcome}\t{showIntList rewards}" then [] else [s!"DIFF\t{seq}\tmodel={ms}\timpl={outcome} {showIntList rewards}"]
      let mon := if outcome = "ok" then shareMons seq a el rewards else []
      -- the gauge's own allocation must be the one the harness asked the share computation about
      let da := match st.gs.find? (·.gid = gid) with
        | some r => match allocation r.g with
          | .ok (some a') => if a' = a then [] else [s!"DIFF\t{seq}\tallocation model={a'}\timpl={a}"]
          | _ => [s!"DIFF\t{seq}\tallocation model=none\timpl={a}"]
        | none => [s!"BAD\t{seq}\tdist for unknown gauge"]
      let dd : DistData := if outcome = "err" then .err else if outcome = "panic" then .ok [-1] else .ok rewards
      ({ st with dists := st.dists ++ [{ gid := gid, d := dd, recv := recv }] }, d ++ mon ++ da)
    | _, _, _, _, _ => (st, [s!"BAD\t{seq}\tdist"])
  | ["gauge.extpay", eid, avail, days, total, nets, recv, paid] =>
    match parseNat? eid, parseInt? avail, parseInt? days, parseInt? total, csvInts nets, csvNats recv, csvInts paid with
    | some eid, some avail, some days, some total, some nets, some recv, some paid =>
      let m := extPays avail days total nets
      let d := if m = paid then [] else [s!"DIFF\t{seq}\text pays model={showIntList m}\timpl={showIntList paid}"]
      let da := match st.xs.find? (·.eid = eid) with
        | some r => if r.x.avail = avail then [] else [s!"DIFF\t{seq}\text avail model={r.x.avail}\timpl={avail}"]
        | none => [s!"BAD\t{seq}\textpay for unknown programme"]
      ({ st with extIns := st.extIns ++ [{ eid := eid, pays := m, recv := recv }] }, d ++ da)
    | _, _, _, _, _, _, _ => (st, [s!"BAD\t{seq}\textpay"])
  | ["gauge.extoff", eid] =>
    match parseNat? eid with
    | some eid => ({ st with extOffs := st.extOffs ++ [eid] }, [])
    | none => (st, [s!"BAD\t{seq}\textoff"])
  | ["gauge.run", _] =>
    let (st', out) := runBlock st
    (st', out.map (fun o => o.replace "\t-\t" s!"\t{seq}\t"))
  | ["gauge.epochs", recs] =>
    match recList recs parseE with
    | some real =>
      let d := if real = st.predEpochs then [] else
        [s!"DIFF\t{seq}\tepochs model={";".intercalate (st.predEpochs.map showE)}\timpl={";".intercalate (real.map showE)}"]
      ({ st with epochs := real }, d)
    | none => (st, [s!"BAD\t{seq}\tepochs"])
  | ["gauge.gauges", recs] =>
    match recList recs parseG with
    | some real =>
      let cmp := real.foldl (fun out r =>
        if r.sf then out else
        match st.predGs.find? (·.gid = r.gid) with
        | some p => if p.g = r.g then out else out ++ [s!"DIFF\t{seq}\tgauge model={showG p}\timpl={showG r}"]
        | none => out ++ [s!"DIFF\t{seq}\tgauge {r.gid} unknown to the model"]) []
      let missing := st.predGs.foldl (fun out p =>
        if real.any (·.gid = p.gid) then out else out ++ [s!"DIFF\t{seq}\tgauge {p.gid} missing in impl"]) []
      let mons := gaugeMons seq st.prevGs real
      ({ st with gs := real }, cmp ++ missing ++ mons)
    | none => (st, [s!"BAD\t{seq}\tgauges"])
  | ["gauge.exts", recs] =>
    match recList recs parseX with
    | some real =>
      let d := if real = st.predXs then [] else
        [s!"DIFF\t{seq}\texts model={";".intercalate (st.predXs.map showX)}\timpl={";".intercalate (real.map showX)}"]
      ({ st with xs := real }, d)
    | none => (st, [s!"BAD\t{seq}\texts"])
  | ["gauge.bals", recs] =>
    match recList recs parseBalRec with
    | some real =>
      let d := (denomsOf st).foldl (fun out dn =>
        if lookupBal real dn = lookupBal st.predBals dn then out
        else out ++ [s!"DIFF\t{seq}\tmodule balance {dn} model={lookupBal st.predBals dn}\timpl={lookupBal real dn}"]) []
      let st' := { st with bals := real }
      (st', d ++ custodyMons seq st' ++ outflowMons seq st')
    | none => (st, [s!"BAD\t{seq}\tbals"])
  | ["gauge.paid", recs] =>
    match recList recs parsePaid with
    | some real =>
      let real := sortPaid real
      let d := if real = st.predPaid then [] else
        [s!"DIFF\t{seq}\tpayouts model={";".intercalate (st.predPaid.map showPaid)}\timpl={";".intercalate (real.map showPaid)}"]
      (st, d)
    | none => (st, [s!"BAD\t{seq}\tpaid"])
  | _ => (st, [s!"BAD\t{seq}\tunknown gauge line"])

end Comdex.Drv.Gauge
