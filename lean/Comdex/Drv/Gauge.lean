import Comdex.Base.Line
import Comdex.Model.Gauge
import Comdex.Model.ExtReward
/-! Driver plug-in for the gauge / incentive-payout model (property C19).  Core Lean only.

Pure lines (no sequence):
  gauge.split.single   total epochs <ok|panic> csv
  gauge.f64.single     raw bits                        -- TEST of the float hypothesis: real `MustFloat64` bit pattern
  gauge.shares.single  mode alloc mpos cpos <ok|err|panic> rewards   (mpos `amt:twa:dec,…` per master-pool farmer; cpos per farmer `amt:twa:dec+…` over child pools or `0`)      -- real `GetFarmingRewardsData` (mode 0 plain, 1 master)
Sequence lines:
  gauge.begin   minDur
  gauge.sfgauge gid denom dur now               -- swap-fee gauge created by pool creation (creates the epoch record)
  gauge.sfxfer  gid <ok|err> amount             -- result of the real TransferFundsForSwapFeeDistribution for this gauge in this block
  gauge.create  gid denom deposit total start now dur funds aux <ok|err> <ok:csv|panic|none>   -- last: real split(deposit,total)
  gauge.fund    denom amount
  gauge.xnew    kind eid denom amount days minLock now first funds aux <ok|err>   -- external programme (kind L locker, V vault, B lend); now in s
  gauge.block   now
  gauge.dist    gid alloc mode mpos cpos <ok|err|panic> recv rewards      -- inputs and result of the real share computation
  gauge.xshare  kind eid halt totalShare users                            -- per programme (L, V), store order: users `amt:created:recv,…`
  gauge.xlend   eid halt stats asset quote base borrowers rewardAsset reward   -- per lend programme: prices `found:active:twa:dec`,
                                                                          -- borrowers `liq:amt:farmed:x:y:recv;…`
  gauge.run     <ok>                            -- the real BeginBlocker ran; the model block is executed here
  gauge.epochs  dur:cur:count:fresh;…           -- real records after the block (compared + monitored)
  gauge.gauges  gid:denom:dep:dist:trig:total:act:sf:dur:start;…
  gauge.xprogs  kind:eid:denom:total:avail:days:minLock:act:start:count;…
  gauge.bals    denom:amt;…
  gauge.paid    denom:farmer:amt;…
Monitors (on REAL values): split_sum zero_epochs epoch_cap cumulative_cap farmer_share farmer_share_1e12 custody
  custody_ext_overpaid float_hyp ext_epoch_cap ext_epoch_bound ext_cumulative_cap ext_available_nonneg ext_schedule
  ext_share_total ext_lend_value_as_amount ext_lend_truncated_total
-/
-- DRIVER: prefix=gauge ns=Comdex.Drv.Gauge
namespace Comdex.Drv.Gauge
open Comdex Comdex.Gauge Comdex.Line
open Comdex.ExtReward (Prog Outcome ShareEnv LendEnv User Price Borrower Acc)

structure GRec where
  gid : Nat
  denom : String
  g : Gauge
  sf : Bool
  dur : Int
  distDenom : String := ""      -- swap-fee gauges: denomination of `DistributedAmount` ("" = that of the deposit)
  deriving Repr, DecidableEq

def GRec.dd (r : GRec) : String := if r.distDenom = "" then r.denom else r.distDenom

structure XRec where
  kind : String
  eid : Nat
  denom : String
  p : Prog
  cum : Int := 0            -- what the REAL record booked as paid so far (sum of the AvailableRewards decreases)
  deriving Repr, DecidableEq

def XRec.x (r : XRec) : Ext := { avail := r.p.avail, active := r.p.active }

structure DistIn where
  gid : Nat
  d : DistData
  recv : List Nat
  deriving Repr

structure ShareIn where
  kind : String
  eid : Nat
  env : ShareEnv
  recv : List Nat
  deriving Repr

structure LendIn where
  eid : Nat
  env : LendEnv
  recv : List Nat          -- per borrower, parallel to `env.borrowers`
  deriving Repr

/-- outcome of one programme in the model block, with what the monitors need -/
structure XOut where
  kind : String
  eid : Nat
  o : Outcome
  recv : List Nat          -- parallel to the pays
  nElig : Nat := 0         -- L, V: eligible positions
  sumElig : Int := 0       -- L, V: sum of their amounts
  total : Int := 0         -- L, V: total share
  acc : Acc := Acc.empty   -- B: the accumulator the payout was computed from
  daily : Int := 0         -- B: `dailyRewardAmt`
  deriving Repr

structure St where
  minDur : Int := 0
  gs : List GRec := []
  xs : List XRec := []
  bals : List (String × Int) := []
  epochs : List Epoch := []
  now : Int := 0
  dists : List DistIn := []
  sfx : List (Nat × Xfer × String) := []                    -- outcome of the swap-fee transfer per swap-fee gauge reached in this block
  leaked : List (String × Int) := []               -- per denomination: coins a swap-fee trigger paid without booking them (regression of D44), cumulative
  leakNow : List (String × Int) := []              -- … in the current block
  shareIns : List ShareIn := []
  lendIns : List LendIn := []
  xouts : List XOut := []
  -- state before the current block (for the per-block monitors) and predictions for the lines after `gauge.run`
  prevGs : List GRec := []
  prevXs : List XRec := []
  prevBals : List (String × Int) := []
  predGs : List GRec := []
  predXs : List XRec := []
  predBals : List (String × Int) := []
  predEpochs : List Epoch := []
  predPaid : List (String × Nat × Int) := []
  deriving Repr

def init : St := {}

/-! ### small helpers -/

def csvInts (s : String) : Option (List Int) := if s = "-" then some [] else parseIntList s
def csvNats (s : String) : Option (List Nat) := if s = "-" then some [] else parseNatList s

def parsePos (s : String) : Option Pos :=
  match s.splitOn ":" with
  | [a, t, d] => do let a ← parseInt? a; let t ← parseInt? t; let d ← parseInt? d; pure { amt := a, twa := t, dec := d }
  | _ => none

/-- master positions `a:t:d,a:t:d,…` and child positions per farmer `a:t:d+a:t:d,0,…` (`0` = no child position) -/
def parseFarmers (mpos cpos : String) : Option (List Farmer) :=
  if mpos = "-" || mpos = "" then some [] else do
    let ms ← (mpos.splitOn ",").mapM parsePos
    let cs ← if cpos = "-" || cpos = "" then pure (ms.map (fun _ => ([] : List Pos)))
             else (cpos.splitOn ",").mapM (fun e => if e = "0" then some [] else (e.splitOn "+").mapM parsePos)
    if cs.length = ms.length then pure ((ms.zip cs).map (fun p => { master := p.1, children := p.2 })) else none

def weightsOf (mode : String) (fs : List Farmer) : List Int :=
  if mode = "1" then fs.map weight else fs.map (fun f => posValue f.master)

def lookupBal (bals : List (String × Int)) (d : String) : Int :=
  match bals.find? (·.1 = d) with | some p => p.2 | none => 0

def setBal (bals : List (String × Int)) (d : String) (v : Int) : List (String × Int) :=
  if bals.any (·.1 = d) then bals.map (fun p => if p.1 = d then (d, v) else p) else bals ++ [(d, v)]

def insertEpoch (es : List Epoch) (e : Epoch) : List Epoch :=
  if es.any (·.dur = e.dur) then es
  else (es.filter (·.dur < e.dur)) ++ [e] ++ (es.filter (·.dur > e.dur))

def denomsOf (st : St) : List String :=
  (st.gs.map (·.denom) ++ st.xs.map (·.denom) ++ st.bals.map (·.1)).eraseDups

def recList {α : Type} (s : String) (f : List String → Option α) : Option (List α) :=
  if s = "" || s = "-" then some [] else (s.splitOn ";").mapM (fun r => f (r.splitOn ":"))

def parseG : List String → Option GRec
  | [gid, denom, dep, dist, trig, total, act, sf, dur, start, dden] => do
    let gid ← parseNat? gid; let dep ← parseInt? dep; let dist ← parseInt? dist
    let trig ← parseNat? trig; let total ← parseNat? total; let act ← parseBool? act
    let sf ← parseBool? sf; let dur ← parseInt? dur; let start ← parseInt? start
    pure { gid := gid, denom := denom, sf := sf, dur := dur, distDenom := dden,
           g := { deposit := dep, distributed := dist, triggered := trig, total := total, active := act, start := start } }
  | [gid, denom, dep, dist, trig, total, act, sf, dur, start] => do
    let gid ← parseNat? gid; let dep ← parseInt? dep; let dist ← parseInt? dist
    let trig ← parseNat? trig; let total ← parseNat? total; let act ← parseBool? act
    let sf ← parseBool? sf; let dur ← parseInt? dur; let start ← parseInt? start
    pure { gid := gid, denom := denom, sf := sf, dur := dur,
           g := { deposit := dep, distributed := dist, triggered := trig, total := total, active := act, start := start } }
  | _ => none

def parseX : List String → Option XRec
  | [kind, eid, denom, total, avail, days, minLock, act, start, count] => do
    let eid ← parseNat? eid; let total ← parseInt? total; let avail ← parseInt? avail; let days ← parseInt? days
    let minLock ← parseInt? minLock; let act ← parseBool? act; let start ← parseInt? start; let count ← parseNat? count
    pure { kind := kind, eid := eid, denom := denom,
           p := { total := total, avail := avail, days := days, minLock := minLock, active := act, start := start, count := count } }
  | _ => none

def parseE : List String → Option Epoch
  | [dur, cur, count, fresh] => do
    let dur ← parseInt? dur; let cur ← parseInt? cur; let count ← parseNat? count; let fresh ← parseBool? fresh
    pure { fresh := fresh, cur := cur, dur := dur, count := count }
  | _ => none

def parseBalRec : List String → Option (String × Int)
  | [d, a] => do let a ← parseInt? a; pure (d, a)
  | _ => none

def parsePaid : List String → Option (String × Nat × Int)
  | [d, f, a] => do let f ← parseNat? f; let a ← parseInt? a; pure (d, f, a)
  | _ => none

def showG (r : GRec) : String :=
  s!"{r.gid}:{r.denom}:{r.g.deposit}:{r.g.distributed}:{r.g.triggered}:{r.g.total}:{r.g.active}"
def showE (e : Epoch) : String := s!"{e.dur}:{e.cur}:{e.count}:{e.fresh}"
def showX (r : XRec) : String :=
  s!"{r.kind}:{r.eid}:{r.denom}:{r.p.total}:{r.p.avail}:{r.p.days}:{r.p.minLock}:{r.p.active}:{r.p.start}:{r.p.count}"
def kindRank (k : String) : Nat := if k = "L" then 0 else if k = "V" then 1 else 2

/-- the order of the begin blocker: lockers, vaults, lends, each by id -/
def sortXs (l : List XRec) : List XRec :=
  (l.toArray.qsort (fun a b => kindRank a.kind < kindRank b.kind || (kindRank a.kind = kindRank b.kind && a.eid < b.eid))).toList

def showPaid (p : String × Nat × Int) : String := s!"{p.1}:{p.2.1}:{p.2.2}"

/-! ### monitors on real values -/

/-- first clause on a real split result -/
def splitMon (total epochs : Nat) (real : List Nat) : Bool :=
  if epochs = 0 then false
  else if total < epochs then real.isEmpty
  else real.sum == total && real.length == epochs
        && real.all (fun x => decide (total / epochs ≤ x) && decide (x ≤ total / epochs + 1))

/-- the proved explicit bound, on a REAL payout -/
def shareBound (a S s r : Int) : Bool :=
  decide (r * TWO53 * (2 * Dec.P * Dec.P * S) ≤ (TWO53 + 1) * (2 * a * s * Dec.P * Dec.P + (s + Dec.P) * S))

/-- the literal clause: payout ≤ pro-rata · (1 + 10⁻¹²) -/
def share1e12 (a S s r : Int) : Bool := decide (r * 1000000000000 * S ≤ 1000000000001 * a * s)

def shareMons (tag : String) (a : Int) (el : List Int) (rewards : List Int) : List String :=
  let S := sumL el
  let pairs := el.zip rewards
  (if pairs.all (fun p => shareBound a S p.1 p.2) then [] else [s!"MON\t{tag}\tfarmer_share"]) ++
  (if pairs.all (fun p => share1e12 a S p.1 p.2) then [] else [s!"MON\t{tag}\tfarmer_share_1e12"])

/-- decode a real IEEE-754 bit pattern (normal, non-negative) into the rational `(n, d)` -/
def decodeBits (bits : Nat) : Int × Int :=
  if bits = 0 then (0, 1) else
  let ex : Int := (bits / 4503599627370496 % 2048 : Nat)
  let m : Int := (bits % 4503599627370496 + 4503599627370496 : Nat)
  let e := ex - 1075
  (m * 2 ^ e.toNat, 2 ^ (-e).toNat)

/-- `FloatUpper` (and the symmetric lower bound) on one real conversion -/
def floatHypOn (raw : Int) (bits : Nat) : Bool :=
  let q := decodeBits bits
  decide (0 < q.2) && decide (q.1 * Dec.P * TWO53 ≤ raw * q.2 * (TWO53 + 1))
    && decide (raw * q.2 * (TWO53 - 1) ≤ q.1 * Dec.P * TWO53)

/-! ### the model block -/

def gaugesOf (st : St) (d : String) : List GRec := st.gs.filter (fun r => r.denom = d && !r.sf)
def sfsOf (st : St) (d : String) : List GRec := st.gs.filter (fun r => r.denom = d && r.sf)
def toSf (r : GRec) : SfGauge := { deposit := r.g.deposit, distributed := r.g.distributed, triggered := r.g.triggered }
def extsOf (st : St) (d : String) : List XRec := st.xs.filter (·.denom = d)

def idxOf (l : List Nat) (x : Nat) : Option Nat :=
  let rec go : List Nat → Nat → Option Nat
    | [], _ => none
    | y :: ys, i => if y = x then some i else go ys (i + 1)
  go l 0

/-- durations whose epoch triggers at `now`, and the epochs after the step -/
def stepEpochs (es : List Epoch) (now : Int) : List Epoch × List Int :=
  es.foldl (fun acc e =>
    let (e', t) := epochStep e now
    (acc.1 ++ [e'], if t then acc.2 ++ [e.dur] else acc.2)) ([], [])

def distFor (st : St) (gid : Nat) : Option DistIn := st.dists.find? (·.gid = gid)

def idxOfKey (l : List (String × Nat)) (x : String × Nat) : Option Nat :=
  let rec go : List (String × Nat) → Nat → Option Nat
    | [], _ => none
    | y :: ys, i => if y = x then some i else go ys (i + 1)
  go l 0

/-- the begin-blocker ops of one denomination, in the order the real code executes them, or a BAD message -/
def blockOps (st : St) (d : String) (trigDurs : List Int) : Except String (List BOp) := do
  let mine := gaugesOf st d
  let gids := mine.map (·.gid)
  let sfids := (sfsOf st d).map (·.gid)
  let mut ops : List BOp := []
  for dur in trigDurs do
    for r in st.gs do
      if r.dur = dur && r.denom = d && r.sf then
        match idxOf sfids r.gid with
        | none => throw "swap-fee gauge index"
        | some i =>
          let dd := match distFor st r.gid with | some di => di.d | none => DistData.err
          if r.g.deposit > 0 && (distFor st r.gid).isNone then throw s!"no gauge.dist line for swap-fee gauge {r.gid}"
          match st.sfx.find? (·.1 = r.gid) with
          | none => throw s!"no gauge.sfxfer line for swap-fee gauge {r.gid}"
          | some (_, x, _) => ops := ops ++ [BOp.sfTrigger i dd x]
      -- a swap-fee gauge of another denomination whose fees arrive in this one (`SwapFeeDistrDenom` changed)
      if r.dur = dur && r.denom ≠ d && r.sf then
        match st.sfx.find? (·.1 = r.gid) with
        | some (_, .moved amt, nd) =>
          if nd = d then
            let dd := match distFor st r.gid with | some di => di.d | none => DistData.err
            match sfTrigger (toSf r) dd (.moved amt) with
            | .ok (g', _, _) => if g'.triggered = r.g.triggered + 1 then ops := ops ++ [BOp.sfArrive amt g'.triggered]
            | .error _ => pure ()
        | _ => pure ()
      if r.dur = dur && r.denom = d && !r.sf then
        match idxOf gids r.gid with
        | none => throw "gauge index"
        | some i =>
          -- the distribution data is only consulted when the model gets as far as paying
          let dd := match distFor st r.gid with | some di => di.d | none => DistData.err
          let needs := match trigger r.g st.now (.ok []) with
            | .ok (g', _) => decide (g'.triggered = r.g.triggered + 1)
            | .error _ => false
          if needs && (distFor st r.gid).isNone then throw s!"no gauge.dist line for gauge {r.gid}"
          ops := ops ++ [BOp.trigger i st.now dd]
  let xkeys := (extsOf st d).map (fun r => (r.kind, r.eid))
  for x in st.xouts do
    match idxOfKey xkeys (x.kind, x.eid) with
    | none => pure ()
    | some j =>
      match x.o with
      | .pay pays => ops := ops ++ [BOp.extPay j pays]
      | .off => ops := ops ++ [BOp.extDeactivate j]
      | .skip => pure ()
  return ops

def ledgerOf (st : St) (d : String) : Ledger :=
  { bal := lookupBal st.bals d, gauges := (gaugesOf st d).map (·.g), exts := (extsOf st d).map (·.x), sfs := (sfsOf st d).map toSf }

/-- predicted per-farmer payouts of one denomination (sends in execution order against the running balance) -/
def paidOf (st : St) (d : String) (trigDurs : List Int) : List (Nat × Int) :=
  let step1 := trigDurs.foldl (fun (acc : Int × List (Nat × Int)) dur =>
    st.gs.foldl (fun (acc : Int × List (Nat × Int)) r =>
      if r.dur = dur && r.denom = d && r.sf then
        match distFor st r.gid, st.sfx.find? (·.1 = r.gid) with
        | some di, some (_, x, _) =>
          match sfTrigger (toSf r) di.d x with
          | .ok (_, sends, recv) =>
            let (b, got) := sendAll acc.1 sends
            (b + recv, acc.2 ++ di.recv.zip got)
          | .error _ => acc
        | none, some (_, .ok amt, _) => (acc.1 + amt, acc.2)
        | _, _ => acc
      else if r.dur = dur && r.denom = d && !r.sf then
        match distFor st r.gid with
        | none => acc
        | some di =>
          match trigger r.g st.now di.d with
          | .ok (_, sends) =>
            let (b, got) := sendAll acc.1 sends
            (b, acc.2 ++ di.recv.zip got)
          | .error _ => acc
      else acc) acc) (lookupBal st.bals d, [])
  let xkeys := (extsOf st d).map (fun r => (r.kind, r.eid))
  let step2 := st.xouts.foldl (fun (acc : Int × List (Nat × Int)) x =>
    if xkeys.contains (x.kind, x.eid) then
      match x.o with
      | .pay pays =>
        let (b, got) := sendAll acc.1 pays
        (b, acc.2 ++ x.recv.zip got)
      | _ => acc
    else acc) step1
  step2.2

def mergePaid (l : List (String × Nat × Int)) : List (String × Nat × Int) :=
  let keys := (l.map (fun p => (p.1, p.2.1))).eraseDups
  let sums := keys.map (fun k => (k.1, k.2, sumL ((l.filter (fun p => p.1 = k.1 && p.2.1 = k.2)).map (·.2.2))))
  sums.filter (fun p => p.2.2 ≠ 0)

def sortPaid (l : List (String × Nat × Int)) : List (String × Nat × Int) :=
  (l.toArray.qsort (fun a b => a.1 < b.1 || (a.1 = b.1 && a.2.1 < b.2.1))).toList

/-! ### external programmes in the model block -/

def nowSec (st : St) : Int := st.now / 1000000000

/-- receivers of the entries a lend programme appends to `addrArr` (borrowers that get a weight) -/
def lendRecvs (e : LendEnv) (recv : List Nat) : List Nat :=
  ((e.borrowers.zip recv).filter (fun br => (ExtReward.borrowerWeight e br.1).isSome)).map (·.2)

/-- the three distribution functions on the programmes of this state, in the order of the begin blocker; `none` = a model
panic (the whole begin blocker is rolled back); a missing input line is a protocol error -/
def xBlock (st : St) : Except String (Option (List XOut)) := do
  let now := nowSec st
  let progsOf (k : String) := st.xs.filter (·.kind = k)
  let mut outs : List XOut := []
  for k in ["L", "V"] do
    let ins := st.shareIns.filter (·.kind = k)
    let ps := progsOf k
    if ins.map (·.eid) ≠ ps.map (·.eid) then throw s!"gauge.xshare lines of kind {k} do not match the programmes"
    let pes := (ps.zip ins).map (fun (r, i) => (r.p, i.env))
    match ExtReward.shareBlock now pes with
    | .error _ => return none
    | .ok os =>
      for ((r, i), o) in (ps.zip ins).zip os do
        let el := i.env.users.filter (ExtReward.eligible r.p now)
        outs := outs ++ [{ kind := k, eid := r.eid, o := o, recv := i.recv, nElig := el.length,
                           sumElig := sumL (el.map (·.amt)), total := i.env.total }]
  let ps := progsOf "B"
  if st.lendIns.map (·.eid) ≠ ps.map (·.eid) then throw "gauge.xlend lines do not match the programmes"
  let pes := (ps.zip st.lendIns).map (fun (r, i) => (r.p, i.env))
  let tr := ExtReward.lendBlock now pes Acc.empty
  let mut prevLen := 0
  let mut recvs : List Nat := []
  for ((r, i), (a, o)) in (ps.zip st.lendIns).zip tr do
    if a.ws.length > prevLen then recvs := recvs ++ lendRecvs i.env i.recv
    prevLen := a.ws.length
    let daily := match ExtReward.value i.env.reward r.p.avail with
      | some t => ExtReward.lendDaily r.p t
      | none => 0
    outs := outs ++ [{ kind := "B", eid := r.eid, o := o, recv := recvs, acc := a, daily := daily }]
  return some outs

/-- execute the model block; on a model panic everything (incl. the epoch clocks) stays as it was -/
def runBlock (st0 : St) : St × List String :=
  let base := { st0 with prevGs := st0.gs, prevXs := st0.xs, prevBals := st0.bals, xouts := [] }
  let unchanged (msgs : List String) : St × List String :=
    ({ base with predGs := st0.gs, predXs := st0.xs, predBals := st0.bals, predEpochs := st0.epochs, predPaid := [], leakNow := [] }, msgs)
  match xBlock st0 with
  | .error msg => unchanged [s!"BAD\t-\t{msg}"]
  | .ok none => unchanged []
  | .ok (some xouts) =>
  let st := { st0 with xouts := xouts }
  let base := { base with xouts := xouts }
  let (es', trigDurs) := stepEpochs st.epochs st.now
  let ds := denomsOf st
  let res : Except String (List (String × Ledger) × Bool) := ds.foldlM (fun (acc : List (String × Ledger) × Bool) d => do
    let ops ← blockOps st d trigDurs
    match runB (ledgerOf st d) ops with
    | .ok l' => pure (acc.1 ++ [(d, l')], acc.2)
    | .error _ => pure (acc.1, true)) ([], false)
  match res with
  | .error msg => unchanged [s!"BAD\t-\t{msg}"]
  | .ok (_, true) => unchanged []
  | .ok (ls, false) =>
    let predGs := st.gs.map (fun r =>
      match ls.find? (·.1 = r.denom) with
      | none => r
      | some (_, l) =>
        if r.sf then
          match idxOf ((sfsOf st r.denom).map (·.gid)) r.gid with
          | none => r
          | some i => match l.sfs[i]? with
            | some g =>
              -- `DistributedAmount` is REPLACED by the distributed coin when its denomination differs from the deposit's (gauge.go:275-279)
              let dd := match distFor st r.gid with | some di => di.d | none => DistData.err
              let (dist, dden) := match sfDistribute (toSf r) dd with
                | .ok (some (_, sends)) => if r.g.deposit > 0 && r.dd ≠ r.denom then (sumL sends, r.denom) else (g.distributed, r.dd)
                | _ => (g.distributed, r.dd)
              match st.sfx.find? (·.1 = r.gid) with
              | some (_, .moved amt, nd) =>
                if g.triggered = r.g.triggered + 1 then
                  { r with denom := nd, distDenom := dden, g := { r.g with deposit := amt, distributed := dist, triggered := g.triggered } }
                else { r with distDenom := dden, g := { r.g with deposit := g.deposit, distributed := dist, triggered := g.triggered } }
              | _ => { r with distDenom := dden, g := { r.g with deposit := g.deposit, distributed := dist, triggered := g.triggered } }
            | none => r
        else
        match idxOf ((gaugesOf st r.denom).map (·.gid)) r.gid with
        | none => r
        | some i => match l.gauges[i]? with | some g => { r with g := g } | none => r)
    -- the programme records: timing from `Prog.apply`; the ledger (the object of the custody theorem) must agree on the booking
    let now := nowSec st
    let predXs := st.xs.map (fun r =>
      match xouts.find? (fun x => x.kind = r.kind && x.eid = r.eid) with
      | none => r
      | some x => { r with p := r.p.apply now x.o })
    let bad := predXs.foldl (fun out r =>
      match ls.find? (·.1 = r.denom) with
      | none => out
      | some (_, l) =>
        match idxOfKey ((extsOf st r.denom).map (fun q => (q.kind, q.eid))) (r.kind, r.eid) with
        | none => out
        | some j => match l.exts[j]? with
          | some x => if x = r.x then out else out ++ [s!"BAD\t-\tledger and programme model disagree on {r.kind}{r.eid}"]
          | none => out) []
    let predBals := ls.foldl (fun b p => setBal b p.1 p.2.bal) st.bals
    let paid := ds.foldl (fun acc d => acc ++ (paidOf st d trigDurs).map (fun p => (d, p.1, p.2))) []
    ({ base with predGs := predGs, predXs := predXs, predBals := predBals, predEpochs := es',
                 predPaid := sortPaid (mergePaid paid), leakNow := [] }, bad)

/-! ### per-block monitors on the REAL records -/

def gaugeMons (tag : String) (prev : List GRec) (real : List GRec) : List String :=
  real.foldl (fun out r =>
    if r.sf then
      -- swap-fee gauge: an epoch books at most what was collected at the previous epoch; the deposit stays non-negative
      match prev.find? (·.gid = r.gid) with
      | none => out
      | some p =>
        if p.denom ≠ r.denom || p.dd ≠ r.dd then
          -- the deposit / distributed coin changed denomination: amounts are not comparable; custody (per denomination) covers them
          (if decide (0 ≤ r.g.deposit) && decide (0 ≤ r.g.distributed) && decide (r.g.distributed ≤ p.g.deposit || p.dd = r.dd)
           then out else out ++ [s!"MON\t{tag}\tsf_epoch_cap\tgauge={r.gid}"]) else
        let paid := r.g.distributed - p.g.distributed
        let ok := decide (0 ≤ r.g.deposit) && decide (0 ≤ paid) && (decide (paid ≤ p.g.deposit) || decide (paid = 0)) &&
          decide (p.g.deposit - paid ≤ r.g.deposit) &&
          (decide (r.g.triggered = p.g.triggered + 1) || (decide (r.g.triggered = p.g.triggered) && decide (r.g.deposit = p.g.deposit - paid)))
        if ok then out else out ++ [s!"MON\t{tag}\tsf_epoch_cap\tgauge={r.gid}"]
    else
    let cum := gaugeOk r.g &&
      decide (r.g.distributed ≤ (prefixSum r.g.deposit.toNat r.g.total r.g.triggered : Int))
    let o1 := if cum then [] else [s!"MON\t{tag}\tcumulative_cap\tgauge={r.gid}"]
    let o2 := match prev.find? (·.gid = r.gid) with
      | none => []
      | some p =>
        let ok :=
          if r.g.triggered = p.g.triggered + 1 then
            decide (p.g.distributed ≤ r.g.distributed) &&
            decide (r.g.distributed - p.g.distributed ≤ (splitAt p.g.deposit.toNat p.g.total p.g.triggered : Int))
          else if r.g.triggered = p.g.triggered then decide (r.g.distributed = p.g.distributed)
          else false
        if ok && decide (r.g.deposit = p.g.deposit) then [] else [s!"MON\t{tag}\tepoch_cap\tgauge={r.gid}"]
    out ++ o1 ++ o2) []

/-- custody per denomination; swap-fee gauges count with their whole (undistributed) deposit.
`custody`: the proved ledger invariant (signed sum of all remainders ≤ balance, every gauge within its deposit).
`custody_ext_overpaid`: the extra hypothesis of `custody_ge_active_remaining` — no programme has paid more than it
had; together they are the clause as worded. -/
def custodyMons (tag : String) (st : St) : List String :=
  (denomsOf st).foldl (fun out d =>
    let gs := (st.gs.filter (·.denom = d)).map (fun r => if r.sf then { r.g with distributed := 0 } else r.g)
    let xs := (extsOf st d).map (·.x)
    let nonSf := (gaugesOf st d).map (·.g)
    -- `custody_sf_leak` (regression monitor of the repaired finding D44): custody fails in a denomination in which a swap-fee
    -- trigger paid coins without booking them (`sf_leak`)
    let lk := lookupBal st.leaked d
    let ok := decide (remGauges gs + remExts xs ≤ lookupBal st.bals d) && nonSf.all gaugeOk
    let okLeak := decide (lk = 0) || ok
    let okx := xs.all (fun x => decide (0 ≤ x.avail))
    out ++ (if ok then [] else [s!"MON\t{tag}\tcustody\tdenom={d}"])
        ++ (if okLeak then [] else [s!"MON\t{tag}\tcustody_sf_leak\tdenom={d} unbooked={lk}"])
        ++ (if okx then [] else [s!"MON\t{tag}\tcustody_ext_overpaid\tdenom={d}"])) []

/-- bank-side epoch cap: what left the module account in this block is covered by the allocations of the
gauges that advanced plus what the external programmes booked as paid -/
def outflowMons (tag : String) (st : St) : List String :=
  (denomsOf st).foldl (fun out d =>
    let allocs := sumL ((st.gs.filter (fun r => r.denom = d && !r.sf)).map (fun r =>
      match st.prevGs.find? (·.gid = r.gid) with
      | some p => if r.g.triggered = p.g.triggered + 1 then (splitAt p.g.deposit.toNat p.g.total p.g.triggered : Int) else 0
      | none => 0))
    let extd := sumL ((extsOf st d).map (fun r =>
      match st.prevXs.find? (fun q => q.kind = r.kind && q.eid = r.eid) with | some p => p.x.avail - r.x.avail | none => 0))
    -- swap-fee gauges: what they booked as distributed; coins arriving from the fee collectors only raise the balance
    let sfd := sumL ((st.gs.filter (fun r => r.denom = d && r.sf)).map (fun r =>
      match st.prevGs.find? (·.gid = r.gid) with | some p => r.g.distributed - p.g.distributed | none => 0))
    if lookupBal st.prevBals d - lookupBal st.bals d ≤ allocs + extd + sfd then out
    else out ++ [s!"MON\t{tag}\tepoch_cap\tdenom={d} outflow"]) []

/-- external programmes, on the REAL records after the block (`prev` = the real records before it):
`ext_epoch_cap`       the clause as worded: an epoch books at most `AvailableRewards / daysLeft`, nothing is booked otherwise
`ext_epoch_bound`     the bound PROVED for the code as it is (`ext_share_epoch_bound`, `ext_lend_epoch_bound`)
`ext_cumulative_cap`  everything booked so far is within the funding, and `AvailableRewards = funding − booked`
`ext_available_nonneg` `AvailableRewards ≥ 0`
`ext_schedule`        at most one epoch per block, only when due and active, at most `DurationDays` epochs, next due a day later
`ext_share_total`     hypothesis of the proved bound: the eligible positions add up to at most the total share -/
def xMons (tag : String) (st : St) (real : List XRec) : List XRec × List String :=
  let now := nowSec st
  real.foldl (fun (acc : List XRec × List String) r =>
    let key := s!"{r.kind}{r.eid}"
    match st.prevXs.find? (fun q => q.kind = r.kind && q.eid = r.eid) with
    | none => (acc.1 ++ [r], acc.2 ++ [s!"BAD\t{tag}\tprogramme {key} unknown"])
    | some p =>
      let paid := p.p.avail - r.p.avail
      let adv := decide (r.p.count = p.p.count + 1)
      let same := decide (r.p.count = p.p.count)
      let cap := if adv then ExtReward.capOk p.p paid else same && decide (paid = 0)
      let xo := st.xouts.find? (fun x => x.kind = r.kind && x.eid = r.eid)
      let (hyp, bound) := match xo with
        | none => (true, !adv)
        | some x =>
          if !adv then (true, decide (paid = 0))
          else if r.kind = "B" then
            (true, ExtReward.accOk x.acc && (if x.acc.tot > 0 ∧ x.daily ≥ 0 then ExtReward.lendBoundOk x.acc.ws x.acc.tot x.daily paid
                                              else decide (paid = 0)))
          else
            let h := decide (x.sumElig ≤ x.total) || decide (x.nElig = 0)
            (h, if p.p.avail ≤ 0 ∨ x.nElig = 0 then decide (paid = 0)
                else !h || ExtReward.shareBoundOk p.p x.nElig paid)
      let cum := p.cum + paid
      -- a state violation is reported in the block that produces it
      let cumOk := decide (cum = r.p.total - r.p.avail) && decide (0 ≤ paid) && (decide (cum ≤ r.p.total) || decide (paid = 0))
      let sched := decide ((r.p.count : Int) ≤ r.p.days) && decide (r.p.total = p.p.total) && decide (r.p.days = p.p.days) &&
        (if adv then p.p.active && decide (p.p.start < now) && decide (r.p.start = now + ExtReward.DAY) && r.p.active
         else same && decide (r.p.start = p.p.start) && (r.p.active == p.p.active || (p.p.active && decide (p.p.start < now) && decide ((p.p.count : Int) ≥ p.p.days))))
      -- a lend programme over its cap: which of the two known causes explains it (both can be present)
      let lendCause : List String :=
        if cap || r.kind ≠ "B" then [] else
        match st.lendIns.find? (·.eid = r.eid) with
        | none => []
        | some i =>
          (if i.env.reward.twa ≠ i.env.reward.dec then [s!"MON\t{tag}\text_lend_value_as_amount\tprog={key} twa={i.env.reward.twa} decimals={i.env.reward.dec}"] else []) ++
          (match xo with
           | some x => if sumL x.acc.ws ≠ x.acc.tot * Dec.P then [s!"MON\t{tag}\text_lend_truncated_total\tprog={key} total={x.acc.tot}"] else []
           | none => [])
      let out := lendCause ++
        (if cap then [] else [s!"MON\t{tag}\text_epoch_cap\tprog={key} paid={paid} avail={p.p.avail} daysLeft={p.p.daysLeft}"]) ++
        (if bound then [] else [s!"MON\t{tag}\text_epoch_bound\tprog={key} paid={paid}"]) ++
        (if hyp then [] else [s!"MON\t{tag}\text_share_total\tprog={key}"]) ++
        (if cumOk then [] else [s!"MON\t{tag}\text_cumulative_cap\tprog={key} booked={cum} funding={r.p.total}"]) ++
        (if ExtReward.availOk r.p || decide (paid = 0) then [] else [s!"MON\t{tag}\text_available_nonneg\tprog={key} avail={r.p.avail}"]) ++
        (if sched then [] else [s!"MON\t{tag}\text_schedule\tprog={key}"])
      (acc.1 ++ [{ r with cum := cum }], acc.2 ++ out)) ([], [])

def parsePrice (s : String) : Option Price :=
  match s.splitOn ":" with
  | [f, a, t, d] => do
    let f ← parseBool? f; let a ← parseBool? a; let t ← parseInt? t; let d ← parseInt? d
    pure { found := f, active := a, twa := t, dec := d }
  | _ => none

def parseUser : List String → Option (User × Nat)
  | [a, c, r] => do let a ← parseInt? a; let c ← parseInt? c; let r ← parseNat? r; pure ({ amt := a, created := c }, r)
  | _ => none

def parseBorrower : List String → Option (Borrower × Nat)
  | [l, a, f, x, y, r] => do
    let l ← parseBool? l; let a ← parseInt? a; let f ← parseBool? f; let x ← parseInt? x; let y ← parseInt? y; let r ← parseNat? r
    pure ({ liquidated := l, amt := a, farmed := f, x := x, y := y }, r)
  | _ => none

/-! ### line handler -/

def handle (st : St) (seq : String) (f : List String) : St × List String :=
  match f with
  | ["gauge.split.single", total, epochs, outcome, real] =>
    match parseNat? total, parseNat? epochs, csvNats real with
    | some t, some n, some real =>
      let m := match split t n with | .ok l => s!"ok\t{showNatList l}" | .error _ => "panic\t"
      let d := if m = s!"{outcome}\t{showNatList real}" then [] else [s!"DIFF\t{seq}\tmodel={m}\timpl={outcome} {showNatList real}"]
      -- the clause speaks about accepted gauges: 1 ≤ epochs ≤ total (and total < epochs ⇒ no allocations)
      let mon := if n = 0 then (if outcome = "panic" then [] else [s!"MON\t{seq}\tsplit_sum"])
                 else if outcome = "ok" && splitMon t n real then [] else [s!"MON\t{seq}\tsplit_sum"]
      (st, d ++ mon)
    | _, _, _ => (st, [s!"BAD\t{seq}\tsplit"])
  | ["gauge.f64.single", raw, bits] =>
    match parseInt? raw, parseNat? bits with
    | some raw, some bits =>
      let d := if f64bits raw = bits then [] else [s!"DIFF\t{seq}\tfloat test: model bits={f64bits raw}\timpl={bits}"]
      let mon := if floatHypOn raw bits then [] else [s!"MON\t{seq}\tfloat_hyp"]
      (st, d ++ mon)
    | _, _ => (st, [s!"BAD\t{seq}\tf64"])
  | ["gauge.shares.single", mode, alloc, mpos, cpos, outcome, rewards] =>
    match parseInt? alloc, parseFarmers mpos cpos, csvInts rewards with
    | some a, some fs, some rewards =>
      let el := weightsOf mode fs
      let m := sharesFrom f64 a (mode = "1") fs
      let ms := match m with | .ok l => s!"ok\t{showIntList l}" | .error _ => "panic\t"
      let d := if ms = s!"{outcome}\t{showIntList rewards}" then [] else [s!"DIFF\t{seq}\tmodel={ms}\timpl={outcome} {showIntList rewards}"]
      let mon := if outcome = "ok" then shareMons seq a el rewards else []
      (st, d ++ mon)
    | _, _, _ => (st, [s!"BAD\t{seq}\tshares"])
  | ["gauge.begin", minDur] =>
    match parseInt? minDur with
    | some m => ({ minDur := m }, [])
    | none => (st, [s!"BAD\t{seq}\tbegin"])
  | ["gauge.sfgauge", gid, denom, dur, now] =>
    match parseNat? gid, parseInt? dur, parseInt? now with
    | some gid, some dur, some now =>
      let r : GRec := { gid := gid, denom := denom, sf := true, dur := dur,
                        g := { deposit := 0, distributed := 0, triggered := 0, total := 1, active := true, start := now } }
      ({ st with gs := st.gs ++ [r], epochs := insertEpoch st.epochs (newEpoch now dur) }, [])
    | _, _, _ => (st, [s!"BAD\t{seq}\tsfgauge"])
  | ["gauge.create", gid, denom, deposit, total, start, now, dur, funds, aux, outcome, sp] =>
    match parseNat? gid, parseInt? deposit, parseNat? total, parseInt? start, parseInt? now, parseInt? dur, parseInt? funds, parseBool? aux with
    | some gid, some dep, some total, some start, some now, some dur, some funds, some aux =>
      let l := ledgerOf st denom
      let l' := step l (.createGauge dep total start now dur st.minDur aux funds)
      let mok := decide (l'.gauges.length = l.gauges.length + 1)
      let d := if mok = (outcome = "ok") then [] else [s!"DIFF\t{seq}\tmodel accepted={mok}\timpl={outcome}"]
      if outcome = "ok" then
        let r : GRec := { gid := gid, denom := denom, sf := false, dur := dur, g := newGauge dep total start }
        let st' := { st with gs := st.gs ++ [r], bals := setBal st.bals denom (lookupBal st.bals denom + dep),
                             epochs := insertEpoch st.epochs (newEpoch now dur) }
        -- first clause on the REAL split of the accepted gauge (`zero_epochs`: a zero-epoch gauge got accepted again —
        -- regression of the repaired defect; the model refuses it, so a DIFF accompanies it)
        let mon :=
          if total = 0 then [s!"MON\t{seq}\tzero_epochs\tgauge={gid}"]
          else match sp.splitOn ":" with
            | ["ok", csv] => match csvNats csv with
              | some real => if splitMon dep.toNat total real then [] else [s!"MON\t{seq}\tsplit_sum\tgauge={gid}"]
              | none => [s!"BAD\t{seq}\tcreate split"]
            -- a deposit ≥ 2^64 has no split at all (`Uint64()` panics in every begin blocker, which is rolled back:
            -- nothing is ever paid; a liveness matter for C15, see notes/C19.md) — no allocation to check
            | ["none"] => []
            | _ => [s!"MON\t{seq}\tsplit_sum\tgauge={gid}"]
        (st', d ++ mon)
      else (st, d)
    | _, _, _, _, _, _, _, _ => (st, [s!"BAD\t{seq}\tcreate"])
  | ["gauge.fund", denom, amount] =>
    match parseInt? amount with
    | some a => ({ st with bals := setBal st.bals denom (lookupBal st.bals denom + a) }, [])
    | none => (st, [s!"BAD\t{seq}\tfund"])
  | ["gauge.xnew", kind, eid, denom, amount, days, minLock, now, first, funds, aux, outcome] =>
    match parseNat? eid, parseInt? amount, parseInt? days, parseInt? minLock, parseInt? now, parseInt? first, parseInt? funds, parseBool? aux with
    | some eid, some a, some days, some minLock, some now, some first, some funds, some aux =>
      let mok := ExtReward.createGuard a days funds aux
      let d := if mok = (outcome = "ok") then [] else [s!"DIFF\t{seq}\tmodel accepted={mok}\timpl={outcome}"]
      -- the first due time is part of the code being modelled: 86400 s, but 84600 s for lend programmes
      let firstOk := decide (first = (if kind = "B" then ExtReward.LENDFIRST else ExtReward.DAY))
      let d := d ++ (if firstOk then [] else [s!"BAD\t{seq}\tfirst due offset"])
      if outcome = "ok" then
        ({ st with xs := st.xs ++ [{ kind := kind, eid := eid, denom := denom, p := ExtReward.newProg a days minLock now first }],
                   bals := setBal st.bals denom (lookupBal st.bals denom + a) }, d)
      else (st, d)
    | _, _, _, _, _, _, _, _ => (st, [s!"BAD\t{seq}\txnew"])
  | ["gauge.block", now] =>
    match parseInt? now with
    | some now => ({ st with now := now, dists := [], sfx := [], leakNow := [], shareIns := [], lendIns := [], xouts := [] }, [])
    | none => (st, [s!"BAD\t{seq}\tblock"])
  | ["gauge.dist", gid, alloc, mode, mpos, cpos, outcome, recv, rewards] =>
    match parseNat? gid, parseInt? alloc, parseFarmers mpos cpos, csvNats recv, csvInts rewards with
    | some gid, some a, some fs, some recv, some rewards =>
      let el := weightsOf mode fs
      let m := sharesFrom f64 a (mode = "1") fs
      -- a disabled pool / missing price is an error before any arithmetic: taken from the implementation
      let ms := if outcome = "err" then "err\t" else match m with | .ok l => s!"ok\t{showIntList l}" | .error _ => "panic\t"
      let d := if ms = s!"{outcome}\t{showIntList rewards}" then [] else [s!"DIFF\t{seq}\tmodel={ms}\timpl={outcome} {showIntList rewards}"]
      let mon := if outcome = "ok" then shareMons seq a el rewards else []
      -- the gauge's own allocation must be the one the harness asked the share computation about
      let da := match st.gs.find? (·.gid = gid) with
        | some r =>
          if r.sf then (if r.g.deposit = a then [] else [s!"DIFF\t{seq}\tswap-fee gauge deposit model={r.g.deposit}\timpl={a}"]) else
          match allocation r.g with
          | .ok (some a') => if a' = a then [] else [s!"DIFF\t{seq}\tallocation model={a'}\timpl={a}"]
          | _ => [s!"DIFF\t{seq}\tallocation model=none\timpl={a}"]
        | none => [s!"BAD\t{seq}\tdist for unknown gauge"]
      let dd : DistData := if outcome = "err" then .err else if outcome = "panic" then .ok [-1] else .ok rewards
      ({ st with dists := st.dists ++ [{ gid := gid, d := dd, recv := recv }] }, d ++ mon ++ da)
    | _, _, _, _, _ => (st, [s!"BAD\t{seq}\tdist"])
  | ["gauge.sfxfer", gid, outcome, amount, denom] =>
    match parseNat? gid, parseNat? amount with
    | some gid, some amount =>
      let gden := match st.gs.find? (·.gid = gid) with | some r => r.denom | none => denom
      let x := if outcome ≠ "ok" then Xfer.err else if gden = denom then Xfer.ok amount else Xfer.moved amount
      ({ st with sfx := st.sfx ++ [(gid, x, denom)] }, [])
    | _, _ => (st, [s!"BAD\t{seq}\tsfxfer"])
  | ["gauge.xshare", kind, eid, halt, total, users] =>
    match parseNat? eid, parseBool? halt, parseInt? total, (if users = "-" || users = "" then some [] else (users.splitOn ",").mapM (fun e => parseUser (e.splitOn ":"))) with
    | some eid, some halt, some total, some us =>
      ({ st with shareIns := st.shareIns ++ [{ kind := kind, eid := eid, env := { halt := halt, total := total, users := us.map (·.1) }, recv := us.map (·.2) }] }, [])
    | _, _, _, _ => (st, [s!"BAD\t{seq}\txshare"])
  | ["gauge.xlend", eid, halt, stats, asset, quote, base, borrowers, rewardAsset, reward] =>
    match parseNat? eid, parseBool? halt, parseBool? stats, parsePrice asset, parsePrice quote, parsePrice base,
          recList borrowers parseBorrower, parseBool? rewardAsset, parsePrice reward with
    | some eid, some halt, some stats, some asset, some quote, some base, some bs, some ra, some reward =>
      let env : LendEnv := { halt := halt, stats := stats, asset := asset, quote := quote, base := base, borrowers := bs.map (·.1),
                             rewardAsset := ra, reward := reward }
      ({ st with lendIns := st.lendIns ++ [{ eid := eid, env := env, recv := bs.map (·.2) }] }, [])
    | _, _, _, _, _, _, _, _, _ => (st, [s!"BAD\t{seq}\txlend"])
  | ["gauge.run", _] =>
    let (st', out) := runBlock st
    (st', out.map (fun o => o.replace "\t-\t" s!"\t{seq}\t"))
  | ["gauge.epochs", recs] =>
    match recList recs parseE with
    | some real =>
      let d := if real = st.predEpochs then [] else
        [s!"DIFF\t{seq}\tepochs model={";".intercalate (st.predEpochs.map showE)}\timpl={";".intercalate (real.map showE)}"]
      ({ st with epochs := real }, d)
    | none => (st, [s!"BAD\t{seq}\tepochs"])
  | ["gauge.gauges", recs] =>
    match recList recs parseG with
    | some real =>
      let cmp := real.foldl (fun out r =>
        if r.sf then
          match st.predGs.find? (·.gid = r.gid) with
          | some p => if toSf p = toSf r && p.denom = r.denom && p.dd = r.dd then out
                      else out ++ [s!"DIFF\t{seq}\tswap-fee gauge model={showG p} dist={p.dd}\timpl={showG r} dist={r.dd}"]
          | none => out ++ [s!"DIFF\t{seq}\tswap-fee gauge {r.gid} unknown to the model"]
        else
        match st.predGs.find? (·.gid = r.gid) with
        | some p => if p.g = r.g then out else out ++ [s!"DIFF\t{seq}\tgauge model={showG p}\timpl={showG r}"]
        | none => out ++ [s!"DIFF\t{seq}\tgauge {r.gid} unknown to the model"]) []
      let missing := st.predGs.foldl (fun out p =>
        if real.any (·.gid = p.gid) then out else out ++ [s!"DIFF\t{seq}\tgauge {p.gid} missing in impl"]) []
      let mons := gaugeMons seq st.prevGs real
      -- `sf_leak` (regression monitor of the repaired finding D44): in a block in which the fee transfer of a swap-fee gauge
      -- failed after its distribution paid `s > 0` (inputs of this block, `sfDistribute`), the REAL record must have booked `s`
      let leaks := real.foldl (fun (acc : List (String × Int)) r =>
        if !r.sf then acc else
        match st.prevGs.find? (·.gid = r.gid), st.predGs.find? (·.gid = r.gid) with
        | some p, some q =>
          let expected := q.g.distributed - p.g.distributed
          let booked := r.g.distributed - p.g.distributed
          if q.g.triggered = p.g.triggered && q.dd = p.dd && r.dd = p.dd && expected > 0 && booked < expected then acc ++ [(r.denom, expected - booked)] else acc
        | _, _ => acc) []
      let leakMons := leaks.map (fun p => s!"MON\t{seq}\tsf_leak\tdenom={p.1} paid-but-not-booked={p.2}")
      let leaked := leaks.foldl (fun acc p => setBal acc p.1 (lookupBal acc p.1 + p.2)) st.leaked
      ({ st with gs := real, leaked := leaked }, cmp ++ missing ++ mons ++ leakMons)
    | none => (st, [s!"BAD\t{seq}\tgauges"])
  | ["gauge.xprogs", recs] =>
    match recList recs parseX with
    | some real =>
      let pred := sortXs st.predXs
      let d := if (sortXs real).map showX = pred.map showX then [] else
        [s!"DIFF\t{seq}\tprogrammes model={";".intercalate (pred.map showX)}\timpl={";".intercalate (real.map showX)}"]
      let (real', mons) := xMons seq st real
      ({ st with xs := real' }, d ++ mons)
    | none => (st, [s!"BAD\t{seq}\txprogs"])
  | ["gauge.bals", recs] =>
    match recList recs parseBalRec with
    | some real =>
      let d := (denomsOf st).foldl (fun out dn =>
        if lookupBal real dn = lookupBal st.predBals dn then out
        else out ++ [s!"DIFF\t{seq}\tmodule balance {dn} model={lookupBal st.predBals dn}\timpl={lookupBal real dn}"]) []
      let st' := { st with bals := real }
      (st', d ++ custodyMons seq st' ++ outflowMons seq st')
    | none => (st, [s!"BAD\t{seq}\tbals"])
  | ["gauge.paid", recs] =>
    match recList recs parsePaid with
    | some real =>
      let real := sortPaid real
      let d := if real = st.predPaid then [] else
        [s!"DIFF\t{seq}\tpayouts model={";".intercalate (st.predPaid.map showPaid)}\timpl={";".intercalate (real.map showPaid)}"]
      (st, d)
    | none => (st, [s!"BAD\t{seq}\tpaid"])
  | _ => (st, [s!"BAD\t{seq}\tunknown gauge line"])

end Comdex.Drv.Gauge
