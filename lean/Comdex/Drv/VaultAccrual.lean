import Comdex.Base.Line
import Comdex.Model.VaultAccrual
/-! Driver plug-in for the vault stability-fee bookkeeping (C18, state level).

  va.begin   appWl fee stable pbh pbt amountOut ia vbh vbt tracker|none
  va.calc    kind(msg|direct) now height debt bh bt powbits   outcome  <state>  legit
  va.deposit now height amount powbits                         outcome  <state>  legit    (real MsgDeposit on the vault)
  va.update  now height newFee powbits                         outcome  <state>  legit
  va.once    now height powbits                                outcome  <state>     one MsgVaultInterestCalc on a BRANCH of the
                                                                                    current state (discarded): the single accrual over
                                                                                    the interval the next two va.calc lines cover
<state> := fee pbh pbt ia vbh vbt tracker|none  (seven fields: the real records after the call).  outcome ∈ ok err panic.
The model state is replaced by the real projection after every line. Monitor `accrual_subadditive` (on REAL numbers): what two
consecutive calculations booked (vault interest + tracker fraction) is at most what the single calculation booked, plus the
explicit float slack `Accrual.subaddErr` and the interest on the whole units the first calculation moved into the debt.
legit := xbits:ybits:pbits for the interval the SPECIFICATION allows the call to accrue — from max(last fee update, last settlement
of the vault) to now at the fee in force, computed by the harness's ghost which never reads the stamps (the driver keeps the same
ghost, `Spec`; BAD if they disagree) — or `-`. Monitors on the REAL booked amounts, as for lockers (`Drv/LockerAccrual.lean`):
`zero_time`, `zero_rate_window`, `accrued_interval`, `zero_rate`; suffix `_touched`: the vault was deposited into while the fee was
zero (the code then loses the `BlockHeight = 0` flag: reproduced defect D46, notes/C18.md). -/
namespace Comdex.Drv.VaultAccrualDrv
open Comdex Comdex.Line Comdex.Accrual Comdex.VaultAccrual

/-- one real MsgVaultInterestCalc with an active fee -/
structure Step where
  debt : Int
  pw : Int
  now : Int
  deriving Inhabited

/-- the single accrual announced by a `va.once` line -/
structure Once where
  debt : Int
  pw : Int
  now : Int
  booked : Int        -- real `booked` after the single calculation
  steps : List Step := []

/-- specification-side ghost: what SHOULD be accrued, from the history of calls alone -/
structure Spec where
  fee : Dec := 0
  segStart : Int := 0      -- time of the last accepted fee update
  settled : Int := 0       -- time the vault was last settled (calculated, deposited into, swept)
  zeroSeen : Bool := false -- the fee was zero at some time since `settled`
  touched : Bool := false  -- deposit while the fee was zero, since the last settlement at a running fee
  muted : Bool := false    -- the clock was set back (error path of the harness): no specification until the next settlement
  clockMax : Int := 0

structure St where
  s : Option VaultAccrual.St := none
  once : Option Once := none
  spec : Spec := {}

def init : St := {}

def monE : Nat := 2 ^ 40

def parseTr (s : String) : Option (Option Int) := if s = "none" then some none else (parseInt? s).map some
def showTr : Option Int → String | none => "none" | some t => toString t

def showSt (s : VaultAccrual.St) : String :=
  s!"{s.pair.fee} {s.pair.bh} {s.pair.bt} {s.vault.ia} {s.vault.bh} {s.vault.bt} {showTr s.tracker}"

/-- the real projection: the fields the model does not change are taken from the model state -/
def parseProj (m : VaultAccrual.St) (f : List String) : Option VaultAccrual.St :=
  match f with
  | [fee, pbh, pbt, ia, vbh, vbt, tr] =>
    match parseInt? fee, parseInt? pbh, parseInt? pbt, parseInt? ia, parseInt? vbh, parseInt? vbt, parseTr tr with
    | some fee, some pbh, some pbt, some ia, some vbh, some vbt, some tr =>
      some { m with pair := { m.pair with fee := fee, bh := pbh, bt := pbt },
                    vault := { m.vault with ia := ia, bh := vbh, bt := vbt }, tracker := tr }
    | _, _, _, _, _, _, _ => none
  | _ => none

def active (s : VaultAccrual.St) : Bool := s.appWl && s.pair.fee != 0 && !s.pair.stable

/-- compare a model result with the real outcome and projection; returns the state to continue from and DIFF lines -/
def settle (seq what : String) (cur : VaultAccrual.St) (model : Option (Option VaultAccrual.St)) (o : String) (proj : List String) :
    VaultAccrual.St × List String :=
  -- model : none = panic, some none = err (state unchanged), some (some s) = ok
  let mo := match model with | none => "panic" | some none => "err" | some (some _) => "ok"
  match parseProj cur proj with
  | none => (cur, [s!"BAD\t{seq}\tcannot parse state"])
  | some real =>
    let ms := match model with | some (some s) => s | _ => cur
    let d := if mo = o && ms = real then [] else [s!"DIFF\t{seq}\t{what}: model={mo} {showSt ms}\timpl={o} {showSt real}"]
    (real, d)

def toRes : Res → Option (Option VaultAccrual.St)
  | .ok s => some (some s)
  | .err => some none
  | .panic => none


/-- `xbits:ybits:pbits` -/
def parsePow (s : String) : Option (Nat × Nat × Nat) :=
  match s.splitOn ":" with
  | [x, y, p] => match parseNat? x, parseNat? y, parseNat? p with
    | some x, some y, some p => some (x, y, p)
    | _, _, _ => none
  | _ => none

/-- monitors of one accepted accruing call on the REAL booked amount; `debt` = the principal the call accrues on -/
def specMon (seq : String) (sp : Spec) (cur real : VaultAccrual.St) (now debt : Int) (legit : String) : List String × List String :=
  let credited : Int := booked real - booked cur
  let sfx := if sp.touched then "_touched" else ""
  let nonneg : List String := if credited < 0 then ["credited_nonneg"] else []
  if sp.muted || decide (now < sp.clockMax) || !cur.appWl || cur.pair.stable then ([], [])
  else if sp.fee = 0 then ([], if credited > 0 then ["zero_rate" ++ sfx] else nonneg)
  else match parsePow legit with
    | none => ([s!"BAD\t{seq}\tlegit pow missing"], [])
    | some (xb, yb, pb) =>
      let start := if sp.segStart ≤ sp.settled then sp.settled else sp.segStart
      let secs := now - start
      if !(ofBits xb = some (xF sp.fee) && ofBits yb = some (yF secs)) then
        ([s!"BAD\t{seq}\tlegit pow arguments: harness ghost and driver ghost disagree (driver: fee {sp.fee}, {secs} s)"], [])
      else match ofBits pb with
        | none => ([], [])
        | some p =>
          let bound := interestOfPow p (aF debt)
          ([], nonneg ++
            (if secs = 0 && credited > 0 then ["zero_time" ++ sfx]
             else if credited > bound then [(if sp.zeroSeen then "zero_rate_window" else "accrued_interval") ++ sfx]
             else []))

def specSettle (sp : Spec) (now : Int) (touch : Bool) : Spec :=
  if decide (now < sp.clockMax) then { sp with muted := true }
  else if sp.fee != 0 then { sp with settled := now, zeroSeen := false, touched := false, muted := false }
  else if touch then { sp with settled := now, zeroSeen := true, touched := true }
  else sp

def specUpdate (sp : Spec) (now : Int) (newFee : Dec) : Spec :=
  let swept := sp.fee != 0
  { sp with fee := newFee, segStart := now,
            settled := if swept then now else sp.settled,
            zeroSeen := if swept then decide (newFee = 0) else (sp.zeroSeen || decide (newFee = 0) || decide (sp.fee = 0)),
            touched := if swept then false else sp.touched }

def bumpClock (sp : Spec) (now : Int) : Spec := { sp with clockMax := if sp.clockMax < now then now else sp.clockMax }

/-- split the trailing `legit` field off the seven state fields -/
def splitLegit (f : List String) : List String × String :=
  match f.reverse with
  | l :: r => if r.length = 7 then (r.reverse, l) else (f, "-")
  | [] => (f, "-")

-- DRIVER: prefix=va ns=Comdex.Drv.VaultAccrualDrv
def handle (st : St) (seq : String) (f : List String) : St × List String :=
  match f with
  | ["va.begin", wl, fee, stb, pbh, pbt, ao, ia, vbh, vbt, tr] =>
    match parseBool? wl, parseInt? fee, parseBool? stb, parseInt? pbh, parseInt? pbt, parseInt? ao, parseInt? ia,
          parseInt? vbh, parseInt? vbt, parseTr tr with
    | some wl, some fee, some stb, some pbh, some pbt, some ao, some ia, some vbh, some vbt, some tr =>
      let start := VaultAccrual.since pbt vbh vbt
      ({ s := some { appWl := wl, pair := ⟨fee, stb, pbh, pbt⟩, vault := ⟨ao, ia, vbh, vbt⟩, tracker := tr },
         spec := { fee := fee, segStart := pbt, settled := start, zeroSeen := decide (fee = 0), clockMax := start } }, [])
    | _, _, _, _, _, _, _, _, _, _ => (st, [s!"BAD\t{seq}\tva.begin args"])
  | "va.calc" :: kind :: now :: h :: debt :: bh :: bt :: pb :: o :: projL =>
    match st.s, parseInt? now, parseInt? h, parseInt? debt, parseInt? bh, parseInt? bt, parseNat? pb with
    | some cur, some now, some h, some debt, some bh, some bt, some pb =>
      let (proj, legit) := splitLegit projL
      let pw := ofBits pb
      let pre := if kind = "msg" && (debt != cur.vault.amountOut + cur.vault.ia || bh != cur.vault.bh || bt != cur.vault.bt)
        then [s!"DIFF\t{seq}\tMsgVaultInterestCalc arguments: model={cur.vault.amountOut + cur.vault.ia} {cur.vault.bh} {cur.vault.bt}\timpl={debt} {bh} {bt}"]
        else []
      let (real, d) := settle seq "calc" cur (toRes (calcInterest cur ⟨now, h⟩ debt bh bt pw)) o proj
      -- monitor: two consecutive real calculations against the announced single one
      let (once', mon) : Option Once × List String :=
        match st.once, pw with
        | some oc, some p =>
          if kind = "msg" && o = "ok" && active cur && debt ≥ oc.debt then
            let steps := oc.steps ++ [{ debt := debt, pw := p, now := now : Step }]
            if steps.length < 2 then (some { oc with steps := steps }, [])
            else
              match steps with
              | [s1, s2] =>
                if s2.now = oc.now && s1.debt = oc.debt && s1.now ≤ s2.now then
                  let compounding : Int := interestOfPow s2.pw (aF s2.debt) - interestOfPow s2.pw (aF s1.debt)
                  let lhs : Rat := ((booked real : Int) : Rat)
                  let rhs : Rat := ((oc.booked + compounding : Int) : Rat) + subaddErr monE (aF oc.debt) oc.pw
                  (none, if lhs ≤ rhs then [] else [s!"MON\t{seq}\taccrual_subadditive"])
                else (none, [])
              | _ => (none, [])
          else (none, [])
        | _, _ => (none, [])
      let (bad, smon) := if o = "ok" then specMon seq st.spec cur real now debt legit else ([], [])
      let sp' := bumpClock (if o = "ok" then specSettle st.spec now false else st.spec) now
      ({ s := some real, once := once', spec := sp' }, pre ++ d ++ mon ++ bad ++ smon.map fun m => s!"MON\t{seq}\t{m}")
    | _, _, _, _, _, _, _ => (st, [s!"BAD\t{seq}\tva.calc args"])
  | "va.deposit" :: now :: h :: _amt :: pb :: o :: projL =>
    match st.s, parseInt? now, parseInt? h, parseNat? pb with
    | some cur, some now, some h, some pb =>
      let (proj, legit) := splitLegit projL
      let (real, d) := settle seq "deposit" cur (toRes (msgDeposit cur ⟨now, h⟩ (ofBits pb))) o proj
      -- also accepted in its repaired form (D46)
      let d := if d.isEmpty then d else
        let (_, d2) := settle seq "deposit" cur (toRes (msgDepositFix cur ⟨now, h⟩ (ofBits pb))) o proj
        if d2.isEmpty then [] else d
      let (bad, smon) := if o = "ok" then specMon seq st.spec cur real now (cur.vault.amountOut + cur.vault.ia) legit else ([], [])
      let sp' := bumpClock (if o = "ok" then specSettle st.spec now true else st.spec) now
      ({ s := some real, once := none, spec := sp' }, d ++ bad ++ smon.map fun m => s!"MON\t{seq}\t{m}")
    | _, _, _, _ => (st, [s!"BAD\t{seq}\tva.deposit args"])
  | "va.update" :: now :: h :: nf :: pb :: o :: projL =>
    match st.s, parseInt? now, parseInt? h, parseInt? nf, parseNat? pb with
    | some cur, some now, some h, some nf, some pb =>
      let (proj, legit) := splitLegit projL
      let m := match updateFee cur ⟨now, h⟩ nf (ofBits pb) with | none => none | some s => some (some s)
      let (real, d) := settle seq "update" cur m o proj
      let (bad, smon) := if o = "ok" then specMon seq st.spec cur real now cur.vault.amountOut legit else ([], [])
      -- a sweep whose calculation fails returns silently (nothing booked, no stamp): no specification until the next settlement
      let sweepOk := match calcRewards cur.vault.amountOut cur.pair.fee (now - since cur.pair.bt cur.vault.bh cur.vault.bt) (ofBits pb) with
        | .ok _ => true | _ => false
      let spU := specUpdate st.spec now nf
      let spU := if st.spec.fee != 0 && !sweepOk then { spU with muted := true } else spU
      let sp' := bumpClock (if o = "ok" && !decide (now < st.spec.clockMax) then spU else st.spec) now
      ({ s := some real, once := none, spec := sp' }, d ++ bad ++ smon.map fun m => s!"MON\t{seq}\t{m}")
    | _, _, _, _, _ => (st, [s!"BAD\t{seq}\tva.update args"])
  | "va.once" :: now :: h :: pb :: o :: proj =>
    match st.s, parseInt? now, parseInt? h, parseNat? pb with
    | some cur, some now, some h, some pb =>
      let pw := ofBits pb
      let (real, d) := settle seq "once" cur (toRes (msgCalc cur ⟨now, h⟩ pw)) o proj
      let oc : Option Once := match pw with
        | some p => if o = "ok" && active cur then
            some { debt := cur.vault.amountOut + cur.vault.ia, pw := p, now := now, booked := booked real } else none
        | none => none
      -- the branch is discarded: the model state stays
      ({ st with once := oc }, d)
    | _, _, _, _ => (st, [s!"BAD\t{seq}\tva.once args"])
  | _ => (st, [s!"BAD\t{seq}\tunknown va line"])

end Comdex.Drv.VaultAccrualDrv
