import Comdex.Base.Line
import Comdex.Model.VaultAccrual
/-! Driver plug-in for the vault stability-fee bookkeeping (C18, state level).

  va.begin   appWl fee stable pbh pbt amountOut ia vbh vbt tracker|none
  va.calc    kind(msg|direct) now height debt bh bt powbits   outcome  <state>
  va.update  now height newFee powbits                         outcome  <state>
  va.once    now height powbits                                outcome  <state>     one MsgVaultInterestCalc on a BRANCH of the
                                                                                    current state (discarded): the single accrual over
                                                                                    the interval the next two va.calc lines cover
<state> := fee pbh pbt ia vbh vbt tracker|none  (seven fields: the real records after the call).  outcome ∈ ok err panic.
The model state is replaced by the real projection after every line. Monitor `accrual_subadditive` (on REAL numbers): what two
consecutive calculations booked (vault interest + tracker fraction) is at most what the single calculation booked, plus the
explicit float slack `Accrual.subaddErr` and the interest on the whole units the first calculation moved into the debt. -/
namespace Comdex.Drv.VaultAccrualDrv
open Comdex Comdex.Line Comdex.Accrual Comdex.VaultAccrual

/-- one real MsgVaultInterestCalc with an active fee -/
structure Step where
  debt : Int
  pw : Int
  now : Int
  deriving Inhabited

/-- the single accrual announced by a `va.once` line -/
structure Once where
  debt : Int
  pw : Int
  now : Int
  booked : Int        -- real `booked` after the single calculation
  steps : List Step := []

structure St where
  s : Option VaultAccrual.St := none
  once : Option Once := none

def init : St := {}

def monE : Nat := 2 ^ 40

def parseTr (s : String) : Option (Option Int) := if s = "none" then some none else (parseInt? s).map some
def showTr : Option Int → String | none => "none" | some t => toString t

def showSt (s : VaultAccrual.St) : String :=
  s!"{s.pair.fee} {s.pair.bh} {s.pair.bt} {s.vault.ia} {s.vault.bh} {s.vault.bt} {showTr s.tracker}"

/-- the real projection: the fields the model does not change are taken from the model state -/
def parseProj (m : VaultAccrual.St) (f : List String) : Option VaultAccrual.St :=
  match f with
  | [fee, pbh, pbt, ia, vbh, vbt, tr] =>
    match parseInt? fee, parseInt? pbh, parseInt? pbt, parseInt? ia, parseInt? vbh, parseInt? vbt, parseTr tr with
    | some fee, some pbh, some pbt, some ia, some vbh, some vbt, some tr =>
      some { m with pair := { m.pair with fee := fee, bh := pbh, bt := pbt },
                    vault := { m.vault with ia := ia, bh := vbh, bt := vbt }, tracker := tr }
    | _, _, _, _, _, _, _ => none
  | _ => none

def active (s : VaultAccrual.St) : Bool := s.appWl && s.pair.fee != 0 && !s.pair.stable

/-- compare a model result with the real outcome and projection; returns the state to continue from and DIFF lines -/
def settle (seq what : String) (cur : VaultAccrual.St) (model : Option (Option VaultAccrual.St)) (o : String) (proj : List String) :
    VaultAccrual.St × List String :=
  -- model : none = panic, some none = err (state unchanged), some (some s) = ok
  let mo := match model with | none => "panic" | some none => "err" | some (some _) => "ok"
  match parseProj cur proj with
  | none => (cur, [s!"BAD\t{seq}\tcannot parse state"])
  | some real =>
    let ms := match model with | some (some s) => s | _ => cur
    let d := if mo = o && ms = real then [] else [s!"DIFF\t{seq}\t{what}: model={mo} {showSt ms}\timpl={o} {showSt real}"]
    (real, d)

def toRes : Res → Option (Option VaultAccrual.St)
  | .ok s => some (some s)
  | .err => some none
  | .panic => none

-- DRIVER: prefix=va ns=Comdex.Drv.VaultAccrualDrv
def handle (st : St) (seq : String) (f : List String) : St × List String :=
  match f with
  | ["va.begin", wl, fee, stb, pbh, pbt, ao, ia, vbh, vbt, tr] =>
    match parseBool? wl, parseInt? fee, parseBool? stb, parseInt? pbh, parseInt? pbt, parseInt? ao, parseInt? ia,
          parseInt? vbh, parseInt? vbt, parseTr tr with
    | some wl, some fee, some stb, some pbh, some pbt, some ao, some ia, some vbh, some vbt, some tr =>
      ({ s := some { appWl := wl, pair := ⟨fee, stb, pbh, pbt⟩, vault := ⟨ao, ia, vbh, vbt⟩, tracker := tr } }, [])
    | _, _, _, _, _, _, _, _, _, _ => (st, [s!"BAD\t{seq}\tva.begin args"])
  | "va.calc" :: kind :: now :: h :: debt :: bh :: bt :: pb :: o :: proj =>
    match st.s, parseInt? now, parseInt? h, parseInt? debt, parseInt? bh, parseInt? bt, parseNat? pb with
    | some cur, some now, some h, some debt, some bh, some bt, some pb =>
      let pw := ofBits pb
      let pre := if kind = "msg" && (debt != cur.vault.amountOut + cur.vault.ia || bh != cur.vault.bh || bt != cur.vault.bt)
        then [s!"DIFF\t{seq}\tMsgVaultInterestCalc arguments: model={cur.vault.amountOut + cur.vault.ia} {cur.vault.bh} {cur.vault.bt}\timpl={debt} {bh} {bt}"]
        else []
      let (real, d) := settle seq "calc" cur (toRes (calcInterest cur ⟨now, h⟩ debt bh bt pw)) o proj
      -- monitor: two consecutive real calculations against the announced single one
      let (once', mon) : Option Once × List String :=
        match st.once, pw with
        | some oc, some p =>
          if kind = "msg" && o = "ok" && active cur && debt ≥ oc.debt then
            let steps := oc.steps ++ [{ debt := debt, pw := p, now := now : Step }]
            if steps.length < 2 then (some { oc with steps := steps }, [])
            else
              match steps with
              | [s1, s2] =>
                if s2.now = oc.now && s1.debt = oc.debt && s1.now ≤ s2.now then
                  let compounding : Int := interestOfPow s2.pw (aF s2.debt) - interestOfPow s2.pw (aF s1.debt)
                  let lhs : Rat := ((booked real : Int) : Rat)
                  let rhs : Rat := ((oc.booked + compounding : Int) : Rat) + subaddErr monE (aF oc.debt) oc.pw
                  (none, if lhs ≤ rhs then [] else [s!"MON\t{seq}\taccrual_subadditive"])
                else (none, [])
              | _ => (none, [])
          else (none, [])
        | _, _ => (none, [])
      ({ s := some real, once := once' }, pre ++ d ++ mon)
    | _, _, _, _, _, _, _ => (st, [s!"BAD\t{seq}\tva.calc args"])
  | "va.update" :: now :: h :: nf :: pb :: o :: proj =>
    match st.s, parseInt? now, parseInt? h, parseInt? nf, parseNat? pb with
    | some cur, some now, some h, some nf, some pb =>
      let m := match updateFee cur ⟨now, h⟩ nf (ofBits pb) with | none => none | some s => some (some s)
      let (real, d) := settle seq "update" cur m o proj
      ({ s := some real, once := none }, d)
    | _, _, _, _, _ => (st, [s!"BAD\t{seq}\tva.update args"])
  | "va.once" :: now :: h :: pb :: o :: proj =>
    match st.s, parseInt? now, parseInt? h, parseNat? pb with
    | some cur, some now, some h, some pb =>
      let pw := ofBits pb
      let (real, d) := settle seq "once" cur (toRes (msgCalc cur ⟨now, h⟩ pw)) o proj
      let oc : Option Once := match pw with
        | some p => if o = "ok" && active cur then
            some { debt := cur.vault.amountOut + cur.vault.ia, pw := p, now := now, booked := booked real } else none
        | none => none
      -- the branch is discarded: the model state stays
      ({ st with once := oc }, d)
    | _, _, _, _ => (st, [s!"BAD\t{seq}\tva.once args"])
  | _ => (st, [s!"BAD\t{seq}\tunknown va line"])

end Comdex.Drv.VaultAccrualDrv
