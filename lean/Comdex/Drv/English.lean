import Comdex.Base.Line
import Comdex.Model.LimitBid
/-! Driver for the English-auction + limit-bid models (property C11).

Lines (tab separated; accounts: 0 custody, 1 collector, 2.. users; denominations are small indices):
  eng.begin   ver nUsers closingFeeRaw withdrawalFeeRaw assets(id:denom,…) now debtBidFloor(-|int)  STATE
  eng.tick    now outcome                                                     STATE   (real BeginBlocker(s))
  eng.esm     0|1                                                             STATE   (x/esm status of the app set)
  eng.bid     who app mapping id denom amt outcome                            STATE
  eng.dbid    who app mapping id denom amt expDenom expAmt outcome            STATE
  eng.dep     who coll debt prem denom amt outcome                            STATE
  eng.cancel  who coll debt prem outcome                                      STATE
  eng.wd      who coll debt prem denom amt outcome                            STATE
STATE := bank=a:d:amt,…|aucs=app:map:id:kind:payDenom:lotDenom:pay:lot:lot0:bidder:nbids:factor:endT:bidEndT:dur:bidDur;…
         |deps=debt:coll:prem:who:denom:amt,…|bv=debt:coll:amt,…        (the REAL state after the call)

DIFF: the model's outcome / state differs from the real one.  MON: a decidable form of the property is false
on the REAL before/after states:
  custody_standing_bid  custody − initial custody − limit deposits − retained fees = Σ standing bids (+ lots held)
  bid_factor            an accepted bid improves on the standing one by ⌈factor·standing⌉ (mirrored for debt)
  bid_monotone          an accepted bid is not worse than the standing one (debt: not a larger lot)
  outbid_refund         the outbid bidder got back exactly its bid, the new bidder paid exactly its own, nobody else moved
  one_winner            at close exactly the standing bidder receives exactly the lot, nobody else moves
  esm_refund            an emergency-shutdown close refunds exactly the standing stake, nobody else moves
  losers_whole          every user's balance = initial − own standing bids − own deposits − fees paid + lots won
  limit_own_deposit     an accepted withdraw / cancel is covered by the caller's own outstanding deposit
  limit_denom           … and is paid in the deposited denomination
  limit_payout          … and pays amount − fee as computed by the code
  bidvalue_sum          BidValue of a market = Σ (non-negative) deposits of that market
  bidvalue_custody      custody − initial − standing bids ≥ Σ BidValue in that denomination
-/
-- DRIVER: prefix=eng ns=Comdex.Drv.English
namespace Comdex.Drv.English
open Comdex.English Comdex.LimitBid Comdex.Line

structure Real where
  bank : Bank := []
  aucs : List Auction := []
  deps : List (Key × Denom × Int) := []
  bv : List ((Nat × Nat) × Int) := []
deriving Repr

structure St where
  ver : Nat := 1
  nUsers : Nat := 0
  m : LimitBid.State := { eng := { bank := [], cust := 0, coll := 1, live := [], closed := [], now := 0 },
                          deps := [], bv := [], fees := [], assets := [], closingFee := 0, withdrawalFee := 0 }
  r : Real := {}
  bank0 : Bank := []
  closedR : List Auction := []
  feesR : List (Denom × Int) := []
  paidR : List ((Acct × Denom) × Int) := []

def init : St := {}

def nDenoms : Nat := 6

/-! parsing -/

def splitNE (s : String) (sep : String) : List String := if s = "" then [] else s.splitOn sep

def kindOfNat : Nat → Option Kind
  | 0 => some .surplusV1 | 1 => some .debtV1 | 2 => some .surplusV2 | 3 => some .debtV2 | _ => none

def parseBankEntry (s : String) : Option ((Acct × Denom) × Int) :=
  match s.splitOn ":" with
  | [a, d, v] => do pure ((← parseNat? a, ← parseNat? d), ← parseInt? v)
  | _ => none

def parseAuc (s : String) : Option Auction :=
  match s.splitOn ":" with
  | [app, mp, id, kind, pd, ld, pay, lot, lot0, bidder, nb, fac, e, be, dur, bdur] => do
    let b ← parseInt? bidder
    pure { app := ← parseNat? app, mapping := ← parseNat? mp, id := ← parseNat? id, kind := ← (parseNat? kind >>= kindOfNat),
           payDenom := ← parseNat? pd, lotDenom := ← parseNat? ld, pay := ← parseInt? pay, lot := ← parseInt? lot,
           lot0 := ← parseInt? lot0, bidder := if b = -1 then none else some b.toNat, nbids := ← parseNat? nb,
           factor := ← parseInt? fac, endT := ← parseInt? e, bidEndT := ← parseInt? be, dur := ← parseInt? dur,
           bidDur := ← parseInt? bdur }
  | _ => none

def parseDep (s : String) : Option (Key × Denom × Int) :=
  match s.splitOn ":" with
  | [debt, coll, prem, who, dn, amt] => do
    pure (⟨← parseNat? debt, ← parseNat? coll, ← parseInt? prem, ← parseNat? who⟩, ← parseNat? dn, ← parseInt? amt)
  | _ => none

def parseBv (s : String) : Option ((Nat × Nat) × Int) :=
  match s.splitOn ":" with
  | [debt, coll, amt] => do pure ((← parseNat? debt, ← parseNat? coll), ← parseInt? amt)
  | _ => none

def parseReal (s : String) : Option Real :=
  match s.splitOn "|" with
  | [b, a, d, v] => do
    let b ← (b.dropPrefix? "bank=").map (·.toString)
    let a ← (a.dropPrefix? "aucs=").map (·.toString)
    let d ← (d.dropPrefix? "deps=").map (·.toString)
    let v ← (v.dropPrefix? "bv=").map (·.toString)
    pure { bank := ← (splitNE b ",").mapM parseBankEntry, aucs := ← (splitNE a ";").mapM parseAuc,
           deps := ← (splitNE d ",").mapM parseDep, bv := ← (splitNE v ",").mapM parseBv }
  | _ => none

def parseAssets (s : String) : Option (List (Nat × Denom)) :=
  (splitNE s ",").mapM fun e =>
    match e.splitOn ":" with
    | [i, d] => do pure (← parseNat? i, ← parseNat? d)
    | _ => none

/-! canonical form of the model state -/

def insertBy {α : Type} (lt : α → α → Bool) (x : α) : List α → List α
  | [] => [x]
  | y :: t => if lt x y then x :: y :: t else y :: insertBy lt x t

def sortBy {α : Type} (lt : α → α → Bool) (l : List α) : List α := l.foldr (insertBy lt) []

def bankCanon (b : Bank) (nAcct : Nat) : Bank :=
  (List.range nAcct).flatMap fun a => (List.range nDenoms).filterMap fun d =>
    let v := bal b a d
    if v = 0 then none else some ((a, d), v)

def keyLt (a b : Key) : Bool :=
  a.debt < b.debt || (a.debt = b.debt && (a.coll < b.coll || (a.coll = b.coll && (a.prem < b.prem || (a.prem = b.prem && a.who < b.who)))))

def pairLt (a b : Nat × Nat) : Bool := a.1 < b.1 || (a.1 = b.1 && a.2 < b.2)

def denomD (m : LimitBid.State) (debt : Nat) : Denom := match denomOf m.assets debt with | some d => d | none => 99

def modelReal (st : St) (m : LimitBid.State) : Real :=
  { bank := bankCanon m.eng.bank (st.nUsers + 2),
    aucs := sortBy (fun a b => a.id < b.id) m.eng.live,
    deps := sortBy (fun a b => keyLt a.1 b.1) (m.deps.map fun (k, v) => (k, denomD m k.debt, v)),
    bv := sortBy (fun a b => pairLt a.1 b.1) m.bv }

def realEq (a b : Real) : Bool := a.bank == b.bank && a.aucs == b.aucs && a.deps == b.deps && a.bv == b.bv

def showAuc (a : Auction) : String :=
  s!"{a.id}:k{repr a.kind}:pay={a.pay}:lot={a.lot}:bidder={a.bidder}:n={a.nbids}:end={a.endT}:bidEnd={a.bidEndT}"

def showReal (r : Real) : String :=
  "bank=" ++ ",".intercalate (r.bank.map fun ((a, d), v) => s!"{a}:{d}:{v}") ++
  "|aucs=" ++ ";".intercalate (r.aucs.map showAuc) ++
  "|deps=" ++ ",".intercalate (r.deps.map fun (k, d, v) => s!"{k.debt}:{k.coll}:{k.prem}:{k.who}:{d}:{v}") ++
  "|bv=" ++ ",".intercalate (r.bv.map fun ((a, b), v) => s!"{a}:{b}:{v}")

/-- rebuild the (non-ghost) model state from the real projection -/
def resync (st : St) (r : Real) : LimitBid.State :=
  { st.m with
    eng := { st.m.eng with bank := r.bank, live := r.aucs, closed := st.closedR },
    deps := r.deps.map (fun (k, _, v) => (k, v)), bv := r.bv, fees := st.feesR }

/-! monitors on the real projection -/

def pos (x : Int) : Int := if x > 0 then x else 0

def depPlus (r : Real) (d : Denom) : Int := (r.deps.map fun (_, dd, v) => if dd = d then pos v else 0).sum
def depPlusOf (r : Real) (x : Acct) (d : Denom) : Int :=
  (r.deps.map fun (k, dd, v) => if dd = d ∧ k.who = x then pos v else 0).sum
def heldSum (r : Real) (d : Denom) : Int := sumBy (held d) r.aucs
def bvSum (st : St) (r : Real) (d : Denom) : Int := (r.bv.map fun ((debt, _), v) => if denomD st.m debt = d then v else 0).sum

def denoms : List Denom := List.range nDenoms
def users (st : St) : List Acct := (List.range st.nUsers).map (· + 2)

/-- monitors that must hold of every real state -/
def stateMons (st : St) (r : Real) (closedR : List Auction) (feesR : List (Denom × Int))
    (paidR : List ((Acct × Denom) × Int)) : List String :=
  let m1 := if denoms.all fun d =>
      bal r.bank 0 d - bal st.bank0 0 d - depPlus r d - getD0 feesR d == heldSum r d then [] else ["custody_standing_bid"]
  let m2 := if (r.bv.all fun ((debt, coll), v) =>
        v == (r.deps.map fun (k, _, w) => if k.debt = debt ∧ k.coll = coll then pos w else 0).sum) &&
      (r.deps.all fun (k, _, _) => r.bv.any fun (p, _) => p == (k.debt, k.coll)) then [] else ["bidvalue_sum"]
  let m3 := if denoms.all fun d =>
      decide (bal r.bank 0 d - bal st.bank0 0 d - heldSum r d ≥ bvSum st r d) then [] else ["bidvalue_custody"]
  let m4 := if (users st).all fun x => denoms.all fun d =>
      bal r.bank x d == bal st.bank0 x d - sumBy (stakeOf x d) r.aucs + sumBy (gainOf x d) closedR
        - depPlusOf r x d - getD0 paidR (x, d) then [] else ["losers_whole"]
  m1 ++ m2 ++ m3 ++ m4

def delta (r r' : Real) (x : Acct) (d : Denom) : Int := bal r'.bank x d - bal r.bank x d

/-- an accepted bid of `amt` by `who` on the real auction `a` (record before the bid) -/
def bidMons (st : St) (r r' : Real) (a : Auction) (who : Acct) (amt : Int) : List String :=
  let payIn := if a.kind.increasing then amt else a.pay
  let m1 := match a.bidder with
    | some _ => if a.kind.increasing then (if amt ≥ minNext a then [] else ["bid_factor"])
                else (if amt ≤ maxNext a then [] else ["bid_factor"])
    | none => []
  let m1c := match a.bidder with
    | some _ => if a.kind.increasing then (if amt ≥ a.pay then [] else ["bid_monotone"])
                else (if amt ≤ a.lot then [] else ["bid_monotone"])
    | none => []
  let m1b := match findAuc r'.aucs a.id with
    | some a' => if a'.bidder == some who && (if a.kind.increasing then a'.pay == amt && a'.lot == a.lot else a'.lot == amt && a'.pay == a.pay)
                 then [] else ["bid_factor"]
    | none => ["bid_factor"]
  let expected (x : Acct) (d : Denom) : Int :=
    (if x = who ∧ d = a.payDenom then -payIn else 0) + (if a.bidder = some x ∧ d = a.payDenom then a.pay else 0)
  let m2 := if (users st).all fun x => denoms.all fun d => delta r r' x d == expected x d then [] else ["outbid_refund"]
  m1 ++ m1c ++ m1b ++ m2

def tickMons (st : St) (r r' : Real) : List String × List Auction :=
  let gone := r.aucs.filter fun a => (findAuc r'.aucs a.id).isNone
  let esmGone := gone.filter fun a => emergency st.m.eng a      -- closed by the shutdown path: refund, no winner
  let won := gone.filter fun a => !(emergency st.m.eng a)
  let m0 := if won.all fun a => a.bidder.isSome then [] else ["one_winner"]
  let expected (x : Acct) (d : Denom) : Int :=
    (won.map fun c => if c.bidder = some x ∧ c.lotDenom = d then payout c else 0).sum +
    (esmGone.map fun c => if c.bidder = some x ∧ c.payDenom = d then c.pay else 0).sum
  let m1 := if (users st).all fun x => denoms.all fun d => delta r r' x d == expected x d then []
            else [if esmGone.isEmpty then "one_winner" else "esm_refund"]
  (m0 ++ m1, won)

def findDep (r : Real) (k : Key) : Option (Denom × Int) :=
  match r.deps.find? fun (k', _, _) => k' == k with
  | some (_, d, v) => some (d, v)
  | none => none

/-- every user other than `who` is untouched, and `who` moved exactly `x` in `denom` -/
def onlyMoved (st : St) (r r' : Real) (who : Acct) (denom : Denom) (x : Int) : Bool :=
  (users st).all fun y => denoms.all fun d => delta r r' y d == (if y = who ∧ d = denom then x else 0)

structure Ghost where
  closedR : List Auction
  feesR : List (Denom × Int)
  paidR : List ((Acct × Denom) × Int)

def addFee (g : Ghost) (who : Acct) (d : Denom) (f : Int) : Ghost :=
  { g with feesR := putK g.feesR d (getD0 g.feesR d + f), paidR := putK g.paidR (who, d) (getD0 g.paidR (who, d) + f) }

/-- finish a line: DIFF on outcome/state, monitors, resync -/
def finish (st : St) (seq : String) (mOk : Bool) (m' : LimitBid.State) (outcome : String) (r' : Real)
    (opMons : List String) (g : Ghost) : St × List String :=
  let implOk := outcome == "ok"
  let mr := modelReal st m'
  let d1 := if mOk != implOk then [s!"DIFF\t{seq}\toutcome model={if mOk then "ok" else "rejected"}\timpl={outcome}"] else []
  let d2 := if realEq mr r' then [] else [s!"DIFF\t{seq}\tstate model={showReal mr}\timpl={showReal r'}"]
  let mons := opMons ++ stateMons st r' g.closedR g.feesR g.paidR
  let st1 := { st with r := r', closedR := g.closedR, feesR := g.feesR, paidR := g.paidR }
  let st2 := { st1 with m := resync { st1 with m := m' } r' }
  (st2, d1 ++ d2 ++ mons.map fun m => s!"MON\t{seq}\t{m}")

def ghostOf (st : St) : Ghost := { closedR := st.closedR, feesR := st.feesR, paidR := st.paidR }

def runOp (st : St) (op : LimitBid.Op) : Bool × LimitBid.State :=
  match LimitBid.step st.m op with
  | some m' => (true, m')
  | none => (false, st.m)

def handle (st : St) (seq : String) (f : List String) : St × List String :=
  match f with
  | ["eng.begin", ver, n, cf, wf, assets, now, dfloor, state] =>
    match parseNat? ver, parseNat? n, parseInt? cf, parseInt? wf, parseAssets assets, parseInt? now, parseReal state with
    | some ver, some n, some cf, some wf, some assets, some now, some r =>
      let m : LimitBid.State :=
        { eng := { bank := r.bank, cust := 0, coll := 1, live := [], closed := [], now := now,
                   debtFloor := if dfloor = "-" then none else parseInt? dfloor },
          deps := [], bv := [], fees := [], assets := assets, closingFee := cf, withdrawalFee := wf }
      let st' : St := { ver := ver, nUsers := n, m := m, r := r, bank0 := r.bank }
      let bad := if r.aucs.isEmpty && r.deps.isEmpty && r.bv.isEmpty then [] else [s!"BAD\t{seq}\tbegin with a non-empty auction state"]
      (st', bad)
    | _, _, _, _, _, _, _ => (st, [s!"BAD\t{seq}\tbegin"])
  | ["eng.tick", now, outcome, state] =>
    match parseInt? now, parseReal state with
    | some now, some r' =>
      -- the real hook: time advances, every live auction is looked at; then the activators may have started new ones
      let m1 := LimitBid.run st.m ((blockOps st.m.eng now).map LimitBid.Op.eng)
      let fresh := r'.aucs.filter fun a => (findAuc m1.eng.live a.id).isNone
      let m2 := LimitBid.run m1 (fresh.map fun a => LimitBid.Op.eng (.start a))
      let (tm, gone) := tickMons st st.r r'
      let g := { ghostOf st with closedR := gone ++ st.closedR }
      let unstarted := fresh.filter fun a => (findAuc m2.eng.live a.id).isNone
      let d0 := if unstarted.isEmpty then [] else [s!"DIFF\t{seq}\tmodel cannot start auctions {unstarted.map (·.id)}"]
      let (st', out) := finish st seq true m2 (if outcome == "ok" then "ok" else "panic") r' tm g
      (st', d0 ++ out)
    | _, _ => (st, [s!"BAD\t{seq}\ttick"])
  | ["eng.esm", on, state] =>
    match parseNat? on, parseReal state with
    | some on, some r' =>
      let (ok, m') := runOp st (.eng (.esm (on != 0)))
      finish st seq ok m' "ok" r' [] (ghostOf st)
    | _, _ => (st, [s!"BAD\t{seq}\tesm"])
  | ["eng.bid", who, app, mp, id, denom, amt, outcome, state] =>
    match parseNat? who, parseNat? app, parseNat? mp, parseNat? id, parseNat? denom, parseInt? amt, parseReal state with
    | some who, some app, some mp, some id, some denom, some amt, some r' =>
      let (ok, m') := runOp st (.eng (.bid who app mp id denom amt))
      let mons := if outcome == "ok" then
          match findAuc st.r.aucs id with
          | some a => bidMons st st.r r' a who amt
          | none => ["bid_factor"]
        else []
      finish st seq ok m' outcome r' mons (ghostOf st)
    | _, _, _, _, _, _, _ => (st, [s!"BAD\t{seq}\tbid"])
  | ["eng.dbid", who, app, mp, id, denom, amt, ed, ea, outcome, state] =>
    match parseNat? who, parseNat? app, parseNat? mp, parseNat? id, parseNat? denom, parseInt? amt, parseNat? ed, parseInt? ea, parseReal state with
    | some who, some app, some mp, some id, some denom, some amt, some ed, some ea, some r' =>
      let (ok, m') := runOp st (.eng (.dbid who app mp id denom amt ed ea))
      let mons := if outcome == "ok" then
          match findAuc st.r.aucs id with
          | some a => bidMons st st.r r' a who amt
          | none => ["bid_factor"]
        else []
      finish st seq ok m' outcome r' mons (ghostOf st)
    | _, _, _, _, _, _, _, _, _ => (st, [s!"BAD\t{seq}\tdbid"])
  | ["eng.dep", who, coll, debt, prem, denom, amt, outcome, state] =>
    match parseNat? who, parseNat? coll, parseNat? debt, parseInt? prem, parseNat? denom, parseInt? amt, parseReal state with
    | some who, some coll, some debt, some prem, some denom, some amt, some r' =>
      let (ok, m') := runOp st (.deposit who coll debt prem denom amt)
      let mons := if outcome == "ok" then
          (if denomOf st.m.assets debt == some denom then [] else ["limit_denom"]) ++
          (if onlyMoved st st.r r' who denom (-amt) then [] else ["limit_payout"])
        else []
      finish st seq ok m' outcome r' mons (ghostOf st)
    | _, _, _, _, _, _, _ => (st, [s!"BAD\t{seq}\tdep"])
  | ["eng.cancel", who, coll, debt, prem, outcome, state] =>
    match parseNat? who, parseNat? coll, parseNat? debt, parseInt? prem, parseReal state with
    | some who, some coll, some debt, some prem, some r' =>
      let (ok, m') := runOp st (.cancel who coll debt prem)
      let (mons, g) := if outcome == "ok" then
          match findDep st.r ⟨debt, coll, prem, who⟩ with
          | some (dd, rec) =>
            let fe := if rec > 0 then fee st.m.closingFee rec else 0
            let paid := if rec > 0 then rec - fe else 0
            ((if onlyMoved st st.r r' who dd paid then [] else ["limit_payout"]) ++
             (if denomOf st.m.assets debt == some dd then [] else ["limit_denom"]), addFee (ghostOf st) who dd fe)
          | none => (["limit_own_deposit"], ghostOf st)
        else ([], ghostOf st)
      finish st seq ok m' outcome r' mons g
    | _, _, _, _, _ => (st, [s!"BAD\t{seq}\tcancel"])
  | ["eng.wd", who, coll, debt, prem, denom, amt, outcome, state] =>
    match parseNat? who, parseNat? coll, parseNat? debt, parseInt? prem, parseNat? denom, parseInt? amt, parseReal state with
    | some who, some coll, some debt, some prem, some denom, some amt, some r' =>
      let (ok, m') := runOp st (.withdraw who coll debt prem denom amt)
      let (mons, g) := if outcome == "ok" then
          match findDep st.r ⟨debt, coll, prem, who⟩ with
          | some (dd, rec) =>
            let fe := if amt = rec then (if rec > 0 then fee st.m.closingFee rec else 0)
                      else (if rec > 0 then fee st.m.withdrawalFee amt else 0)
            let paid := if rec > 0 then amt - fe else 0
            let pd := if amt = rec then dd else denom     -- the full-amount path pays the record's own coin
            ((if amt ≤ rec then [] else ["limit_own_deposit"]) ++
             (if denom = dd ∧ denomOf st.m.assets debt == some dd then [] else ["limit_denom"]) ++
             (if onlyMoved st st.r r' who pd paid then [] else ["limit_payout"]), addFee (ghostOf st) who pd fe)
          | none => (["limit_own_deposit"], ghostOf st)
        else ([], ghostOf st)
      finish st seq ok m' outcome r' mons g
    | _, _, _, _, _, _, _ => (st, [s!"BAD\t{seq}\twd"])
  | _ => (st, [s!"BAD\t{seq}\tunknown eng line"])

end Comdex.Drv.English
