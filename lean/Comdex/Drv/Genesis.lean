import Comdex.Base.Line
import Comdex.Model.GenesisTable
/-! Driver plug-in for the genesis round trip (C20).

Lines (tab separated):
  gen.begin   <name> <seed>
  gen.validate <module> err <text>             the module's ValidateGenesis refuses the state the module exported
  gen.import  ok|panic <module> <text>         InitChain of the fresh application from the exported genesis (module = first comdex
                                               module on the panicking stack)
  gen.kv      A|B <module> <keyhex> <valhex>   one KV pair of a DeFi module store (A = original, B = re-imported)
  gen.param   A|B <module> <keyhex> <valhex>   one entry of the module's parameter subspace
  gen.check   <module> <firstbytehex>          evaluate every declared prefix of the module starting with that byte
  gen.params  <module>                         evaluate the module's parameter subspace
  gen.end     <keysA> <keysB>                  all pairs sent; totals for cross-checking
  gen.custody <accounts A> <accounts B> <differing>   bank balances of all accounts right after the import
  gen.op      <name> <outcome on A> <outcome on B>
  gen.bal     <account/denom> <A> <B>          a balance that differs after the continuation
  gen.balances <accounts> <differing>
  gen.note    <text>
  gen.mig.begin  <name> <seed>                    a MIGRATION case: A = a state in the current format, B = the identical state after the real
                                               store migrator ran; the gen.kv / gen.check / gen.op / gen.balances lines that follow are judged
                                               by migration_keeps:<module>.<prefix> (same keys, same values), migration_continuation:<op>
  gen.migrate <migrator> ok|err|panic <text>   outcome of the real migrator (migration_runs:<migrator>)
  gen.field   <module> <field, lower case without _> list|scalars|scalar <records in the richest state> <reason|->
                                               a top-level field of the module's exported genesis JSON (after the last case)
  gen.list    <module> <json path> <records in the richest state> <id pairs seen different> <id pairs> <pairs equal in every record|-> <reason|->
                                               a record list at any depth of the exported genesis
  gen.msgtype <type url> <accepted> <refused> <reason|->   a registered comdex message type and how often the continuation workload delivered
                                               it on the original chain (BAD if never accepted and no reason is given)
  gen.coverage <module>                        all gen.field lines sent: every `genFields` entry of the regenerated table must have been
                                               reported, record lists non-empty in at least one state (BAD otherwise: a hole in the fixture)

For `gen.check` the keys are attributed to the prefixes of the regenerated table (`Comdex.Gen.Genesis`), the model's
`init ∘ export` is run on A's store with the extracted rules and compared with B's store (DIFF = the model does not describe what
the code did), and the round-trip monitors are evaluated on the real stores:
  store_roundtrip:<module>.<prefix>     every key of the prefix answers alike on A and B   (`.params` = parameter subspace)
  record_roundtrip:<module>.<prefix>    every record of the prefix that exists on BOTH sides has the same value (a carried record that
                                        came back changed; separate name so that a finding about MISSING records cannot mask it)
  counter_roundtrip:<module>.<counter>.<rule>  an id counter / length key reads alike on A and B (rule = how InitGenesis
                                        restores it in the regenerated table: stored|maxId|lastId|count|zero|notRestored)
                                        (a `.` separates module and prefix: monitor names become file names in ./check)
  continuation_equal:<op>               a continuation operation has the same outcome / id on both chains
  continuation_equal:balances           all balances agree after the continuation
  custody_roundtrip                     every bank balance (users, module accounts) is the same right after the import
  import_accepts_export:<module>        the module's ValidateGenesis and InitGenesis accept what its ExportGenesis produced
-/
-- DRIVER: prefix=gen ns=Comdex.Drv.Genesis
namespace Comdex.Drv.Genesis
open Comdex.Genesis Comdex.Line
open Comdex.Gen.Genesis (Module modules)

structure KV where
  side : String
  mod : String
  key : String
  val : String

structure St where
  kvs : List KV := []
  params : List KV := []
  nA : Nat := 0
  nB : Nat := 0
  seen : List (String × String) := []   -- (module, first byte) already checked
  mig : Bool := false                   -- a migration case (`gen.mig.begin`): B = the same state after the real migrator ran
  fields : List (String × String × String × Nat × String) := []   -- population report: (module, field, kind, max records, reason)

def init : St := {}

def hexDigit (c : Char) : Nat :=
  if '0' ≤ c && c ≤ '9' then c.toNat - '0'.toNat
  else if 'a' ≤ c && c ≤ 'f' then c.toNat - 'a'.toNat + 10
  else if 'A' ≤ c && c ≤ 'F' then c.toNat - 'A'.toNat + 10 else 0

def hexBytes (s : String) : List Nat :=
  let rec go : List Char → List Nat
    | a :: b :: rest => (hexDigit a * 16 + hexDigit b) :: go rest
    | _ => []
  go s.toList

def hex2 (n : Nat) : String :=
  let d (x : Nat) : Char := if x < 10 then Char.ofNat (48 + x) else Char.ofNat (87 + x)
  String.ofList [d (n / 16), d (n % 16)]

def bytesHex (bs : List Nat) : String := String.join (bs.map hex2)

def beNat (bs : List Nat) : Nat := bs.foldl (fun a b => a * 256 + b) 0

/-- protobuf varint -/
def varint : List Nat → Nat
  | [] => 0
  | b :: rest => if b ≥ 128 then (b - 128) + 128 * varint rest else b

/-- value of an id counter: a gogoproto `UInt64Value` (`0x08` varint; the zero value is empty) -/
def counterVal (bs : List Nat) : Option Nat :=
  match bs with
  | [] => some 0
  | 8 :: rest => some (varint rest)
  | _ => none

def isPrefixOf (p k : List Nat) : Bool := p.length ≤ k.length && k.take p.length == p

/-- the declared prefix a key belongs to (longest match); `?xx` if none -/
def attributeKey (m : Module) (key : List Nat) : String × List Nat :=
  let cands := m.defined.filter fun d => isPrefixOf d.2 key
  match cands.foldl (fun (best : Option (String × List Nat)) d =>
      match best with
      | none => some d
      | some b => if d.2.length > b.2.length then some d else some b) none with
  | some d => (d.1, key.drop d.2.length)
  | none => ("?" ++ hex2 (key.headD 0), key.drop 1)

def isCounterPfx (m : Module) (p : String) : Bool := m.counters.any fun c => c.pfx == p

def entryOf (m : Module) (kv : KV) : Entry :=
  let kb := hexBytes kv.key
  let (p, rest) := attributeKey m kb
  let id := if rest.length ≥ 8 then beNat (rest.drop (rest.length - 8)) else 0
  let v : Val :=
    if isCounterPfx m p then
      match counterVal (hexBytes kv.val) with
      | some n => .num n
      | none => .raw kv.val
    else .raw kv.val
  { pfx := p, key := bytesHex rest, id := id, val := v }

def storeOf (m : Module) (st : St) (side : String) : Store :=
  ((st.kvs.filter fun kv => kv.side == side && kv.mod == m.name).reverse).map (entryOf m)

/-- do two stores answer every key of prefix `p` alike? -/
def samePrefix (s t : Store) (p : String) : Bool :=
  let ks := ((s ++ t).filter fun e => e.pfx == p).map (·.key)
  ks.all fun k => norm (get s p k) == norm (get t p k)

/-- keys of prefix `p` present on BOTH sides whose values differ (a carried record that came back changed — as opposed to a record
that is missing or extra) -/
def changedKeys (s t : Store) (p : String) : Nat :=
  let ks := ((s.filter fun e => e.pfx == p).map (·.key)).filter fun k => (get t p k).isSome
  (ks.filter fun k => norm (get s p k) != norm (get t p k)).length

def countPfx (s : Store) (p : String) : Nat := (s.filter fun e => e.pfx == p).length

def checkModule (st : St) (seq : String) (m : Module) (byte : String) : List String :=
  let a := storeOf m st "A"
  let b := storeOf m st "B"
  let t := tableOf m
  -- the index stores are a parameter of the model: rebuilt from the carried records exactly as they were
  let idx : Store → Store := fun _ => a.filter fun e => t.derived.contains e.pfx
  let pred := roundTrip t idx a
  let declared := (m.defined.filter fun d => hex2 (d.2.headD 0) == byte).map (·.1)
  let stray := ((a ++ b).map (·.pfx)).filter fun p => p == "?" ++ byte
  let ps := (declared ++ stray).eraseDups
  ps.flatMap fun p =>
    let eq := samePrefix a b p
    let modelEq := samePrefix pred b p
    let unspecified := (unspecifiedOf m).contains p || p.startsWith "?"
    let name := if st.mig then s!"migration_keeps:{m.name}.{p}"
      else if isCounterPfx m p then s!"counter_roundtrip:{m.name}.{counterTag m p}" else s!"store_roundtrip:{m.name}.{p}"
    let changed := changedKeys a b p
    (if eq then [] else [s!"MON\t{seq}\t{name}\tkeysA={countPfx a p}\tkeysB={countPfx b p}"]) ++
    (if changed == 0 || st.mig || isCounterPfx m p then [] else
      [s!"MON\t{seq}\trecord_roundtrip:{m.name}.{p}\t{changed} records present on both sides came back with another value"]) ++
    (if modelEq || unspecified || st.mig then [] else
      [s!"DIFF\t{seq}\t{m.name}/{p}\tmodel init(export A) has {countPfx pred p} keys, re-imported store has {countPfx b p}, and they do not answer alike"]) ++
    (if p.startsWith "?" then [s!"DIFF\t{seq}\t{m.name}/{p}\tkey outside every declared prefix of the regenerated table"] else [])

def checkParams (st : St) (seq : String) (mod : String) : List String :=
  let side (s : String) := (st.params.filter fun kv => kv.side == s && kv.mod == mod).map fun kv => (kv.key, kv.val)
  let a := side "A"
  let b := side "B"
  if a.all (fun x => b.contains x) && b.all (fun x => a.contains x) then []
  else [s!"MON\t{seq}\t{if st.mig then "migration_keeps" else "store_roundtrip"}:{mod}.params\tkeysA={a.length}\tkeysB={b.length}"]

def handle (st : St) (seq : String) (f : List String) : St × List String :=
  match f with
  | ["gen.begin", _, _] => ({ fields := st.fields }, [])
  | ["gen.mig.begin", _, _] => ({ fields := st.fields, mig := true }, [])
  | ["gen.migrate", name, o, _] => (st, if o == "ok" then [] else [s!"MON\t{seq}\tmigration_runs:{name}\t{o}"])
  | ["gen.field", mod, fld, kind, n, why] => ({ st with fields := (mod, fld, kind, n.toNat?.getD 0, why) :: st.fields }, [])
  | ["gen.list", mod, path, n, _, _, missing, why] =>
    (st, (if n.toNat? == some 0 && why == "-" then [s!"BAD\t{seq}\tpopulation: record list {mod}.{path} is empty in every exported state"] else []) ++
         (if missing != "-" then [s!"BAD\t{seq}\tpopulation: id fields {missing} of {mod}.{path} are equal in every record of every exported state"] else []))
  | ["gen.msgtype", url, ok, _, why] =>
    (st, if ok.toNat? == some 0 && why == "-" then
      [s!"BAD\t{seq}\tcontinuation: no operation of message type {url} was accepted on the original chain after the export"] else [])
  | ["gen.coverage", mod] =>
    match modules.find? (fun m => m.name == mod) with
    | none => (st, [s!"BAD\t{seq}\tunknown module {mod}"])
    | some m =>
      let norm (s : String) : String := String.ofList ((s.toList.filter fun c => c != '_').map Char.toLower)
      (st, m.genFields.filterMap fun g =>
        match st.fields.find? (fun f => f.1 == mod && f.2.1 == norm g) with
        | none => some s!"BAD\t{seq}\tpopulation: genesis field {mod}.{g} of the regenerated table was never seen in an exported state"
        | some f => if f.2.2.1 == "list" && f.2.2.2.1 == 0 && f.2.2.2.2 == "-" then
                      some s!"BAD\t{seq}\tpopulation: exported list {mod}.{g} is empty in every state" else none)
  | "gen.import" :: o :: mod :: _ => (st, if o = "ok" then [] else [s!"MON\t{seq}\timport_accepts_export:{mod}"])
  | "gen.validate" :: mod :: o :: _ => (st, if o = "ok" then [] else [s!"MON\t{seq}\timport_accepts_export:{mod}"])
  | ["gen.kv", side, mod, k, v] =>
    if side != "A" && side != "B" then (st, [s!"BAD\t{seq}\tside"]) else
    let st := { st with kvs := ⟨side, mod, k, v⟩ :: st.kvs }
    (if side == "A" then { st with nA := st.nA + 1 } else { st with nB := st.nB + 1 }, [])
  | ["gen.param", side, mod, k, v] => ({ st with params := ⟨side, mod, k, v⟩ :: st.params }, [])
  | ["gen.end", na, nb] =>
    let out := if na.toNat? == some st.nA && nb.toNat? == some st.nB then [] else [s!"BAD\t{seq}\tkey totals do not match the pairs received"]
    -- every key must have been covered by a gen.check line
    let missing := st.kvs.filter fun kv => !(st.seen.contains (kv.mod, (kv.key.take 2).toString))
    (st, out ++ (if missing.isEmpty then [] else [s!"BAD\t{seq}\t{missing.length} keys were never checked (module {(missing.headD ⟨"", "", "", ""⟩).mod})"]))
  | ["gen.check", mod, byte] =>
    match modules.find? (fun m => m.name == mod) with
    | none => (st, [s!"BAD\t{seq}\tunknown module {mod}"])
    | some m => ({ st with seen := (mod, byte) :: st.seen }, checkModule st seq m byte)
  | ["gen.params", mod] => (st, checkParams st seq mod)
  | ["gen.op", name, ra, rb] =>
    (st, if ra == rb then [] else [s!"MON\t{seq}\t{if st.mig then "migration_continuation" else "continuation_equal"}:{name}\tA={ra}\tB={rb}"])
  | ["gen.custody", _, _, nd] => (st, if nd == "0" then [] else [s!"MON\t{seq}\tcustody_roundtrip\tdiffering={nd}"])
  | ["gen.bal", _, _, _] => (st, [])
  | ["gen.balances", _, nd] =>
    (st, if nd == "0" then [] else [s!"MON\t{seq}\t{if st.mig then "migration_continuation" else "continuation_equal"}:balances\tdiffering={nd}"])
  | "gen.note" :: _ => (st, [])
  | _ => (st, [s!"BAD\t{seq}\tunknown gen line"])

end Comdex.Drv.Genesis
