import Comdex.Base.Line
import Comdex.Model.Lend
/-! Driver for the lending-books model (property C08).

Lines (tab separated):
  lend.begin       reserveAcct auctionAcct                       -- new sequence, empty configuration
  lend.cfg.asset   id decimals
  lend.cfg.rates   asset ltv eLtv cAsset isolated stableOk       -- Dec values raw 10^-18
  lend.cfg.pool    id acct asset:transit:cap,…
  lend.cfg.pair    id assetIn assetOut inter outPool eMode
  lend.cfg.a2p     asset pool pairIds
  lend.cfg.app     id isCommodo
  lend.init        <state>
  lend.op <name> args… <outcome> <state>                         -- outcome ∈ ok err err:basic panic
  lend.handover borrowId newInterest <outcome> <state>           -- the V2 liquidation hand-over (own trace kind: own call site)
<state> := ctr(lendCtr,borrowCtr)  L  B  S  K  P  F   (seven fields, records `|`-separated, record fields `:`-separated)
  L id:owner:pool:asset:amountIn:avail:app
  B id:lendingId:pairId:inDenom:amountIn:outDenom:amountOut:interest:stable:liq:brDenom:bridged:reserveInt
  S pool:asset:totalLend:totalBorrowed:totalStable:totalInterest
  K acct:denom:amount        P asset:twa        F killedApps/depreciatedPools (comma lists)
ExtB := `-` (error) | `!` (panic) | dI:dR.   The model is re-synchronised to the real state after every line.

Monitors (evaluated on the REAL state projection): total_lend total_borrowed total_stable ltv ltv_exact pool_funds pledged_safe, and
total_lend_orphaned. The three book monitors compare, per (pool, asset), the GAP between the published total and the sum over
positions before and after the line and fire when a gap changes to a non-zero value — so a mismatch that is already there (a known
finding earlier in the history) neither repeats on later lines nor hides a new cause. `total_lend_orphaned` replaces `total_lend` on a
hand-over line whose new gap is exactly what was left in the lend position the hand-over deleted (availableToBorrow + other open
pledges): finding D19.
-/
-- DRIVER: prefix=lend ns=Comdex.Drv.Lend
namespace Comdex.Drv.Lend
open Comdex Comdex.Lend Comdex.Line

structure St where
  cfg : Cfg := {}
  s : State := {}

def init : St := {}

/-! ### parsing -/

def splitOnNE (s : String) (sep : String) : List String := if s = "" then [] else s.splitOn sep

def parseLend (r : String) : Option Lend :=
  match (r.splitOn ":").mapM parseInt? with
  | some [id, o, p, a, ai, av, app] =>
    some { id := id.toNat, owner := o.toNat, pool := p.toNat, asset := a.toNat, amountIn := ai, avail := av, app := app.toNat }
  | _ => none

def parseBorrow (r : String) : Option Borrow :=
  match (r.splitOn ":").mapM parseInt? with
  | some [id, lid, pid, dIn, aIn, dOut, aOut, int, st, lq, bd, br, res] =>
    some { id := id.toNat, lendingId := lid.toNat, pairId := pid.toNat, inDenom := dIn.toNat, amountIn := aIn, outDenom := dOut.toNat,
           amountOut := aOut, interest := int, stable := st != 0, liq := lq != 0, brDenom := bd.toNat, bridged := br, reserveInt := res }
  | _ => none

def parseStats (r : String) : Option Stats :=
  match (r.splitOn ":").mapM parseInt? with
  | some [p, a, tl, tb, ts, ti] => some { pool := p.toNat, asset := a.toNat, totalLend := tl, totalBorrowed := tb, totalStable := ts, totalInterest := ti }
  | _ => none

def parseBal (r : String) : Option ((Nat × Nat) × Int) :=
  match (r.splitOn ":").mapM parseInt? with
  | some [a, d, x] => some ((a.toNat, d.toNat), x)
  | _ => none

def parsePrice (r : String) : Option (Nat × Nat) :=
  match (r.splitOn ":").mapM parseNat? with
  | some [a, t] => some (a, t)
  | _ => none

def parseState (f : List String) : Option State :=
  match f with
  | [ctr, l, b, s, k, p, fl] => do
    let c ← parseNatList ctr
    let (lc, bc) ← match c with | [x, y] => some (x, y) | _ => none
    let ls ← (splitOnNE l "|").mapM parseLend
    let bs ← (splitOnNE b "|").mapM parseBorrow
    let ss ← (splitOnNE s "|").mapM parseStats
    let ks ← (splitOnNE k "|").mapM parseBal
    let ps ← (splitOnNE p "|").mapM parsePrice
    let (kl, dp) ← match fl.splitOn "/" with
      | [a, b] => do pure ((← parseNatList a), (← parseNatList b))
      | _ => none
    pure { lends := ls, borrows := bs, stats := ss, bank := ks, lendCtr := lc, borrowCtr := bc, prices := ps, killed := kl, depPools := dp }
  | _ => none

def parseExtB (s : String) : Option ExtB :=
  if s = "-" then some .err else if s = "!" then some .panic else
  match (s.splitOn ":").mapM parseInt? with
  | some [a, b] => some (.val a b)
  | _ => none

def parseIdExtB (s : String) : Option (Nat × ExtB) :=
  match s.splitOn "=" with
  | [a, b] => do let i ← parseNat? a; let e ← parseExtB b; pure (i, e)
  | _ => none

def parseIdInt (s : String) : Option (Nat × Int) :=
  match s.splitOn "=" with
  | [a, b] => do let i ← parseNat? a; let e ← parseInt? b; pure (i, e)
  | _ => none

def parsePoolAsset (s : String) : Option PoolAsset :=
  match (s.splitOn ":").mapM parseInt? with
  | some [a, t, c] => some { asset := a.toNat, transit := t.toNat, cap := c }
  | _ => none

def parseOp (name : String) (a : List String) : Option Op :=
  match name, a with
  | "lend", [u, asset, d, amt, pool, app, r] => do
    pure (.lend (← parseNat? u) (← parseNat? asset) (← parseNat? d) (← parseInt? amt) (← parseNat? pool) (← parseNat? app) (← parseInt? r))
  | "deposit", [u, id, d, amt, r] => do
    pure (.deposit (← parseNat? u) (← parseNat? id) (← parseNat? d) (← parseInt? amt) (← parseInt? r))
  | "withdraw", [u, id, d, amt, r] => do
    pure (.withdraw (← parseNat? u) (← parseNat? id) (← parseNat? d) (← parseInt? amt) (← parseInt? r))
  | "closeLend", [u, id, r] => do pure (.closeLend (← parseNat? u) (← parseNat? id) (← parseInt? r))
  | "borrow", [u, lid, pid, st, dIn, aIn, dOut, aOut, e1, e2] => do
    pure (.borrow (← parseNat? u) (← parseNat? lid) (← parseNat? pid) (← parseBool? st) (← parseNat? dIn) (← parseInt? aIn)
            (← parseNat? dOut) (← parseInt? aOut) (← parseExtB e1) (← parseExtB e2))
  | "borrowAlt", [u, asset, pool, d, amt, pid, st, dOut, aOut, app, r, e1, e2] => do
    pure (.borrowAlternate (← parseNat? u) (← parseNat? asset) (← parseNat? pool) (← parseNat? d) (← parseInt? amt) (← parseNat? pid)
            (← parseBool? st) (← parseNat? dOut) (← parseInt? aOut) (← parseNat? app) (← parseInt? r) (← parseExtB e1) (← parseExtB e2))
  | "depositBorrow", [u, id, d, amt, e] => do
    pure (.depositBorrow (← parseNat? u) (← parseNat? id) (← parseNat? d) (← parseInt? amt) (← parseExtB e))
  | "draw", [u, id, d, amt, e] => do
    pure (.draw (← parseNat? u) (← parseNat? id) (← parseNat? d) (← parseInt? amt) (← parseExtB e))
  | "repay", [u, id, d, amt, e] => do
    pure (.repay (← parseNat? u) (← parseNat? id) (← parseNat? d) (← parseInt? amt) (← parseExtB e))
  | "closeBorrow", [u, id, e] => do pure (.closeBorrow (← parseNat? u) (← parseNat? id) (← parseExtB e))
  | "repayWithdraw", [u, id, e, r] => do pure (.repayWithdraw (← parseNat? u) (← parseNat? id) (← parseExtB e) (← parseInt? r))
  | "calc", [u, bs, ls] => do
    pure (.calcAll (← parseNat? u) (← (splitOnNE bs ",").mapM parseIdExtB) (← (splitOnNE ls ",").mapM parseIdInt))
  | "fundModule", [u, pool, asset, d, amt] => do
    pure (.fundModule (← parseNat? u) (← parseNat? pool) (← parseNat? asset) (← parseNat? d) (← parseInt? amt))
  | "fundReserve", [u, asset, d, amt] => do
    pure (.fundReserve (← parseNat? u) (← parseNat? asset) (← parseNat? d) (← parseInt? amt))
  | "setPrice", [asset, twa] => do
    let t ← parseNat? twa
    pure (.setPrice (← parseNat? asset) (if t = 0 then none else some t))
  | "setKill", [app, on] => do pure (.setKill (← parseNat? app) (← parseBool? on))
  | "setDepreciated", [pool] => do pure (.setDepreciated (← parseNat? pool))
  | "handover", [id, ni] => do pure (.handover (← parseNat? id) (← parseInt? ni))
  | _, _ => none

/-! ### canonical form of a state (what is compared) -/

def insertBy {α} (lt : α → α → Bool) (x : α) : List α → List α
  | [] => [x]
  | y :: ys => if lt x y then x :: y :: ys else y :: insertBy lt x ys
def sortBy {α} (lt : α → α → Bool) (l : List α) : List α := l.foldr (insertBy lt) []

def showLend (l : Lend) : String := s!"{l.id}:{l.owner}:{l.pool}:{l.asset}:{l.amountIn}:{l.avail}:{l.app}"
def showBorrow (b : Borrow) : String :=
  s!"{b.id}:{b.lendingId}:{b.pairId}:{b.inDenom}:{b.amountIn}:{b.outDenom}:{b.amountOut}:{b.interest}:{b.stable}:{b.liq}:{b.brDenom}:{b.bridged}:{b.reserveInt}"
def showStats (s : Stats) : String := s!"{s.pool}:{s.asset}:{s.totalLend}:{s.totalBorrowed}:{s.totalStable}:{s.totalInterest}"

structure Canon where
  ctr : String
  lends : String
  borrows : String
  stats : String
  bank : String
  prices : String
  flags : String
  deriving DecidableEq

def canon (cfg : Cfg) (s : State) : Canon :=
  let keys := (s.bank.map (·.1)).eraseDups
  let bal := (keys.map fun k => (k, s.bank.get k.1 k.2)).filter fun e => e.2 != 0 && e.1.1 != cfg.auctionAcct
  let bal := sortBy (fun a b => a.1.1 < b.1.1 || (a.1.1 == b.1.1 && a.1.2 < b.1.2)) bal
  { ctr := s!"{s.lendCtr},{s.borrowCtr}",
    lends := "|".intercalate ((sortBy (fun a b => a.id < b.id) s.lends).map showLend),
    borrows := "|".intercalate ((sortBy (fun a b => a.id < b.id) s.borrows).map showBorrow),
    stats := "|".intercalate ((sortBy (fun a b => a.pool < b.pool || (a.pool == b.pool && a.asset < b.asset)) s.stats).map showStats),
    bank := "|".intercalate (bal.map fun e => s!"{e.1.1}:{e.1.2}:{e.2}"),
    prices := "|".intercalate ((sortBy (fun a b => a.1 < b.1) s.prices).map fun e => s!"{e.1}:{e.2}"),
    flags := showNatList (sortBy (fun a b => a < b) s.killed.eraseDups) ++ "/" ++ showNatList (sortBy (fun a b => a < b) s.depPools.eraseDups) }

def diffCanon (m i : Canon) : List String :=
  (if m.ctr = i.ctr then [] else [s!"ctr model={m.ctr} impl={i.ctr}"]) ++
  (if m.lends = i.lends then [] else [s!"lends model={m.lends} impl={i.lends}"]) ++
  (if m.borrows = i.borrows then [] else [s!"borrows model={m.borrows} impl={i.borrows}"]) ++
  (if m.stats = i.stats then [] else [s!"stats model={m.stats} impl={i.stats}"]) ++
  (if m.bank = i.bank then [] else [s!"bank model={m.bank} impl={i.bank}"]) ++
  (if m.prices = i.prices then [] else [s!"prices model={m.prices} impl={i.prices}"]) ++
  (if m.flags = i.flags then [] else [s!"flags model={m.flags} impl={i.flags}"])

/-! ### monitors on the real state -/

/-- debt value / value of the PLEDGED tokens ≤ the pair's LTV, at the prices in force (Dec arithmetic of the chain).
The pledged tokens are cTokens; they are valued as the asset they are the cToken of. -/
def ltvHolds (cfg : Cfg) (s : State) (b : Borrow) (newInter : Bool) : Bool :=
  match cfg.pair? b.pairId with
  | none => false
  | some pair =>
    match cfg.rates? pair.assetIn with
    | none => false
    | some rates =>
      let collAsset := match cfg.rates.find? (fun r => r.cAsset == b.inDenom) with | some r => r.asset | none => 0
      let ltv := if pair.eMode then rates.eLtv else rates.ltv
      let main := match collRatio cfg s.prices b.amountIn collAsset (b.amountOut + Dec.truncateInt b.interest) pair.assetOut with
        | .ok r => decide (r ≤ ltv)
        | .error _ => false
      let bridge :=
        if newInter then
          match cfg.rates? b.brDenom with
          | none => false
          | some rt =>
            match collRatio cfg s.prices b.bridged b.brDenom b.amountOut pair.assetOut with
            | .ok r => decide (r ≤ rt.ltv)
            | .error _ => false
        else true
      main && bridge

/-- the same decision in its exact integer form (`ExactLtv`, Props/C08 `ltv_exact`): evaluated on the real accepted operation -/
def ltvExactHolds (cfg : Cfg) (s : State) (b : Borrow) (newInter : Bool) : Bool :=
  match cfg.pair? b.pairId with
  | none => false
  | some pair =>
    match cfg.rates? pair.assetIn with
    | none => false
    | some rates =>
      let collAsset := match cfg.rates.find? (fun r => r.cAsset == b.inDenom) with | some r => r.asset | none => 0
      let ltv := if pair.eMode then rates.eLtv else rates.ltv
      let main := exactLtvOn cfg s.prices ltv b.amountIn collAsset (b.amountOut + Dec.truncateInt b.interest) pair.assetOut
      let bridge := if newInter then
          match cfg.rates? b.brDenom with
          | none => false
          | some rt => exactLtvOn cfg s.prices rt.ltv b.bridged b.brDenom b.amountOut pair.assetOut
        else true
      main && bridge

/-- the borrow an accepted borrow-type message created or topped up -/
def touchedBorrow (pre post : State) (u pairId : Nat) : Option (Borrow × Bool) :=
  if post.borrowCtr > pre.borrowCtr then (getBorrow post.borrows post.borrowCtr).map (·, true)
  else match findBorrowByPair pre u pairId with
    | some b => (getBorrow post.borrows b.id).map (·, false)
    | none => none

def monBorrow (cfg : Cfg) (pre post : State) (u : Nat) (b : Borrow) (isNew : Bool) (dOut : Nat) (y : Int) : List String :=
  let inter := match cfg.pair? b.pairId with | some p => p.inter | none => false
  let m1 := (if ltvHolds cfg post b (isNew && inter) then [] else ["ltv"]) ++
            (if ltvExactHolds cfg post b (isNew && inter) then [] else ["ltv_exact"])
  let m2 := match cfg.pair? b.pairId with
    | none => ["pool_funds"]
    | some pair =>
      match cfg.pool? pair.outPool with
      | none => ["pool_funds"]
      | some op =>
        let before := match getBorrow pre.borrows b.id with | some b0 => b0.bridged | none => 0
        let inflow := if b.brDenom = dOut then b.bridged - before else 0
        if pre.bank.get op.acct dOut + inflow ≥ y ∧ post.bank.get u dOut - pre.bank.get u dOut = y
           ∧ post.bank.get op.acct dOut ≥ 0 then [] else ["pool_funds"]
  m1 ++ m2

/-- `repaid`: what the same message took from the user in the lend's own denomination (repay-withdraw of a borrow of that asset) -/
def monWithdraw (pre post : State) (u lendId : Nat) (r extra : Int) (repaid : Nat → Int := fun _ => 0) : List String :=
  match getLend pre.lends lendId with
  | none => ["pledged_safe"]
  | some l =>
    let released := post.bank.get u l.asset - pre.bank.get u l.asset + repaid l.asset
    let bound := l.avail + r + extra
    let okLend : Bool := match getLend post.lends lendId with
      | some l' => decide (l'.avail = bound - released ∧ l'.avail ≥ 0)
      | none => decide (released = bound)
    let okPledged : Bool := extra != 0 || decide (pledgedOf post.borrows lendId = pledgedOf pre.borrows lendId)
    if decide (released ≤ bound) && okLend && okPledged then [] else ["pledged_safe"]

def monitors (cfg : Cfg) (pre post : State) (op : Op) : List String :=
  match op with
  | .borrow u _ pairId _ _ _ dOut aOut _ _ =>
    match touchedBorrow pre post u pairId with
    | some (b, isNew) => monBorrow cfg pre post u b isNew dOut aOut
    | none => ["ltv"]
  | .borrowAlternate u _ _ _ _ pairId _ dOut aOut _ _ _ _ =>
    match touchedBorrow pre post u pairId with
    | some (b, isNew) => monBorrow cfg pre post u b isNew dOut aOut
    | none => ["ltv"]
  | .draw u id d y _ =>
    match getBorrow post.borrows id with
    | some b => monBorrow cfg pre post u b false d y
    | none => ["ltv"]
  | .withdraw u id _ _ r => monWithdraw pre post u id r 0
  | .closeLend u id r => monWithdraw pre post u id r 0
  | .repayWithdraw u id e r =>
    match getBorrow pre.borrows id with
    | some b =>
      let dI := match e with | .val dI _ => dI | _ => 0
      monWithdraw pre post u b.lendingId r b.amountIn (fun d => if d = b.outDenom then b.amountOut + Dec.truncateInt (b.interest + dI) else 0)
    | none => ["pledged_safe"]
  | _ => []

/-- per (pool, asset): published total − sum over positions (non-zero entries only) -/
def lendGaps (s : State) : List ((Nat × Nat) × Int) :=
  (s.stats.map fun st => ((st.pool, st.asset), st.totalLend - lendSum s.lends s.borrows st.pool st.asset)).filter fun e => e.2 != 0
def borGaps (cfg : Cfg) (stable : Bool) (s : State) : List ((Nat × Nat) × Int) :=
  (s.stats.map fun st => ((st.pool, st.asset),
      (if stable then st.totalStable else st.totalBorrowed) - borrowedSum cfg s.borrows st.pool st.asset stable)).filter fun e => e.2 != 0
/-- some gap is non-zero after the line and was different before it -/
def gapChanged (pre post : List ((Nat × Nat) × Int)) : Bool :=
  post.any fun e => (pre.lookup e.1).getD 0 != e.2

/-- D19: the line is a hand-over that deleted the lend position, and the only lent-total gap that moved is the one of that position's
(pool, asset), by exactly what was left in the position (availableToBorrow + pledges of its other open borrows). -/
def orphanedBy (pre post : State) (op : Op) : Bool :=
  match op with
  | .handover k _ =>
    match getBorrow pre.borrows k with
    | none => false
    | some b =>
      match getLend pre.lends b.lendingId, getLend post.lends b.lendingId with
      | some l, none =>
        let left := l.avail + pledgedOf pre.borrows l.id - b.amountIn
        let g0 := lendGaps pre
        let g1 := lendGaps post
        decide (left > 0) && g1.all fun e =>
          let old := (g0.lookup e.1).getD 0
          if e.1 = (l.pool, l.asset) then e.2 == old + left else e.2 == old
      | _, _ => false
  | _ => false

def extNonneg : Op → Bool
  | .lend _ _ _ _ _ _ r => r ≥ 0
  | .deposit _ _ _ _ r => r ≥ 0
  | .withdraw _ _ _ _ r => r ≥ 0
  | .closeLend _ _ r => r ≥ 0
  | .borrowAlternate _ _ _ _ _ _ _ _ _ _ r _ _ => r ≥ 0
  | .repayWithdraw _ _ _ r => r ≥ 0
  | .calcAll _ _ ls => ls.all fun e => e.2 ≥ 0
  | _ => true

/-! ### one line -/

def handleOp (st : St) (seq name : String) (args : List String) (outcome : String) (implF : List String) : St × List String :=
  match parseOp name args, parseState implF with
  | none, _ => (st, [s!"BAD\t{seq}\tcannot parse op {name} {args}"])
  | _, none => (st, [s!"BAD\t{seq}\tcannot parse state"])
  | some op, some impl =>
    let pre := st.s
    let ci := canon st.cfg impl
    let bad := if extNonneg op then [] else [s!"BAD\t{seq}\tnegative external reward"]
    let diffs :=
      match step st.cfg pre op with
      | .ok m =>
        if outcome = "ok" then (diffCanon (canon st.cfg m) ci).map fun d => s!"DIFF\t{seq}\t{name}\t{d}"
        else [s!"DIFF\t{seq}\t{name}\tmodel=ok impl={outcome}"]
      | .error e =>
        if outcome = "ok" then [s!"DIFF\t{seq}\t{name}\tmodel=err({e}) impl=ok"]
        else (diffCanon (canon st.cfg pre) ci).map fun d => s!"DIFF\t{seq}\t{name}\trejected message changed state: {d}"
    let mons := if outcome = "ok" then monitors st.cfg pre impl op else []
    let gl := gapChanged (lendGaps pre) (lendGaps impl)
    let lendName := if orphanedBy pre impl op then "total_lend_orphaned" else "total_lend"
    let mons := mons ++ (if gl then [lendName] else [])
                     ++ (if gapChanged (borGaps st.cfg false pre) (borGaps st.cfg false impl) then ["total_borrowed"] else [])
                     ++ (if gapChanged (borGaps st.cfg true pre) (borGaps st.cfg true impl) then ["total_stable"] else [])
    ({ st with s := impl }, bad ++ diffs ++ mons.map fun m => s!"MON\t{seq}\t{m}\t{name}")

def opLine (st : St) (seq name : String) (rest : List String) : St × List String :=
  let n := rest.length
  if n < 8 then (st, [s!"BAD\t{seq}\top fields"]) else
  let args := rest.take (n - 8)
  match rest.drop (n - 8) with
  | outcome :: implF => handleOp st seq name args outcome implF
  | [] => (st, [s!"BAD\t{seq}\top fields"])

def handle (st : St) (seq : String) (f : List String) : St × List String :=
  let bad (w : String) : St × List String := (st, [s!"BAD\t{seq}\t{w}"])
  match f with
  | ["lend.begin", r, a] =>
    match parseNat? r, parseNat? a with
    | some r, some a => ({ cfg := { reserveAcct := r, auctionAcct := a } }, [])
    | _, _ => bad "begin"
  | ["lend.cfg.asset", id, dec] =>
    match parseNat? id, parseInt? dec with
    | some id, some dec => ({ st with cfg := { st.cfg with assets := st.cfg.assets ++ [{ id := id, decimals := dec }] } }, [])
    | _, _ => bad "cfg.asset"
  | ["lend.cfg.rates", a, ltv, eltv, c, iso, stb] =>
    match parseNat? a, parseInt? ltv, parseInt? eltv, parseNat? c, parseBool? iso, parseBool? stb with
    | some a, some ltv, some eltv, some c, some iso, some stb =>
      ({ st with cfg := { st.cfg with rates := st.cfg.rates ++ [{ asset := a, ltv := ltv, eLtv := eltv, cAsset := c, isolated := iso, stableOk := stb }] } }, [])
    | _, _, _, _, _, _ => bad "cfg.rates"
  | ["lend.cfg.pool", id, acct, ds] =>
    match parseNat? id, parseNat? acct, (splitOnNE ds ",").mapM parsePoolAsset with
    | some id, some acct, some ds => ({ st with cfg := { st.cfg with pools := st.cfg.pools ++ [{ id := id, acct := acct, assets := ds }] } }, [])
    | _, _, _ => bad "cfg.pool"
  | ["lend.cfg.pair", id, i, o, inter, op, em] =>
    match parseNat? id, parseNat? i, parseNat? o, parseBool? inter, parseNat? op, parseBool? em with
    | some id, some i, some o, some inter, some op, some em =>
      ({ st with cfg := { st.cfg with pairs := st.cfg.pairs ++ [{ id := id, assetIn := i, assetOut := o, inter := inter, outPool := op, eMode := em }] } }, [])
    | _, _, _, _, _, _ => bad "cfg.pair"
  | ["lend.cfg.a2p", a, p, ids] =>
    match parseNat? a, parseNat? p, parseNatList ids with
    | some a, some p, some ids => ({ st with cfg := { st.cfg with a2p := st.cfg.a2p ++ [{ asset := a, pool := p, pairs := ids }] } }, [])
    | _, _, _ => bad "cfg.a2p"
  | ["lend.cfg.app", id, c] =>
    match parseNat? id, parseBool? c with
    | some id, some c => ({ st with cfg := { st.cfg with apps := st.cfg.apps ++ [(id, c)] } }, [])
    | _, _ => bad "cfg.app"
  | "lend.init" :: rest =>
    match parseState rest with
    | some s =>
      -- the model's genesis must be the real genesis: zero totals for every (pool, asset)
      let g := { Comdex.Lend.init st.cfg s.bank s.prices with killed := s.killed, depPools := s.depPools }
      let d := (diffCanon (canon st.cfg g) (canon st.cfg s)).map fun x => s!"DIFF\t{seq}\tinit\t{x}"
      ({ st with s := s }, d)
    | none => bad "init state"
  | "lend.handover" :: rest => opLine st seq "handover" rest
  | "lend.op" :: name :: rest => opLine st seq name rest
  | _ => bad "unknown lend line"

end Comdex.Drv.Lend
