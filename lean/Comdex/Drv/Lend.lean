import Comdex.Base.Line
import Comdex.Model.Lend
import Comdex.Model.LendAccrual
/-! Driver for the lending-books model (property C08).

Lines (tab separated):
  lend.begin       reserveAcct auctionAcct                       -- new sequence, empty configuration
  lend.cfg.asset   id decimals
  lend.cfg.rates   asset ltv eLtv cAsset isolated stableOk       -- Dec values raw 10^-18
  lend.cfg.pool    id acct asset:transit:cap,…
  lend.cfg.pair    id assetIn assetOut inter outPool eMode
  lend.cfg.a2p     asset pool pairIds
  lend.cfg.app     id isCommodo
  lend.init        <state>
  lend.op <name> args… <outcome> <state>                         -- outcome ∈ ok err err:basic panic
  lend.handover borrowId newInterest <outcome> <state>           -- the V2 liquidation hand-over (own trace kind: own call site)
  lend.close bidder borrowId paid recv left topUp <outcome> <state>  -- the closing bid of the V2 auction (MsgCloseDutchAuctionForBorrow)
  lend.beginblock <outcome> <state>                              -- the x/lend block hook at a height divisible by 14400
  lend.migrate pairs rates <outcome> <state>                     -- the store migration 2 → 3 ran: pairs `id:inter:eMode,…`, rates
                                                                    `asset:stableOk:isolated:eLtv:ePenalty:ltv:cAsset:penalty,…` after it
<state> := ctr(lendCtr,borrowCtr,blockTime)  L  B  S  K  P  F  AB  AL  R  V   (eleven fields, records `|`-separated, record fields `:`-separated)
  L id:owner:pool:asset:amountIn:avail:app
  B id:lendingId:pairId:inDenom:amountIn:outDenom:amountOut:interest:stable:liq:brDenom:bridged:reserveInt
  S pool:asset:totalLend:totalBorrowed:totalStable:totalInterest:lendIds:borrowIds          (id lists `.`-separated)
  R asset:reserve:buyback:outToLenders:outForAuction:inLiqPenalty:inRepayments:totalOutToLenders:funded   (all-zero records omitted)
  V borrowId:owner:targetDebt:fee                                                          (locked vaults of handed-over borrows)
  K acct:denom:amount        P asset:twa        F killedApps/depreciatedPools/pendingEntries/deletedPools (comma lists)
  AB id:globalIndex:reserveGlobalIndex:lastInteraction:stableRate      AL id:globalIndex:lastInteraction:rewardTracker   (accrual state)
External inputs: a borrow accrual slot is `dI:dR:apr:rr` | `!:apr:rr` | `-`, a lend accrual slot `reward:apr`. The RATES (apr, rr) are what
the model consumes: it recomputes the amounts and the indices with `Model/LendAccrual.lean` from its own accrual state and the block
time; the reported amounts are only cross-checked (DIFF `accrual`), the model's own values drive the ledger step, and the accrual
state it derives is compared with the real records after every line (DIFF `accrual-state`).
Hand-over: `borrowId newInterest apr:rr`.   The model is re-synchronised to the real state after every line.

Monitors (evaluated on the REAL state projection): total_lend total_borrowed total_stable ltv ltv_exact pool_funds pledged_safe,
total_lend_orphaned, ids_consistent (every pool-asset record lists exactly the ids of its live lends / borrows, in order), reserve_ledger
(reserve module balance = genesis + recorded inflows − recorded outflows, per asset; `reserve_ledger_poolsweep` instead, on a block-hook
line whose gap change is exactly the pool balances the hook swept into the reserve: finding), reserve_halves (ReserveAmount = BuybackAmount). The three book monitors compare, per (pool, asset), the GAP between the published total and the sum over
positions before and after the line and fire when a gap changes to a non-zero value — so a mismatch that is already there (a known
finding earlier in the history) neither repeats on later lines nor hides a new cause. `total_lend_orphaned` replaces `total_lend` on a
hand-over line whose new gap is exactly what was left in the lend position the hand-over deleted (availableToBorrow + other open
pledges): finding D19.
-/
-- DRIVER: prefix=lend ns=Comdex.Drv.Lend
namespace Comdex.Drv.Lend
open Comdex Comdex.Lend Comdex.Line

structure St where
  cfg : Cfg := {}
  s : State := {}
  accB : List AccB := []
  accL : List AccL := []
  now : Int := 0
  bank0 : Bank := []          -- the genesis balances (the reserve ledger is relative to them)

def init : St := {}

/-! ### parsing -/

def splitOnNE (s : String) (sep : String) : List String := if s = "" then [] else s.splitOn sep

def parseLend (r : String) : Option Lend :=
  match (r.splitOn ":").mapM parseInt? with
  | some [id, o, p, a, ai, av, app] =>
    some { id := id.toNat, owner := o.toNat, pool := p.toNat, asset := a.toNat, amountIn := ai, avail := av, app := app.toNat }
  | _ => none

def parseBorrow (r : String) : Option Borrow :=
  match (r.splitOn ":").mapM parseInt? with
  | some [id, lid, pid, dIn, aIn, dOut, aOut, int, st, lq, bd, br, res] =>
    some { id := id.toNat, lendingId := lid.toNat, pairId := pid.toNat, inDenom := dIn.toNat, amountIn := aIn, outDenom := dOut.toNat,
           amountOut := aOut, interest := int, stable := st != 0, liq := lq != 0, brDenom := bd.toNat, bridged := br, reserveInt := res }
  | _ => none

def parseDots (s : String) : Option (List Nat) := (splitOnNE s ".").mapM parseNat?

def parseStats (r : String) : Option Stats :=
  match r.splitOn ":" with
  | [p, a, tl, tb, ts, ti, li, bi] => do
    pure { pool := (← parseNat? p), asset := (← parseNat? a), totalLend := (← parseInt? tl), totalBorrowed := (← parseInt? tb),
           totalStable := (← parseInt? ts), totalInterest := (← parseInt? ti), lendIds := (← parseDots li), borrowIds := (← parseDots bi) }
  | _ => none

def parseResv (r : String) : Option Resv :=
  match (r.splitOn ":").mapM parseInt? with
  | some [a, rv, bb, ol, oa, ip, ir, to, fd] =>
    some { asset := a.toNat, reserve := rv, buyback := bb, outLenders := ol, outAuction := oa, inPenalty := ip, inRepay := ir,
           totalOutLenders := to, funded := fd }
  | _ => none

def parseLocked (r : String) : Option Locked :=
  match (r.splitOn ":").mapM parseInt? with
  | some [b, o, t, f] => some { borrowId := b.toNat, owner := o.toNat, target := t, fee := f }
  | _ => none

def parseBal (r : String) : Option ((Nat × Nat) × Int) :=
  match (r.splitOn ":").mapM parseInt? with
  | some [a, d, x] => some ((a.toNat, d.toNat), x)
  | _ => none

def parsePrice (r : String) : Option (Nat × Nat) :=
  match (r.splitOn ":").mapM parseNat? with
  | some [a, t] => some (a, t)
  | _ => none

def parseState (f : List String) : Option State :=
  match f with
  | [ctr, l, b, s, k, p, fl, _, _, rv, lv] => do
    let c ← parseNatList ctr
    let (lc, bc) ← match c with | [x, y, _] => some (x, y) | _ => none
    let ls ← (splitOnNE l "|").mapM parseLend
    let bs ← (splitOnNE b "|").mapM parseBorrow
    let ss ← (splitOnNE s "|").mapM parseStats
    let ks ← (splitOnNE k "|").mapM parseBal
    let ps ← (splitOnNE p "|").mapM parsePrice
    let (kl, dp, pend, del) ← match fl.splitOn "/" with
      | [a, b] => do pure ((← parseNatList a), (← parseNatList b), [], [])
      | [a, b, c, d] => do pure ((← parseNatList a), (← parseNatList b), (← parseNatList c), (← parseNatList d))
      | _ => none
    let rs ← (splitOnNE rv "|").mapM parseResv
    let vs ← (splitOnNE lv "|").mapM parseLocked
    pure { lends := ls, borrows := bs, stats := ss, bank := ks, lendCtr := lc, borrowCtr := bc, prices := ps, killed := kl, depPools := dp,
           depPending := pend, delPools := del, resv := rs, locked := vs }
  | _ => none

/-- reported outcome of one `IterateBorrow` plus the rates it used (`none` = not available) -/
structure BSlot where
  reported : ExtB
  rates : Option (Dec × Dec) := none     -- (borrow APR, reserve rate)

def parseBSlot (s : String) : Option BSlot :=
  if s = "-" then some { reported := .err } else
  match s.splitOn ":" with
  | ["!", a, r] => do pure { reported := .panic, rates := some ((← parseInt? a), (← parseInt? r)) }
  | [x, y, a, r] => do pure { reported := .val (← parseInt? x) (← parseInt? y), rates := some ((← parseInt? a), (← parseInt? r)) }
  | [x, y] => do pure { reported := .val (← parseInt? x) (← parseInt? y) }
  | _ => none

def parseExtB (s : String) : Option ExtB := (parseBSlot s).map (·.reported)

/-- reported reward of one `IterateLends` plus the lend APR it used -/
structure LSlot where
  reported : Int
  apr : Option Dec := none

def parseLSlot (s : String) : Option LSlot :=
  match s.splitOn ":" with
  | [r, a] => do pure { reported := (← parseInt? r), apr := some (← parseInt? a) }
  | [r] => do pure { reported := (← parseInt? r) }
  | _ => none

def parseReward (s : String) : Option Int := (parseLSlot s).map (·.reported)

def parseAccB (r : String) : Option AccB :=
  match (r.splitOn ":").mapM parseInt? with
  | some [id, gi, rgi, last, sr] => some { id := id.toNat, gi := gi, rgi := rgi, last := last, stableRate := sr }
  | _ => none
def parseAccL (r : String) : Option AccL :=
  match (r.splitOn ":").mapM parseInt? with
  | some [id, gi, last, tr] => some { id := id.toNat, gi := gi, last := last, tracker := tr }
  | _ => none

/-- block time and accrual state carried by a state projection -/
def parseAcc (f : List String) : Option (Int × List AccB × List AccL) :=
  match f with
  | [ctr, _, _, _, _, _, _, ab, al, _, _] => do
    let c ← parseIntList ctr
    let now ← match c with | [_, _, t] => some t | _ => none
    pure (now, (← (splitOnNE ab "|").mapM parseAccB), (← (splitOnNE al "|").mapM parseAccL))
  | _ => none

def parseIdExtB (s : String) : Option (Nat × ExtB) :=
  match s.splitOn "=" with
  | [a, b] => do let i ← parseNat? a; let e ← parseExtB b; pure (i, e)
  | _ => none

def parseIdInt (s : String) : Option (Nat × Int) :=
  match s.splitOn "=" with
  | [a, b] => do let i ← parseNat? a; let e ← parseReward b; pure (i, e)
  | _ => none

def parsePoolAsset (s : String) : Option PoolAsset :=
  match (s.splitOn ":").mapM parseInt? with
  | some [a, t, c] => some { asset := a.toNat, transit := t.toNat, cap := c }
  | _ => none

def parseOp (name : String) (a : List String) : Option Op :=
  match name, a with
  | "lend", [u, asset, d, amt, pool, app, r] => do
    pure (.lend (← parseNat? u) (← parseNat? asset) (← parseNat? d) (← parseInt? amt) (← parseNat? pool) (← parseNat? app) (← parseReward r))
  | "deposit", [u, id, d, amt, r] => do
    pure (.deposit (← parseNat? u) (← parseNat? id) (← parseNat? d) (← parseInt? amt) (← parseReward r))
  | "withdraw", [u, id, d, amt, r] => do
    pure (.withdraw (← parseNat? u) (← parseNat? id) (← parseNat? d) (← parseInt? amt) (← parseReward r))
  | "closeLend", [u, id, r] => do pure (.closeLend (← parseNat? u) (← parseNat? id) (← parseReward r))
  | "borrow", [u, lid, pid, st, dIn, aIn, dOut, aOut, e1, e2] => do
    pure (.borrow (← parseNat? u) (← parseNat? lid) (← parseNat? pid) (← parseBool? st) (← parseNat? dIn) (← parseInt? aIn)
            (← parseNat? dOut) (← parseInt? aOut) (← parseExtB e1) (← parseExtB e2))
  | "borrowAlt", [u, asset, pool, d, amt, pid, st, dOut, aOut, app, r, e1, e2] => do
    pure (.borrowAlternate (← parseNat? u) (← parseNat? asset) (← parseNat? pool) (← parseNat? d) (← parseInt? amt) (← parseNat? pid)
            (← parseBool? st) (← parseNat? dOut) (← parseInt? aOut) (← parseNat? app) (← parseReward r) (← parseExtB e1) (← parseExtB e2))
  | "depositBorrow", [u, id, d, amt, e] => do
    pure (.depositBorrow (← parseNat? u) (← parseNat? id) (← parseNat? d) (← parseInt? amt) (← parseExtB e))
  | "draw", [u, id, d, amt, e] => do
    pure (.draw (← parseNat? u) (← parseNat? id) (← parseNat? d) (← parseInt? amt) (← parseExtB e))
  | "repay", [u, id, d, amt, e] => do
    pure (.repay (← parseNat? u) (← parseNat? id) (← parseNat? d) (← parseInt? amt) (← parseExtB e))
  | "closeBorrow", [u, id, e] => do pure (.closeBorrow (← parseNat? u) (← parseNat? id) (← parseExtB e))
  | "repayWithdraw", [u, id, e, r] => do pure (.repayWithdraw (← parseNat? u) (← parseNat? id) (← parseExtB e) (← parseReward r))
  | "calc", [u, bs, ls] => do
    pure (.calcAll (← parseNat? u) (← (splitOnNE bs ",").mapM parseIdExtB) (← (splitOnNE ls ",").mapM parseIdInt))
  | "fundModule", [u, pool, asset, d, amt] => do
    pure (.fundModule (← parseNat? u) (← parseNat? pool) (← parseNat? asset) (← parseNat? d) (← parseInt? amt))
  | "fundReserve", [u, asset, d, amt] => do
    pure (.fundReserve (← parseNat? u) (← parseNat? asset) (← parseNat? d) (← parseInt? amt))
  | "setPrice", [asset, twa] => do
    let t ← parseNat? twa
    pure (.setPrice (← parseNat? asset) (if t = 0 then none else some t))
  | "setKill", [app, on] => do pure (.setKill (← parseNat? app) (← parseBool? on))
  | "setDepreciated", [pool] => do pure (.setDepreciated (← parseNat? pool) true)
  | "setDepreciated", [pool, flag] => do pure (.setDepreciated (← parseNat? pool) (← parseBool? flag))
  | "beginBlock", [] => pure .beginBlock
  | "handover", [id, ni, _] => do pure (.handover (← parseNat? id) (← parseInt? ni))
  | "handover", [id, ni] => do pure (.handover (← parseNat? id) (← parseInt? ni))
  | "bid", [u, id, paid, recv] => do pure (.bid (← parseNat? u) (← parseNat? id) (← parseInt? paid) (← parseInt? recv))
  | "auctionClose", [u, id, paid, recv, left, top] => do
    pure (.auctionClose (← parseNat? u) (← parseNat? id) (← parseInt? paid) (← parseInt? recv) (← parseInt? left) (← parseInt? top))
  | _, _ => none

/-! ### canonical form of a state (what is compared) -/

def insertBy {α} (lt : α → α → Bool) (x : α) : List α → List α
  | [] => [x]
  | y :: ys => if lt x y then x :: y :: ys else y :: insertBy lt x ys
def sortBy {α} (lt : α → α → Bool) (l : List α) : List α := l.foldr (insertBy lt) []

def showLend (l : Lend) : String := s!"{l.id}:{l.owner}:{l.pool}:{l.asset}:{l.amountIn}:{l.avail}:{l.app}"
def showBorrow (b : Borrow) : String :=
  s!"{b.id}:{b.lendingId}:{b.pairId}:{b.inDenom}:{b.amountIn}:{b.outDenom}:{b.amountOut}:{b.interest}:{b.stable}:{b.liq}:{b.brDenom}:{b.bridged}:{b.reserveInt}"
def showStats (s : Stats) : String :=
  s!"{s.pool}:{s.asset}:{s.totalLend}:{s.totalBorrowed}:{s.totalStable}:{s.totalInterest}:{showNatList s.lendIds}:{showNatList s.borrowIds}"
def showResv (r : Resv) : String :=
  s!"{r.asset}:{r.reserve}:{r.buyback}:{r.outLenders}:{r.outAuction}:{r.inPenalty}:{r.inRepay}:{r.totalOutLenders}:{r.funded}"
def showLocked (k : Locked) : String := s!"{k.borrowId}:{k.owner}:{k.target}:{k.fee}"

structure Canon where
  ctr : String
  lends : String
  borrows : String
  stats : String
  bank : String
  prices : String
  flags : String
  resv : String
  locked : String
  deriving DecidableEq

def canon (_cfg : Cfg) (s : State) : Canon :=
  let keys := (s.bank.map (·.1)).eraseDups
  let bal := (keys.map fun k => (k, s.bank.get k.1 k.2)).filter fun e => e.2 != 0
  -- one record per asset (first wins, as `getResv`), all-zero records dropped
  let rassets := (s.resv.map (·.asset)).eraseDups
  let rrecs := (rassets.map fun a => getResv s.resv a).filter fun r => r != { asset := r.asset }
  let bal := sortBy (fun a b => a.1.1 < b.1.1 || (a.1.1 == b.1.1 && a.1.2 < b.1.2)) bal
  { ctr := s!"{s.lendCtr},{s.borrowCtr}",
    lends := "|".intercalate ((sortBy (fun a b => a.id < b.id) s.lends).map showLend),
    borrows := "|".intercalate ((sortBy (fun a b => a.id < b.id) s.borrows).map showBorrow),
    stats := "|".intercalate ((sortBy (fun a b => a.pool < b.pool || (a.pool == b.pool && a.asset < b.asset)) s.stats).map showStats),
    bank := "|".intercalate (bal.map fun e => s!"{e.1.1}:{e.1.2}:{e.2}"),
    prices := "|".intercalate ((sortBy (fun a b => a.1 < b.1) s.prices).map fun e => s!"{e.1}:{e.2}"),
    flags := showNatList (sortBy (fun a b => a < b) s.killed.eraseDups) ++ "/" ++ showNatList (sortBy (fun a b => a < b) s.depPools.eraseDups)
             ++ "/" ++ showNatList s.depPending ++ "/" ++ showNatList (sortBy (fun a b => a < b) s.delPools.eraseDups),
    resv := "|".intercalate ((sortBy (fun a b => a.asset < b.asset) rrecs).map showResv),
    locked := "|".intercalate ((sortBy (fun a b => a.borrowId < b.borrowId) s.locked).map showLocked) }

def diffCanon (m i : Canon) : List String :=
  (if m.ctr = i.ctr then [] else [s!"ctr model={m.ctr} impl={i.ctr}"]) ++
  (if m.lends = i.lends then [] else [s!"lends model={m.lends} impl={i.lends}"]) ++
  (if m.borrows = i.borrows then [] else [s!"borrows model={m.borrows} impl={i.borrows}"]) ++
  (if m.stats = i.stats then [] else [s!"stats model={m.stats} impl={i.stats}"]) ++
  (if m.bank = i.bank then [] else [s!"bank model={m.bank} impl={i.bank}"]) ++
  (if m.prices = i.prices then [] else [s!"prices model={m.prices} impl={i.prices}"]) ++
  (if m.flags = i.flags then [] else [s!"flags model={m.flags} impl={i.flags}"]) ++
  (if m.resv = i.resv then [] else [s!"resv model={m.resv} impl={i.resv}"]) ++
  (if m.locked = i.locked then [] else [s!"locked model={m.locked} impl={i.locked}"])

/-! ### monitors on the real state -/

/-- debt value / value of the PLEDGED tokens ≤ the pair's LTV, at the prices in force (Dec arithmetic of the chain).
The pledged tokens are cTokens; they are valued as the asset they are the cToken of. -/
def ltvHolds (cfg : Cfg) (s : State) (b : Borrow) (newInter : Bool) : Bool :=
  match cfg.pair? b.pairId with
  | none => false
  | some pair =>
    match cfg.rates? pair.assetIn with
    | none => false
    | some rates =>
      let collAsset := match cfg.rates.find? (fun r => r.cAsset == b.inDenom) with | some r => r.asset | none => 0
      let ltv := if pair.eMode then rates.eLtv else rates.ltv
      let main := match collRatio cfg s.prices b.amountIn collAsset (b.amountOut + Dec.truncateInt b.interest) pair.assetOut with
        | .ok r => decide (r ≤ ltv)
        | .error _ => false
      let bridge :=
        if newInter then
          match cfg.rates? b.brDenom with
          | none => false
          | some rt =>
            match collRatio cfg s.prices b.bridged b.brDenom b.amountOut pair.assetOut with
            | .ok r => decide (r ≤ rt.ltv)
            | .error _ => false
        else true
      main && bridge

/-- the same decision in its exact integer form (`ExactLtv`, Props/C08 `ltv_exact`): evaluated on the real accepted operation -/
def ltvExactHolds (cfg : Cfg) (s : State) (b : Borrow) (newInter : Bool) : Bool :=
  match cfg.pair? b.pairId with
  | none => false
  | some pair =>
    match cfg.rates? pair.assetIn with
    | none => false
    | some rates =>
      let collAsset := match cfg.rates.find? (fun r => r.cAsset == b.inDenom) with | some r => r.asset | none => 0
      let ltv := if pair.eMode then rates.eLtv else rates.ltv
      let main := exactLtvOn cfg s.prices ltv b.amountIn collAsset (b.amountOut + Dec.truncateInt b.interest) pair.assetOut
      let bridge := if newInter then
          match cfg.rates? b.brDenom with
          | none => false
          | some rt => exactLtvOn cfg s.prices rt.ltv b.bridged b.brDenom b.amountOut pair.assetOut
        else true
      main && bridge

/-- the borrow an accepted borrow-type message created or topped up -/
def touchedBorrow (pre post : State) (u pairId : Nat) : Option (Borrow × Bool) :=
  if post.borrowCtr > pre.borrowCtr then (getBorrow post.borrows post.borrowCtr).map (·, true)
  else match findBorrowByPair pre u pairId with
    | some b => (getBorrow post.borrows b.id).map (·, false)
    | none => none

def monBorrow (cfg : Cfg) (pre post : State) (u : Nat) (b : Borrow) (isNew : Bool) (dOut : Nat) (y : Int) : List String :=
  let inter := match cfg.pair? b.pairId with | some p => p.inter | none => false
  let m1 := (if ltvHolds cfg post b (isNew && inter) then [] else ["ltv"]) ++
            (if ltvExactHolds cfg post b (isNew && inter) then [] else ["ltv_exact"])
  let m2 := match cfg.pair? b.pairId with
    | none => ["pool_funds"]
    | some pair =>
      match cfg.pool? pair.outPool with
      | none => ["pool_funds"]
      | some op =>
        let before := match getBorrow pre.borrows b.id with | some b0 => b0.bridged | none => 0
        let inflow := if b.brDenom = dOut then b.bridged - before else 0
        if pre.bank.get op.acct dOut + inflow ≥ y ∧ post.bank.get u dOut - pre.bank.get u dOut = y
           ∧ post.bank.get op.acct dOut ≥ 0 then [] else ["pool_funds"]
  m1 ++ m2

/-- `repaid`: what the same message took from the user in the lend's own denomination (repay-withdraw of a borrow of that asset) -/
def monWithdraw (pre post : State) (u lendId : Nat) (r extra : Int) (repaid : Nat → Int := fun _ => 0) : List String :=
  match getLend pre.lends lendId with
  | none => ["pledged_safe"]
  | some l =>
    let released := post.bank.get u l.asset - pre.bank.get u l.asset + repaid l.asset
    let bound := l.avail + r + extra
    let okLend : Bool := match getLend post.lends lendId with
      | some l' => decide (l'.avail = bound - released ∧ l'.avail ≥ 0)
      | none => decide (released = bound)
    let okPledged : Bool := extra != 0 || decide (pledgedOf post.borrows lendId = pledgedOf pre.borrows lendId)
    if decide (released ≤ bound) && okLend && okPledged then [] else ["pledged_safe"]

def monitors (cfg : Cfg) (pre post : State) (op : Op) : List String :=
  match op with
  | .borrow u _ pairId _ _ _ dOut aOut _ _ =>
    match touchedBorrow pre post u pairId with
    | some (b, isNew) => monBorrow cfg pre post u b isNew dOut aOut
    | none => ["ltv"]
  | .borrowAlternate u _ _ _ _ pairId _ dOut aOut _ _ _ _ =>
    match touchedBorrow pre post u pairId with
    | some (b, isNew) => monBorrow cfg pre post u b isNew dOut aOut
    | none => ["ltv"]
  | .draw u id d y _ =>
    match getBorrow post.borrows id with
    | some b => monBorrow cfg pre post u b false d y
    | none => ["ltv"]
  | .withdraw u id _ _ r => monWithdraw pre post u id r 0
  | .closeLend u id r => monWithdraw pre post u id r 0
  | .repayWithdraw u id e r =>
    match getBorrow pre.borrows id with
    | some b =>
      let dI := match e with | .val dI _ => dI | _ => 0
      monWithdraw pre post u b.lendingId r b.amountIn (fun d => if d = b.outDenom then b.amountOut + Dec.truncateInt (b.interest + dI) else 0)
    | none => ["pledged_safe"]
  | _ => []

/-- per (pool, asset): published total − sum over positions (non-zero entries only) -/
def lendGaps (s : State) : List ((Nat × Nat) × Int) :=
  (s.stats.map fun st => ((st.pool, st.asset), st.totalLend - lendSum s.lends s.borrows st.pool st.asset)).filter fun e => e.2 != 0
def borGaps (cfg : Cfg) (stable : Bool) (s : State) : List ((Nat × Nat) × Int) :=
  (s.stats.map fun st => ((st.pool, st.asset),
      (if stable then st.totalStable else st.totalBorrowed) - borrowedSum cfg s.borrows st.pool st.asset stable)).filter fun e => e.2 != 0
/-- some gap is non-zero after the line and was different before it -/
def gapChanged (pre post : List ((Nat × Nat) × Int)) : Bool :=
  post.any fun e => (pre.lookup e.1).getD 0 != e.2

/-- D19: the line is a hand-over that deleted the lend position, and the only lent-total gap that moved is the one of that position's
(pool, asset), by exactly what was left in the position (availableToBorrow + pledges of its other open borrows). -/
def orphanedBy (pre post : State) (op : Op) : Bool :=
  match op with
  | .handover k _ =>
    match getBorrow pre.borrows k with
    | none => false
    | some b =>
      match getLend pre.lends b.lendingId, getLend post.lends b.lendingId with
      | some l, none =>
        let left := l.avail + pledgedOf pre.borrows l.id - b.amountIn
        let g0 := lendGaps pre
        let g1 := lendGaps post
        decide (left > 0) && g1.all fun e =>
          let old := (g0.lookup e.1).getD 0
          if e.1 = (l.pool, l.asset) then e.2 == old + left else e.2 == old
      | _, _ => false
  | _ => false

def extNonneg : Op → Bool
  | .lend _ _ _ _ _ _ r => r ≥ 0
  | .deposit _ _ _ _ r => r ≥ 0
  | .withdraw _ _ _ _ r => r ≥ 0
  | .closeLend _ _ r => r ≥ 0
  | .borrowAlternate _ _ _ _ _ _ _ _ _ _ r _ _ => r ≥ 0
  | .repayWithdraw _ _ _ r => r ≥ 0
  | .calcAll _ _ ls => ls.all fun e => e.2 ≥ 0
  | _ => true

/-! ### accrual: the model's own amounts and indices -/

/-- the accrual slots of a line in the order the handler performs them: (borrow slots, lend slots) as raw strings -/
def slotStrings (name : String) (a : List String) : List String × List String :=
  match name, a with
  | "lend", [_, _, _, _, _, _, r] => ([], [r])
  | "deposit", [_, _, _, _, r] => ([], [r])
  | "withdraw", [_, _, _, _, r] => ([], [r])
  | "closeLend", [_, _, r] => ([], [r])
  | "borrow", [_, _, _, _, _, _, _, _, e1, e2] => ([e1, e2], [])
  | "borrowAlt", [_, _, _, _, _, _, _, _, _, _, r, e1, e2] => ([e1, e2], [r])
  | "depositBorrow", [_, _, _, _, e] => ([e], [])
  | "draw", [_, _, _, _, e] => ([e], [])
  | "repay", [_, _, _, _, e] => ([e], [])
  | "closeBorrow", [_, _, e] => ([e], [])
  | "repayWithdraw", [_, _, e, r] => ([e], [r])
  | "calc", [_, bs, ls] =>
    ((splitOnNE bs ",").map fun x => (x.splitOn "=").getD 1 "-", (splitOnNE ls ",").map fun x => (x.splitOn "=").getD 1 "0")
  | _, _ => ([], [])

/-- the position each slot accrues (0 = none) -/
def slotTargets (pre : State) (op : Op) : List Nat × List Nat :=
  match op with
  | .lend u asset _ _ pool _ _ => ([], [match findLendByAsset pre u asset pool with | some l => l.id | none => 0])
  | .deposit _ k _ _ _ => ([], [k])
  | .withdraw _ k _ _ _ => ([], [k])
  | .closeLend _ k _ => ([], [k])
  | .borrow u _ pid _ _ _ _ _ _ _ =>
    let t := match findBorrowByPair pre u pid with | some b => b.id | none => 0
    ([t, t], [])
  | .borrowAlternate u asset pool _ _ pid _ _ _ _ _ _ _ =>
    let t := match findBorrowByPair pre u pid with | some b => b.id | none => 0
    ([t, t], [match findLendByAsset pre u asset pool with | some l => l.id | none => 0])
  | .depositBorrow _ k _ _ _ => ([k], [])
  | .draw _ k _ _ _ => ([k], [])
  | .repay _ k _ _ _ => ([k], [])
  | .closeBorrow _ k _ => ([k], [])
  | .repayWithdraw _ k _ _ => ([k], [match getBorrow pre.borrows k with | some b => b.lendingId | none => 0])
  | .calcAll _ bs ls => (bs.map (·.1), ls.map (·.1))
  | _ => ([], [])

def setSlots (op : Op) (bs : List ExtB) (rs : List Int) : Op :=
  let b0 := bs.getD 0 .err
  let b1 := bs.getD 1 .err
  let r0 := rs.getD 0 0
  match op with
  | .lend u a d amt p app _ => .lend u a d amt p app r0
  | .deposit u k d amt _ => .deposit u k d amt r0
  | .withdraw u k d amt _ => .withdraw u k d amt r0
  | .closeLend u k _ => .closeLend u k r0
  | .borrow u k pid st dIn aIn dOut aOut _ _ => .borrow u k pid st dIn aIn dOut aOut b0 b1
  | .borrowAlternate u a p d amt pid st dOut aOut app _ _ _ => .borrowAlternate u a p d amt pid st dOut aOut app r0 b0 b1
  | .depositBorrow u k d amt _ => .depositBorrow u k d amt b0
  | .draw u k d amt _ => .draw u k d amt b0
  | .repay u k d amt _ => .repay u k d amt b0
  | .closeBorrow u k _ => .closeBorrow u k b0
  | .repayWithdraw u k _ _ => .repayWithdraw u k b0 r0
  | .calcAll u bl ll => .calcAll u ((bl.zip bs).map fun (x, e) => (x.1, e)) ((ll.zip rs).map fun (x, r) => (x.1, r))
  | o => o

def accBOf (l : List AccB) (k : Nat) : Option AccB := l.find? fun a => a.id == k
def accLOf (l : List AccL) (k : Nat) : Option AccL := l.find? fun a => a.id == k
def putAccB (l : List AccB) (v : AccB) : List AccB := l.map fun a => if a.id = v.id then v else a
def putAccL (l : List AccL) (v : AccL) : List AccL := l.map fun a => if a.id = v.id then v else a

/-- run the borrow slots in order on the accrual store: model ext per slot, store after the handler recorded the indices -/
def runBSlots (pre : State) (now : Int) : List AccB → List (Nat × BSlot) → List ExtB × List AccB
  | acc, [] => ([], acc)
  | acc, (k, sl) :: rest =>
    match accBOf acc k, getBorrow pre.borrows k, sl.rates with
    | some a, some b, some (apr, rr) =>
      let r := accrueBorrow a b.amountOut b.stable apr (some rr) now
      let acc' := match r.ext with | .val _ _ => putAccB acc (a.after r now) | _ => acc
      let (es, accF) := runBSlots pre now acc' rest
      (r.ext :: es, accF)
    | some _, some _, none =>
      -- the reserve rate was not available: that IS IterateBorrow's error
      let (es, accF) := runBSlots pre now acc rest
      ((if sl.reported = .panic then .panic else .err) :: es, accF)
    | _, _, _ =>
      let (es, accF) := runBSlots pre now acc rest
      (sl.reported :: es, accF)

def runLSlots (pre : State) (now : Int) : List AccL → List (Nat × LSlot) → List Int × List AccL
  | acc, [] => ([], acc)
  | acc, (k, sl) :: rest =>
    match accLOf acc k, getLend pre.lends k, sl.apr with
    | some a, some l, some apr =>
      let r := accrueLend a l.amountIn apr now
      let (rs, accF) := runLSlots pre now (putAccL acc (a.after r now)) rest
      (r.reward :: rs, accF)
    | _, _, _ =>
      let (rs, accF) := runLSlots pre now acc rest
      (sl.reported :: rs, accF)

def showExtB : ExtB → String
  | .val a b => s!"{a}:{b}"
  | .err => "-"
  | .panic => "!"

def showAccB (a : AccB) : String := s!"{a.id}:{a.gi}:{a.rgi}:{a.last}:{a.stableRate}"
def showAccL (a : AccL) : String := s!"{a.id}:{a.gi}:{a.last}:{a.tracker}"

/-! ### one line -/

def handleOp (st : St) (seq name : String) (args : List String) (outcome : String) (implF : List String) : St × List String :=
  match parseOp name args, parseState implF, parseAcc implF with
  | none, _, _ => (st, [s!"BAD\t{seq}\tcannot parse op {name} {args}"])
  | _, none, _ => (st, [s!"BAD\t{seq}\tcannot parse state"])
  | _, _, none => (st, [s!"BAD\t{seq}\tcannot parse accrual state"])
  | some opR, some impl, some (now, implB, implL) =>
    let pre := st.s
    -- 1. the model's own accrual amounts, from the rates printed on the line
    let (bStr, lStr) := slotStrings name args
    let (bT, lT) := slotTargets pre opR
    let bSl := (bStr.map fun x => (parseBSlot x).getD { reported := .err })
    let lSl := (lStr.map fun x => (parseLSlot x).getD { reported := 0 })
    let (bExt, accB1) := runBSlots pre now st.accB (bT.zip bSl)
    let (lRew, accL1) := runLSlots pre now st.accL (lT.zip lSl)
    -- calc: the handler skips borrows whose guards fail — their accrual state must not move
    let accB1 := match opR with
      | .calcAll u bs _ => accB1.map fun a =>
          if bs.any (fun x => x.1 == a.id) && !(calcBorrow pre u a.id (.val 0 0)).toBool then (accBOf st.accB a.id).getD a else a
      | _ => accB1
    let accDiff :=
      ((bT.zip (bSl.zip bExt)).filterMap fun (k, sl, e) =>
          if k != 0 && (accBOf st.accB k).isSome && sl.rates.isSome && e != sl.reported
          then some s!"DIFF\t{seq}\t{name}\taccrual borrow {k} model={showExtB e} impl={showExtB sl.reported}" else none) ++
      ((lT.zip (lSl.zip lRew)).filterMap fun (k, sl, r) =>
          if k != 0 && (accLOf st.accL k).isSome && sl.apr.isSome && r != sl.reported
          then some s!"DIFF\t{seq}\t{name}\taccrual lend {k} model={r} impl={sl.reported}" else none)
    -- hand-over: the interest after `CalculateBorrowInterestForLiquidation` is the model's own
    let (op, accB1, hoDiff) := match opR, args with
      | .handover k ni, [_, _, rates] =>
        match accBOf st.accB k, getBorrow pre.borrows k, parseBSlot ("0:0:" ++ rates) with
        | some a, some b, some sl =>
          match sl.rates with
          | some (apr, rr) =>
            let r := accrueBorrow a b.amountOut b.stable apr (some rr) now
            match r.ext with
            | .val dI _ =>
              let ni' := b.interest + dI
              (Op.handover k ni', putAccB accB1 (a.after r now),
               if ni' = ni then [] else [s!"DIFF\t{seq}\t{name}\taccrual borrow {k} interest model={ni'} impl={ni}"])
            | _ => (opR, accB1, [s!"DIFF\t{seq}\t{name}\taccrual borrow {k} model fails, impl liquidated"])
          | none => (opR, accB1, [])
        | _, _, _ => (opR, accB1, [])
      | _, _ => (setSlots opR bExt lRew, accB1, [])
    let ci := canon st.cfg impl
    let bad := if extNonneg op then [] else [s!"BAD\t{seq}\tnegative external reward"]
    let (modelOk, diffs) :=
      match step st.cfg pre op with
      | .ok m =>
        (true, if outcome = "ok" then (diffCanon (canon st.cfg m) ci).map fun d => s!"DIFF\t{seq}\t{name}\t{d}"
               else [s!"DIFF\t{seq}\t{name}\tmodel=ok impl={outcome}"])
      | .error e =>
        (false, if outcome = "ok" then [s!"DIFF\t{seq}\t{name}\tmodel=err({e}) impl=ok"]
                else (diffCanon (canon st.cfg pre) ci).map fun d => s!"DIFF\t{seq}\t{name}\trejected message changed state: {d}")
    -- 2. accrual state: the model's (only moved by an accepted message) against the real records
    let accBm := if modelOk && outcome = "ok" then accB1 else st.accB
    let accLm := if modelOk && outcome = "ok" then accL1 else st.accL
    let isHandover := match op with | .handover .. => true | _ => false
    let stDiff :=
      (implB.filterMap fun (r : AccB) => match accBOf accBm r.id with
        | some m =>
          let m := if isHandover then { m with stableRate := r.stableRate } else m     -- rebalanced stable rate: a rate, taken as input
          if m = r then none else some s!"DIFF\t{seq}\t{name}\taccrual-state borrow model={showAccB m} impl={showAccB r}"
        | none => none) ++
      (implL.filterMap fun (r : AccL) => match accLOf accLm r.id with
        | some m => if m = r then none else some s!"DIFF\t{seq}\t{name}\taccrual-state lend model={showAccL m} impl={showAccL r}"
        | none => none)
    let mons := if outcome = "ok" then monitors st.cfg pre impl op else []
    let gl := gapChanged (lendGaps pre) (lendGaps impl)
    let lendName := if orphanedBy pre impl op then "total_lend_orphaned" else "total_lend"
    -- id lists: a record whose lists are not the ids of its live positions (reported when the set of bad records changes)
    let badIds (x : State) : List (Nat × Nat) := (x.stats.filter fun r =>
        !(r.lendIds == lendIdsOf x.lends r.pool r.asset && r.borrowIds == borrowIdsOf st.cfg x.borrows r.pool r.asset)).map fun r => (r.pool, r.asset)
    let idsBad := (badIds impl).any fun k => !(badIds pre).contains k
    -- reserve ledger: balance of the reserve module account − genesis balance − flow recorded, per asset (gap changes are reported)
    let resGaps (x : State) : List ((Nat × Nat) × Int) := (st.cfg.assets.map fun a =>
        ((0, a.id), x.bank.get st.cfg.reserveAcct a.id - st.bank0.get st.cfg.reserveAcct a.id - (getResv x.resv a.id).flow)).filter fun e => e.2 != 0
    -- the block hook sweeps a deleted pool's balances into the reserve without a flow record (finding): own monitor name when the
    -- gaps moved by exactly what the DIFF-free model moved into the reserve
    let sweepOnly : Bool := match op, step st.cfg pre op with
      | .beginBlock, .ok m => st.cfg.assets.all fun a =>
          ((resGaps impl).lookup (0, a.id)).getD 0 - ((resGaps pre).lookup (0, a.id)).getD 0
            == m.bank.get st.cfg.reserveAcct a.id - pre.bank.get st.cfg.reserveAcct a.id
      | _, _ => false
    let ledgerName := if sweepOnly then "reserve_ledger_poolsweep" else "reserve_ledger"
    let mons := mons ++ (if idsBad then ["ids_consistent"] else [])
                     ++ (if gapChanged (resGaps pre) (resGaps impl) then [ledgerName] else [])
                     ++ (if !decide (HalvesEq impl) && decide (HalvesEq pre) then ["reserve_halves"] else [])
    let mons := mons ++ (if gl then [lendName] else [])
                     ++ (if gapChanged (borGaps st.cfg false pre) (borGaps st.cfg false impl) then ["total_borrowed"] else [])
                     ++ (if gapChanged (borGaps st.cfg true pre) (borGaps st.cfg true impl) then ["total_stable"] else [])
    ({ st with s := impl, accB := implB, accL := implL, now := now },
     bad ++ accDiff ++ hoDiff ++ diffs ++ stDiff ++ mons.map fun m => s!"MON\t{seq}\t{m}\t{name}")

def opLine (st : St) (seq name : String) (rest : List String) : St × List String :=
  let n := rest.length
  if n < 12 then (st, [s!"BAD\t{seq}\top fields"]) else
  let args := rest.take (n - 12)
  match rest.drop (n - 12) with
  | outcome :: implF => handleOp st seq name args outcome implF
  | [] => (st, [s!"BAD\t{seq}\top fields"])

def handle (st : St) (seq : String) (f : List String) : St × List String :=
  let bad (w : String) : St × List String := (st, [s!"BAD\t{seq}\t{w}"])
  match f with
  | ["lend.begin", r, a] =>
    match parseNat? r, parseNat? a with
    | some r, some a => ({ cfg := { reserveAcct := r, auctionAcct := a } }, [])
    | _, _ => bad "begin"
  | ["lend.cfg.asset", id, dec] =>
    match parseNat? id, parseInt? dec with
    | some id, some dec => ({ st with cfg := { st.cfg with assets := st.cfg.assets ++ [{ id := id, decimals := dec }] } }, [])
    | _, _ => bad "cfg.asset"
  | ["lend.cfg.rates", a, ltv, eltv, c, iso, stb, pen, epen] =>
    match parseNat? a, parseInt? ltv, parseInt? eltv, parseNat? c, parseBool? iso, parseBool? stb, parseInt? pen, parseInt? epen with
    | some a, some ltv, some eltv, some c, some iso, some stb, some pen, some epen =>
      ({ st with cfg := { st.cfg with rates := st.cfg.rates ++ [{ asset := a, ltv := ltv, eLtv := eltv, cAsset := c, isolated := iso, stableOk := stb,
                                                                  liqPenalty := pen, eLiqPenalty := epen }] } }, [])
    | _, _, _, _, _, _, _, _ => bad "cfg.rates"
  | ["lend.cfg.pool", id, acct, ds] =>
    match parseNat? id, parseNat? acct, (splitOnNE ds ",").mapM parsePoolAsset with
    | some id, some acct, some ds => ({ st with cfg := { st.cfg with pools := st.cfg.pools ++ [{ id := id, acct := acct, assets := ds }] } }, [])
    | _, _, _ => bad "cfg.pool"
  | ["lend.cfg.pair", id, i, o, inter, op, em] =>
    match parseNat? id, parseNat? i, parseNat? o, parseBool? inter, parseNat? op, parseBool? em with
    | some id, some i, some o, some inter, some op, some em =>
      ({ st with cfg := { st.cfg with pairs := st.cfg.pairs ++ [{ id := id, assetIn := i, assetOut := o, inter := inter, outPool := op, eMode := em }] } }, [])
    | _, _, _, _, _, _ => bad "cfg.pair"
  | ["lend.cfg.a2p", a, p, ids] =>
    match parseNat? a, parseNat? p, parseNatList ids with
    | some a, some p, some ids => ({ st with cfg := { st.cfg with a2p := st.cfg.a2p ++ [{ asset := a, pool := p, pairs := ids }] } }, [])
    | _, _, _ => bad "cfg.a2p"
  | ["lend.cfg.app", id, c] =>
    match parseNat? id, parseBool? c with
    | some id, some c => ({ st with cfg := { st.cfg with apps := st.cfg.apps ++ [(id, c)] } }, [])
    | _, _ => bad "cfg.app"
  | "lend.init" :: rest =>
    match parseState rest with
    | some s =>
      -- the model's genesis must be the real genesis: zero totals for every (pool, asset)
      let g := { Comdex.Lend.init st.cfg s.bank s.prices with killed := s.killed, depPools := s.depPools, depPending := s.depPending, delPools := s.delPools }   -- no ids, no reserve records, no locked vaults
      let d := (diffCanon (canon st.cfg g) (canon st.cfg s)).map fun x => s!"DIFF\t{seq}\tinit\t{x}"
      match parseAcc rest with
      | some (now, ab, al) => ({ st with s := s, accB := ab, accL := al, now := now, bank0 := s.bank }, d)
      | none => ({ st with s := s, bank0 := s.bank }, d)
    | none => bad "init state"
  | "lend.handover" :: rest => opLine st seq "handover" rest
  | "lend.close" :: rest => opLine st seq "auctionClose" rest
  | "lend.beginblock" :: rest => opLine st seq "beginBlock" rest
  | "lend.migrate" :: pairs :: rates :: outcome :: implF =>
    -- the store migration 2 → 3: the configuration changes, the state must not
    match parseState implF, parseAcc implF with
    | some impl, some (now, implB, implL) =>
      let newCfg := migrateCfg st.cfg
      let showPairs (c : Cfg) : String := ",".intercalate (c.pairs.map fun p => s!"{p.id}:{p.inter}:{p.eMode}")
      let showRates (c : Cfg) : String := ",".intercalate (c.rates.map fun r => s!"{r.asset}:{r.stableOk}:{r.isolated}:{r.eLtv}:{r.eLiqPenalty}:{r.ltv}:{r.cAsset}:{r.liqPenalty}")
      let d1 := if outcome = "ok" then [] else [s!"DIFF\t{seq}\tmigrate\tmodel=ok impl={outcome}"]
      let d2 := (if showPairs newCfg = pairs then [] else [s!"DIFF\t{seq}\tmigrate\tpairs model={showPairs newCfg} impl={pairs}"]) ++
                (if showRates newCfg = rates then [] else [s!"DIFF\t{seq}\tmigrate\trates model={showRates newCfg} impl={rates}"])
      let d3 := (diffCanon (canon st.cfg st.s) (canon st.cfg impl)).map fun d => s!"DIFF\t{seq}\tmigrate\tmigration changed state: {d}"
      let spec := migrateCfgSpec st.cfg
      let m1 := if showPairs spec = pairs && showRates spec = rates then [] else [s!"MON\t{seq}\tmigration_leak\tmigrate"]
      -- the book identities under the migrated configuration
      let badIds := impl.stats.any fun r =>
        !(r.lendIds == lendIdsOf impl.lends r.pool r.asset && r.borrowIds == borrowIdsOf newCfg impl.borrows r.pool r.asset)
      let m2 := (if badIds && decide (IdsOk st.cfg st.s) then [s!"MON\t{seq}\tids_consistent\tmigrate"] else []) ++
                (if gapChanged (borGaps st.cfg false st.s) (borGaps newCfg false impl) then [s!"MON\t{seq}\ttotal_borrowed\tmigrate"] else []) ++
                (if gapChanged (borGaps st.cfg true st.s) (borGaps newCfg true impl) then [s!"MON\t{seq}\ttotal_stable\tmigrate"] else [])
      -- re-synchronise the configuration to the real one (as the state is): a disagreement is reported once, on this line
      let pflags : List (Nat × Bool × Bool) := (splitOnNE pairs ",").filterMap fun x => match x.splitOn ":" with
        | [i, a, b] => (parseNat? i).map fun i => (i, a == "true", b == "true")
        | _ => none
      let rflags : List (Nat × Bool × Bool × Int × Int) := (splitOnNE rates ",").filterMap fun x => match x.splitOn ":" with
        | [i, a, b, el, ep, _, _, _] => do pure ((← parseNat? i), a == "true", b == "true", (← parseInt? el), (← parseInt? ep))
        | _ => none
      let realCfg : Cfg := { newCfg with
        pairs := newCfg.pairs.map fun p => match pflags.lookup p.id with
          | some (i, e) => { p with inter := i, eMode := e }
          | none => p,
        rates := newCfg.rates.map fun r => match rflags.lookup r.asset with
          | some (so, iso, el, ep) => { r with stableOk := so, isolated := iso, eLtv := el, eLiqPenalty := ep }
          | none => r }
      ({ st with cfg := realCfg, s := impl, accB := implB, accL := implL, now := now }, d1 ++ d2 ++ d3 ++ m1 ++ m2)
    | _, _ => bad "migrate state"
  | "lend.op" :: name :: rest => opLine st seq name rest
  | _ => bad "unknown lend line"

end Comdex.Drv.Lend
