import Comdex.Base.Line
import Comdex.Model.Vault
/-! Driver plug-in for the vault ledger model (C01, C02, C03).

Lines (tab separated):
  vault.begin
  vault.product  id app denomIn denomOut decIn decOut minCr floor ceiling ddf closingFee isStable active outOracle outPrice
  vault.reconfig id app denomIn denomOut decIn decOut minCr floor ceiling ddf closingFee isStable active outOracle outPrice
                 (the product's configuration was changed through the real update paths; it replaces the entry with that id)
  vault.msg      kind a1 a2 a3 a4 a5 env outcome        (unused args are `-`; env = `esm=0;past=0;brk=0;pin=-;pout=-;iota=0`)
  vault.state    v=… s=… lk=… m=… len=… nv=… ns=… bal=…  sup=…
     v  = id:owner:prod:in:out:int:cf,…      s = id:prod:in:out,…     lk = vaultId:prod:in:out,…
     m  = prod:coll:minted:id|id|…,…         bal = acct:denom:amt,…   sup = denom:amt,…
-/
-- DRIVER: prefix=vault ns=Comdex.Drv.Vault
namespace Comdex.Drv.Vault
open Comdex Comdex.Vault Comdex.Line

structure St where
  cfgL : List Product := []
  s : State := State.init
  lastMsg : String := ""
  /-- the last accepted message with its environment (for the per-message monitors of C02 / C03) -/
  lastOk : Option (Msg × Env) := none
  /-- the real state before the last message -/
  prev : Option State := none
  /-- the invariant gaps on the previous real state -/
  prevGaps : List (String × String × Int) := []
  /-- vaults re-created by the wind-down of a first-generation auction under emergency shutdown: outside the debt-floor
  clause (which speaks about owners' operations) -/
  floorExempt : List Nat := []
  /-- C02: the supply change the model's `supplyDelta` predicts for the messages accepted since the last state line
  (evaluated on the model state each message was applied to), and which kinds of message they were -/
  expSup : Nat → Int := fun _ => 0
  pendMint : Bool := false
  pendBurn : Bool := false
  /-- C02: what the accepted messages since the last state line add to / take off the debt registered for emergency
  redemption (`esmVault_registers_principal`: exactly the principal of every redeemed vault; `esmBurn_burns_registered`) -/
  expReg : Nat → Nat → Int := fun _ _ => 0

def init : St := {}

def cfgOf (l : List Product) : Nat → Option Product := fun pr => l.find? (·.id = pr)

def pBool (s : String) : Option Bool := parseBool? s
def optNat (s : String) : Option (Option Nat) := if s = "-" then some none else (parseNat? s).map some
def optInt (s : String) : Option (Option Int) := if s = "-" then some none else (parseInt? s).map some

def parseEnv (s : String) : Option Env :=
  let fs := s.splitOn ";"
  do
    let esm ← field? fs "esm" >>= pBool
    let past ← field? fs "past" >>= pBool
    let brk ← field? fs "brk" >>= pBool
    let pin ← field? fs "pin" >>= optNat
    let pout ← field? fs "pout" >>= optNat
    let iota ← field? fs "iota" >>= optInt
    pure { esm := esm, pastCoolOff := past, breaker := brk, priceIn := pin, priceOut := pout, iota := iota }

def parseMsg (kind : String) (a : List String) : Option Msg :=
  let n (i : Nat) : Option Nat := a[i]? >>= parseNat?
  let z (i : Nat) : Option Int := a[i]? >>= parseInt?
  match kind with
  | "create" => do pure (.create (← n 0) (← n 1) (← n 2) (← z 3) (← z 4))
  | "deposit" => do pure (.deposit (← n 0) (← n 1) (← n 2) (← n 3) (← z 4))
  | "withdraw" => do pure (.withdraw (← n 0) (← n 1) (← n 2) (← n 3) (← z 4))
  | "draw" => do pure (.draw (← n 0) (← n 1) (← n 2) (← n 3) (← z 4))
  | "repay" => do pure (.repay (← n 0) (← n 1) (← n 2) (← n 3) (← z 4))
  | "close" => do pure (.close (← n 0) (← n 1) (← n 2) (← n 3))
  | "depositAndDraw" => do pure (.depositAndDraw (← n 0) (← n 1) (← n 2) (← n 3) (← z 4))
  | "stableCreate" => do pure (.stableCreate (← n 0) (← n 1) (← n 2) (← z 3))
  | "stableDeposit" => do pure (.stableDeposit (← n 0) (← n 1) (← n 2) (← n 3) (← z 4))
  | "stableWithdraw" => do pure (.stableWithdraw (← n 0) (← n 1) (← n 2) (← n 3) (← z 4))
  | "interestCalc" => do pure (.interestCalc (← n 0) (← n 1))
  | "donate" => do pure (.donate (← n 0) (← n 1) (← z 2))
  | "fund" => do pure (.fund (← n 0) (← n 1) (← z 2))
  | "seize" => do pure (.seize (← n 0))
  | "settle" => do pure (.settle (← n 0))
  | "settle1" => do pure (.settle1 (← n 0))
  | "esmVault" => do pure (.esmVault (← n 0))
  | "esmStable" => do pure (.esmStable (← n 0))
  | "esmCollector" => do pure (.esmCollector (← n 0) (← n 1) (← z 2))
  | "esmBurn" => do pure (.esmBurn (← n 0) (← n 1) (← n 2) (← z 3))
  | "esmReturn1" => do pure (.esmReturn1 (← n 0) (← n 1) (← z 2) (← z 3))
  | "esmReturn2" => do pure (.esmReturn2 (← n 0) (← n 1) (← z 2) (← z 3) (← z 4))
  | _ => none

def parseProduct (f : List String) : Option Product :=
  match f with
  | [id, app, dIn, dOut, decIn, decOut, minCr, floor, ceil, ddf, cf, st, act, oo, op] => do
    pure { id := ← parseNat? id, app := ← parseNat? app, denomIn := ← parseNat? dIn, denomOut := ← parseNat? dOut,
           decIn := ← parseInt? decIn, decOut := ← parseInt? decOut, minCr := ← parseInt? minCr,
           debtFloor := ← parseInt? floor, debtCeiling := ← parseInt? ceil, drawDownFee := ← parseInt? ddf,
           closingFee := ← parseInt? cf, isStable := ← pBool st, active := ← pBool act, outOracle := ← pBool oo,
           outPrice := ← parseNat? op }
  | _ => none

/-! ### the real state projection -/

structure Proj where
  vaults : List VaultRec
  stables : List StableRec
  locked : List LockedRec
  maps : List (Nat × Int × Int × List Nat)
  len : Int
  nv : Nat
  ns : Nat
  bal : List (Nat × Nat × Int)
  sup : List (Nat × Int)
  rd : List (Nat × Nat × Int) := []   -- app, denom, debt registered for emergency redemption (x/esm AssetToAmount)

def items (s : String) : List (List String) :=
  if s = "" then [] else (s.splitOn ",").map (·.splitOn ":")

def parseProj (f : List String) : Option Proj := do
  let g (k : String) : Option String := field? f k
  let vaults ← (items (← g "v")).mapM fun
    | [id, o, p, i, ou, it, cf] => do
      pure ({ id := ← parseNat? id, owner := ← parseNat? o, product := ← parseNat? p, amountIn := ← parseInt? i,
              amountOut := ← parseInt? ou, interest := ← parseInt? it, closingFee := ← parseInt? cf } : VaultRec)
    | _ => none
  let stables ← (items (← g "s")).mapM fun
    | [id, p, i, ou] => do
      pure ({ id := ← parseNat? id, product := ← parseNat? p, amountIn := ← parseInt? i, amountOut := ← parseInt? ou } : StableRec)
    | _ => none
  let locked ← (items (← g "lk")).mapM fun
    | [id, p, i, ou, db] => do
      pure ({ vaultId := ← parseNat? id, product := ← parseNat? p, amountIn := ← parseInt? i, amountOut := ← parseInt? ou,
              debt := ← parseInt? db } : LockedRec)
    | _ => none
  let maps ← (items (← g "m")).mapM fun
    | [p, c, mi, ids] => do
      let idl ← if ids = "" then some [] else (ids.splitOn "|").mapM parseNat?
      pure ((← parseNat? p), (← parseInt? c), (← parseInt? mi), idl)
    | _ => none
  let bal ← (items (← g "bal")).mapM fun
    | [a, d, x] => do pure ((← parseNat? a), (← parseNat? d), (← parseInt? x))
    | _ => none
  let sup ← (items (← g "sup")).mapM fun
    | [d, x] => do pure ((← parseNat? d), (← parseInt? x))
    | _ => none
  let rd ← (items ((g "rd").getD "")).mapM fun
    | [a, d, x] => do pure ((← parseNat? a), (← parseNat? d), (← parseInt? x))
    | _ => none
  pure { vaults, stables, locked, maps, len := ← g "len" >>= parseInt?, nv := ← g "nv" >>= parseNat?,
         ns := ← g "ns" >>= parseNat?, bal, sup, rd }

/-- the real state as a model `State` (ghost fields are carried over from the model run) -/
def Proj.toState (p : Proj) (ghost : State) : State :=
  { bal := fun a d => match p.bal.find? (fun x => x.1 = a ∧ x.2.1 = d) with | some x => x.2.2 | none => 0,
    supply := fun d => match p.sup.find? (fun x => x.1 = d) with | some x => x.2 | none => 0,
    vaults := p.vaults, stables := p.stables, locked := p.locked,
    coll := fun pr => match p.maps.find? (fun x => x.1 = pr) with | some x => x.2.1 | none => 0,
    minted := fun pr => match p.maps.find? (fun x => x.1 = pr) with | some x => x.2.2.1 | none => 0,
    vaultIds := fun pr => match p.maps.find? (fun x => x.1 = pr) with | some x => x.2.2.2 | none => [],
    nextVault := p.nv, nextStable := p.ns, length := p.len,
    unsolicited := ghost.unsolicited, extSupply := ghost.extSupply,
    redeem := fun a d => match p.rd.find? (fun x => x.1 = a ∧ x.2.1 = d) with | some x => x.2.2 | none => ghost.redeem a d }

def overlay (l : List (Nat × Nat × Int)) (f : Nat → Nat → Int) : Nat → Nat → Int := fun a d =>
  match l.find? (fun x => x.1 = a ∧ x.2.1 = d) with
  | some x => x.2.2
  | none => f a d

def insertLocked (x : LockedRec) : List LockedRec → List LockedRec
  | [] => [x]
  | y :: t => if x.vaultId ≤ y.vaultId then x :: y :: t else y :: insertLocked x t
def sortLocked (l : List LockedRec) : List LockedRec := l.foldr insertLocked []

def dedup (l : List Nat) : List Nat := l.foldl (fun acc x => if acc.contains x then acc else acc ++ [x]) []

/-- compare the model state with the real projection on exactly the keys the projection lists -/
def compare (cfgL : List Product) (m : State) (p : Proj) : List String :=
  let r := p.toState m
  let prods := cfgL.map (·.id)
  let c1 := if m.vaults = r.vaults then [] else ["vaults"]
  let c2 := if m.stables = r.stables then [] else ["stables"]
  -- the store orders locked vaults by (app, locked id); compare as sets, ordered by the original vault id
  let c3 := if sortLocked m.locked = sortLocked r.locked then [] else ["locked"]
  let c4 := if m.length = r.length then [] else [s!"length model={m.length} impl={r.length}"]
  let c5 := if m.nextVault = r.nextVault ∧ m.nextStable = r.nextStable then [] else ["counters"]
  let c6 := prods.filterMap fun pr =>
    if m.coll pr = r.coll pr ∧ m.minted pr = r.minted pr ∧ m.vaultIds pr = r.vaultIds pr then none
    else some s!"map {pr}: model=({m.coll pr},{m.minted pr},{m.vaultIds pr}) impl=({r.coll pr},{r.minted pr},{r.vaultIds pr})"
  let c7 := p.bal.filterMap fun (a, d, x) =>
    if m.bal a d = x then none else some s!"bal {a}/{d}: model={m.bal a d} impl={x}"
  let c8 := p.sup.filterMap fun (d, x) =>
    if m.supply d = x then none else some s!"supply {d}: model={m.supply d} impl={x}"
  let c9 := p.rd.filterMap fun (a, d, x) =>
    if m.redeem a d = x then none else some s!"registered for redemption app {a} denom {d}: model={m.redeem a d} impl={x}"
  c1 ++ c2 ++ c3 ++ c4 ++ c5 ++ c6 ++ c7 ++ c8 ++ c9

/-- the gaps of the invariant equations on the REAL state (all zero when the invariants hold) -/
def gaps (cfgL : List Product) (r : State) : List (String × String × Int) :=
  let cfg := cfgOf cfgL
  let denoms := dedup (cfgL.map (·.denomIn) ++ cfgL.map (·.denomOut))
  let prods := cfgL.map (·.id)
  denoms.map (fun d => ("custody_eq", s!"denom {d}", r.bal vm d - collRecorded cfg r d - r.unsolicited d)) ++
  [("count_eq", "vaults", r.length - r.vaults.length)] ++
  prods.map (fun pr => ("totals_eq", s!"collateral of product {pr}", r.coll pr - collOfProduct r pr)) ++
  prods.map (fun pr => ("totals_eq", s!"minted of product {pr}", r.minted pr - mintedOfProduct r pr)) ++
  denoms.map (fun d => ("supply_eq_principal", s!"denom {d}", r.supply d - principalRecorded cfg r d - r.extSupply d))

/-- the invariants as monitors: a monitor fires on the line where a gap CHANGES (so one cause is reported once, on the
line that caused it, and an existing mismatch neither repeats nor hides a new one). On an auction-settlement line the
supply may fall below the recorded principal (the auction burns interest and closing fee too): only an increase counts. -/
def monitors (cfgL : List Product) (prev : List (String × String × Int)) (r : State) (isSettle : Bool) : List String :=
  (gaps cfgL r).flatMap fun (name, what, g) =>
    let g0 := match prev.find? (fun x => x.1 = name ∧ x.2.1 = what) with | some x => x.2.2 | none => 0
    if g = g0 then []
    else if isSettle ∧ name = "supply_eq_principal" ∧ g < g0 then []
    else
      [s!"{name}\t{what}: gap {g0} -> {g}"] ++
      -- C03, debt ceiling: every mint is checked against the PUBLISHED minted total; when it falls behind the principal
      -- recorded on the product's vaults, later mints can take the recorded principal above the ceiling
      (if name = "totals_eq" ∧ what.startsWith "minted" ∧ g < g0 then
         [s!"ceiling_backed\t{what}: the published total fell behind the recorded principal ({g0} -> {g}); the ceiling check no longer bounds it"]
       else [])

/-- per-message monitors, evaluated on the REAL states before / after an accepted message -/
def msgMonitors (cfgL : List Product) (prev real : State) (m : Msg) (e : Env) : List String :=
  let cfg := cfgOf cfgL
  let delivers (p : Product) (user : Nat) (out taken : Int) : List String :=
    let fee := feeOf out p.drawDownFee
    let du := real.bal user p.denomOut - prev.bal user p.denomOut
    let dc := real.bal cm p.denomOut - prev.bal cm p.denomOut
    let expU := out - fee - (if p.denomOut = p.denomIn then taken else 0)
    (if du = expU then [] else [s!"mint_delivers\tuser got {du}, recorded principal less fee is {expU}"]) ++
    (if dc = fee then [] else [s!"mint_delivers\tcollector got {dc}, fee is {fee}"])
  -- the exact (unrounded) inequality of `C03.ratioOk_exact` / `ratioOk_exact_scales`, on the REAL amounts
  let exact (p : Product) (a b : Int) (what : String) : List String :=
    match e.priceIn, debtPrice p e with
    | some pin, some pout =>
      (if 0 < p.decIn ∧ 0 < p.decOut ∧ 1 ≤ 2 * p.minCr ∧ ¬ ExactRatio p pin pout a b then
         [s!"ratio_exact\t{what}: exact inequality with rounding slack fails for in={a} debt={b} pin={pin} pout={pout}"] else []) ++
      (if 0 < p.decIn ∧ 0 < p.decOut ∧ Dec.P % p.decIn = 0 ∧ Dec.P % p.decOut = 0 ∧ ¬ ExactRatioScales p pin pout a b then
         [s!"ratio_exact\t{what}: exact ratio below minCr - 1/2 ulp for in={a} debt={b} pin={pin} pout={pout}"] else [])
    | _, _ => []
  let ratio (p : Product) (vid : Nat) : List String :=
    if e.esm then [] else
    match real.vaults.find? (·.id = vid) with
    | none => []
    | some v =>
      match calcCR p e v.amountIn (v.amountOut + v.interest + v.closingFee) with
      | some r => (if r ≥ p.minCr then [] else [s!"ratio_ok\tvault {vid}: ratio {r} < minCr {p.minCr}"]) ++
          exact p v.amountIn (v.amountOut + v.interest + v.closingFee) s!"vault {vid}"
      | none => [s!"price_fail_closed\tvault {vid}: accepted although the ratio cannot be computed (price inactive)"]
  match m with
  | .create f _ pr i o =>
    match cfg pr with
    | none => []
    | some p =>
      delivers p f o i ++
      (match calcCR p e i o with
       | some r => (if r ≥ p.minCr then [] else [s!"ratio_ok\tcreate: ratio {r} < minCr {p.minCr}"]) ++ exact p i o "create"
       | none => ["price_fail_closed\tcreate accepted although the ratio cannot be computed (price inactive)"])
  | .draw f _ pr v x => match cfg pr with
    | none => []
    | some p => delivers p f x 0 ++ ratio p v
  | .withdraw _ _ pr v _ => match cfg pr with
    | none => []
    | some p => ratio p v
  | .depositAndDraw f _ pr v x => match cfg pr with
    | none => []
    | some p =>
      (match prev.vaults.find? (·.id = v) with
       | some v0 => match userToken v0 x with
         | some out => delivers p f out x
         | none => []
       | none => []) ++ ratio p v
  | .stableCreate f _ pr x => match cfg pr with
    | none => []
    | some p => delivers p f (otherToken x p.decIn p.decOut) x
  | .stableDeposit f _ pr _ x => match cfg pr with
    | none => []
    | some p => delivers p f (otherToken x p.decIn p.decOut) x
  | _ => []

/-- C03 state monitors: floor and ceiling on the REAL state -/
def limitMonitors (cfgL : List Product) (exempt : List Nat) (prev : Option State) (r : State) : List String :=
  let cfg := cfgOf cfgL
  -- the limits in the form that survives a reconfiguration (`C03.floor_deficit_never_increases`,
  -- `C03.ceiling_excess_never_increases`): a vault below the floor in force may stay there but its principal must not
  -- have FALLEN; a product above the ceiling in force may stay there but its minted total must not have RISEN. With
  -- an unchanged configuration this is the plain `floor ≤ principal`, `minted ≤ ceiling` on every line.
  let notFallen (v : VaultRec) : Bool := match prev with
    | some pv => match pv.vaults.find? (·.id = v.id) with
      | some v0 => decide (v0.amountOut ≤ v.amountOut)
      | none => false
    | none => false
  let m1 := r.vaults.filterMap fun v => match cfg v.product with
    | some p => if p.debtFloor ≤ v.amountOut ∨ exempt.contains v.id ∨ notFallen v then none else
        some s!"floor_kept\tvault {v.id}: principal {v.amountOut} below debt floor {p.debtFloor}"
    | none => none
  let notRisen (k : Nat) : Bool := match prev with
    | some pv => decide (r.minted k ≤ pv.minted k)
    | none => false
  let m2 := cfgL.filterMap fun p => if r.minted p.id ≤ p.debtCeiling ∨ notRisen p.id then none else
    some s!"ceiling_kept\tproduct {p.id}: minted {r.minted p.id} above debt ceiling {p.debtCeiling}"
  m1 ++ m2

/-- C02 per-message supply clauses on the REAL supply: since the last state line the supply of every denom moved by exactly
what `supplyDelta` says for the accepted messages — a mint is exactly the new principal (`mint_delivers`), a burn exactly
the principal retired (`burn_exact`), everything else (interest, fees, seizures, deposits …) leaves it alone
(`interest_not_minted`) -/
def supplyMonitors (cfgL : List Product) (prev real : State) (exp : Nat → Int) (mint burn : Bool) : List String :=
  let denoms := dedup (cfgL.map (·.denomIn) ++ cfgL.map (·.denomOut))
  denoms.filterMap fun d =>
    let got := real.supply d - prev.supply d
    if got = exp d then none else
      -- a mint that is not the new principal; supply created without any minting message (interest, fees, seizures …
      -- must come out of existing supply); a burn that is not the principal retired
      let name := if mint then "mint_delivers" else if got > exp d ∨ ¬ burn then "interest_not_minted" else "burn_exact"
      some s!"{name}\tsupply of denom {d} moved by {got}, the accepted messages account for {exp d}"

/-- C02, "debt registered for emergency redemption": on the REAL chain the register of every (app, debt asset) moved, since the
last state line, by exactly what the accepted redemption steps account for — the principal of every vault swept into the pool,
minus what the collector and the holders burnt against it. A sweep that drops or double-counts a vault's principal leaves
supply that neither a vault record nor the register backs. -/
def registerMonitors (prev : State) (p : List (Nat × Nat × Int)) (exp : Nat → Nat → Int) : List String :=
  p.filterMap fun (a, d, x) =>
    let got := x - prev.redeem a d
    if got = exp a d then none else
      some s!"supply_eq_principal\tdebt registered for emergency redemption, app {a} denom {d}: moved by {got}, the redeemed vaults / burns account for {exp a d} (supply no longer backed by principal + register)"

def replaceProduct (l : List Product) (p : Product) : List Product :=
  if l.any (·.id = p.id) then l.map (fun q => if q.id = p.id then p else q) else l ++ [p]

def showV (v : VaultRec) : String := s!"{v.id}:{v.owner}:{v.product}:{v.amountIn}:{v.amountOut}:{v.interest}:{v.closingFee}"

def handle (st : St) (seq : String) (f : List String) : St × List String :=
  match f with
  | ["vault.begin"] => ({}, [])
  | "vault.product" :: rest =>
    match parseProduct rest with
    | some p => ({ st with cfgL := st.cfgL ++ [p] }, [])
    | none => (st, [s!"BAD\t{seq}\tproduct"])
  | "vault.reconfig" :: rest =>
    match parseProduct rest with
    | some p => ({ st with cfgL := replaceProduct st.cfgL p }, [])
    | none => (st, [s!"BAD\t{seq}\treconfig"])
  | ["vault.msg", kind, a1, a2, a3, a4, a5, env, outcome] =>
    match parseMsg kind [a1, a2, a3, a4, a5], parseEnv env with
    | some m, some e =>
      let r := step (cfgOf st.cfgL) st.s e m
      let st' := { st with lastMsg := s!"{kind} {a1} {a2} {a3} {a4} {a5} [{env}]" }
      let st' := { st' with lastOk := if outcome = "ok" then some (m, e) else none }
      match r with
      | some s' =>
        let st' := match m with
          | .esmReturn1 .. | .esmReturn2 .. => if s'.nextVault > st.s.nextVault then { st' with floorExempt := s'.nextVault :: st'.floorExempt } else st'
          | _ => st'
        let cfg0 := cfgOf st.cfgL
        let s0 := st.s
        let old := st.expSup
        let isBurn := match m with
          | .repay .. | .close .. | .stableWithdraw .. | .settle .. | .settle1 .. | .esmReturn1 .. | .esmReturn2 .. | .esmCollector .. | .esmBurn .. => true
          | _ => false
        let oldReg := st.expReg
        if outcome = "ok" then ({ st' with s := s', expSup := fun d => old d + supplyDelta cfg0 s0 e m d,
                                           expReg := fun a d => oldReg a d + (s'.redeem a d - s0.redeem a d),
                                           pendMint := st.pendMint || (m.mints && !(match m with | .fund .. => true | _ => false)),
                                           pendBurn := st.pendBurn || isBurn }, [])
        -- the model accepts what the code rejects: keep the real (unchanged) state
        else (st', [s!"DIFF\t{seq}\tmodel accepts, impl rejects: {st'.lastMsg}"])
      | none =>
        let isMint := m.mints && !(match m with | .fund .. => true | _ => false)
        let isBurn := match m with
          | .repay .. | .close .. | .stableWithdraw .. | .settle .. | .settle1 .. | .esmReturn1 .. | .esmReturn2 .. | .esmCollector .. | .esmBurn .. => true
          | _ => false
        if outcome = "ok" then ({ st' with pendMint := st.pendMint || isMint, pendBurn := st.pendBurn || isBurn },
                                [s!"DIFF\t{seq}\tmodel rejects, impl accepts: {st'.lastMsg}"])
        else (st', [])
    | _, _ => (st, [s!"BAD\t{seq}\tcannot parse msg/env"])
  | kind :: rest =>
    if kind ≠ "vault.state" ∧ kind ≠ "vault.state.settle" ∧ kind ≠ "vault.state.bid" ∧ kind ≠ "vault.state.settle1" ∧
       kind ≠ "vault.state.esm" ∧ kind ≠ "vault.state.esmstable" ∧ kind ≠ "vault.state.esmburn" ∧ kind ≠ "vault.state.esmreturn" ∧
       kind ≠ "vault.state.esmreturn2" then
      (st, [s!"BAD\t{seq}\tunknown vault line"]) else
    -- `.settle`: the state after a second-generation auction closed; `.bid`: after a partial auction fill (only bidder /
    -- auction-module coins move); `.settle1`: after a FIRST-generation auction closed (burns the principal exactly, so the
    -- supply monitor stays strict there)
    -- `.esm` / `.esmstable`: after the emergency-shutdown begin-blocker (the second kind when a stable-mint vault was
    -- redeemed: finding D29 lives on those lines only); `.esmburn`: after a holder's redemption (collateral paid out of the
    -- esm account by share is not vault custody: balances adopted)
    let isSettle := kind = "vault.state.settle" || kind = "vault.state.bid" || kind = "vault.state.settle1" ||
                    kind = "vault.state.esmburn" || kind = "vault.state.esmreturn" || kind = "vault.state.esmreturn2"
    -- `.esmreturn2` (auctionsV2 `TriggerEsm`): the owner's vault is credited with debt that was never minted — the supply falls
    -- BELOW the recorded principal (C02 asks for "never above"); the phantom record itself is C01's finding
    let lenientSupply := kind = "vault.state.settle" || kind = "vault.state.bid" || kind = "vault.state.esmreturn2"
    match parseProj rest with
    | none => (st, [s!"BAD\t{seq}\tcannot parse state"])
    | some p =>
      -- on a settlement line the bidders' coins and the penalty are C10's subject: balances are adopted (the burn is modelled)
      let m0 : State := if isSettle then { st.s with bal := overlay p.bal st.s.bal } else st.s
      let diffs := (compare st.cfgL m0 p).map fun d => s!"DIFF\t{seq}\tafter [{st.lastMsg}] {d}"
      let r := p.toState m0
      let perMsg := match st.prev, st.lastOk with
        | some pv, some (m, e) => msgMonitors st.cfgL pv r m e
        | _, _ => []
      let supMons := match st.prev with
        | some pv => supplyMonitors st.cfgL pv r st.expSup st.pendMint st.pendBurn
        | none => []
      let regMons := match st.prev with
        | some pv => registerMonitors pv p.rd st.expReg
        | none => []
      let mons := (monitors st.cfgL st.prevGaps r lenientSupply ++ limitMonitors st.cfgL st.floorExempt st.prev r ++ perMsg ++ supMons ++ regMons).map fun m => s!"MON\t{seq}\t{m}\tafter [{st.lastMsg}]"
      -- resynchronise on the real state so that later divergences are independent
      let old := m0
      let resync : State := { r with bal := overlay p.bal old.bal }
      ({ st with s := if diffs.isEmpty then old else resync, prev := some r, lastOk := none,
                 prevGaps := (gaps st.cfgL r), expSup := fun _ => 0, pendMint := false, pendBurn := false, expReg := fun _ _ => 0 }, diffs ++ mons)
  | _ => (st, [s!"BAD\t{seq}\tunknown vault line"])

end Comdex.Drv.Vault
