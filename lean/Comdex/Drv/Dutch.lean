import Comdex.Base.Line
import Comdex.Model.DutchPrice
import Comdex.Model.DutchV2
import Comdex.Model.DutchV1
import Comdex.Model.DutchV1Lend
import Comdex.Model.DutchV1LendBook
/-! Driver plug-in for the Dutch-auction models (C10).

Pure price-function lines (real exported helpers / real block hooks on synthetic records):
  dutch.start  twa premium            <ok|panic> <raw>     GetCollalteralTokenInitialPrice
  dutch.end    top cusp               <ok|panic> <raw>     GetCollateralTokenEndPrice
  dutch.lin    top tau dur            <ok|panic> <raw>     GetPriceFromLinearDecreaseFunction
  dutch.upd2   top discount T dur     <ok|err>   <raw>     V2 UpdateDutchAuction on a stored auction
  dutch.upd1   top endP T dur         <ok|err>   <raw>     v1 RestartDutchAuctions (price part) on a stored auction
  dutch.mono   top discount T d1 p1 d2 p2                   two real prices of one window (monitor only)

Sequence lines (second generation, one seized position):
  dutch.begin   <env>  <rec> <balances> <misc>
  dutch.bid     who amt debtTwa            <ok|err|validate|panic> <rec> <balances> <misc>
  dutch.tick    now twaC actC twaD actD lbBefore lbAfter  <ok|panic> <rec> <balances> <misc>
  dutch.tickesm (same fields)   a block while the emergency-shutdown status of the auction's app is on
  dutch.bidx    who denom amt              <outcome> <rec> <balances> <misc>      a market bid in a foreign denomination
  dutch.limit   who premium amt            <outcome> <rec> <balances> <misc>
  dutch.reserve who amt                    <outcome> <rec> <balances> <misc>
rec      := `closed` | `coll=..;debt=..;bonus=..;price=..;init=..;orc=..;ord=..;start=..;end=..`
balances := `name:coll:debt,...`      misc := `net=..;ext=..;res=..;supply=..;...`
First generation (x/auction), one seized vault:
  dutch.v1.begin <env1> <rec1> <balances> <misc>
  dutch.v1.bid   who slice                <ok|err|validate|panic> <rec1> <balances> <misc>
  dutch.v1.tick  now twaC actC twaD actD esmOn snapshot  <ok|panic> <rec1> <balances> <misc>
rec1 := `closed` | `out=..;in=..;price=..;init=..;endp=..;inp=..;start=..;end=..`   misc := `net=<n|none>;supply=..`
First generation, liquidated borrow (x/auction dutch_lend.go):
  dutch.l1.begin <envL> <rec1> <balances> <misc>
  dutch.l1.bid   who slice lendReserveDebtBalance  <outcome> <rec1> <balances> <misc>
  dutch.l1.tick  now twaC actC twaD actD  <ok|panic> <rec1> <balances> <misc>
  dutch.l1.bid   who slice lendReserveDebtBalance twaC actC twaD actD  <outcome> <rec1> <balances> <misc> <book>
  (every dutch.l1 line ends with <book> = `lv=in:out:upd|none;borrow=in:out:liq|none;int=<raw>;trk=<raw>;ctok=poolCDebt:poolCColl:ownerCColl`;
   `pool` = pool module account, `lendres` = lend module account; extra monitors proceeds_forwarded, lend_bonus_stranded, lend_close_books)
Monitors (on REAL values): pay_le_target receive_le_collateral books_exact (+ `_after_d7` variants, see `finish`) posted_price
price_monotone price_in_range price_below_end_at_T
price_in_range_slack close_distributes leftover_to_owner bid_refused reserve_draw_skipped limit_fill_overcharge start_price start_record
close_branch_split esm_payout_le_proceeds (+ `_after_esm_trigger` variants of the two close monitors once `TriggerEsm` has paid anything out).
-/
-- DRIVER: prefix=dutch ns=Comdex.Drv.Dutch
namespace Comdex.Drv.Dutch
open Comdex Comdex.Line Comdex.DutchV2

def names : List (String × Acct) :=
  [("b1", .bidder 1), ("b2", .bidder 2), ("b3", .bidder 3), ("b4", .bidder 4), ("auction", .auction),
   ("collector", .collector), ("owner", .owner), ("keeper", .keeper), ("initiator", .initiator),
   ("reserve", .reserve), ("vault", .vaultMod), ("pool", .pool), ("lendres", .lendres), ("poolin", .poolIn), ("esm", .esm)]

def acctOf (n : String) : Option Acct := (names.find? (·.1 = n)).map (·.2)
def bidderNo (n : String) : Option Nat :=
  match n with | "b1" => some 1 | "b2" => some 2 | "b3" => some 3 | "b4" => some 4 | _ => none

structure Obs where
  auc : Option Auc
  bals : List (String × Int × Int)
  net : Int
  ext : Int
  res : Option Int
  supply : Int
  tr : Int × Int := (0, 0)      -- bridge-asset balances of the debt pool and of the collateral's pool (lend, cross-pool)


/-! ### first generation -/
structure Obs1 where
  auc : Option DutchV1.Auc
  bals : List (String × Int × Int)
  net : Option Int
  supply : Int

structure V1St where
  e : DutchV1.Env := {}
  s : DutchV1.St := {}
  prev : Option Obs1 := none
  begin_ : Option Obs1 := none
  supply0 : Int := 0
  realPaid : Int := 0
  realRecv : Int := 0
  baseC : Int := 0
  baseD : Int := 0


/-! ### first generation, liquidated borrows -/
structure L1St where
  e : DutchV1Lend.Env := {}
  r : DutchV1LendBook.Rates := {}
  k : DutchV1LendBook.Book := {}
  s : DutchV1Lend.St := {}
  prev : Option Obs1 := none
  begin_ : Option Obs1 := none
  realPaid : Int := 0
  realRecv : Int := 0
  baseC : Int := 0
  baseD : Int := 0

structure St where
  e : Env := {}
  s : DutchV2.St := {}
  live : Bool := false
  prev : Option Obs := none
  supply0 : Int := 0
  realPaid : Int := 0
  realRecv : Int := 0
  baseC : Int := 0
  baseD : Int := 0
  ext0 : Int := 0
  begin_ : Option Obs := none
  drawnReal : Int := 0
  shortReal : Int := 0
  d7 : Bool := false       -- two limit bids of one premium bucket were debited in one block (known finding D7)
  overReal : Int := 0      -- limit deposits debited beyond what the auction charged (auctions.go:567-572)
  esmOutReal : Int := 0    -- what `TriggerEsm` burned / sent to the collector while the auction stayed open (REAL balances)
  closedSeen : Bool := false
  v1 : V1St := {}
  l1 : L1St := {}

def init : St := {}

def kv (s : String) : List String := s.splitOn ";"
def getI (fs : List String) (k : String) : Option Int := field? fs k >>= parseInt?

def parseRec (s : String) : Option (Option Auc) :=
  if s = "closed" then some none else
  let fs := kv s
  do
    let coll ← getI fs "coll"; let debt ← getI fs "debt"; let bonus ← getI fs "bonus"
    let price ← getI fs "price"; let ini ← getI fs "init"; let orc ← getI fs "orc"; let ord ← getI fs "ord"
    let st ← getI fs "start"; let en ← getI fs "end"
    pure (some { coll := coll, debt := debt, bonus := bonus, price := price, init := ini, orc := orc, ord := ord, start := st, end_ := en })

def showRec : Option Auc → String
  | none => "closed"
  | some a => s!"coll={a.coll};debt={a.debt};bonus={a.bonus};price={a.price};init={a.init};orc={a.orc};ord={a.ord};start={a.start};end={a.end_}"

def parseBals (s : String) : Option (List (String × Int × Int)) :=
  (s.splitOn ",").mapM fun item =>
    match item.splitOn ":" with
    | [n, c, d] => do let c ← parseInt? c; let d ← parseInt? d; pure (n, c, d)
    | _ => none

def parseObs (r b m : String) : Option Obs := do
  let rec ← parseRec r
  let bals ← parseBals b
  let fs := kv m
  let net ← getI fs "net"; let ext ← getI fs "ext"; let supply ← getI fs "supply"
  let resS ← field? fs "res"
  let res ← if resS = "none" then some none else (parseInt? resS).map some
  let tr : Int × Int := match (field? fs "tr").map (·.splitOn ":") with
    | some [a, b] => ((parseInt? a).getD 0, (parseInt? b).getD 0)
    | _ => (0, 0)
  pure { auc := rec, bals := bals, net := net, ext := ext, res := res, supply := supply, tr := tr }

def balOf (o : Obs) (n : String) : Int × Int :=
  match o.bals.find? (·.1 = n) with | some (_, c, d) => (c, d) | none => (0, 0)

def bankOf (o : Obs) : Bank :=
  let b0 : Bank := (Bank.set (Bank.set [] Acct.pool Denom.transit o.tr.1) Acct.poolIn Denom.transit o.tr.2)
  o.bals.foldl (fun b (n, c, d) =>
    match acctOf n with
    | some a => (b.set a .coll c).set a .debt d
    | none => b) b0

/-- model-side projection in the same shape as the real observation -/
def modelObs (st : St) (o : Obs) : Obs :=
  { auc := st.s.auc,
    bals := o.bals.map fun (n, _, _) =>
      match acctOf n with
      | some a => (n, st.s.bank.get a .coll, st.s.bank.get a .debt)
      | none => (n, 0, 0),
    net := st.s.netFees, ext := st.s.extFees, res := st.s.reserve, supply := st.supply0 - st.s.burned,
    tr := (st.s.bank.get .pool .transit, st.s.bank.get .poolIn .transit) }

def showBals (l : List (String × Int × Int)) : String :=
  ",".intercalate (l.map fun (n, c, d) => s!"{n}:{c}:{d}")

def showObs (o : Obs) : String :=
  let res := match o.res with | none => "none" | some q => toString q
  s!"{showRec o.auc} {showBals o.bals} net={o.net};ext={o.ext};res={res};supply={o.supply};tr={o.tr.1}:{o.tr.2}"

def sameObs (a b : Obs) : Bool :=
  a.auc == b.auc && a.bals == b.bals && a.net == b.net && a.ext == b.ext && a.res == b.res && a.supply == b.supply && a.tr == b.tr

/-- adopt the real observation as the model state (after a divergence) keeping the ghosts -/
def adopt (st : St) (o : Obs) : St :=
  { st with s := { st.s with auc := o.auc, bank := bankOf o, netFees := o.net, extFees := o.ext, reserve := o.res,
                             burned := st.supply0 - o.supply } }

def parseEnv (s : String) : Option Env :=
  let fs := kv s
  do
    let kindS ← field? fs "kind"
    let kind ← match kindS with | "vault" => some Kind.vault | "lend" => some Kind.lend | "external" => some Kind.external | _ => none
    let decC ← getI fs "decC"; let decD ← getI fs "decD"; let target ← getI fs "target"; let fee ← getI fs "fee"
    let bonus0 ← getI fs "bonus0"; let coll0 ← getI fs "coll0"; let keeper ← getI fs "keeper"
    let incentive ← getI fs "incentive"; let minUsd ← getI fs "minUsd"; let T ← getI fs "T"
    let premium ← getI fs "premium"; let discount ← getI fs "discount"; let cmst ← getI fs "cmst"
    pure { kind := kind, decC := decC, decD := decD, target := target, fee := fee, bonus0 := bonus0, coll0 := coll0,
           isKeeper := keeper = 1, incentive := incentive, minUsd := minUsd, T := T, premium := premium,
           discount := discount, cmst := cmst = 1,
           lendPen := (getI fs "lendPen").getD 0, lendInt := (getI fs "lendInt").getD 0, bridged := (getI fs "bridged").getD 0 }

def parseLB (s : String) : Option (List (Int × String × Int)) :=
  if s = "-" ∨ s = "" then some [] else
  (s.splitOn ",").mapM fun item =>
    match item.splitOn ":" with
    | [p, n, a] => do let p ← parseInt? p; let a ← parseInt? a; pure (p, n, a)
    | _ => none

def mon (seq name : String) (ok : Bool) : List String := if ok then [] else [s!"MON\t{seq}\t{name}"]


/-- exact lower bound `price ≥ end` on a real price: at the very last second of the window (`dur = T`) the truncated tau puts
the price below the end price (known finding D8) — that case has its own stable name -/
def lowerMon (seq : String) (dur T : Int) (endP price : Dec) : List String :=
  if dur = T then mon seq "price_below_end_at_T" (DutchPrice.monGeEnd endP price)
  else mon seq "price_in_range" (DutchPrice.monGeEnd endP price)

/-- per-bidder real deltas between two observations: (name, debt paid, collateral received) -/
def bidderDeltas (before after : Obs) : List (String × Int × Int) :=
  ["b1", "b2", "b3", "b4"].map fun n =>
    let (c0, d0) := balOf before n
    let (c1, d1) := balOf after n
    (n, d0 - d1, c1 - c0)

/-- monitors that look at one real price observation of an open auction -/
def priceMons (seq : String) (e : Env) (prev : Option Auc) (cur : Auc) (now : Int) : List String :=
  let top := cur.init
  let dur := now - cur.start
  let upper := mon seq "price_in_range" (DutchPrice.monLeStart top cur.price)
  let lower :=
    match DutchPrice.endPrice top e.discount with
    | .ok endP =>
      (if 0 ≤ dur ∧ dur ≤ e.T then lowerMon seq dur e.T endP cur.price else []) ++
      -- the proved band holds of EVERY live record after EVERY real block, whatever the elapsed time: past the end of the window
      -- the record is either restarted or (price feed down, or app under emergency shutdown) left as it is — never updated
      (match DutchPrice.tau top endP e.T with
       | .ok t => if 0 ≤ dur ∧ 0 ≤ endP ∧ endP < top then
                    mon seq "price_in_range_slack" (DutchPrice.monGeEndSlack top endP t cur.price) else []
       | .error _ => [])
    | .error _ => []
  let mono :=
    match prev with
    | some p => if p.start = cur.start ∧ p.init = cur.init then mon seq "price_monotone" (decide (cur.price ≤ p.price)) else []
    | none => []
  upper ++ lower ++ mono

/-- compare model and real after an op; evaluate the balance/ledger monitors on the REAL observation -/
def finish (st : St) (seq : String) (outcomeModelOk : Bool) (outcome : String) (o : Obs) (isBid : Bool)
    (consumed : List (String × Int)) (extraMons : List String) (chargedModel : Int := 0) (esmTick : Bool := false) : St × List String :=
  let real_ok := outcome = "ok"
  let mo := modelObs st o
  let d1 := if isBid ∧ outcomeModelOk != real_ok then [s!"DIFF\t{seq}\toutcome model={outcomeModelOk} impl={outcome}"] else []
  let d2 := if sameObs mo o then [] else [s!"DIFF\t{seq}\tmodel={showObs mo}\timpl={showObs o}"]
  let prev := st.prev.getD o
  -- real paid / received by bidders in this op
  let ds := bidderDeltas prev o
  let paidNow := ds.foldl (fun acc (n, dp, _) => acc + (if isBid then dp else (match consumed.find? (·.1 = n) with | some (_, c) => c | none => 0))) 0
  let recvNow := ds.foldl (fun acc (_, _, dc) => acc + dc) 0
  let realPaid := st.realPaid + paidNow
  let realRecv := st.realRecv + recvNow
  let consumedTot := consumed.foldl (fun acc (_, c) => acc + c) 0
  -- limit fills: the deposit records were debited by `consumedTot`; the auction (bank-checked model) charged `chargedModel`
  let over : Int := if ¬ isBid ∧ consumedTot > chargedModel then consumedTot - chargedModel else 0
  let mOver := mon seq "limit_fill_overcharge" (decide (over = 0))
  let overReal := st.overReal + over
  let baseD := st.baseD - (consumedTot - over)
  let (_, resD0) := balOf prev "reserve"
  let (_, resD1) := balOf o "reserve"
  let bidLike := isBid ∨ consumed.length > 0
  let drawn := st.drawnReal + (if bidLike then resD0 - resD1 else 0)
  -- reserve record debited although the reserve account did not pay (liquidate.go:611-617), on REAL values
  let recDelta : Int := match prev.res, o.res with | some q0, some q1 => q0 - q1 | _, _ => 0
  let skipped : Int := if bidLike ∧ recDelta > resD0 - resD1 then recDelta - (resD0 - resD1) else 0
  let shortReal := st.shortReal + skipped
  let m0 := mon seq "reserve_draw_skipped" (decide (skipped = 0))
  -- after a D7 event the record of this auction is corrupted for good: everything the ledger monitors say from then on
  -- (in this sequence only) carries the suffix, so that the same monitors stay meaningful everywhere else
  let sfx := if st.d7 then "_after_d7" else ""
  -- emergency shutdown, vault-initiated auction past the end of its window: `TriggerEsm` burns / forwards what was collected but
  -- leaves the auction open, so the next block does it again (REAL balances: collector + burn while the record stays)
  let esmOutNow : Int :=
    if esmTick ∧ prev.auc.isSome ∧ o.auc.isSome then ((balOf o "collector").2 - (balOf prev "collector").2) + (prev.supply - o.supply) else 0
  let esmOutReal := st.esmOutReal + esmOutNow
  -- reported on the line on which `TriggerEsm` pays (again), not on every later line of the sequence
  let mEsm := if esmOutNow ≠ 0 then mon seq "esm_payout_le_proceeds" (decide (esmOutReal ≤ realPaid - overReal)) else []
  let sfxC := if st.d7 then "_after_d7" else if esmOutReal ≠ 0 then "_after_esm_trigger" else ""
  let m1 := mon seq ("pay_le_target" ++ sfx) (decide (realPaid ≤ st.e.target))
  let m2 := mon seq ("receive_le_collateral" ++ sfx) (decide (realRecv ≤ st.e.coll0))
  -- while open the REAL books are exact: paid + remaining target = target, received + remaining collateral = seized
  let mB := match o.auc with
    | some a => mon seq ("books_exact" ++ sfx) (decide (realPaid - overReal + a.debt = st.e.target) && decide (realRecv + a.coll = st.e.coll0))
    | none => []
  -- close: custody and distribution on real balances
  let closing := prev.auc.isSome ∧ o.auc.isNone
  let m3 :=
    if closing then
      match st.begin_ with
      | none => []
      | some b0 =>
        let (aC, aD) := balOf o "auction"
        let custody := decide (aC = st.baseC) && decide (aD + shortReal = baseD + (o.ext - st.ext0))
        let dlt (n : String) : Int := (balOf o n).2 - (balOf b0 n).2
        let burned := b0.supply - o.supply
        let out := burned + dlt "collector" + dlt "keeper" + dlt "initiator" + dlt "pool" + dlt "lendres" + (o.ext - st.ext0)
        let proceeds := decide (realPaid - overReal + drawn + shortReal = out) && decide (out = st.e.target)
        let ownerOk := decide ((balOf o "owner").1 - (balOf b0 "owner").1 = st.e.coll0 - realRecv)
        -- recipient checked by ACCOUNT: "owner" is the account recorded in the locked vault at seizure
        -- per distribution branch of the close path (bid.go:122-158 / :161-190 / :191-202), on REAL balances since the seizure:
        -- who got what of the target (theorems vault_/external_/lend_close_distributes)
        let cut := match st.e.kind with
          | .vault => cutOf st.e st.e.isKeeper
          | _ => 0
        let branchOk := match st.e.kind with
          | .vault => decide (burned = st.e.target - st.e.fee) && decide (dlt "keeper" = cut) && decide (dlt "collector" = st.e.fee - cut) &&
              decide (o.net - b0.net = st.e.fee - cut) && decide (dlt "initiator" = 0) && decide (dlt "pool" = 0) && decide (dlt "lendres" = 0) &&
              decide (o.ext = st.ext0)
          | .external => decide (dlt "initiator" = st.e.target - st.e.fee) && decide (o.ext - st.ext0 = st.e.fee) && decide (burned = 0) &&
              decide (dlt "collector" = 0) && decide (dlt "keeper" = 0) && decide (dlt "pool" = 0) && decide (dlt "lendres" = 0)
          | .lend => decide (dlt "lendres" = st.e.lendPen + (if st.e.lendInt > 0 then st.e.lendInt else 0)) &&
              decide (dlt "pool" = st.e.target - st.e.lendPen - (if st.e.lendInt > 0 then st.e.lendInt else 0)) && decide (burned = 0) &&
              decide (dlt "collector" = 0) && decide (dlt "keeper" = 0) && decide (dlt "initiator" = 0) && decide (o.ext = st.ext0)
        -- (a vault auction that went through `TriggerEsm` has forwarded part of its proceeds already: the close monitors carry the suffix)
        mon seq ("close_distributes" ++ sfxC) (custody && proceeds && ownerOk) ++ mon seq ("leftover_to_owner" ++ sfxC) ownerOk ++
          (if sfxC = "" then mon seq "close_branch_split" branchOk else [])
    else []
  let st' := { st with prev := some o, realPaid := realPaid, realRecv := realRecv, baseD := baseD, drawnReal := drawn, shortReal := shortReal, overReal := overReal,
                       esmOutReal := esmOutReal, closedSeen := st.closedSeen || closing }
  let st' := if d2.isEmpty then st' else adopt st' o
  (st', d1 ++ d2 ++ m0 ++ mOver ++ mEsm ++ mB ++ m1 ++ m2 ++ m3 ++ extraMons)

def pureLine (seq : String) (m : Except Unit Int) (o v : String) (okTag : String := "ok") : List String :=
  let ms := match m with | .ok x => s!"{okTag}\t{x}" | .error _ => "fail\t-"
  let is := if o = okTag then s!"{okTag}\t{v}" else "fail\t-"
  if ms = is then [] else [s!"DIFF\t{seq}\tmodel={ms}\timpl={o} {v}"]


/-! ### first generation handlers -/
def parseRec1 (s : String) : Option (Option DutchV1.Auc) :=
  if s = "closed" then some none else
  let fs := kv s
  do
    let o ← getI fs "out"; let i ← getI fs "in"; let price ← getI fs "price"; let ini ← getI fs "init"
    let ep ← getI fs "endp"; let ip ← getI fs "inp"; let st ← getI fs "start"; let en ← getI fs "end"
    pure (some { outCur := o, inCur := i, price := price, init := ini, endP := ep, inPrice := ip, start := st, end_ := en })

def showRec1 : Option DutchV1.Auc → String
  | none => "closed"
  | some a => s!"out={a.outCur};in={a.inCur};price={a.price};init={a.init};endp={a.endP};inp={a.inPrice};start={a.start};end={a.end_}"

def parseObs1 (r b m : String) : Option Obs1 := do
  let rec ← parseRec1 r
  let bals ← parseBals b
  let fs := kv m
  let supply ← getI fs "supply"
  let netS ← field? fs "net"
  let net ← if netS = "none" then some none else (parseInt? netS).map some
  pure { auc := rec, bals := bals, net := net, supply := supply }

def bal1 (o : Obs1) (n : String) : Int × Int :=
  match o.bals.find? (·.1 = n) with | some (_, c, d) => (c, d) | none => (0, 0)

def bankOf1 (o : Obs1) : Bank :=
  o.bals.foldl (fun b (n, c, d) =>
    match acctOf n with
    | some a => (b.set a .coll c).set a .debt d
    | none => b) []

def modelObs1 (v : V1St) (o : Obs1) : Obs1 :=
  { auc := v.s.auc,
    bals := o.bals.map fun (n, _, _) =>
      match acctOf n with
      | some a => (n, v.s.bank.get a .coll, v.s.bank.get a .debt)
      | none => (n, 0, 0),
    net := v.s.netFees, supply := v.supply0 - v.s.burned }

def showObs1 (o : Obs1) : String :=
  let net := match o.net with | none => "none" | some q => toString q
  s!"{showRec1 o.auc} {showBals o.bals} net={net};supply={o.supply}"

def sameObs1 (a b : Obs1) : Bool := a.auc == b.auc && a.bals == b.bals && a.net == b.net && a.supply == b.supply

def parseEnv1 (s : String) : Option DutchV1.Env :=
  let fs := kv s
  do
    let decC ← getI fs "decC"; let decD ← getI fs "decD"; let target ← getI fs "target"; let principal ← getI fs "principal"
    let coll0 ← getI fs "coll0"; let dust ← getI fs "dust"; let T ← getI fs "T"; let buffer ← getI fs "buffer"
    let cusp ← getI fs "cusp"; let od ← getI fs "oracleDebt"; let fd ← getI fs "fixedDebt"
    pure { decC := decC, decD := decD, target := target, principal := principal, coll0 := coll0, dust := dust, T := T,
           buffer := buffer, cusp := cusp, oracleDebt := od = 1, fixedDebt := fd }

def finish1 (v : V1St) (seq : String) (isBid : Bool) (okM : Bool) (outcome : String) (o : Obs1) (extra : List String) : V1St × List String :=
  let mo := modelObs1 v o
  let d1 := if isBid ∧ okM != (outcome = "ok") then [s!"DIFF\t{seq}\toutcome model={okM} impl={outcome}"] else []
  let d2 := if sameObs1 mo o then [] else [s!"DIFF\t{seq}\tmodel={showObs1 mo}\timpl={showObs1 o}"]
  let prev := v.prev.getD o
  let (paidNow, recvNow) := ["b1", "b2", "b3", "b4"].foldl (fun (p, r) n =>
    let (c0, d0) := bal1 prev n
    let (c1, d1) := bal1 o n
    (p + (d0 - d1), r + (c1 - c0))) (0, 0)
  let realPaid := v.realPaid + paidNow
  let realRecv := v.realRecv + recvNow
  let m1 := mon seq "pay_le_target" (decide (realPaid ≤ v.e.target))
  let m2 := mon seq "receive_le_collateral" (decide (realRecv ≤ v.e.coll0))
  let closing := prev.auc.isSome ∧ o.auc.isNone
  let m3 :=
    if closing then
      match v.begin_ with
      | none => []
      | some b0 =>
        let (aC, aD) := bal1 o "auction"
        let custody := decide (aC = v.baseC) && decide (aD = v.baseD)
        let burned := b0.supply - o.supply
        let collIn := (bal1 o "collector").2 - (bal1 b0 "collector").2      -- net: penalty in minus shortfall cover out
        let proceeds := decide (realPaid = burned + collIn) && decide (burned + collIn + (v.e.target - realPaid) = v.e.target)
        -- the unsold collateral goes to the owner (bid close) or, in an emergency-shutdown wind-down, to the vault / ESM module
        let dC (n : String) : Int := (bal1 o n).1 - (bal1 b0 n).1
        let ownerOk := decide (dC "owner" + dC "vault" + dC "esm" = v.e.coll0 - realRecv)
        mon seq "close_distributes" (custody && proceeds && ownerOk) ++ mon seq "leftover_to_owner" ownerOk
    else []
  let v' := { v with prev := some o, realPaid := realPaid, realRecv := realRecv }
  let v' := if d2.isEmpty then v' else
    { v' with s := { v'.s with auc := o.auc, bank := bankOf1 o, netFees := o.net, burned := v'.supply0 - o.supply } }
  (v', d1 ++ d2 ++ m1 ++ m2 ++ m3 ++ extra)

def priceMons1 (seq : String) (e : DutchV1.Env) (prev : Option DutchV1.Auc) (cur : DutchV1.Auc) (now : Int) : List String :=
  let dur := now - cur.start
  let valid := decide (0 ≤ cur.endP) && decide (cur.endP < cur.init)
  let upper := mon seq "price_in_range" (DutchPrice.monLeStart cur.init cur.price)
  let lower := if valid ∧ 0 ≤ dur ∧ dur ≤ e.T then
      lowerMon seq dur e.T cur.endP cur.price ++
      (match DutchPrice.tau cur.init cur.endP e.T with
       | .ok t => mon seq "price_in_range_slack" (DutchPrice.monGeEndSlack cur.init cur.endP t cur.price)
       | .error _ => [])
    else []
  let mono := match prev with
    | some p => if p.start = cur.start ∧ p.init = cur.init ∧ p.endP = cur.endP ∧ valid then
        mon seq "price_monotone" (decide (cur.price ≤ p.price)) else []
    | none => []
  upper ++ lower ++ mono

def handleV1 (v : V1St) (seq : String) (f : List String) : V1St × List String :=
  match f with
  | ["dutch.v1.begin", env, r, b, m] =>
    match parseEnv1 env, parseObs1 r b m with
    | some e, some o =>
      match o.auc with
      | none => (v, [s!"BAD\t{seq}\tv1 begin without auction"])
      | some a =>
        let s0 := DutchV1.initSt e a (bankOf1 o) o.net
        let v' : V1St := { e := e, s := s0, prev := some o, begin_ := some o, supply0 := o.supply, baseC := s0.otherC, baseD := s0.otherD }
        let twaC := (getI (kv env) "twaC").getD 0
        let okStart := match DutchPrice.startPrice twaC e.buffer with
          | .ok p0 => decide (a.price = p0) && decide (a.init = p0) &&
              (match DutchPrice.endPrice p0 e.cusp with | .ok ep => decide (a.endP = ep) | .error _ => false)
          | .error _ => false
        let okRec := decide (a.outCur = e.coll0) && decide (a.inCur = 0) && decide (a.end_ = a.start + e.T)
        (v', mon seq "start_price" okStart ++ mon seq "start_record" okRec)
    | _, _ => (v, [s!"BAD\t{seq}\tv1 begin"])
  | ["dutch.v1.bid", who, amt, o, r, b, m] =>
    match bidderNo who, parseInt? amt, parseObs1 r b m with
    | some w, some amt, some obs =>
      let res := DutchV1.bidE v.e v.s w amt
      let okM := match res with | .ok _ => true | .error _ => false
      let pm := match v.prev with
        | some p => match p.auc with
          | some a =>
            if o = "ok" then
              let (c0, d0) := bal1 p who
              let (c1, d1) := bal1 obs who
              -- the bidder names the collateral, the debt to pay is computed (truncated): + 2 debt units, + 1 collateral unit
              if roundingSmall a.price v.e.decC && roundingSmallBack a.inPrice v.e.decD then
                mon seq "posted_price" (monPosted (c1 - c0) ((d0 - d1) + 2) 0 a.inPrice v.e.decD a.price v.e.decC)
              else []
            else []
          | none => []
        | none => []
      let refused := if okM && (o == "err") then [s!"MON\t{seq}\tbid_refused"] else []
      let v1 := { v with s := match res with | .ok s' => s' | .error _ => v.s }
      finish1 v1 seq true okM o obs (pm ++ refused)
    | _, _, _ => (v, [s!"BAD\t{seq}\tv1 bid"])
  | ["dutch.v1.tick", now, twaC, actC, twaD, actD, esm, snap, o, r, b, m] =>
    match parseInt? now, parseInt? twaC, parseBool? actC, parseInt? twaD, parseBool? actD, parseObs1 r b m with
    | some now, some twaC, some actC, some twaD, some actD, some obs =>
      let s' := if esm = "1" then DutchV1.step v.e v.s (.tickEsm now twaC actC twaD actD (snap = "1"))
                else DutchV1.step v.e v.s (.tick now twaC actC twaD actD)
      let prevRec := v.prev.bind (·.auc)
      let pm := match obs.auc with
        | some cur => priceMons1 seq v.e prevRec cur now ++
            (if cur.start = now ∧ actC then
               mon seq "start_price" (match DutchPrice.startPrice twaC v.e.buffer with
                 | .ok p0 => decide (cur.price = p0) && decide (cur.init = p0) | .error _ => false)
             else [])
        | none => []
      let dpanic := if o = "ok" then [] else [s!"DIFF\t{seq}\tv1 begin blocker panicked"]
      let (v2, outs) := finish1 { v with s := s' } seq false true "ok" obs pm
      (v2, dpanic ++ outs)
    | _, _, _, _, _, _ => (v, [s!"BAD\t{seq}\tv1 tick"])
  | _ => (v, [s!"BAD\t{seq}\tunknown dutch.v1 line"])


/-! ### first generation, liquidated borrows: handlers -/
def parseObsL (r b : String) : Option Obs1 := do
  let rec ← parseRec1 r
  let bals ← parseBals b
  pure { auc := rec, bals := bals, net := none, supply := 0 }

def parseEnvL (s : String) : Option DutchV1Lend.Env :=
  let fs := kv s
  do
    let decC ← getI fs "decC"; let decD ← getI fs "decD"; let target ← getI fs "target"; let coll0 ← getI fs "coll0"
    let deposit ← getI fs "deposit"; let bonus ← getI fs "bonus"; let dust ← getI fs "dust"; let T ← getI fs "T"
    let buffer ← getI fs "buffer"; let cusp ← getI fs "cusp"
    pure { decC := decC, decD := decD, target := target, coll0 := coll0, deposit := deposit, bonus := bonus, dust := dust, T := T,
           buffer := buffer, cusp := cusp }

def modelObsL (v : L1St) (o : Obs1) : Obs1 :=
  { auc := v.s.auc,
    bals := o.bals.map fun (n, _, _) =>
      match acctOf n with
      | some a => (n, v.s.bank.get a .coll, v.s.bank.get a .debt)
      | none => (n, 0, 0),
    net := none, supply := 0 }

/-- the lend-side records printed with every `dutch.l1.*` line -/
structure BookObs where
  lv : Option DutchV1LendBook.LV
  borrow : Option (Int × Int)
  liquidated : Bool
  intAcc : Int
  resInt : Int
  cPoolDebt : Int
  cPoolColl : Int
  cOwnerColl : Int
  deriving BEq, Repr

def parseLV (s : String) : Option (Option DutchV1LendBook.LV) :=
  if s = "none" then some none else
  match s.splitOn ":" with
  | [a, b, c] => do
    let a ← parseInt? a
    let b ← parseInt? b
    let c ← parseInt? c
    pure (some { amtIn := a, amtOut := b, updOut := c })
  | _ => none

def parseBorrowL (s : String) : Option (Option (Int × Int) × Bool) :=
  if s = "none" then some (none, true) else
  match s.splitOn ":" with
  | [a, b, c] => do
    let a ← parseInt? a
    let b ← parseInt? b
    pure (some (a, b), c = "1")
  | _ => none

def parseBookL (s : String) : Option BookObs := do
  let fs := kv s
  let lv ← (field? fs "lv") >>= parseLV
  let (borrow, liq) ← (field? fs "borrow") >>= parseBorrowL
  let int ← getI fs "int"
  let trk ← getI fs "trk"
  let ct ← field? fs "ctok"
  match ct.splitOn ":" with
  | [a, b, c] =>
    let a ← parseInt? a
    let b ← parseInt? b
    let c ← parseInt? c
    pure { lv := lv, borrow := borrow, liquidated := liq, intAcc := int, resInt := trk, cPoolDebt := a, cPoolColl := b, cOwnerColl := c }
  | _ => none

def bookOfObs (k : DutchV1LendBook.Book) (o : BookObs) : DutchV1LendBook.Book :=
  { k with lv := o.lv, borrow := o.borrow, liquidated := o.liquidated, intAcc := o.intAcc, resInt := o.resInt,
           cPoolDebt := o.cPoolDebt, cPoolColl := o.cPoolColl, cOwnerColl := o.cOwnerColl }

def obsOfBook (k : DutchV1LendBook.Book) : BookObs :=
  { lv := k.lv, borrow := k.borrow, liquidated := if k.borrow.isSome then k.liquidated else true, intAcc := k.intAcc, resInt := k.resInt,
    cPoolDebt := k.cPoolDebt, cPoolColl := k.cPoolColl, cOwnerColl := k.cOwnerColl }

def showBookL (o : BookObs) : String :=
  let lv := match o.lv with | none => "none" | some l => s!"{l.amtIn}:{l.amtOut}:{l.updOut}"
  let bo := match o.borrow with | none => "none" | some (a, b) => s!"{a}:{b}:{if o.liquidated then 1 else 0}"
  s!"lv={lv};borrow={bo};int={o.intAcc};trk={o.resInt};ctok={o.cPoolDebt}:{o.cPoolColl}:{o.cOwnerColl}"

def finishL (v : L1St) (seq : String) (isBid : Bool) (okM : Bool) (outcome : String) (o : Obs1) (bo : BookObs)
    (kPrev : DutchV1LendBook.Book) (extra : List String) : L1St × List String :=
  let mo := modelObsL v o
  let mb := obsOfBook v.k
  let d1 := if isBid ∧ okM != (outcome = "ok") then [s!"DIFF\t{seq}\toutcome model={okM} impl={outcome}"] else []
  let d2 := if sameObs1 mo o then [] else [s!"DIFF\t{seq}\tmodel={showObs1 mo}\timpl={showObs1 o}"]
  let d3 := if mb == bo then [] else [s!"DIFF\t{seq}\tbook model={showBookL mb}\timpl={showBookL bo}"]
  let prev := v.prev.getD o
  let (paidNow, recvNow) := ["b1", "b2", "b3", "b4"].foldl (fun (p, r) n =>
    let (c0, d0) := bal1 prev n
    let (c1, d1) := bal1 o n
    (p + (d0 - d1), r + (c1 - c0))) (0, 0)
  let realPaid := v.realPaid + paidNow
  let realRecv := v.realRecv + recvNow
  let m1 := mon seq "pay_le_target" (decide (realPaid ≤ v.e.target))
  let m2 := mon seq "receive_le_collateral" (decide (realRecv ≤ v.e.deposit))
  -- the proceeds never rest in the module account: every unit paid is with the lending side (pool + reserve) after the same message
  let (aC, aD) := bal1 o "auction"
  let lendSide (x : Obs1) : Int := (bal1 x "pool").2 + (bal1 x "lendres").2
  let mD := match v.begin_ with
    | some b0 => mon seq "proceeds_forwarded" (decide (aD = v.baseD) && decide (lendSide o - lendSide b0 = realPaid))
    | none => []
  let closing := prev.auc.isSome ∧ o.auc.isNone
  -- what the close moved on the lending side, on REAL balances: collateral pool → auction module (follow-up auction) and pool → reserve
  let redep := if closing then v.k.redep - kPrev.redep else 0
  let m3 :=
    if closing then
      match v.begin_ with
      | none => []
      | some b0 =>
        let ownerGot := (bal1 o "owner").1 - (bal1 b0 "owner").1
        let rest := aC - v.baseC - redep                       -- what is still in the module of this auction's collateral
        let conserved := decide (rest = v.e.deposit - realRecv - ownerGot) && decide (0 ≤ rest)
        -- the only remainder the DIFF-free model explains: the part of the bonus pot that was not paid out
        let explained := decide (rest = v.e.deposit - v.e.coll0 - v.s.bonusPaid)
        -- the unsold collateral goes to the borrower recorded at seizure ("owner"), by account
        let toOwner := decide (ownerGot = v.e.coll0 - (realRecv - v.s.bonusPaid))
        -- lend side of the close on REAL balances and records (close_distributes_all for this generation):
        --   reserve: + interest share − what it paid for a sold-out auction (debt), + re-liquidation penalty (collateral)
        --   pool: collateral − (follow-up deposit + penalty); cTokens of the debt asset minted = ⌊interest − reserve share⌋
        let dRes := (bal1 o "lendres").2 - (bal1 prev "lendres").2
        let dPoolC := (bal1 o "pool").1 - (bal1 prev "pool").1
        let dResC := (bal1 o "lendres").1 - (bal1 prev "lendres").1
        let kb := obsOfBook kPrev
        let ri := if Dec.truncateInt kb.resInt > 0 then Dec.truncateInt kb.resInt else 0
        let mint := if Dec.truncateInt (Dec.sub kb.intAcc kb.resInt) > 0 then Dec.truncateInt (Dec.sub kb.intAcc kb.resInt) else 0
        let required := if realPaid ≥ v.e.target then 0 else v.e.target - realPaid
        let lendOk := decide (dRes = ri - required) && decide (bo.cPoolDebt - kb.cPoolDebt = mint) &&
          decide (dPoolC + dResC = -((aC - (bal1 prev "auction").1) + (bal1 o "owner").1 - (bal1 prev "owner").1 + recvNow)) &&
          decide (0 ≤ dResC) &&
          -- the position afterwards: deleted with the cTokens returned, restored with the locked vault's amounts, or re-liquidated
          (match kb.lv, bo.lv, bo.borrow with
           | some l0, none, none => decide (bo.cOwnerColl - kb.cOwnerColl = (if DutchV1LendBook.max0 (l0.amtOut - v.e.target) = 0 then l0.amtIn else 0))
           | some l0, none, some (bi, bout) => decide (bi = l0.amtIn) && decide (bout = DutchV1LendBook.max0 (l0.amtOut - v.e.target)) && !bo.liquidated &&
               decide (bo.cOwnerColl = kb.cOwnerColl)
           | some l0, some l1, _ => decide (l1.amtOut = DutchV1LendBook.max0 (l0.amtOut - v.e.target)) && decide (l1.amtIn ≤ l0.amtIn) &&
               decide (kb.cPoolColl - bo.cPoolColl = l0.amtIn - l1.amtIn ∨ l1.amtIn = 0)
           | none, _, _ => false)
        mon seq "close_distributes" (conserved && explained) ++ mon seq "leftover_to_owner" toOwner ++
          mon seq "lend_bonus_stranded" (decide (rest = 0)) ++ mon seq "lend_close_books" lendOk
    else []
  let v' := { v with prev := some o, realPaid := realPaid, realRecv := realRecv, baseC := if closing then v.baseC + redep else v.baseC }
  let v' := if d2.isEmpty ∧ d3.isEmpty then v' else { v' with s := { v'.s with auc := o.auc, bank := bankOf1 o }, k := bookOfObs v'.k bo }
  (v', d1 ++ d2 ++ d3 ++ m1 ++ m2 ++ mD ++ m3 ++ extra)

def handleL1 (v : L1St) (seq : String) (f : List String) : L1St × List String :=
  match f with
  | ["dutch.l1.begin", env, r, b, _, book] =>
    match parseEnvL env, parseObsL r b, parseBookL book with
    | some e, some o, some bo =>
      match o.auc with
      | none => (v, [s!"BAD\t{seq}\tl1 begin without auction"])
      | some a =>
        let s0 := DutchV1Lend.initSt e a (bankOf1 o)
        let fs := kv env
        let rates : DutchV1LendBook.Rates := { ltv := (getI fs "ltv").getD 0, pen := (getI fs "pen").getD 0, thr := (getI fs "thr").getD 0 }
        let v' : L1St := { e := e, r := rates, k := bookOfObs {} bo, s := s0, prev := some o, begin_ := some o, baseC := s0.otherC, baseD := s0.otherD }
        let twaC := (getI (kv env) "twaC").getD 0
        let okStart := match DutchPrice.startPrice twaC e.buffer with
          | .ok p0 => decide (a.price = p0) && decide (a.init = p0) &&
              (match DutchPrice.endPrice p0 e.cusp with | .ok ep => decide (a.endP = ep) | .error _ => false)
          | .error _ => false
        -- what was moved in covers the auctioned collateral plus the largest bonus that can be paid on it
        let okRec := decide (a.outCur = e.coll0) && decide (a.inCur = 0) && decide (a.end_ = a.start + e.T) &&
          decide (e.coll0 + (e.coll0 * e.bonus) / Dec.P ≤ e.deposit)
        (v', mon seq "start_price" okStart ++ mon seq "start_record" okRec)
    | _, _, _ => (v, [s!"BAD\t{seq}\tl1 begin"])
  | ["dutch.l1.bid", who, amt, _res, twaC, actC, twaD, actD, o, r, b, _, book] =>
    match bidderNo who, parseInt? amt, parseInt? twaC, parseBool? actC, parseInt? twaD, parseBool? actD, parseObsL r b, parseBookL book with
    | some w, some amt, some twaC, some actC, some twaD, some actD, some obs, some bo =>
      let x : DutchV1LendBook.Ext := { twaC := twaC, actC := actC, twaD := twaD, actD := actD }
      let res := DutchV1LendBook.bidE v.e v.r { s := v.s, k := v.k } w amt x
      let okM := match res with | .ok _ => true | .error _ => false
      let refused := if okM && (o == "err") then [s!"MON\t{seq}\tbid_refused"] else []
      let v1 := match res with | .ok s' => { v with s := s'.s, k := s'.k } | .error _ => v
      finishL v1 seq true okM o obs bo v.k refused
    | _, _, _, _, _, _, _, _ => (v, [s!"BAD\t{seq}\tl1 bid"])
  | ["dutch.l1.tick", now, twaC, actC, twaD, actD, o, r, b, _, book] =>
    match parseInt? now, parseInt? twaC, parseBool? actC, parseInt? twaD, parseBool? actD, parseObsL r b, parseBookL book with
    | some now, some twaC, some actC, some twaD, some actD, some obs, some bo =>
      let s' := DutchV1Lend.step v.e v.s (.tick now twaC actC twaD actD)
      let prevRec := v.prev.bind (·.auc)
      let e1 : DutchV1.Env := { T := v.e.T, buffer := v.e.buffer, cusp := v.e.cusp }
      let pm := match obs.auc with
        | some cur => priceMons1 seq e1 prevRec cur now
        | none => []
      let dpanic := if o = "ok" then [] else [s!"DIFF\t{seq}\tl1 begin blocker panicked"]
      let (v2, outs) := finishL { v with s := s' } seq false true "ok" obs bo v.k pm
      (v2, dpanic ++ outs)
    | _, _, _, _, _, _, _ => (v, [s!"BAD\t{seq}\tl1 tick"])
  | _ => (v, [s!"BAD\t{seq}\tunknown dutch.l1 line"])

def handle (st : St) (seq : String) (f : List String) : St × List String :=
  match f with
  | "dutch.l1.begin" :: _ | "dutch.l1.bid" :: _ | "dutch.l1.tick" :: _ =>
    let (v, outs) := handleL1 st.l1 seq f
    ({ st with l1 := v }, outs)
  | "dutch.v1.begin" :: _ | "dutch.v1.bid" :: _ | "dutch.v1.tick" :: _ =>
    let (v, outs) := handleV1 st.v1 seq f
    ({ st with v1 := v }, outs)
  | ["dutch.start", twa, prem, o, v] =>
    match parseInt? twa, parseInt? prem with
    | some twa, some prem => (st, pureLine seq (DutchPrice.startPrice twa prem) o v)
    | _, _ => (st, [s!"BAD\t{seq}\tstart"])
  | ["dutch.end", top, cusp, o, v] =>
    match parseInt? top, parseInt? cusp with
    | some top, some cusp => (st, pureLine seq (DutchPrice.endPrice top cusp) o v)
    | _, _ => (st, [s!"BAD\t{seq}\tend"])
  | ["dutch.lin", top, tau, dur, o, v] =>
    match parseInt? top, parseInt? tau, parseInt? dur with
    | some top, some tau, some dur =>
      let d := pureLine seq (DutchPrice.linear top tau dur) o v
      let m := match parseInt? v with
        | some p => if o = "ok" ∧ 0 ≤ top ∧ 0 < tau ∧ 0 ≤ dur then mon seq "price_in_range" (DutchPrice.monLeStart top p) else []
        | none => []
      (st, d ++ m)
    | _, _, _ => (st, [s!"BAD\t{seq}\tlin"])
  | ["dutch.upd2", top, disc, T, dur, o, v] =>
    match parseInt? top, parseInt? disc, parseInt? T, parseInt? dur with
    | some top, some disc, some T, some dur =>
      let d := pureLine seq (DutchPrice.priceV2 top disc T dur) o v
      let m := match parseInt? v, DutchPrice.endPrice top disc with
        | some p, .ok endP =>
          if o = "ok" ∧ 0 ≤ dur ∧ dur ≤ T ∧ 0 ≤ endP ∧ endP < top then
            mon seq "price_in_range" (DutchPrice.monLeStart top p) ++ lowerMon seq dur T endP p ++
            (match DutchPrice.tau top endP T with
             | .ok t => mon seq "price_in_range_slack" (DutchPrice.monGeEndSlack top endP t p)
             | .error _ => [])
          else []
        | _, _ => []
      (st, d ++ m)
    | _, _, _, _ => (st, [s!"BAD\t{seq}\tupd2"])
  | ["dutch.upd1", top, endP, T, dur, o, v] =>
    match parseInt? top, parseInt? endP, parseInt? T, parseInt? dur with
    | some top, some endP, some T, some dur =>
      let d := pureLine seq (DutchPrice.priceV1 top endP T dur) o v
      let m := match parseInt? v with
        | some p =>
          if o = "ok" ∧ 0 ≤ dur ∧ dur ≤ T ∧ 0 ≤ endP ∧ endP < top then
            mon seq "price_in_range" (DutchPrice.monLeStart top p) ++ lowerMon seq dur T endP p ++
            (match DutchPrice.tau top endP T with
             | .ok t => mon seq "price_in_range_slack" (DutchPrice.monGeEndSlack top endP t p)
             | .error _ => [])
          else []
        | none => []
      (st, d ++ m)
    | _, _, _, _ => (st, [s!"BAD\t{seq}\tupd1"])
  | ["dutch.mono", top, disc, T, d1, p1, d2, p2] =>
    match parseInt? top, parseInt? disc, parseInt? T, parseInt? d1, parseInt? p1, parseInt? d2, parseInt? p2 with
    | some top, some disc, some T, some d1, some p1, some d2, some p2 =>
      -- the theorem's hypotheses: start price ≥ 0 and a positive time-to-zero
      let applicable := match DutchPrice.endPrice top disc with
        | .ok endP => (match DutchPrice.tau top endP T with | .ok t => decide (0 ≤ top) && decide (0 < t) | .error _ => false)
        | .error _ => false
      (st, if applicable then mon seq "price_monotone" (DutchPrice.monMono d1 p1 d2 p2) else [])
    | _, _, _, _, _, _, _ => (st, [s!"BAD\t{seq}\tmono"])
  | ["dutch.begin", env, r, b, m] =>
    match parseEnv env, parseObs r b m with
    | some e, some o =>
      match o.auc with
      | none => (st, [s!"BAD\t{seq}\tbegin without auction"])
      | some a =>
        let bank := bankOf o
        let s0 := { initSt e a bank o.res with netFees := o.net, extFees := o.ext }
        let st' : St := { e := e, s := s0, live := true, prev := some o, supply0 := o.supply, baseC := s0.otherC, baseD := s0.otherD,
                          ext0 := o.ext, begin_ := some o }
        -- the record the activator wrote must be the seized position at the start price
        let twaC := (getI (kv env) "twaC").getD 0
        let okStart := match DutchPrice.startPrice twaC e.premium with
          | .ok p0 => decide (a.price = p0) && decide (a.init = p0)
          | .error _ => false
        let okRec := decide (a.coll = e.coll0) && decide (a.debt = e.target) && decide (a.bonus = e.bonus0) && decide (a.end_ = a.start + e.T)
        (st', mon seq "start_price" okStart ++ mon seq "start_record" okRec)
    | _, _ => (st, [s!"BAD\t{seq}\tbegin"])
  | ["dutch.bidx", _who, _denom, _amt, o, r, b, m] =>
    -- MsgPlaceMarketBid in a denomination that is not the auction's debt denomination (bid.go:24-26): must be refused, nothing moves
    match parseObs r b m with
    | some obs =>
      let d := if o = "ok" then [s!"DIFF\t{seq}\ta bid in a foreign denomination was accepted"] else []
      let (st2, outs) := finish st seq false o obs false [] (mon seq "bid_wrong_denom_refused" (o != "ok"))
      (st2, d ++ outs)
    | none => (st, [s!"BAD\t{seq}\tbidx"])
  | ["dutch.bid", who, amt, dt, o, r, b, m] =>
    match bidderNo who, parseInt? amt, parseInt? dt, parseObs r b m with
    | some w, some amt, some dt, some obs =>
      let res := bidE st.e st.s w amt dt
      let okM := match res with | .ok _ => true | .error _ => false
      -- posted price on REAL values: previous real record is what the bidder saw
      let pm :=
        match st.prev with
        | some p =>
          match p.auc with
          | some a =>
            if o = "ok" then
              let (c0, d0) := balOf p who
              let (c1, d1) := balOf obs who
              let paid := d0 - d1
              let recv := c1 - c0
              let dp := debtPrice st.e dt
              if roundingSmall a.price st.e.decC then
                if recv = a.coll then
                  -- collateral exhausted: the charged amount is recomputed from the left-over collateral (theorem
                  -- bid_at_posted_price_exhausted: + 2 debt units)
                  if roundingSmallBack dp st.e.decD then
                    mon seq "posted_price" (monPosted recv (paid + 2) a.bonus dp st.e.decD a.price st.e.decC)
                  else []
                else mon seq "posted_price" (monPosted recv paid a.bonus dp st.e.decD a.price st.e.decC)
              else []
            else []
          | none => []
        | none => []
      -- an open auction must take a bid the (so far DIFF-free) model takes: a refusal means the code lost track of the position
      let refused := if okM && (o == "err") then [s!"MON\t{seq}\tbid_refused"] else []
      let st1 := { st with s := orElse st.s res }
      finish st1 seq okM o obs true [] (pm ++ refused)
    | _, _, _, _ => (st, [s!"BAD\t{seq}\tbid"])
  | [tickKind, now, twaC, actC, twaD, actD, lb0, lb1, o, r, b, m] =>
    if tickKind ≠ "dutch.tick" ∧ tickKind ≠ "dutch.tickesm" then (st, [s!"BAD\t{seq}\tunknown dutch line"]) else
    match parseInt? now, parseInt? twaC, parseBool? actC, parseInt? twaD, parseBool? actD, parseLB lb0, parseLB lb1, parseObs r b m with
    | some now, some twaC, some actC, some twaD, some actD, some lb0, some lb1, some obs =>
      let lbids : List LBid := lb0.filterMap fun (p, n, a) => (bidderNo n).map fun w => (p, w, a)
      -- `dutch.tickesm`: the app's emergency-shutdown status was on in this block (auctions.go:153-182)
      let s' := if tickKind = "dutch.tickesm" then step st.e st.s (.tickEsm now twaC actC twaD actD lbids)
                else step st.e st.s (.tick now twaC actC twaD actD lbids)
      let consumed : List (String × Int) := lb0.filterMap fun (p, n, a) =>
        let after := match lb1.find? (fun (p', n', _) => p' = p ∧ n' = n) with | some (_, _, a') => a' | none => 0
        if a - after ≠ 0 then some (n, a - after) else none
      let prevRec := st.prev.bind (·.auc)
      let pm := match obs.auc with
        | some cur => priceMons seq st.e prevRec cur now ++
            (if cur.start = now ∧ actC then
               mon seq "start_price" (match DutchPrice.startPrice twaC st.e.premium with
                 | .ok p0 => decide (cur.price = p0) && decide (cur.init = p0) | .error _ => false)
             else [])
        | none => []
      let dpanic := if o = "ok" then [] else [s!"DIFF\t{seq}\tbegin blocker panicked"]
      -- D7 on REAL values: two different bidders waiting at one premium were both debited in this block
      let debited : List (Int × String) := lb0.filterMap fun (p, n, a) =>
        let after := match lb1.find? (fun (p', n', _) => p' = p ∧ n' = n) with | some (_, _, a') => a' | none => 0
        if a - after > 0 then some (p, n) else none
      let d7now := debited.any fun (p, n) => debited.any fun (p', n') => p' = p ∧ n' ≠ n
      let st1 := { st with s := s', d7 := st.d7 || d7now }
      let (st2, outs) := finish st1 seq true "ok" obs false consumed pm (s'.paid - st.s.paid) (tickKind = "dutch.tickesm")
      (st2, dpanic ++ outs)
    | _, _, _, _, _, _, _, _ => (st, [s!"BAD\t{seq}\ttick"])
  | ["dutch.limit", who, prem, amt, o, r, b, m] =>
    match bidderNo who, parseInt? prem, parseInt? amt, parseObs r b m with
    | some w, some prem, some amt, some obs =>
      let s' := step st.e st.s (.limit w prem amt)
      let okM := decide (s'.otherD ≠ st.s.otherD)
      let d := if okM != (o = "ok") then [s!"DIFF\t{seq}\toutcome model={okM} impl={o}"] else []
      let st1 := { st with s := s', baseD := if o = "ok" then st.baseD + amt else st.baseD }
      let (st2, outs) := finish st1 seq true "ok" obs false [] []
      (st2, d ++ outs)
    | _, _, _, _ => (st, [s!"BAD\t{seq}\tlimit"])
  | ["dutch.reserve", who, amt, o, r, b, m] =>
    match bidderNo who, parseInt? amt, parseObs r b m with
    | some w, some amt, some obs =>
      let s' := step st.e st.s (.reserve w amt)
      let okM := decide (s'.reserve ≠ st.s.reserve)
      let d := if okM != (o = "ok") then [s!"DIFF\t{seq}\toutcome model={okM} impl={o}"] else []
      let st1 := { st with s := s' }
      let (st2, outs) := finish st1 seq true "ok" obs false [] []
      (st2, d ++ outs)
    | _, _, _ => (st, [s!"BAD\t{seq}\treserve"])
  | _ => (st, [s!"BAD\t{seq}\tunknown dutch line"])

end Comdex.Drv.Dutch
