import Comdex.Base.Line
import Comdex.Base.Dec
/-! Driver for the `Dec` primitives: `dec <op> <a> <b> <result|panic>` (raw 10^-18 integers). -/
-- DRIVER: prefix=dec ns=Comdex.Drv.DecDrv
namespace Comdex.Drv.DecDrv
open Comdex Comdex.Line

/-- model result: `none` = the library panics (division by zero or overflow) -/
def eval (op : String) (a b : Int) : Option Int :=
  let chk (x : Int) : Option Int := if Dec.fits x then some x else none
  match op with
  | "add" => chk (Dec.add a b)
  | "sub" => chk (Dec.sub a b)
  | "mul" => chk (Dec.mul a b)
  | "mulTruncate" => chk (Dec.mulTruncate a b)
  | "mulRoundUp" => chk (Dec.mulRoundUp a b)
  | "mulInt" => chk (Dec.mulInt a b)
  | "quo" => if b = 0 then none else chk (Dec.quo a b)
  | "quoTruncate" => if b = 0 then none else chk (Dec.quoTruncate a b)
  | "quoRoundUp" => if b = 0 then none else chk (Dec.quoRoundUp a b)
  | "quoInt" => if b = 0 then none else some (Dec.quoInt a b)
  | "truncateInt" => some (Dec.truncateInt a)
  | "roundInt" => some (Dec.roundInt a)
  | "ceil" => some (Dec.ceil a)
  | "truncateDec" => some (Dec.truncateDec a)
  | "sqrt" => some (Dec.approxSqrt a)
  | "power" => some (Dec.power a b.toNat)
  | _ => none

abbrev St := Unit
def init : St := ()

def handle1 (seq : String) (f : List String) : List String :=
  match f with
  | ["dec", op, a, b, r] =>
    match parseInt? a, parseInt? b with
    | some a, some b =>
      let m := match eval op a b with | none => "panic" | some x => toString x
      -- power/sqrt may overflow inside: the harness reports those as panic and the model value is not compared
      if m = r then [] else
        if r = "panic" && (op = "power" || op = "sqrt") then []
        else [s!"DIFF\t{seq}\tdec {op} {a} {b}: model={m}\timpl={r}"]
    | _, _ => [s!"BAD\t{seq}\tdec args"]
  | _ => [s!"BAD\t{seq}\tunknown dec line"]

def handle (st : St) (seq : String) (f : List String) : St × List String := (st, handle1 seq f)

end Comdex.Drv.DecDrv
