import Comdex.Base.Line
import Comdex.Model.Feed
/-! Driver for the feed model (C17): x/bandoracle + x/market begin-blockers around the per-asset windows, the
governance (re)configuration of the window parameters, asset-list changes, genesis windows, and the consumers.

Lines (tab separated):
  feed.begin     N acc                              new sequence; N acc = the stored parameters (0 0 = none)
  feed.asset     id required                        (in asset-id order)
  feed.genesis   flag <books>                       bandoracle / market InitGenesis: check flag, stored windows of any shape
  feed.configure height N acc script <band> <books> the REAL FetchPriceProposal handler ran; then the real band state / ALL stored windows
  feed.assetchange required <band> <assets>         an asset was added / updated with that oracle flag; then the band state and the new asset list
  feed.noise     kind <band> stored <books>         a malformed / foreign packet or proposal through the real handlers: nothing may move
  feed.ack       id                                 acknowledgment of a price request (OnAcknowledgementPacket)
  feed.resp      id rates                           oracle response (OnRecvPacket)
  feed.band      height <band>                      real bandoracle.BeginBlocker, then the real band state
  feed.market    height <outcome> <band> <books>    real market.BeginBlocker; outcome ∈ ok panic
  feed.val       id <outcome>                       real CalcAssetPrice; outcome ∈ ok err
  feed.reader    name id listed <outcome>           a real consumer of the price of asset id; outcome ∈ ok err panic
band   := chk=..;tmp=..;last=..;dh=..;db=..;val=..
books  := id@vals=..;idx=..;twa=..;act=..;disc=..|…   (only assets with a record)
assets := id:required,id:required,…
-/
-- DRIVER: prefix=feed ns=Comdex.Drv.Feed
namespace Comdex.Drv.Feed
open Comdex.Twa Comdex.Feed Comdex.Line

structure St where
  N : Nat := 1
  acc : Int := 0
  b : Band := {}
  bk : Books := []
  assets : List (Nat × Bool) := []
  -- ghosts for the monitors, all restarted by a (re)configuration:
  clean : Bool := false                 -- a proposal has passed in this sequence
  ghost : List (Nat × Spec) := []       -- per asset: the sliding-window SPECIFICATION run on the samples since the last proposal
  fresh : List (Nat × Nat) := []        -- per asset: positive samples received since the last proposal

def init : St := {}

def showRec (r : Rec) : String := s!"vals={showNatList r.values};idx={r.idx};twa={r.twa};act={r.active};disc={r.discarded}"

def parseRec (s : String) : Option Rec :=
  let fs := s.splitOn ";"
  do
    let vals ← field? fs "vals" >>= parseNatList
    let idx ← field? fs "idx" >>= parseNat?
    let twa ← field? fs "twa" >>= parseNat?
    let act ← field? fs "act" >>= parseBool?
    let disc ← field? fs "disc" >>= parseInt?
    pure { values := vals, idx := idx, twa := twa, active := act, discarded := disc }

def parseBooks (s : String) : Option Books :=
  if s = "" then some [] else
  (s.splitOn "|").mapM fun e =>
    match e.splitOn "@" with
    | [id, r] => do pure ((← parseNat? id), (← parseRec r))
    | _ => none

def parseAssets (s : String) : Option (List (Nat × Bool)) :=
  if s = "" then some [] else
  (s.splitOn ",").mapM fun e =>
    match e.splitOn ":" with
    | [id, r] => do pure ((← parseNat? id), (← parseBool? r))
    | _ => none

def insertB (x : Nat × Rec) : Books → Books
  | [] => [x]
  | y :: t => if x.1 ≤ y.1 then x :: y :: t else y :: insertB x t
def sortB (l : Books) : Books := l.foldr insertB []

def showBooks (bk : Books) : String := "|".intercalate ((sortB bk).map fun x => s!"{x.1}@{showRec x.2}")

/-- the band fields the chain stores (results and lastBlock are carried by the model) -/
def parseBand (b : Band) (s : String) : Option Band :=
  let fs := s.splitOn ";"
  do
    let chk ← field? fs "chk" >>= parseBool?
    let tmp ← field? fs "tmp" >>= parseInt?
    let last ← field? fs "last" >>= parseInt?
    let dh ← field? fs "dh" >>= parseInt?
    let db ← field? fs "db" >>= parseBool?
    let val ← field? fs "val" >>= parseBool?
    pure { b with checkFlag := chk, tempId := tmp, lastId := last, discardHeight := dh, discardBool := db, validation := val }

def showBand (b : Band) : String :=
  s!"chk={b.checkFlag};tmp={b.tempId};last={b.lastId};dh={b.discardHeight};db={b.discardBool};val={b.validation}"

def ghostGet (g : List (Nat × Spec)) (id : Nat) : Spec := ((g.find? (fun x => x.1 = id)).map (·.2)).getD Spec.init
def ghostPut (g : List (Nat × Spec)) (id : Nat) (s : Spec) : List (Nat × Spec) := (id, s) :: g.filter (fun x => x.1 ≠ id)
def freshGet (g : List (Nat × Nat)) (id : Nat) : Nat := ((g.find? (fun x => x.1 = id)).map (·.2)).getD 0
def freshPut (g : List (Nat × Nat)) (id : Nat) (n : Nat) : List (Nat × Nat) := (id, n) :: g.filter (fun x => x.1 ≠ id)

def countPosOps (ops : List Op) : Nat := (ops.filter fun o => match o with | .sample r _ => r > 0 | _ => false).length

/-- every asset id a monitor has to look at: the listed assets and every id with a stored window -/
def allIds (st : St) (bk : Books) : List Nat :=
  (st.assets.map (·.1)) ++ (bk.map (·.1)).filter (fun i => !(st.assets.any (fun a => a.1 = i)))

/-- monitors of the market begin-blocker, evaluated on the REAL states before and after -/
def marketMonitors (st : St) (height : Int) (before : Band) (bkBefore bkAfter : Books) : List String :=
  -- once configured, every stored window is well-formed for the window size IN FORCE
  let m1 := if before.lastBlock = 0 then [] else
    bkAfter.filterMap fun x => if decide (Wf st.N x.2) then none else some s!"wf\tasset {x.1} not well-formed for N={st.N}"
  -- unvalidated feed: every listed asset is refused
  let m2 := if before.validation then [] else
    st.assets.filterMap fun a => match valuation (bkAfter.get a.1) with
      | none => none
      | some _ => some s!"unvalidated_refused\tasset {a.1} still valued although the feed is not validated"
  -- validated feed in a sampling block: each asset's window moved by exactly one update with the rate at its rank
  let m3 := if before.validation && sampling before height then
      let start := (afterDiscard before bkBefore).2
      match before.result before.lastId with
      | some (r0 :: rs) =>
        (allIds st bkAfter).filterMap fun id =>
          match fedWith st.assets (r0 :: rs) 0 id with
          | some rate =>
            match update (start.get id) rate st.N height st.acc with
            | .ok r => if r = bkAfter.get id then none else some s!"feed_by_rank\tasset {id}: window is not the update with the rate at its rank ({rate})"
            | .error _ => some s!"feed_by_rank\tasset {id}: update panics in the model"
          | none => if start.get id = bkAfter.get id then none else some s!"feed_by_rank\tasset {id}: window changed although no rate belongs to it"
      | _ => if sortB start = sortB bkAfter then [] else ["feed_by_rank\twindows changed without a result"]
    else if before.validation && sortB bkBefore != sortB bkAfter then ["feed_by_rank\twindows changed outside a sampling block"] else []
  m1 ++ m2 ++ m3

/-- advance the ghosts over one market begin-blocker (ops derived from the REAL band state before the block) -/
def ghostStep (st : St) (height : Int) (ids : List Nat) : List (Nat × Spec) × List (Nat × Nat) :=
  ids.foldl (fun (g : List (Nat × Spec) × List (Nat × Nat)) id =>
    let ops := marketOps st.b height st.assets id
    (ghostPut g.1 id (ops.foldl (Spec.step st.N st.acc) (ghostGet g.1 id)),
     freshPut g.2 id (freshGet g.2 id + countPosOps ops))) (st.ghost, st.fresh)

/-- monitors that speak about the history since the last proposal (only once a proposal has passed) -/
def historyMonitors (st : St) (ghost : List (Nat × Spec)) (fresh : List (Nat × Nat)) (bkAfter : Books) (ids : List Nat) : List String :=
  if !st.clean then [] else
  ids.foldr (fun id acc =>
    let r := bkAfter.get id
    let g := ghostGet ghost id
    let m1 := if abs r = g then [] else
      [s!"spec\tasset {id}: stored window {repr (abs r).window} act={(abs r).active} twa={(abs r).twa} is not the sliding window {repr g.window} act={g.active} twa={g.twa} of the samples since the last proposal (N={st.N})"]
    let m2 := if (abs r).active && decide (freshGet fresh id < st.N) then
      [s!"active_only_after_N\tasset {id} active after {freshGet fresh id} positive samples since the last proposal, N={st.N}"] else []
    m1 ++ m2 ++ acc) []

def readerOf (s : String) : Option Reader :=
  match s with
  | "calc" => some .calc | "latest" => some .latest | "vaultRatio" => some .vaultRatio | "rewardsOracle" => some .rewardsOracle
  | "liqCalc" => some .liqCalc | "liqOracle" => some .liqOracle | "rewardsPrice" => some .rewardsPrice
  | _ => none

def handle (st : St) (seq : String) (f : List String) : St × List String :=
  match f with
  | ["feed.begin", n, a] =>
    match parseNat? n, parseInt? a with
    | some n, some a => ({ N := n, acc := a }, [])
    | _, _ => (st, [s!"BAD\t{seq}\tbegin"])
  | ["feed.asset", id, rq] =>
    match parseNat? id, parseBool? rq with
    | some id, some rq => ({ st with assets := st.assets ++ [(id, rq)] }, [])
    | _, _ => (st, [s!"BAD\t{seq}\tasset"])
  | ["feed.genesis", flag, bks] =>
    match parseBool? flag, parseBooks bks with
    | some flag, some bk =>
      let c := Chain.genesis flag bk
      ({ st with b := c.b, bk := c.bk, clean := false, ghost := [], fresh := [] }, [])
    | _, _ => (st, [s!"BAD\t{seq}\tgenesis"])
  | ["feed.configure", h, n, a, _script, bs, bks] =>
    match parseInt? h, parseNat? n, parseInt? a with
    | some h, some n, some a =>
      match chainStep { cfg := ⟨st.N, st.acc⟩, b := st.b, bk := st.bk } (.configure ⟨n, a⟩ h) with
      | .error _ => (st, [s!"BAD\t{seq}\tconfigure: model panics"])
      | .ok c =>
        match parseBand c.b bs, parseBooks bks with
        | some realB, some realBk =>
          let d := (if showBand c.b = showBand realB then [] else [s!"DIFF\t{seq}\tconfigure band model={showBand c.b}\timpl={showBand realB}"]) ++
            (if showBooks c.bk = showBooks realBk then [] else [s!"DIFF\t{seq}\tconfigure books model={showBooks c.bk}\timpl={showBooks realBk}"])
          -- the property's premise "fixed window size": a (re)configuration leaves NO stored window behind
          let mon := if realBk.isEmpty then [] else
            [s!"MON\t{seq}\treconfigure_clears\t{realBk.length} windows survive the proposal: {showBooks realBk}"]
          ({ st with N := n, acc := a, b := realB, bk := realBk, clean := true, ghost := [], fresh := [] }, d ++ mon)
        | _, _ => (st, [s!"BAD\t{seq}\tconfigure state"])
    | _, _, _ => (st, [s!"BAD\t{seq}\tconfigure"])
  | ["feed.assetchange", rq, bs, as] =>
    match parseBool? rq, parseAssets as with
    | some rq, some assets =>
      let mb := st.b.assetChange rq
      match parseBand mb bs with
      | some realB =>
        let d := if showBand mb = showBand realB then [] else [s!"DIFF\t{seq}\tassetchange band model={showBand mb}\timpl={showBand realB}"]
        ({ st with b := realB, assets := assets }, d)
      | none => (st, [s!"BAD\t{seq}\tassetchange band"])
    | _, _ => (st, [s!"BAD\t{seq}\tassetchange"])
  | ["feed.noise", kind, bs, stored, bks] =>
    -- a malformed / foreign packet or proposal went through the real handlers: nothing may move
    match parseBand st.b bs, parseBooks bks with
    | some realB, some realBk =>
      let d := (if showBand st.b = showBand realB then [] else [s!"DIFF\t{seq}\tnoise {kind} moved the band state model={showBand st.b}\timpl={showBand realB}"]) ++
        (if stored = "false" then [] else [s!"DIFF\t{seq}\tnoise {kind} stored a result"]) ++
        (if showBooks st.bk = showBooks realBk then [] else [s!"DIFF\t{seq}\tnoise {kind} moved the windows"])
      (st, d)
    | _, _ => (st, [s!"BAD\t{seq}\tnoise"])
  | ["feed.ack", id] =>
    match parseInt? id with
    | some id => ({ st with b := st.b.ack id }, [])
    | none => (st, [s!"BAD\t{seq}\tack"])
  | ["feed.resp", id, rates] =>
    match parseInt? id, parseNatList rates with
    | some id, some rs => ({ st with b := st.b.response id rs }, [])
    | _, _ => (st, [s!"BAD\t{seq}\tresp"])
  | ["feed.band", h, bs] =>
    match parseInt? h, parseBand st.b bs with
    | some h, some real =>
      let m := bandBegin st.b h st.acc
      let d := if showBand m = showBand real then [] else [s!"DIFF\t{seq}\tband model={showBand m}\timpl={showBand real}"]
      -- monitors on the real transition: validation iff a new request id; a discard only after a long outage
      let mon1 := if sampling st.b h && st.b.checkFlag && real.validation != decide (st.b.lastId ≠ st.b.tempId)
        then [s!"MON\t{seq}\tband_validation"] else []
      let mon2 := if !st.b.discardBool && real.discardBool &&
          !(sampling st.b h && st.b.checkFlag && decide (st.b.lastId ≠ st.b.tempId) && decide (st.b.discardHeight > 0) &&
            decide (h - st.b.discardHeight ≥ st.acc))
        then [s!"MON\t{seq}\tband_discard"] else []
      let mon3 := if sampling st.b h && st.b.checkFlag && decide (st.b.lastId ≠ st.b.tempId) && decide (st.b.discardHeight > 0) &&
            decide (h - st.b.discardHeight ≥ st.acc) && !real.discardBool
        then [s!"MON\t{seq}\tband_discard"] else []
      ({ st with b := real }, d ++ mon1 ++ mon2 ++ mon3)
    | _, _ => (st, [s!"BAD\t{seq}\tband"])
  | ["feed.market", h, outcome, bs, bks] =>
    match parseInt? h with
    | none => (st, [s!"BAD\t{seq}\tmarket"])
    | some h =>
      if outcome = "panic" then
        let d := match marketBegin st.b st.N st.acc h st.assets st.bk with
          | .error _ => []
          | .ok _ => [s!"DIFF\t{seq}\tmarket model=ok\timpl=panic"]
        (st, d ++ [s!"MON\t{seq}\tno_panic\tmarket begin-blocker panicked at height {h}"])
      else
      match parseBand st.b bs, parseBooks bks with
      | some realB, some realBk =>
        let d := match marketBegin st.b st.N st.acc h st.assets st.bk with
          | .error _ => [s!"DIFF\t{seq}\tmarket model=panic\timpl=ok"]
          | .ok (mb, mbk) =>
            (if showBand mb = showBand realB then [] else [s!"DIFF\t{seq}\tmarket band model={showBand mb}\timpl={showBand realB}"]) ++
            (if showBooks mbk = showBooks realBk then [] else [s!"DIFF\t{seq}\tmarket books model={showBooks mbk}\timpl={showBooks realBk}"])
        let ids := (allIds st (st.bk ++ realBk)).eraseDups
        let (ghost, fresh) := ghostStep st h ids
        let mons := ((marketMonitors st h st.b st.bk realBk) ++ historyMonitors st ghost fresh realBk ids).map fun m => s!"MON\t{seq}\t{m}"
        ({ st with b := realB, bk := realBk, ghost := ghost, fresh := fresh }, d ++ mons)
      | _, _ => (st, [s!"BAD\t{seq}\tmarket state"])
  | ["feed.val", id, outcome] =>
    match parseNat? id with
    | none => (st, [s!"BAD\t{seq}\tval"])
    | some id =>
      let m := match valuation (st.bk.get id) with | none => "err" | some _ => "ok"
      let mon := match st.bk.get id with
        | some r => if outcome = "ok" && !r.active then [s!"MON\t{seq}\tfail_closed"] else []
        | none => if outcome = "ok" then [s!"MON\t{seq}\tfail_closed"] else []
      if m = outcome then (st, mon) else (st, [s!"DIFF\t{seq}\tval model={m}\timpl={outcome}"] ++ mon)
  | ["feed.reader", name, id, listed, outcome] =>
    match readerOf name, parseNat? id, parseBool? listed with
    | some rd, some id, some listed =>
      let w := st.bk.get id
      let m := if rd.answers w listed then "ok" else "err"
      let d := if m = outcome then [] else [s!"DIFF\t{seq}\treader {name} asset {id} model={m}\timpl={outcome}"]
      let inactive := !(abs w).active
      let mon :=
        if outcome = "panic" then [s!"MON\t{seq}\tno_panic\treader {name} panicked"]
        else if outcome = "ok" && inactive then
          (if rd.strict then [s!"MON\t{seq}\tfail_closed\treader {name} values asset {id} although its price is inactive"]
           else [s!"MON\t{seq}\tstale_reader_values_inactive\treader {name} values asset {id} at its last published average although its price is inactive"])
        else []
      (st, d ++ mon)
    | _, _, _ => (st, [s!"BAD\t{seq}\treader"])
  | _ => (st, [s!"BAD\t{seq}\tunknown feed line"])

end Comdex.Drv.Feed
