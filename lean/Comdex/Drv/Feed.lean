import Comdex.Base.Line
import Comdex.Model.Feed
/-! Driver for the feed model (C17): x/bandoracle + x/market begin-blockers around the per-asset windows.

Lines (tab separated):
  feed.begin     N acc
  feed.asset     id required                      (in asset-id order)
  feed.configure height                           AddFetchPriceRecords: feed configured, every window deleted
  feed.ack       id                               acknowledgment of a price request (OnAcknowledgementPacket)
  feed.resp      id rates                         oracle response (OnRecvPacket)
  feed.band      height <band>                    real bandoracle.BeginBlocker, then the real band state
  feed.market    height <outcome> <band> <books>  real market.BeginBlocker; outcome ∈ ok panic
  feed.val       id <outcome>                     real CalcAssetPrice; outcome ∈ ok err
band  := chk=..;tmp=..;last=..;dh=..;db=..;val=..
books := id@vals=..;idx=..;twa=..;act=..;disc=..|…   (asset-id order, only assets with a record)
-/
-- DRIVER: prefix=feed ns=Comdex.Drv.Feed
namespace Comdex.Drv.Feed
open Comdex.Twa Comdex.Feed Comdex.Line

structure St where
  N : Nat := 1
  acc : Int := 0
  b : Band := {}
  bk : Books := []
  assets : List (Nat × Bool) := []

def init : St := {}

def showRec (r : Rec) : String := s!"vals={showNatList r.values};idx={r.idx};twa={r.twa};act={r.active};disc={r.discarded}"

def parseRec (s : String) : Option Rec :=
  let fs := s.splitOn ";"
  do
    let vals ← field? fs "vals" >>= parseNatList
    let idx ← field? fs "idx" >>= parseNat?
    let twa ← field? fs "twa" >>= parseNat?
    let act ← field? fs "act" >>= parseBool?
    let disc ← field? fs "disc" >>= parseInt?
    pure { values := vals, idx := idx, twa := twa, active := act, discarded := disc }

def parseBooks (s : String) : Option Books :=
  if s = "" then some [] else
  (s.splitOn "|").mapM fun e =>
    match e.splitOn "@" with
    | [id, r] => do pure ((← parseNat? id), (← parseRec r))
    | _ => none

def insertB (x : Nat × Rec) : Books → Books
  | [] => [x]
  | y :: t => if x.1 ≤ y.1 then x :: y :: t else y :: insertB x t
def sortB (l : Books) : Books := l.foldr insertB []

def showBooks (bk : Books) : String := "|".intercalate ((sortB bk).map fun x => s!"{x.1}@{showRec x.2}")

/-- the band fields the chain stores (results and lastBlock are carried by the model) -/
def parseBand (b : Band) (s : String) : Option Band :=
  let fs := s.splitOn ";"
  do
    let chk ← field? fs "chk" >>= parseBool?
    let tmp ← field? fs "tmp" >>= parseInt?
    let last ← field? fs "last" >>= parseInt?
    let dh ← field? fs "dh" >>= parseInt?
    let db ← field? fs "db" >>= parseBool?
    let val ← field? fs "val" >>= parseBool?
    pure { b with checkFlag := chk, tempId := tmp, lastId := last, discardHeight := dh, discardBool := db, validation := val }

def showBand (b : Band) : String :=
  s!"chk={b.checkFlag};tmp={b.tempId};last={b.lastId};dh={b.discardHeight};db={b.discardBool};val={b.validation}"

/-- monitors of the market begin-blocker, evaluated on the REAL states before and after -/
def marketMonitors (st : St) (height : Int) (before : Band) (bkBefore bkAfter : Books) : List String :=
  -- every stored window is well-formed
  let m1 := bkAfter.filterMap fun x => if decide (Wf st.N x.2) then none else some s!"wf\tasset {x.1}"
  -- unvalidated feed: every listed asset is refused
  let m2 := if before.validation then [] else
    st.assets.filterMap fun a => match valuation (bkAfter.get a.1) with
      | none => none
      | some _ => some s!"unvalidated_refused\tasset {a.1} still valued although the feed is not validated"
  -- validated feed in a sampling block: each asset's window moved by exactly one update with the rate at its rank
  let m3 := if before.validation && sampling before height then
      let start := (afterDiscard before bkBefore).2
      match before.result before.lastId with
      | some (r0 :: rs) =>
        let ids := (st.assets.map (·.1)) ++ (bkAfter.map (·.1)).filter (fun i => !(st.assets.any (fun a => a.1 = i)))
        ids.filterMap fun id =>
          match fedWith st.assets (r0 :: rs) 0 id with
          | some rate =>
            match update (start.get id) rate st.N height st.acc with
            | .ok r => if r = bkAfter.get id then none else some s!"feed_by_rank\tasset {id}: window is not the update with the rate at its rank ({rate})"
            | .error _ => some s!"feed_by_rank\tasset {id}: update panics in the model"
          | none => if start.get id = bkAfter.get id then none else some s!"feed_by_rank\tasset {id}: window changed although no rate belongs to it"
      | _ => if sortB start = sortB bkAfter then [] else ["feed_by_rank\twindows changed without a result"]
    else if before.validation && sortB bkBefore != sortB bkAfter then ["feed_by_rank\twindows changed outside a sampling block"] else []
  m1 ++ m2 ++ m3

def handle (st : St) (seq : String) (f : List String) : St × List String :=
  match f with
  | ["feed.begin", n, a] =>
    match parseNat? n, parseInt? a with
    | some n, some a => ({ N := n, acc := a }, [])
    | _, _ => (st, [s!"BAD\t{seq}\tbegin"])
  | ["feed.asset", id, rq] =>
    match parseNat? id, parseBool? rq with
    | some id, some rq => ({ st with assets := st.assets ++ [(id, rq)] }, [])
    | _, _ => (st, [s!"BAD\t{seq}\tasset"])
  | ["feed.configure", h] =>
    match parseInt? h with
    | some h => ({ st with b := st.b.configure h, bk := [] }, [])
    | none => (st, [s!"BAD\t{seq}\tconfigure"])
  | ["feed.ack", id] =>
    match parseInt? id with
    | some id => ({ st with b := st.b.ack id }, [])
    | none => (st, [s!"BAD\t{seq}\tack"])
  | ["feed.resp", id, rates] =>
    match parseInt? id, parseNatList rates with
    | some id, some rs => ({ st with b := st.b.response id rs }, [])
    | _, _ => (st, [s!"BAD\t{seq}\tresp"])
  | ["feed.band", h, bs] =>
    match parseInt? h, parseBand st.b bs with
    | some h, some real =>
      let m := bandBegin st.b h st.acc
      let d := if showBand m = showBand real then [] else [s!"DIFF\t{seq}\tband model={showBand m}\timpl={showBand real}"]
      -- monitors on the real transition: validation iff a new request id; a discard only after a long outage
      let mon1 := if sampling st.b h && st.b.checkFlag && real.validation != decide (st.b.lastId ≠ st.b.tempId)
        then [s!"MON\t{seq}\tband_validation"] else []
      let mon2 := if !st.b.discardBool && real.discardBool &&
          !(sampling st.b h && st.b.checkFlag && decide (st.b.lastId ≠ st.b.tempId) && decide (st.b.discardHeight > 0) &&
            decide (h - st.b.discardHeight ≥ st.acc))
        then [s!"MON\t{seq}\tband_discard"] else []
      let mon3 := if sampling st.b h && st.b.checkFlag && decide (st.b.lastId ≠ st.b.tempId) && decide (st.b.discardHeight > 0) &&
            decide (h - st.b.discardHeight ≥ st.acc) && !real.discardBool
        then [s!"MON\t{seq}\tband_discard"] else []
      ({ st with b := real }, d ++ mon1 ++ mon2 ++ mon3)
    | _, _ => (st, [s!"BAD\t{seq}\tband"])
  | ["feed.market", h, outcome, bs, bks] =>
    match parseInt? h with
    | none => (st, [s!"BAD\t{seq}\tmarket"])
    | some h =>
      if outcome = "panic" then
        let d := match marketBegin st.b st.N st.acc h st.assets st.bk with
          | .error _ => []
          | .ok _ => [s!"DIFF\t{seq}\tmarket model=ok\timpl=panic"]
        (st, d ++ [s!"MON\t{seq}\tno_panic"])
      else
      match parseBand st.b bs, parseBooks bks with
      | some realB, some realBk =>
        let d := match marketBegin st.b st.N st.acc h st.assets st.bk with
          | .error _ => [s!"DIFF\t{seq}\tmarket model=panic\timpl=ok"]
          | .ok (mb, mbk) =>
            (if showBand mb = showBand realB then [] else [s!"DIFF\t{seq}\tmarket band model={showBand mb}\timpl={showBand realB}"]) ++
            (if showBooks mbk = showBooks realBk then [] else [s!"DIFF\t{seq}\tmarket books model={showBooks mbk}\timpl={showBooks realBk}"])
        let mons := (marketMonitors st h st.b st.bk realBk).map fun m => s!"MON\t{seq}\t{m}"
        ({ st with b := realB, bk := realBk }, d ++ mons)
      | _, _ => (st, [s!"BAD\t{seq}\tmarket state"])
  | ["feed.val", id, outcome] =>
    match parseNat? id with
    | none => (st, [s!"BAD\t{seq}\tval"])
    | some id =>
      let m := match valuation (st.bk.get id) with | none => "err" | some _ => "ok"
      let mon := match st.bk.get id with
        | some r => if outcome = "ok" && !r.active then [s!"MON\t{seq}\tfail_closed"] else []
        | none => if outcome = "ok" then [s!"MON\t{seq}\tfail_closed"] else []
      if m = outcome then (st, mon) else (st, [s!"DIFF\t{seq}\tval model={m}\timpl={outcome}"] ++ mon)
  | _ => (st, [s!"BAD\t{seq}\tunknown feed line"])

end Comdex.Drv.Feed
