import Comdex.Base.Line
import Comdex.Model.Guards
/-! Driver for the guards model (C12, C14).

Lines (tab separated):
  grd.begin handler scn                                                    starts a case (one delivery / dispatch / sweep)
  grd.msg   handler scn owner names admin brk esm needs off mode base outcome parentEmpty branchClean victimSame
            needs = comma list of the assets whose price record the handler was observed to read (store tracer, all clear);
            off = comma list of the assets whose feed is off; mode ∈ {inactive (IsPriceActive=false), missing (no record)}
            owner/names/admin/brk/base/parentEmpty/branchClean/victimSame ∈ {0,1}; esm ∈ {none,in,after};
            outcome ∈ {ok,err,panic}
  grd.cons  handler scn variant outcome parentEmpty                         the owner's message with ONE descriptive id replaced by another valid id
  grd.time  handler kind endNanos deltaNanos outcome parentEmpty            kind ∈ {until, from}; outcome ∈ {ok, err:window, err:other, panic}
  grd.unit  unit scn needs off mode base changed panicked                  a begin-block unit that reads prices; changed = its records differ
  grd.wasm  variant chain senderKind sender base outcome diffEmpty        outcome ∈ {ok,err:guard,err:inner,panic}
  grd.sweep sweep app brk esm base started appDiffEmpty                    started = number of new liquidations / auctions
  grd.entry kind name scn caller authorised base expect outcome diffEmpty changed   an entry point of the inventory driven by `caller`;
            kind ∈ {proposal, msg, ibc}; authorised/base ∈ {0,1}; expect ∈ {"", submit, reject, accept}; changed = stores that differ
  grd.end   C12|C14                                                         end of the run: every privileged entry point of the regenerated
            inventory must have been driven by an unauthorised caller and (successfully) by the authorised one (C12); every
            handler the table shows breaker- / ESM-guarded must have been driven with the control set (C14)

DIFF = the decision computed from the regenerated table (`mustReject`, `cleanReject`, `wasmAuthorized`, `skipsControlled`)
disagrees with the real code; MON = what the property text demands (`Spec.*`) is false on the real behaviour. -/
-- DRIVER: prefix=grd ns=Comdex.Drv.Guards
namespace Comdex.Drv.Guards
open Comdex.Guards Comdex.Gen.Guards Comdex.Line

structure St where
  n : Nat := 0
  driven : List String := []   -- coverage keys: "unauth:<kind>:<name>", "auth:<kind>:<name>", "brk:<handler>", "esm:<handler>"

def St.mark (st : St) (k : String) : St := if st.driven.contains k then st else { st with driven := k :: st.driven }

def init : St := {}

def b? (s : String) : Option Bool := parseBool? s

def csv (s : String) : List String := if s == "" then [] else s.splitOn ","

def handleMsg (seq handler scn : String) (owner names admin brk : Bool) (esm : String) (needsS offS mode : String) (base : Bool)
    (outcome : String) (parentEmpty branchClean victimSame : Bool) : List String :=
  -- needs: the assets whose price record the handler was observed to read; off: the assets whose feed is off (inactive or
  -- missing). priceS: "1" no needed price is off, "0" all of them are, "p" some (then WHICH lookup fails first is not
  -- known to the model)
  let needs := csv needsS
  let hit := needs.filter (csv offS).contains
  let priceS := if hit.isEmpty then "1" else if hit.length == needs.length then "0" else "p"
  let price := priceS == "1"
  match find? handler with
  | none => [s!"BAD\t{seq}\thandler {handler} is not in the regenerated table"]
  | some h =>
    let env : Env := { signerIsOwner := owner, signerIsAdmin := admin, esmExecuted := esm != "none", breakerOn := brk,
                       coolOffPassed := esm == "after", priceActive := price }
    let rejected := outcome != "ok"
    let mr := mustReject h env
    let d1 := if mr && !rejected then [s!"DIFF\t{seq}\t{handler} {scn}: table forces a rejection, impl={outcome}"] else []
    let d2 := if base && !mr && rejected then [s!"DIFF\t{seq}\t{handler} {scn}: baseline message must succeed, impl={outcome}"] else []
    let d3 := if rejected && outcome != "panic" && cleanReject h { env with priceActive := priceS != "0" } && !branchClean then
        [s!"DIFF\t{seq}\t{handler} {scn}: table says no write precedes the failing guard, impl wrote before rejecting"] else []
    let bad := !rejected || !parentEmpty
    let m1 := if !owner && names && !rejected then ["owner_only"] else []
    let m2 := if !owner && !victimSame then ["owner_only"] else []
    let m3 := if rejected && !parentEmpty then ["rejected_no_change"] else []
    let m4 := if Spec.adminOnly.contains handler && !admin && bad then ["admin_only"] else []
    let m5 := if brk && Spec.breakerRefused.contains handler && bad then ["breaker_closed"] else []
    let m6 := if esm != "none" && Spec.esmRefused.contains handler && bad then ["esm_closed"] else []
    let m7 := if esm == "after" && Spec.coolOffRefused.contains handler && bad then ["cooloff"] else []
    -- ANY needed price inactive or missing (whatever subset) ⇒ the operation fails and changes nothing
    let m8 := if esm == "none" && !price && bad then ["price_fail_closed"] else []
    -- every operation the text's reading names as price dependent must have been seen reading a price
    let d4 := if base && offS == "" && Spec.priceNeeded.contains handler && needs.isEmpty then
        [s!"DIFF\t{seq}\t{handler} {scn}: expected to value amounts at oracle prices, but no price record was read ({mode})"] else []
    d1 ++ d2 ++ d3 ++ d4 ++ ((m1 ++ m2 ++ m3 ++ m4 ++ m5 ++ m6 ++ m7 ++ m8).eraseDups.map fun m => s!"MON\t{seq}\t{m}")

def handleWasm (seq variant chain kind sender : String) (base : Bool) (outcome : String) (diffEmpty : Bool) : List String :=
  match wasmFind? variant with
  | none => [s!"BAD\t{seq}\tcustom message {variant} is not in the regenerated table"]
  | some h =>
    let auth := wasmAuthorized h chain sender
    let d1 := if !auth && outcome != "err:guard" then [s!"DIFF\t{seq}\t{variant} {chain} {kind}: table guard rejects this sender, impl={outcome}"] else []
    let d2 := if auth && outcome == "err:guard" then [s!"DIFF\t{seq}\t{variant} {chain} {kind}: table guard admits this sender, impl={outcome}"] else []
    let d3 := if base && outcome != "ok" then [s!"DIFF\t{seq}\t{variant} {chain} {kind}: the designated contract's message must succeed, impl={outcome}"] else []
    let m1 := match Spec.wasmDesignated variant chain with
      | some d => if sender != d && (outcome == "ok" || !diffEmpty) then ["wasm_guard"] else []
      | none => []
    let m2 := if outcome != "ok" && !diffEmpty then ["rejected_no_change"] else []
    d1 ++ d2 ++ d3 ++ ((m1 ++ m2).map fun m => s!"MON\t{seq}\t{m}")

def handleSweep (seq sweep app : String) (brk : Bool) (esm : String) (base : Bool) (started : Nat) (appDiffEmpty : Bool) : List String :=
  match sweeps.find? (fun s => s.module ++ "." ++ s.fn == sweep) with
  | none => [s!"BAD\t{seq}\tsweep {sweep} is not in the regenerated table"]
  | some s =>
    let skips := skipsControlled s
    let d1 := if brk && skips && started != 0 then [s!"DIFF\t{seq}\t{sweep} app {app}: table says the sweep skips a breaker-controlled app, impl started {started}"] else []
    let d2 := if base && started == 0 then [s!"DIFF\t{seq}\t{sweep} app {app}: with all controls clear the sweep must start something, impl started 0"] else []
    let esmSkips := esm != "none" && s.esm != "none"
    let d3 := if esmSkips && skips && started != 0 then [s!"DIFF\t{seq}\t{sweep} app {app}: table says the sweep skips an app after ESM, impl started {started}"] else []
    let m1 := if brk && (started != 0 || !appDiffEmpty) then ["sweep_skips"] else []
    d1 ++ d2 ++ d3 ++ (m1.map fun m => s!"MON\t{seq}\t{m}")

/-- a begin-block unit that reads prices (liquidation sweep of one position, auction price update / restart): with a needed
feed off its records must stay untouched; with every needed feed on it must do its work -/
def handleUnit (seq unit scn needsS offS : String) (base changed panicked : Bool) : List String :=
  let needs := csv needsS
  let hit := needs.filter (csv offS).contains
  let d1 := if base && !changed then [s!"DIFF\t{seq}\t{unit} {scn}: every needed feed is on, the unit must change its records"] else []
  let d2 := if base && !hit.isEmpty then [s!"BAD\t{seq}\t{unit} {scn}: baseline with a needed feed off"] else []
  let m1 := if !hit.isEmpty && (changed || panicked) then [s!"MON\t{seq}\tprice_fail_closed"] else []
  d1 ++ d2 ++ m1

/-- the OWNER's message with one descriptive id replaced by another valid id of the same kind: it must not act on the named
position — any state change is a violation, and for the handlers of `Spec.consistencyExpected` it must be rejected -/
def handleCons (seq handler scn variant outcome : String) (parentEmpty : Bool) : List String :=
  match find? handler with
  | none => [s!"BAD\t{seq}\thandler {handler} is not in the regenerated table"]
  | some h =>
    let rejected := outcome != "ok"
    if variant.startsWith "info:" then [] else
    let d1 := if !rejected && !(consistencyTags h).isEmpty && (consistencyTags h).all (consistencyGuarded h) && !hasWeakConsistency h
                  && Spec.consistencyExpected.contains handler then
        [s!"DIFF\t{seq}\t{handler} {scn} {variant}: the table's stand-alone consistency guards dominate every exit, impl={outcome}"] else []
    let m1 := if !parentEmpty then ["position_consistent"] else []
    let m2 := if !rejected && Spec.consistencyExpected.contains handler then ["position_consistent"] else []
    let m3 := if rejected && !parentEmpty then ["rejected_no_change"] else []
    d1 ++ ((m1 ++ m2 ++ m3).eraseDups.map fun m => s!"MON\t{seq}\t{m}")

/-- a time-window guard probed around the window end T (full time value, nanoseconds): kind `until` = allowed while now ≤ T
(vault withdraw: refused iff `now.After(T)`), kind `from` = allowed when now ≥ T (collateral redemption: refused iff
`now.Before(T)`). outcome `err:window` = the guard's own error. -/
def handleTime (seq handler kind : String) (delta : Int) (outcome : String) (parentEmpty : Bool) : List String :=
  let isOpen := if kind == "until" then delta ≤ 0 else delta ≥ 0
  let d1 := if isOpen && outcome == "err:window" then [s!"DIFF\t{seq}\t{handler} delta={delta}ns: the window is open, impl refused with the window error"] else []
  let d2 := if !isOpen && outcome != "err:window" then [s!"DIFF\t{seq}\t{handler} delta={delta}ns: the window is closed, impl={outcome}"] else []
  let d3 := if isOpen && kind == "until" && outcome != "ok" then [s!"DIFF\t{seq}\t{handler} delta={delta}ns: withdrawal is possible until the cool-off ends, impl={outcome}"] else []
  let m1 := if !isOpen && (outcome == "ok" || !parentEmpty) then ["cooloff_closed"] else []
  let m2 := if outcome != "ok" && !parentEmpty then ["rejected_no_change"] else []
  d1 ++ d2 ++ d3 ++ ((m1 ++ m2).map fun m => s!"MON\t{seq}\t{m}")

/-- an entry point of the inventory driven by some caller -/
def handleEntry (seq kind name scn caller : String) (authorised base : Bool) (expect outcome : String) (diffEmpty : Bool)
    (changed : String) : List String :=
  match entryPoints.find? (fun e => e.kind == kind && epName e == name) with
  | none => [s!"BAD\t{seq}\tentry point {kind} {name} is not in the regenerated inventory"]
  | some e =>
    let rejected := outcome != "ok"
    let d1 := if base && rejected then [s!"DIFF\t{seq}\t{kind} {name} {scn}: the authorised caller's call must succeed, impl={outcome}"] else []
    let d2 := if expect == "accept" && rejected then [s!"DIFF\t{seq}\t{kind} {name} {scn}: the good case must succeed, impl={outcome}"] else []
    -- the table says the entry is privileged and guarded: an unauthorised caller must be refused
    let d3 := if epPrivileged e && entryGuarded e && !authorised && expect != "submit" && !rejected then
        [s!"DIFF\t{seq}\t{kind} {name} {scn}: table says the authority guard dominates, impl accepted caller {caller}"] else []
    let m1 := if epPrivileged e && !authorised && expect != "submit" && (!rejected || !diffEmpty) then ["privileged_only"] else []
    -- a submitted (not voted) proposal may only touch the gov / bank / auth stores (diffEmpty is computed without them)
    let m2 := if expect == "submit" && !diffEmpty then ["privileged_only"] else []
    let m3 := if rejected && !diffEmpty then ["rejected_no_change"] else []
    let m4 := if expect == "reject" && (!rejected || !diffEmpty) then ["precondition_enforced"] else []
    d1 ++ d2 ++ d3 ++ ((m1 ++ m2 ++ m3 ++ m4).eraseDups.map fun m => s!"MON\t{seq}\t{m}\t{kind} {name} {scn} caller={caller} outcome={outcome} changed=[{changed}]")

/-- end of a run: what the regenerated tables list must have been driven -/
def handleEnd (seq which : String) (driven : List String) : List String :=
  if which == "C12" then
    (entryPoints.filter epPrivileged).foldr (fun e acc =>
      let k := e.kind ++ ":" ++ epName e
      (if driven.contains ("unauth:" ++ k) then [] else [s!"DIFF\t{seq}\tprivileged entry point {k} was never driven by an unauthorised caller"]) ++
      (if driven.contains ("auth:" ++ k) then [] else [s!"DIFF\t{seq}\tprivileged entry point {k} was never driven successfully by its authority"]) ++ acc) []
  else if which == "C14" then
    handlers.foldr (fun h acc =>
      (if guarded 3 true h && !driven.contains ("brk:" ++ qname h) then
        [s!"DIFF\t{seq}\tbreaker-guarded handler {qname h} was never driven with the breaker on"] else []) ++
      (if guarded 2 true h && !driven.contains ("esm:" ++ qname h) then
        [s!"DIFF\t{seq}\tESM-guarded handler {qname h} was never driven after an emergency shutdown"] else []) ++ acc) []
  else [s!"BAD\t{seq}\tgrd.end {which}"]

/-- two apps under liquidation, the control on for exactly one: judged per VAULT's app. `controlled` = the control is on for the
app the vault belongs to; `crossed` = the message names the other app. -/
def handleXapp (seq kind unit scn ctl vaultApp namedApp : String) (controlled crossed : Bool) (outcome : String) (touched : Bool) : List String :=
  let accepted := outcome == "ok"
  if kind == "sweep" then
    let m1 := if controlled && touched then [s!"MON\t{seq}\tsweep_skips\t{unit} {scn}: the vault of the controlled app {vaultApp} was liquidated"] else []
    let d1 := if !controlled && !touched && outcome != "panic" then
        [s!"DIFF\t{seq}\t{unit} {scn}: the liquidatable vault of the clear app {vaultApp} must be liquidated by the sweep"] else []
    m1 ++ d1
  else
    let mon := if ctl == "esm" then "esm_closed" else "breaker_closed"
    let m1 := if controlled && (accepted || touched) then [s!"MON\t{seq}\t{mon}\t{unit} {scn}: vault of controlled app {vaultApp} liquidated by a message naming {namedApp}"] else []
    let m2 := if crossed && (accepted || touched) then [s!"MON\t{seq}\tposition_consistent\t{unit} {scn}: message naming app {namedApp} acted on a vault of app {vaultApp}"] else []
    let m3 := if !accepted && touched then [s!"MON\t{seq}\trejected_no_change"] else []
    let d1 := if !controlled && !crossed && ctl == "none" && !accepted then
        [s!"DIFF\t{seq}\t{unit} {scn}: with all controls clear the straight liquidate message must succeed, impl={outcome}"] else []
    m1 ++ m2 ++ m3 ++ d1

def handle (st : St) (seq : String) (f : List String) : St × List String :=
  let st' := { st with n := st.n + 1 }
  match f with
  | "grd.begin" :: _ => (st', [])
  | ["grd.entry", kind, name, scn, caller, auth, base, expect, outcome, de, changed] =>
    match b? auth, b? base, b? de with
    | some auth, some base, some de =>
      let k := kind ++ ":" ++ name
      let st2 := if expect == "submit" then st' else if auth then (if outcome == "ok" then st'.mark ("auth:" ++ k) else st') else st'.mark ("unauth:" ++ k)
      (st2, handleEntry seq kind name scn caller auth base expect outcome de changed)
    | _, _, _ => (st', [s!"BAD\t{seq}\tgrd.entry flags"])
  | ["grd.xapp", kind, unit, scn, ctl, vaultApp, namedApp, controlled, crossed, outcome, touched] =>
    match b? controlled, b? crossed, b? touched with
    | some controlled, some crossed, some touched => (st', handleXapp seq kind unit scn ctl vaultApp namedApp controlled crossed outcome touched)
    | _, _, _ => (st', [s!"BAD\t{seq}\tgrd.xapp flags"])
  | ["grd.end", which] => (st', handleEnd seq which st'.driven)
  | ["grd.msg", handler, scn, owner, names, admin, brk, esm, needs, off, mode, base, outcome, pe, bc, vs] =>
    match b? owner, b? names, b? admin, b? brk, b? base, b? pe, b? bc, b? vs with
    | some owner, some names, some admin, some brk, some base, some pe, some bc, some vs =>
      let st1 := if brk then st'.mark ("brk:" ++ handler) else st'
      let st2 := if esm != "none" then st1.mark ("esm:" ++ handler) else st1
      let st3 := if Spec.adminOnly.contains handler then
          (if admin then (if outcome == "ok" then st2.mark ("auth:msg:" ++ handler) else st2) else st2.mark ("unauth:msg:" ++ handler)) else st2
      (st3, handleMsg seq handler scn owner names admin brk esm needs off mode base outcome pe bc vs)
    | _, _, _, _, _, _, _, _ => (st', [s!"BAD\t{seq}\tgrd.msg flags"])
  | ["grd.wasm", variant, chain, kind, sender, base, outcome, de] =>
    match b? base, b? de with
    | some base, some de =>
      let designated := Spec.wasmDesignated variant chain
      let st1 := if base && outcome == "ok" then st'.mark ("auth:wasm:wasm." ++ variant) else st'
      let st2 := if designated.isSome && designated != some sender then st1.mark ("unauth:wasm:wasm." ++ variant) else st1
      (st2, handleWasm seq variant chain kind sender base outcome de)
    | _, _ => (st', [s!"BAD\t{seq}\tgrd.wasm flags"])
  | ["grd.time", handler, kind, _endNs, delta, outcome, pe] =>
    match parseInt? delta, b? pe with
    | some delta, some pe => (st', handleTime seq handler kind delta outcome pe)
    | _, _ => (st', [s!"BAD\t{seq}\tgrd.time fields"])
  | ["grd.cons", handler, scn, variant, outcome, pe] =>
    match b? pe with
    | some pe => (st', handleCons seq handler scn variant outcome pe)
    | none => (st', [s!"BAD\t{seq}\tgrd.cons flags"])
  | ["grd.unit", unit, scn, needs, off, _mode, base, changed, panicked] =>
    match b? base, b? changed, b? panicked with
    | some base, some changed, some panicked => (st', handleUnit seq unit scn needs off base changed panicked)
    | _, _, _ => (st', [s!"BAD\t{seq}\tgrd.unit flags"])
  | ["grd.sweep", sweep, app, brk, esm, base, started, ade] =>
    match b? brk, b? base, parseNat? started, b? ade with
    | some brk, some base, some started, some ade => (st', handleSweep seq sweep app brk esm base started ade)
    | _, _, _, _ => (st', [s!"BAD\t{seq}\tgrd.sweep fields"])
  | _ => (st', [s!"BAD\t{seq}\tunknown grd line"])

end Comdex.Drv.Guards
