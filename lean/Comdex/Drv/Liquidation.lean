import Comdex.Base.Line
import Comdex.Model.Liquidation
/-! Driver plug-in for C09 (liquidation safe and live).

Lines (tab separated; `k=v` fields, lists `;`-separated with `:` inside):
  liq.begin  <v1|v2> <batch>
  liq.env    A=<id:decimals:price|->…  P=<id:app:minCr:assetIn:assetOut:oracle:fixed>…  APP=<id:esm:kill:wl2:dutch2:wl1:auc1>…
  liq.block  <height> <pre…> => <ok|panic> <post…>
  liq.msg    <a> <b> <pre…> => <ok|err|panic> <post…>      v2: a = liqType, b = id;  v1: a = app id, b = vault id
  liq.slice.single  len off batch s1 e1 s2 e2                      real GetSliceStartEndForLiquidations of both generations
  liq.cr.single     product amountIn totalOut <raw|err|panic>      real vault CalculateCollateralizationRatio (current env)
  liq.br.single     assetIn assetOut amountIn debt <raw|err|panic> real lend CalculateCollateralizationRatio (current env)
  liq.selloff.single amountIn updatedOut pIn pOut dIn dOut c pen bon | cr selloff toAuction toReserve burnt newAmountIn lendReduction <ok|err>
                     real generation-1 UpdateLockedBorrows (direct keeper call on a branch)
pre  := V=<id:app:prod:in:out:int:fee:intAfterAccrual>… C= O=<key:off>… VB= AB= LID= AID= PB= B=<borrow, 23 fields>… LS=<lend:amountIn>…
        TL=/TB=<pool·2³²+asset:total>… PT=<product:minted:locked>…
post := V=<ids,> C= O= VB= AB= LID= AID= NL=<id:orig:app:amt:isBorrow:debt:target:fee:bonus:cr:collToBeAuctioned>…
        NA=<id:locked:asset:amt:target>… PB= BL=<ids,> LS= TL= TB= PT=
  liq.msgb   <borrow id> <pre…> => <ok|err|panic> <post…>          generation-1 MsgLiquidateBorrow
  liq.ext    <app> <collAsset> <debtAsset> <collAmt> <debtAmt> <senderBalance> <pre…> => <res> <post…>   MsgLiquidateExternalKeeper
  liq.reserve <app> <asset> <denomOk> <amt> <senderBalance> <pre…> => <res> <post…>                     MsgAppReserveFunds
  liq.batch  <n> <ok|panic>                                         SetParams(batch) between blocks (0 is rejected by the validator)
APP has two more flags (english2, lendAuc1), env has AP2=<penalty:bonus|->, borrows 4 more fields (ltv, ltvFirst, ltvSecond, epen),
pre/post LAID= (lend auction id) RB= (x/lend reserve account) AR= (app reserve funds) LQ= (x/liquidationsV2 account); NL has a 12th
field (IsInternalKeeper), NA a 6th (AuctionType).
Monitors (on REAL pre/post): safe_never_seized, slice_bounds (slice_bounds_wrap outside the int range, D41), seized_within_bound, seized_within_two_sweeps (D9: the
property's literal bound, reported under this name only while model and code have agreed on every line of the sequence;
after a divergence it is `seized_late_after_divergence`), gen1_app3_offset_collision (generation 1, vault app id =
lendtypes.AppID: both liveness monitors are reported under this name), seize_exact_collateral, one_auction, store_order,
auction_type (generation 2: the auction opened for a seizure is Dutch iff the app has Dutch activated, English only when English
is activated; nothing seized when neither is), external_keeper_isolated (MsgLiquidateExternalKeeper / MsgAppReserveFunds
touch no vault, no borrow, no vault or pool custody; exactly one locked vault + one Dutch auction over exactly the delivered collateral),
batch_validated (a zero batch size is rejected), vault_counter_follows_vault_seizures (on every real block / liquidate message the
vault counter `LengthOfVault` decreases by exactly the number of vaults seized: borrow, external and kick-off seizures must leave the
vault sweep's window alone — seed s107). -/
-- DRIVER: prefix=liq ns=Comdex.Drv.Liquidation
namespace Comdex.Drv.Liquidation
open Comdex Comdex.Liquidation Comdex.Line

structure Track where
  id : Nat
  starts : Nat := 0
  armed : Option (Nat × List Nat) := none
  reported : Bool := false
deriving Inhabited

structure St where
  gen : Nat := 2
  batch : Nat := 1
  diverged : Bool := false   -- a DIFF was printed earlier in this sequence
  env : Env := {}
  blk : Nat := 0
  tracks : List Track := []
  lastIds : List Nat := []   -- vault ids after the previous block
  maxId : Nat := 0           -- largest vault id seen so far in the sequence
deriving Inhabited

def init : St := {}

def items (s : String) (sep : String) : List String := if s = "" then [] else s.splitOn sep

def nat! (s : String) : Nat := s.toNat?.getD 0
def int! (s : String) : Int := s.toInt?.getD 0
def bool! (s : String) : Bool := s = "1"

def parseAsset (s : String) : Option Asset :=
  match s.splitOn ":" with
  | [i, d, p] => some { id := nat! i, decimals := int! d, price := if p = "-" then none else some (int! p) }
  | _ => none
def parseProduct (s : String) : Option Product :=
  match s.splitOn ":" with
  | [i, a, m, ai, ao, o, f, pn] => some { id := nat! i, app := nat! a, minCr := int! m, assetIn := nat! ai, assetOut := nat! ao, outOracle := bool! o, outFixed := int! f, penalty := int! pn }
  | _ => none
def parseApp (s : String) : Option App :=
  match s.splitOn ":" with
  | [i, e, k, w2, d2, w1, a1] => some { id := nat! i, esm := bool! e, kill := bool! k, wl2 := bool! w2, dutch2 := bool! d2, wl1 := bool! w1, auc1 := bool! a1 }
  | [i, e, k, w2, d2, w1, a1, e2, la] => some { id := nat! i, esm := bool! e, kill := bool! k, wl2 := bool! w2, dutch2 := bool! d2, wl1 := bool! w1, auc1 := bool! a1,
                                                english2 := bool! e2, lendAuc1 := bool! la }
  | _ => none
def parseVault (s : String) : Option Vault :=
  match s.splitOn ":" with
  | [i, a, p, ai, ao, it, cf, ip] => some { id := nat! i, app := nat! a, prod := nat! p, amountIn := int! ai, amountOut := int! ao, interest := int! it, closingFee := int! cf, intPost := int! ip }
  | _ => none
def parseBorrow (s : String) : Option Borrow :=
  match s.splitOn ":" with
  | [i, a, p, ai, ao, am, pr, ip, ba, bas, t1, t2, lq, em, lt, elt, l1, l2, pen, bon, ca, li, op] =>
    some { id := nat! i, app := nat! a, pool := nat! p, assetIn := nat! ai, assetOut := nat! ao, amountIn := int! am,
           principal := int! pr, interestPost := int! ip,
           bridgedAmount := int! ba, bridgedAsset := nat! bas, firstTransit := nat! t1, secondTransit := nat! t2,
           liquidated := bool! lq, emode := bool! em, lt := int! lt, elt := int! elt, ltFirst := int! l1, ltSecond := int! l2,
           pen := int! pen, bon := int! bon, cAsset := nat! ca, lendId := nat! li, outPool := nat! op }
  | [i, a, p, ai, ao, am, pr, ip, ba, bas, t1, t2, lq, em, lt, elt, l1, l2, pen, bon, ca, li, op, ltv, ltv1, ltv2, epen] =>
    some { id := nat! i, app := nat! a, pool := nat! p, assetIn := nat! ai, assetOut := nat! ao, amountIn := int! am,
           principal := int! pr, interestPost := int! ip,
           bridgedAmount := int! ba, bridgedAsset := nat! bas, firstTransit := nat! t1, secondTransit := nat! t2,
           liquidated := bool! lq, emode := bool! em, lt := int! lt, elt := int! elt, ltFirst := int! l1, ltSecond := int! l2,
           pen := int! pen, bon := int! bon, cAsset := nat! ca, lendId := nat! li, outPool := nat! op,
           ltv := int! ltv, ltvFirst := int! ltv1, ltvSecond := int! ltv2, epen := int! epen }
  | _ => none
def parsePair (s : String) : Option (Nat × Int) :=
  match s.splitOn ":" with
  | [k, v] => some (nat! k, int! v)
  | _ => none
def parseOff (s : String) : Option (Nat × Nat) :=
  match s.splitOn ":" with
  | [k, v] => some (nat! k, nat! v)
  | _ => none
def parseLocked (s : String) : Option Locked :=
  match s.splitOn ":" with
  | [i, o, a, am, b, d, t, f, bo, cr, cv] => some { id := nat! i, orig := nat! o, app := nat! a, amountIn := int! am, isBorrow := bool! b, debt := int! d, target := int! t, fee := int! f, bonus := int! bo, cr := int! cr, collValue := int! cv }
  | [i, o, a, am, b, d, t, f, bo, cr, cv, ik] => some { id := nat! i, orig := nat! o, app := nat! a, amountIn := int! am, isBorrow := bool! b, debt := int! d, target := int! t, fee := int! f, bonus := int! bo, cr := int! cr, collValue := int! cv, viaMsg := bool! ik }
  | _ => none
def parseAuction (s : String) : Option Auction :=
  match s.splitOn ":" with
  | [i, l, a, am, t] => some { id := nat! i, locked := nat! l, asset := nat! a, amount := int! am, target := int! t }
  | [i, l, a, am, t, d] => some { id := nat! i, locked := nat! l, asset := nat! a, amount := int! am, target := int! t, dutch := bool! d }
  | _ => none

def fld (fs : List String) (k : String) : String := (field? fs k).getD ""

def parseEnv (fs : List String) : Option Env := do
  let a ← (items (fld fs "A") ";").mapM parseAsset
  let p ← (items (fld fs "P") ";").mapM parseProduct
  let ap ← (items (fld fs "APP") ";").mapM parseApp
  let ap2 : Option (Dec × Dec) := match (fld fs "AP2").splitOn ":" with
    | [x, y] => some (int! x, int! y)
    | _ => none
  pure { assets := a, products := p, apps := ap, aucParams2 := ap2 }

def parsePre (fs : List String) : Option World := do
  let v ← (items (fld fs "V") ";").mapM parseVault
  let o ← (items (fld fs "O") ";").mapM parseOff
  let vb ← (items (fld fs "VB") ";").mapM parsePair
  let ab ← (items (fld fs "AB") ";").mapM parsePair
  let pb ← (items (fld fs "PB") ";").mapM parsePair
  let b ← (items (fld fs "B") ";").mapM parseBorrow
  let ls ← (items (fld fs "LS") ";").mapM parsePair
  let tl ← (items (fld fs "TL") ";").mapM parsePair
  let tb ← (items (fld fs "TB") ";").mapM parsePair
  let rb ← (items (fld fs "RB") ";").mapM parsePair
  let ar ← (items (fld fs "AR") ";").mapM parsePair
  let lq ← (items (fld fs "LQ") ";").mapM parsePair
  pure { lendAuctionId := nat! (fld fs "LAID"), reserveBal := rb, appReserve := ar, liqBal := lq,
         lendBal := ls, totalLend := tl, totalBorrowed := tb, vaults := v, counter := nat! (fld fs "C"), offsets := o, vaultBal := vb, auctionBal := ab, poolBal := pb,
         lockedId := nat! (fld fs "LID"), auctionId := nat! (fld fs "AID"), borrows := b }

structure Post where
  ids : List Nat
  counter : Nat
  offsets : Offsets
  vaultBal : Bal
  auctionBal : Bal
  poolBal : Bal
  lockedId : Nat
  auctionId : Nat
  nl : List Locked
  na : List Auction
  bl : List Nat
  ls : Bal
  tl : Bal
  tb : Bal
  pt : String
  lendAuctionId : Nat := 0
  rb : Bal := []
  ar : Bal := []
  lq : Bal := []

def insertBy {α} (key : α → Nat) (x : α) : List α → List α
  | [] => [x]
  | y :: ys => if key x ≤ key y then x :: y :: ys else y :: insertBy key x ys
def sortBy {α} (key : α → Nat) (l : List α) : List α := l.foldr (insertBy key) []

def parsePost (fs : List String) : Option Post := do
  let o ← (items (fld fs "O") ";").mapM parseOff
  let vb ← (items (fld fs "VB") ";").mapM parsePair
  let ab ← (items (fld fs "AB") ";").mapM parsePair
  let pb ← (items (fld fs "PB") ";").mapM parsePair
  let nl ← (items (fld fs "NL") ";").mapM parseLocked
  let na ← (items (fld fs "NA") ";").mapM parseAuction
  let ls ← (items (fld fs "LS") ";").mapM parsePair
  let tl ← (items (fld fs "TL") ";").mapM parsePair
  let tb ← (items (fld fs "TB") ";").mapM parsePair
  let rb ← (items (fld fs "RB") ";").mapM parsePair
  let ar ← (items (fld fs "AR") ";").mapM parsePair
  let lq ← (items (fld fs "LQ") ";").mapM parsePair
  pure { lendAuctionId := nat! (fld fs "LAID"), rb := rb, ar := sortBy (·.1) ar, lq := lq, ls := sortBy (·.1) ls, tl := sortBy (·.1) tl, tb := sortBy (·.1) tb, pt := fld fs "PT", ids := (items (fld fs "V") ",").map nat!, counter := nat! (fld fs "C"), offsets := o, vaultBal := vb, auctionBal := ab, poolBal := pb,
         lockedId := nat! (fld fs "LID"), auctionId := nat! (fld fs "AID"), nl := sortBy (·.id) nl, na := sortBy (·.locked) na,
         bl := (items (fld fs "BL") ",").map nat! }

def postOf (w : World) (pt : String) : Post :=
  { lendAuctionId := w.lendAuctionId, rb := w.reserveBal, ar := sortBy (·.1) w.appReserve, lq := w.liqBal, ls := sortBy (·.1) w.lendBal, tl := sortBy (·.1) w.totalLend, tb := sortBy (·.1) w.totalBorrowed, pt := pt, ids := w.vaults.map (·.id), counter := w.counter, offsets := sortBy (·.1) w.offsets, vaultBal := w.vaultBal, auctionBal := w.auctionBal,
    poolBal := w.poolBal, lockedId := w.lockedId, auctionId := w.auctionId, nl := w.newLocked, na := w.newAuctions,
    bl := (w.borrows.filter (·.liquidated)).map (·.id) }

/-- first field in which model and real post-state differ -/
def diffPost (m r : Post) : Option String :=
  if m.ids != r.ids then some s!"V model={m.ids} impl={r.ids}"
  else if m.counter != r.counter then some s!"C model={m.counter} impl={r.counter}"
  else if m.offsets != sortBy (·.1) r.offsets then some s!"O model={m.offsets} impl={r.offsets}"
  else if m.vaultBal != r.vaultBal then some s!"VB model={m.vaultBal} impl={r.vaultBal}"
  else if m.auctionBal != r.auctionBal then some s!"AB model={m.auctionBal} impl={r.auctionBal}"
  else if m.poolBal != r.poolBal then some s!"PB model={m.poolBal} impl={r.poolBal}"
  else if m.lockedId != r.lockedId then some s!"LID model={m.lockedId} impl={r.lockedId}"
  else if m.auctionId != r.auctionId then some s!"AID model={m.auctionId} impl={r.auctionId}"
  else if m.nl != r.nl then some s!"NL model={repr m.nl} impl={repr r.nl}"
  else if m.na != r.na then some s!"NA model={repr m.na} impl={repr r.na}"
  else if m.bl != r.bl then some s!"BL model={m.bl} impl={r.bl}"
  else if m.ls != r.ls then some s!"LS model={m.ls} impl={r.ls}"
  else if m.tl != r.tl then some s!"TL model={m.tl} impl={r.tl}"
  else if m.tb != r.tb then some s!"TB model={m.tb} impl={r.tb}"
  else if m.pt != r.pt then some s!"PT (product totals at hand-over) model={m.pt} impl={r.pt}"
  else if m.lendAuctionId != r.lendAuctionId then some s!"LAID model={m.lendAuctionId} impl={r.lendAuctionId}"
  else if m.rb != r.rb then some s!"RB model={m.rb} impl={r.rb}"
  else if m.ar != r.ar then some s!"AR model={m.ar} impl={r.ar}"
  else if m.lq != r.lq then some s!"LQ model={m.lq} impl={r.lq}"
  else none

def isAscending : List Nat → Bool
  | a :: b :: t => a < b && isAscending (b :: t)
  | _ => true

/-- safety and seizure-effect monitors on a REAL transition. `gen` = generation. Every newly flagged borrow — by a sweep or by
anybody's message of either generation — must be unsafe under the applicable (e-mode aware) threshold: `safe_never_seized`
(this is what reports a revert of fix f18ae51, finding D38). -/
def effectMonitors (gen : Nat) (e : Env) (w : World) (r : Post) : List String :=
  let gone := w.vaults.filter (fun v => !r.ids.contains v.id)
  let newB := w.borrows.filter (fun b => !b.liquidated && r.bl.contains b.id)
  let badB := newB.filter (fun b => !borrowUnsafe e b)
  let safe := (gone.any (fun v => !vaultUnsafe e v)) || !badB.isEmpty
  let assetOfVault (v : Vault) : Nat := ((e.product? v.prod).map (·.assetIn)).getD 0
  let oneV (v : Vault) : Bool :=
    match r.nl.filter (fun l => l.orig == v.id && !l.isBorrow) with
    | [l] => l.amountIn == v.amountIn &&
        (match r.na.filter (fun a => a.locked == l.id) with
         | [a] => a.amount == v.amountIn && a.asset == assetOfVault v && a.target == l.target
         | _ => false)
    | _ => false
  let oneB (b : Borrow) : Bool :=
    match r.nl.filter (fun l => l.orig == b.id && l.isBorrow) with
    | [l] =>
        (match r.na.filter (fun a => a.locked == l.id) with
         | [a] => if gen == 2 then l.amountIn == b.amountIn && a.amount == b.amountIn && a.asset == b.assetIn && a.target == l.target
                  else a.asset == b.assetIn && a.target == l.target && 0 ≤ a.amount && l.amountIn ≤ b.amountIn
         | _ => false)
    | _ => false
  let n := gone.length + newB.length
  let one := gone.all oneV && newB.all oneB && r.nl.length == n && r.na.length == n && r.lockedId == w.lockedId + n &&
             (if gen == 2 then r.auctionId == w.auctionId + n
              else r.auctionId == w.auctionId + gone.length && r.lendAuctionId == w.lendAuctionId + newB.length)
  -- generation 2: the type of the auction opened is the one the whitelisting selects; vaults are only ever sold by Dutch auction
  let typeV (v : Vault) : Bool :=
    (e.app v.app).dutch2 && (r.nl.filter (fun l => l.orig == v.id && !l.isBorrow)).all (fun l => (r.na.filter (fun a => a.locked == l.id)).all (·.dutch))
  let typeB (b : Borrow) : Bool :=
    let a := e.app b.app
    (a.dutch2 || a.english2) &&
    (r.nl.filter (fun l => l.orig == b.id && l.isBorrow)).all (fun l => (r.na.filter (fun x => x.locked == l.id)).all (fun x => x.dutch == a.dutch2))
  let aucType := gen != 2 || (gone.all typeV && newB.all typeB)
  let assets := e.assets.map (·.id)
  let sumV (a : Nat) : Int := (gone.filter (fun v => assetOfVault v == a)).foldl (fun acc v => acc + v.amountIn) 0
  let sumB (a : Nat) : Int := (newB.filter (fun b => b.assetIn == a)).foldl (fun acc b => acc + b.amountIn) 0
  -- the pledged cTokens are burnt from the same pool account
  let sumC (a : Nat) : Int := (newB.filter (fun b => b.cAsset == a)).foldl (fun acc b => acc + b.amountIn) 0
  let exact := assets.all fun a =>
    w.vaultBal.get a - r.vaultBal.get a == sumV a &&
    (if gen == 2 then
      r.auctionBal.get a - w.auctionBal.get a == sumV a + sumB a &&
      w.poolBal.get a - r.poolBal.get a == sumB a + sumC a
     else
      -- generation 1 sells off only a part of a borrow's collateral: between nothing and what the pool gave up
      sumV a ≤ r.auctionBal.get a - w.auctionBal.get a &&
      r.auctionBal.get a - w.auctionBal.get a ≤ sumV a + (w.poolBal.get a - r.poolBal.get a) &&
      0 ≤ w.poolBal.get a - r.poolBal.get a)
  -- generation 1 (D33): the pool gives up more of an asset than the seized borrows had pledged in it
  let exceeds := gen == 1 && assets.any fun a => w.poolBal.get a - r.poolBal.get a > sumB a + sumC a
  -- `nonvault_seizure_leaves_vault_window`: within a hook or a liquidate message the vault counter moves by the vault seizures only
  let counterOk := r.counter == (List.range gone.length).foldl (fun c _ => decU64 c) w.counter
  (if safe then ["safe_never_seized"] else []) ++ (if counterOk then [] else ["vault_counter_follows_vault_seizures"]) ++
  (if one then [] else ["one_auction"]) ++ (if aucType then [] else ["auction_type"]) ++
  (if exact then [] else ["seize_exact_collateral"]) ++ (if exceeds then ["gen1_selloff_exceeds_collateral"] else []) ++
  (if isAscending (w.vaults.map (·.id)) then [] else ["store_order"])

/-- liquidation and its auction type enabled, controls off, prices active, and the position on the unsafe side -/
def eligible (gen : Nat) (e : Env) (v : Vault) : Bool :=
  let a := e.app v.app
  match e.product? v.prod with
  | none => false
  | some p =>
    vaultUnsafe e v && !a.esm && !a.kill && e.priceActive p.assetIn && e.priceActive p.assetOut &&
    (if gen == 2 then a.wl2 && a.dutch2 else a.wl1 && a.auc1)

def offKey (gen : Nat) (v : Vault) : Nat := if gen == 2 then 0 else v.app

/-- liveness monitors: update the per-position tracks with the REAL pre-state of block `blk`, then judge with the post -/
def liveMonitors (st : St) (w : World) (r : Post) : List Track × List String :=
  -- a counter ABOVE the list length is the injected state (the pass panics / reads phantoms); a counter BELOW it — which the
  -- unchanged code never produces — cuts the tail of the list off the sweep: the liveness monitors stay armed and report it
  if w.counter > w.vaults.length || st.batch == 0 then ([], []) else
  let ids := w.vaults.map (·.id)
  let n := w.counter   -- what the code windows with (= the list length on a consistent state)
  let rec go (vs : List Vault) (i : Nat) (accT : List Track) (accM : List String) : List Track × List String :=
    match vs with
    | [] => (accT.reverse, accM.reverse)
    | v :: rest =>
      if !eligible st.gen st.env v then go rest (i+1) accT accM else
      let t : Track := ((st.tracks.find? (·.id == v.id)).getD { id := v.id })
      let off := (w.offsets.get? (offKey st.gen v)).getD 0
      let isStart := (sweepBounds n off st.batch).1 == 0
      let starts := if isStart then t.starts + 1 else t.starts
      let collide := st.gen == 1 && v.app == lendAppId
      let name2 := if collide then "gen1_app3_offset_collision" else
                   if st.diverged then "seized_late_after_divergence" else "seized_within_two_sweeps"
      let name1 := if collide then "gen1_app3_offset_collision" else "seized_within_bound"
      let m2 := if starts ≥ 3 && !t.reported then [name2] else []
      let pre := ids.take (i+1)
      let armed := match t.armed with
        | some (d, p) => if p == pre then some (d, p) else none
        | none => none
      let armed := match armed with
        | some x => some x
        | none => if isStart then some (0, pre) else none   -- (positions covered by the earlier blocks of this sweep, prefix)
      -- an earlier position of ANOTHER app seized in this very block moves the list under a later per-app pass (generation 1)
      let foreignShift := (w.vaults.take i).any (fun x => x.app != v.app && !r.ids.contains x.id)
      let (armed, m1) := match armed with
        | some (cum, p) =>
          -- `sweep_live_varbatch_partial`: this block's range is [cum, cum + batch) — with a constant batch that is block t + i / batch
          if i < cum + st.batch then
            (none, if r.ids.contains v.id && !foreignShift then [name1] else [])
          else (some (cum + st.batch, p), [])
        | none => (none, [])
      go rest (i+1) ({ id := v.id, starts := starts, armed := armed, reported := t.reported || starts ≥ 3 } :: accT) (m1.reverse ++ m2.reverse ++ accM)
  go w.vaults 0 [] []

def splitArrow (fs : List String) : List String × List String :=
  let pre := fs.takeWhile (· != "=>")
  (pre, (fs.drop (pre.length + 1)))

def handleBlock (st : St) (seq : String) (fs : List String) : St × List String :=
  let (preF, rest) := splitArrow fs
  match rest with
  | outcome :: postF =>
    match parsePre preF, parsePost postF with
    | some w, some r =>
      let model := if st.gen == 2 then blockV2 st.env st.batch w else blockV1 st.env st.batch w
      let consistent := w.counter == w.vaults.length
      let diffs : List String :=
        match model with
        | .panic =>
          if outcome == "panic" then [] else
          -- between length and capacity of the Go slice the real code reads phantom entries instead of panicking
          if consistent then [s!"DIFF\t{seq}\tmodel=panic\timpl={outcome}"] else []
        | .ok w' =>
          if outcome == "panic" then [s!"DIFF\t{seq}\tmodel=ok\timpl=panic"] else
          match diffPost (postOf w' (fld preF "PT")) r with
          | some d => [s!"DIFF\t{seq}\t{d}"]
          | none => []
      let sl := if outcome == "panic" && consistent then ["slice_bounds"] else
                if outcome != "panic" && consistent &&
                   r.offsets.any (fun o => w.offsets.get? o.1 != some o.2 && o.2 > max w.counter w.borrows.length) then ["slice_bounds"] else []
      let eff := if outcome == "panic" then [] else effectMonitors st.gen st.env w r
      let (tracks, live) := if outcome == "panic" then (st.tracks, [])
                            else liveMonitors { st with diverged := st.diverged || !diffs.isEmpty } w r
      -- ids are monotone and keys big-endian: a position that was not there after the previous block sorts after all seen so far
      let ids := w.vaults.map (·.id)
      let fresh := ids.filter (fun i => !st.lastIds.contains i)
      let ord := if st.blk > 0 && fresh.any (· ≤ st.maxId) then ["store_order"] else []
      let mons := (sl ++ eff ++ live ++ ord).map fun m => s!"MON\t{seq}\t{m}"
      -- the liveness monitors judge with the state in which a divergence on THIS line is already known
      ({ st with blk := st.blk + 1, tracks := tracks, lastIds := if outcome == "panic" then ids else r.ids,
                 maxId := ids.foldl max st.maxId, diverged := st.diverged || !diffs.isEmpty }, diffs ++ mons)
    | _, _ => (st, [s!"BAD\t{seq}\tcannot parse block"])
  | [] => (st, [s!"BAD\t{seq}\tblock without =>"])

/-- a delivered message: `model` = the model's verdict on the parsed pre-state (`none` = rejected), `mons` = monitors on the REAL transition -/
def handleMsgWith (st : St) (seq : String) (fs : List String) (model : World → Option World) (mons : World → Post → List String) :
    St × List String :=
  let (preF, rest) := splitArrow fs
  match rest with
  | outcome :: postF =>
    match parsePre preF, parsePost postF with
    | some w, some r =>
      let diffs : List String :=
        match model w with
        | none => if outcome == "ok" then [s!"DIFF\t{seq}\tmodel=err\timpl=ok"] else
                  (match diffPost (postOf w (fld preF "PT")) r with | some d => [s!"DIFF\t{seq}\trejected message changed state: {d}"] | none => [])
        | some w' =>
          if outcome != "ok" then [s!"DIFF\t{seq}\tmodel=ok\timpl={outcome}"] else
          match diffPost (postOf w' (fld preF "PT")) r with
          | some d => [s!"DIFF\t{seq}\t{d}"]
          | none => []
      let ms := (mons w r).map fun m => s!"MON\t{seq}\t{m}"
      ({ st with diverged := st.diverged || !diffs.isEmpty }, diffs ++ ms)
    | _, _ => (st, [s!"BAD\t{seq}\tcannot parse msg"])
  | [] => (st, [s!"BAD\t{seq}\tmsg without =>"])

def handleMsg (st : St) (seq : String) (a b : Nat) (fs : List String) : St × List String :=
  -- ValidateBasic: zero ids are rejected before the handler
  handleMsgWith st seq fs
    (fun w => if st.gen == 2 then (if b == 0 then none else msgLiquidateV2K st.env a b w)
              else (if a == 0 || b == 0 then none else msgLiquidateVaultV1 st.env a b w))
    (fun w r => effectMonitors st.gen st.env w r)

/-- monitors of the two generation-2 messages that seize nobody: no vault, no borrow, no vault / pool custody may change;
an accepted external liquidation opens exactly one locked vault (original id 0) and one Dutch auction over exactly `coll` -/
def isolatedMonitors (ext : Bool) (asset : Nat) (coll : Int) (outcome : String) (w : World) (r : Post) : List String :=
  let untouched := r.ids == w.vaults.map (·.id) && r.bl == (w.borrows.filter (·.liquidated)).map (·.id) &&
                   r.vaultBal == w.vaultBal && r.poolBal == w.poolBal && r.counter == w.counter
  let books :=
    if ext && outcome == "ok" then
      r.lockedId == w.lockedId + 1 && r.auctionId == w.auctionId + 1 &&
      (match r.nl, r.na with
       | [l], [a] => l.orig == 0 && !l.isBorrow && l.amountIn == coll && a.locked == l.id && a.amount == coll && a.asset == asset &&
                     a.target == l.target && a.dutch && r.auctionBal.get asset - w.auctionBal.get asset == coll
       | _, _ => false)
    else r.lockedId == w.lockedId && r.auctionId == w.auctionId && r.nl.isEmpty && r.na.isEmpty && r.auctionBal == w.auctionBal
  if untouched && books then [] else ["external_keeper_isolated"]

def showR (o : Option Dec) : String := match o with | some d => toString d | none => "err"

def handle (st : St) (seq : String) (f : List String) : St × List String :=
  match f with
  | ["liq.begin", g, b] => ({ gen := if g = "v1" then 1 else 2, batch := nat! b }, [])
  | "liq.env" :: fs =>
    match parseEnv fs with
    | some e => ({ st with env := e }, [])
    | none => (st, [s!"BAD\t{seq}\tenv"])
  | "liq.block" :: _h :: fs => handleBlock st seq fs
  | "liq.msg" :: a :: b :: fs => handleMsg st seq (nat! a) (nat! b) fs
  | "liq.msgb" :: b :: fs =>
    handleMsgWith st seq fs (fun w => if nat! b == 0 then none else msgLiquidateBorrowV1 st.env (nat! b) w)
      (fun w r => effectMonitors 1 st.env w r)
  | "liq.ext" :: a :: ca :: da :: camt :: damt :: ub :: fs =>
    let outcome := ((splitArrow fs).2.head?).getD ""
    handleMsgWith st seq fs
      (fun w => if nat! a == 0 then none else msgLiquidateExternalV2 st.env (nat! a) (nat! ca) (nat! da) (int! camt) (int! damt) (int! ub) w)
      (fun w r => isolatedMonitors true (nat! ca) (int! camt) outcome w r)
  | "liq.reserve" :: a :: asset :: dok :: amt :: ub :: fs =>
    let outcome := ((splitArrow fs).2.head?).getD ""
    handleMsgWith st seq fs
      (fun w => if nat! a == 0 || nat! asset == 0 then none else msgAppReserveFunds st.env (nat! a) (nat! asset) (bool! dok) (int! amt) (int! ub) w)
      (fun w r => isolatedMonitors false 0 0 outcome w r)
  | ["liq.batch", n, res] =>
    -- `validateLiquidationBatchSize`: a zero batch is rejected (the parameter store panics), anything else is stored
    let ok := nat! n > 0
    let d := if ok != (res == "ok") then [s!"DIFF	{seq}	batch {n}: model={if ok then "ok" else "rejected"} impl={res}"] else []
    let m := if nat! n == 0 && res == "ok" then [s!"MON	{seq}	batch_validated"] else []
    ({ st with batch := if res == "ok" then nat! n else st.batch }, d ++ m)
  | ["liq.slice.single", l, o, b, s1, e1, s2, e2, _] =>
    let m := sliceBoundsI (int! l) (int! o) (int! b)
    let d1 := if m != (int! s1, int! e1) then [s!"DIFF\t{seq}\tslice v1 model={m.1},{m.2} impl={s1},{e1}"] else []
    let d2 := if m != (int! s2, int! e2) then [s!"DIFF\t{seq}\tslice v2 model={m.1},{m.2} impl={s2},{e2}"] else []
    -- law on the REAL result: for a non-negative length, 0 ≤ start ≤ end ≤ len (C09.slice_in_bounds); where Go's
    -- `offset + batchSize` leaves the int range the law is false of the code (C09.slice_in_bounds_wrap_counterexample,
    -- finding D41): reported under its own name `slice_bounds_wrap`
    let ok (s e : Int) : Bool := int! l < 0 || (0 ≤ s && s ≤ e && e ≤ int! l)
    let inDom : Bool := int! b < 9223372036854775808 && int! o + int! b < 9223372036854775808
    let name := if inDom then "slice_bounds" else "slice_bounds_wrap"
    let mon := if ok (int! s1) (int! e1) && ok (int! s2) (int! e2) then [] else [s!"MON\t{seq}\t{name}"]
    (st, d1 ++ d2 ++ mon)
  | ["liq.cr.single", p, ai, to, res, _] =>
    match st.env.product? (nat! p) with
    | none => (st, [s!"BAD\t{seq}\tunknown product"])
    | some pr =>
      let m := showR (vaultCR st.env pr (int! ai) (int! to))
      let r := if res = "panic" then "err" else res
      (st, if m = r then [] else [s!"DIFF\t{seq}\tcr model={m} impl={res}"])
  | ["liq.br.single", ai, ao, am, d, res, _] =>
    let b : Borrow := { id := 0, app := 0, pool := 0, assetIn := nat! ai, assetOut := nat! ao, amountIn := int! am, principal := int! d,
                        bridgedAmount := 0, bridgedAsset := 0, firstTransit := 0, secondTransit := 0,
                        liquidated := false, emode := false, lt := 0, elt := 0, ltFirst := 0, ltSecond := 0 }
    let m := showR (borrowRatio st.env b)
    let r := if res = "panic" then "err" else res
    (st, if m = r then [] else [s!"DIFF\t{seq}\tbr model={m} impl={res}"])
  | ["liq.selloff.single", ai, uo, pi, po, di, dout, c, pen, bon, cr, so, ta, tr, td, na, lr, res] =>
    let i : SellOffIn := { amountIn := int! ai, updatedOut := int! uo, pIn := int! pi, pOut := int! po, dIn := int! di, dOut := int! dout,
                           c := int! c, pen := int! pen, bon := int! bon }
    let render (o : SellOffOut) : String := s!"{o.cr} {o.selloff} {o.toAuction} {o.toReserve} {o.totalDeduction} {o.newAmountIn} {o.lendReduction}"
    let m := match sellOffV1 i with | some o => render o | none => "err"
    let r := if res = "ok" then s!"{cr} {so} {ta} {tr} {td} {na} {lr}" else "err"
    -- law on the REAL result: what is sent to the auction account never exceeds what the position held
    let mon := if res = "ok" && int! ta + int! tr > int! ai then [s!"MON\t{seq}\tgen1_selloff_exceeds_collateral"] else []
    (st, (if m = r then [] else [s!"DIFF\t{seq}\tselloff model={m} impl={r}"]) ++ mon)
  | _ => (st, [s!"BAD\t{seq}\tunknown liq line"])

end Comdex.Drv.Liquidation
