import Comdex.Base.Line
import Comdex.Model.EsmSnapshot
/-! Driver for the ESM price-snapshot model (C14, ESM branch; harness/c14_snapshot_test.go).

Lines (tab separated):
  esnap.begin scn                                      a new world: an app has just been shut down (ExecuteESM), no snapshot yet
  esnap.block height feeds status entries              one real esm.BeginBlocker. feeds = `id:found:active:twa,…` of every asset with
                                                       IsOraclePriceRequired in store order, as stored just BEFORE the blocker;
                                                       status ∈ {0,1} and entries = `id:price,…` = the app's snapshot just AFTER it
  esnap.use   consumer phase needs base outcome changed
                                                       a consumer of the snapshot on the current state. needs = ids of the assets it
                                                       values amounts with; base = 1: nothing but the prices can stand in its way;
                                                       outcome ∈ {ok, err, panic, noop}; changed ∈ {0,1}

DIFF: the real snapshot after a block differs from `snapshotStep` on the real snapshot before it; a consumer is served although
the model has no price for it (`available` false), or (base) is not served although the model has every price.
MON `snapshot_only_from_active`: `stepOk` is false on the REAL before/after — an entry dropped or overwritten, a new entry that is
not the current TWA of a found, active feed, or the status set in a block with an inactive found feed / a found feed without entry.
MON `price_fail_closed`: a consumer was served (or changed the state) although for one of the assets it needs the real snapshot
holds no price that was the TWA of that asset's found, active feed in some block since the shutdown (no entry at all, or an entry
with another value) — whatever price it used is stale. In particular: a needed feed that was off in EVERY block since the shutdown. -/
-- DRIVER: prefix=esnap ns=Comdex.Drv.EsmSnapshot
namespace Comdex.Drv.EsmSnapshot
open Comdex.EsmSnapshot Comdex.Line

structure St where
  real : Comdex.EsmSnapshot.St := {}   -- the real snapshot after the last block
  seen : List (Nat × Nat) := []        -- (asset, TWA) of every found, active feed in every block since the shutdown
  blocks : Nat := 0

def init : St := {}

def csv (s : String) : List String := if s == "" then [] else s.splitOn ","

def parseFeed (s : String) : Option Feed :=
  match s.splitOn ":" with
  | [a, f, act, t] => do
    let a ← parseNat? a
    let f ← parseBool? f
    let act ← parseBool? act
    let t ← parseNat? t
    pure { asset := a, found := f, active := act, twa := t }
  | _ => none

def parseEntry (s : String) : Option (Nat × Nat) :=
  match s.splitOn ":" with
  | [a, p] => do
    let a ← parseNat? a
    let p ← parseNat? p
    pure (a, p)
  | _ => none

def showEntries (es : Entries) : String := ",".intercalate (es.map fun e => s!"{e.1}:{e.2}")

/-- same entries, whatever the order (the store iterates by asset id, the model keeps insertion order) -/
def sameEntries (x y : Entries) : Bool :=
  x.length == y.length && x.all (fun e => lookup y e.1 == some e.2) && y.all (fun e => lookup x e.1 == some e.2)

def handleBlock (st : St) (seq : String) (feeds : List Feed) (status : Bool) (entries : Entries) : St × List String :=
  let after : Comdex.EsmSnapshot.St := { entries := entries, status := status }
  let model := snapshotStep st.real feeds
  let d := if model.status == status && sameEntries model.entries entries then [] else
    [s!"DIFF\t{seq}\tsnapshot after the block: model status={model.status} entries={showEntries model.entries}\timpl status={status} entries={showEntries entries}"]
  let m := if stepOk feeds st.real after then [] else [s!"MON\t{seq}\tsnapshot_only_from_active"]
  let act := (feeds.filter fun f => f.found && f.active).map fun f => (f.asset, f.twa)
  ({ real := after, seen := (st.seen ++ act).eraseDups, blocks := st.blocks + 1 }, d ++ m)

def handleUse (st : St) (seq consumer phase : String) (needs : List Nat) (base : Bool) (outcome : String) (changed : Bool) :
    List String :=
  let served := outcome == "ok" || changed
  let avail := available st.real needs
  let staleNeeds := needs.filter fun a =>
    match lookup st.real.entries a with
    | some p => !st.seen.contains (a, p)
    | none => true
  let d1 := if !avail && served then
    [s!"DIFF\t{seq}\t{consumer} {phase}: the snapshot model has no price for one of {needs}, impl={outcome} changed={changed}"] else []
  let d2 := if base && avail && outcome != "ok" then
    [s!"DIFF\t{seq}\t{consumer} {phase}: the snapshot is complete with every price of {needs}, the operation must work, impl={outcome}"] else []
  let m := if !staleNeeds.isEmpty && served then [s!"MON\t{seq}\tprice_fail_closed"] else []
  d1 ++ d2 ++ m

def handle (st : St) (seq : String) (f : List String) : St × List String :=
  match f with
  | ["esnap.begin", _scn] => ({}, [])
  | ["esnap.block", _h, feeds, status, entries] =>
    match (csv feeds).mapM parseFeed, parseBool? status, (csv entries).mapM parseEntry with
    | some feeds, some status, some entries => handleBlock st seq feeds status entries
    | _, _, _ => (st, [s!"BAD\t{seq}\tesnap.block fields"])
  | ["esnap.use", consumer, phase, needs, base, outcome, changed] =>
    match parseNatList needs, parseBool? base, parseBool? changed with
    | some needs, some base, some changed => (st, handleUse st seq consumer phase needs base outcome changed)
    | _, _, _ => (st, [s!"BAD\t{seq}\tesnap.use fields"])
  | _ => (st, [s!"BAD\t{seq}\tunknown esnap line"])

end Comdex.Drv.EsmSnapshot
