import Mathlib.Tactic.Linarith
import Mathlib.Tactic.Ring
import Comdex.Model.DutchV2
import Comdex.Lemmas.DutchPrice
/-!
Lemmas for the second-generation Dutch auction model: bank algebra, the price conversion
(`conv`: non-negative, zero on zero, upper bound with explicit rounding slack), what a bid `plan`
guarantees, what `apply`/`distribute` do to the balances, and the ledger/custody invariant.
-/
namespace Comdex.DutchV2
open Comdex Comdex.Dec Comdex.DutchPrice

/-! ### bank -/

theorem get_set (b : Bank) (a : Acct) (d : Denom) (v : Int) (a' : Acct) (d' : Denom) :
    (b.set a d v).get a' d' = if a' = a ∧ d' = d then v else b.get a' d' := by
  unfold Bank.get Bank.set
  simp only [List.lookup_cons]
  by_cases h : a' = a ∧ d' = d
  · obtain ⟨h1, h2⟩ := h; subst h1; subst h2; simp
  · have : ((a', d') == (a, d)) = false := by
      simp only [beq_eq_false_iff_ne, ne_eq, Prod.mk.injEq]; exact h
    simp [this, h]

/-- the transferred amount of the `if amt > 0 { send }` idiom -/
def posPart (x : Int) : Int := if x > 0 then x else 0

theorem posPart_nonneg (x : Int) : 0 ≤ posPart x := by unfold posPart; split <;> omega
theorem posPart_of_nonneg {x : Int} (h : 0 ≤ x) : posPart x = x := by unfold posPart; split <;> omega

theorem send_ok {b b' : Bank} {frm dst : Acct} {d : Denom} {amt : Int} (h : send b frm dst d amt = .ok b')
    (hne : frm ≠ dst) :
    0 ≤ amt ∧ amt ≤ b.get frm d ∧
    ∀ a' d', b'.get a' d' = b.get a' d' + (if a' = dst ∧ d' = d then amt else 0) - (if a' = frm ∧ d' = d then amt else 0) := by
  unfold send at h
  split at h
  · cases h
  · split at h
    · cases h
    · rename_i h1 h2
      cases h
      refine ⟨by omega, by omega, ?_⟩
      intro a' d'
      have hdf : ¬ dst = frm := fun e => hne e.symm
      simp only [get_set, hdf, false_and, if_false]
      by_cases c1 : a' = dst ∧ d' = d
      · simp only [c1, and_self, if_true]
        simp only [hdf, false_and, if_false]; omega
      · by_cases c2 : a' = frm ∧ d' = d
        · simp only [c2, and_self, if_true]
          simp only [hne, false_and, if_false]; omega
        · simp only [c1, c2, if_false]; omega

theorem sendPos_ok {b b' : Bank} {frm dst : Acct} {d : Denom} {amt : Int} (h : sendPos b frm dst d amt = .ok b')
    (hne : frm ≠ dst) :
    ∀ a' d', b'.get a' d' = b.get a' d' + (if a' = dst ∧ d' = d then posPart amt else 0)
                                  - (if a' = frm ∧ d' = d then posPart amt else 0) := by
  unfold sendPos at h
  split at h
  · rename_i hp
    have := (send_ok h hne).2.2
    intro a' d'; rw [this a' d']; unfold posPart; simp only [hp, if_true]
  · rename_i hp
    cases h; intro a' d'; unfold posPart; simp only [hp, if_false]; split_ifs <;> omega

theorem burn_ok {b b' : Bank} {a : Acct} {d : Denom} {amt : Int} (h : burn b a d amt = .ok b') :
    0 ≤ amt ∧ ∀ a' d', b'.get a' d' = b.get a' d' - (if a' = a ∧ d' = d then amt else 0) := by
  unfold burn at h
  split at h
  · cases h
  · split at h
    · cases h
    · cases h
      refine ⟨by omega, ?_⟩
      intro a' d'
      simp only [get_set]
      by_cases c : a' = a ∧ d' = d
      · simp only [c, and_self, if_true]
      · simp only [c, if_false]; omega

/-! ### price conversion -/

/-- closed form of the amount returned by `GetAmountOfOtherToken` -/
def convVal (amt r1 d1 r2 d2 : Int) : Int :=
  ((chopRound ((chopRound ((amt * r1 * P).tdiv d1) * PP).tdiv r2)) * d2).tdiv P

theorem conv_ok {amt r1 d1 r2 d2 : Int} {t : Dec} {c : Int} (h : conv amt r1 d1 r2 d2 = .ok (t, c)) :
    c = convVal amt r1 d1 r2 d2 ∧ d1 ≠ 0 ∧ r2 ≠ 0 := by
  unfold conv at h
  split at h
  · cases h
  · rename_i hz
    have hd1 : d1 ≠ 0 := fun e => hz (Or.inl e)
    have hr2 : r2 ≠ 0 := fun e => hz (Or.inr e)
    simp only [Except.ok.injEq, Prod.mk.injEq] at h
    refine ⟨?_, hd1, hr2⟩
    rw [← h.2]
    unfold convVal
    have e1 : Dec.mul (Dec.ofInt amt) r1 = amt * r1 := by
      unfold Dec.mul Dec.ofInt
      have : amt * P * r1 = (amt * r1) * P := by ring
      rw [this, chopRound_exact]
    rw [e1, quo_ofInt _ _ hd1, mul_ofInt]
    rfl

theorem convC_ok {amt r1 d1 r2 d2 c : Int} (h : convC amt r1 d1 r2 d2 = .ok c) :
    c = convVal amt r1 d1 r2 d2 ∧ d1 ≠ 0 ∧ r2 ≠ 0 := by
  unfold convC at h
  split at h
  · rename_i t c' hc
    cases h
    exact conv_ok hc
  · cases h

theorem chopRound_zero : chopRound 0 = 0 := by
  have := chopRound_exact 0; simpa using this

theorem convVal_zero (r1 d1 r2 d2 : Int) : convVal 0 r1 d1 r2 d2 = 0 := by
  unfold convVal
  simp [chopRound_zero]

theorem convVal_nonneg (amt r1 d1 r2 d2 : Int) (ha : 0 ≤ amt) (hr1 : 0 ≤ r1) (hd1 : 0 < d1) (hr2 : 0 < r2) (hd2 : 0 ≤ d2) :
    0 ≤ convVal amt r1 d1 r2 d2 := by
  unfold convVal
  have hP : (0 : Int) ≤ P := by simp [P]
  have hPP : (0 : Int) ≤ PP := by simp [PP, P]
  have h1 : 0 ≤ (amt * r1 * P).tdiv d1 := Int.tdiv_nonneg (by positivity) (Int.le_of_lt hd1)
  have h2 := chopRound_nonneg _ h1
  have h3 : 0 ≤ (chopRound ((amt * r1 * P).tdiv d1) * PP).tdiv r2 :=
    Int.tdiv_nonneg (Int.mul_nonneg h2 hPP) (Int.le_of_lt hr2)
  have h4 := chopRound_nonneg _ h3
  exact Int.tdiv_nonneg (Int.mul_nonneg h4 hd2) hP

/-- **rounding slack of one conversion**: `c ≤ amt·r1·d2/(d1·r2) + d2/(2·r2) + d2/(2·10^18)`, cross-multiplied -/
theorem convVal_upper (amt r1 d1 r2 d2 : Int) (ha : 0 ≤ amt) (hr1 : 0 ≤ r1) (hd1 : 0 < d1) (hr2 : 0 < r2) (hd2 : 0 ≤ d2) :
    2 * convVal amt r1 d1 r2 d2 * P * r2 * d1 ≤ 2 * (amt * r1) * d2 * P + d1 * d2 * P + d1 * d2 * r2 := by
  unfold convVal
  have hPv : P = 1000000000000000000 := by simp [P]
  have hPPv : PP = P * P := by simp [PP]
  have hP : (0 : Int) < P := by simp [P]
  set A := amt * r1 with hA
  have hA0 : 0 ≤ A := by positivity
  have hx1n : 0 ≤ A * P := by positivity
  set x1 := (A * P).tdiv d1 with hx1
  have hx1' : x1 = A * P / d1 := Int.tdiv_eq_ediv_of_nonneg hx1n
  have hx10 : 0 ≤ x1 := by rw [hx1']; exact Int.ediv_nonneg hx1n (Int.le_of_lt hd1)
  have hx1le : x1 * d1 ≤ A * P := by rw [hx1']; exact Int.ediv_mul_le _ (by omega)
  obtain ⟨_, ht1⟩ := chopRound_bounds x1 hx10
  set t1 := chopRound x1 with ht1def
  have ht10 : 0 ≤ t1 := chopRound_nonneg x1 hx10
  -- 2·t1·d1 ≤ 2A + d1
  have h_t1 : 2 * t1 * d1 ≤ 2 * A + d1 := by
    have : 2 * P * t1 * d1 ≤ (2 * x1 + P) * d1 := Int.mul_le_mul_of_nonneg_right ht1 (Int.le_of_lt hd1)
    have : P * (2 * t1 * d1) ≤ P * (2 * A + d1) := by nlinarith
    exact le_of_mul_le_mul_left this hP
  have hx2n : 0 ≤ t1 * PP := by rw [hPPv]; positivity
  set x2 := (t1 * PP).tdiv r2 with hx2
  have hx2' : x2 = t1 * PP / r2 := Int.tdiv_eq_ediv_of_nonneg hx2n
  have hx20 : 0 ≤ x2 := by rw [hx2']; exact Int.ediv_nonneg hx2n (Int.le_of_lt hr2)
  have hx2le : x2 * r2 ≤ t1 * PP := by rw [hx2']; exact Int.ediv_mul_le _ (by omega)
  obtain ⟨_, hna⟩ := chopRound_bounds x2 hx20
  set na := chopRound x2 with hnadef
  have hna0 : 0 ≤ na := chopRound_nonneg x2 hx20
  -- 2·na·r2 ≤ 2·t1·P + r2
  have h_na : 2 * na * r2 ≤ 2 * t1 * P + r2 := by
    have : 2 * P * na * r2 ≤ (2 * x2 + P) * r2 := Int.mul_le_mul_of_nonneg_right hna (Int.le_of_lt hr2)
    have : P * (2 * na * r2) ≤ P * (2 * t1 * P + r2) := by rw [hPPv] at hx2le; nlinarith
    exact le_of_mul_le_mul_left this hP
  have hcn : 0 ≤ na * d2 := by positivity
  set c := (na * d2).tdiv P with hc
  have hc' : c = na * d2 / P := Int.tdiv_eq_ediv_of_nonneg hcn
  have hcle : c * P ≤ na * d2 := by rw [hc']; exact Int.ediv_mul_le _ (by omega)
  -- chain
  have s1 : 2 * c * P * r2 * d1 ≤ 2 * (na * d2) * r2 * d1 := by
    have : 0 ≤ 2 * r2 * d1 := by positivity
    nlinarith
  have s2 : 2 * (na * d2) * r2 * d1 ≤ d2 * d1 * (2 * t1 * P + r2) := by
    have : 0 ≤ d2 * d1 := by positivity
    nlinarith
  have s3 : d2 * d1 * (2 * t1 * P + r2) ≤ d2 * P * (2 * A + d1) + d1 * d2 * r2 := by
    have : 0 ≤ d2 * P := by positivity
    nlinarith
  nlinarith

/-! ### what a bid plan guarantees -/

structure PlanOK (a : Auc) (p : Plan) : Prop where
  pay_nonneg : 0 ≤ p.pay
  pay_le : p.pay ≤ a.debt
  pay_lt : p.close = false → p.pay < a.debt
  total_nonneg : 0 ≤ p.total
  total_le : p.total ≤ a.coll
  share_nonneg : 0 ≤ p.share
  share_le : p.share ≤ a.bonus
  clipped_close : p.clipped = true → p.close = true ∧ p.need = a.debt - p.pay ∧ p.total = a.coll
  unclipped_close : p.close = true → p.clipped = false → p.pay = a.debt
  partial_unclipped : p.close = false → p.clipped = false

theorem plan_ok {e : Env} {a : Auc} {amt0 : Int} {dp : Dec} {p : Plan}
    (h : plan e a amt0 dp = .ok p)
    (hb : 0 ≤ a.bonus) (hdp : (0 : Int) ≤ dp) (hdD : 0 < e.decD) (hpr : (0 : Int) ≤ a.price) (hdC : 0 < e.decC) :
    PlanOK a p := by
  unfold plan at h
  split at h
  · cases h
  · by_cases hfull : amt0 ≥ a.debt
    · -- full bid: always the closing branch
      simp only [hfull, decide_true, if_true, true_or] at h
      split at h
      · rename_i c cB hc hcB
        split at h
        · split at h
          · rename_i d' hd'
            split at h
            · cases h
            · rename_i hg
              cases h
              constructor <;> simp <;> omega
          · cases h
        · rename_i hle
          split at h
          · cases h
          · rename_i hg
            cases h
            constructor <;> simp <;> omega
      · cases h
    · simp only [hfull, decide_false, if_false, false_or, Bool.false_eq_true] at h
      split at h
      · rename_i c cB hc hcB
        obtain ⟨ecB, _, hr2⟩ := convC_ok hcB
        have hr2' : (a.price : Int) ≠ 0 := hr2
        have hprpos : (0 : Int) < a.price := by omega
        have hcB0 : 0 ≤ cB := by rw [ecB]; exact convVal_nonneg _ _ _ _ _ hb hdp hdD hprpos (by omega)
        split at h
        · split at h
          · rename_i d' hd'
            split at h
            · cases h
            · rename_i hg
              cases h
              constructor <;> simp <;> omega
          · cases h
        · rename_i hle
          split at h
          · rename_i usd husd
            split at h
            · cases h
            · split at h
              · cases h
              · rename_i hdz
                split at h
                · rename_i cS hcS
                  split at h
                  · cases h
                  · rename_i hg
                    cases h
                    have hamt : 0 ≤ amt0 := by omega
                    have hratio : amt0.tdiv a.debt = 0 := Int.tdiv_eq_zero_of_lt hamt (by omega)
                    have hshare : (if e.bonus0 * amt0.tdiv a.debt > a.bonus then a.bonus else e.bonus0 * amt0.tdiv a.debt) = 0 := by
                      rw [hratio]; simp; omega
                    obtain ⟨ecS, _, _⟩ := convC_ok hcS
                    rw [hshare, convVal_zero] at ecS
                    constructor <;> simp [hshare] <;> omega
                · cases h
          · cases h
      · cases h

/-! ### moving the money -/

theorem withdraw_ok {s s1 : St} {need : Int} (h : withdrawReserve s need = .ok s1) (hn : 0 ≤ need) :
    s1.auc = s.auc ∧ s1.paid = s.paid ∧ s1.recv = s.recv ∧ s1.otherC = s.otherC ∧ s1.otherD = s.otherD ∧
    s1.booked = s.booked ∧ s1.burned = s.burned ∧ s1.netFees = s.netFees ∧ s1.extFees = s.extFees ∧
    s1.bank.get .auction .coll = s.bank.get .auction .coll ∧
    s1.bank.get .auction .debt + s1.short = s.bank.get .auction .debt + s.short + need ∧
    s.short ≤ s1.short := by
  unfold withdrawReserve at h
  split at h
  · cases h
  · split at h
    · split at h
      · rename_i b hb
        cases h
        have hd := sendPos_ok hb (by decide)
        refine ⟨rfl, rfl, rfl, rfl, rfl, rfl, rfl, rfl, rfl, ?_, ?_, by simp⟩
        · rw [hd]; simp
        · simp only; rw [hd]; simp [posPart_of_nonneg hn]; omega
      · cases h
    · cases h
      refine ⟨rfl, rfl, rfl, rfl, rfl, rfl, rfl, rfl, rfl, rfl, ?_, by simp; omega⟩
      simp only; omega

/-- what the closing distribution does: the auction's module account pays out exactly `target` (minus what an
external auction books as its own fees), and every unit goes to burn / collector / keeper / initiator / pool. -/
theorem distribute_ok {e : Env} {s s3 : St} (h : distribute e s = .ok s3) :
    s3.auc = s.auc ∧ s3.paid = s.paid ∧ s3.recv = s.recv ∧ s3.otherC = s.otherC ∧ s3.otherD = s.otherD ∧
    s3.short = s.short ∧ s.booked ≤ s3.booked ∧
    s3.bank.get .auction .coll = s.bank.get .auction .coll ∧
    s3.bank.get .auction .debt + e.target = s.bank.get .auction .debt + (s3.booked - s.booked) ∧
    (s3.burned - s.burned) + (s3.bank.get .collector .debt - s.bank.get .collector .debt)
      + (s3.bank.get .keeper .debt - s.bank.get .keeper .debt)
      + (s3.bank.get .initiator .debt - s.bank.get .initiator .debt)
      + (s3.bank.get .pool .debt - s.bank.get .pool .debt) + (s3.bank.get .lendres .debt - s.bank.get .lendres .debt)
      + (s3.booked - s.booked) = e.target ∧
    (∀ a, s3.bank.get a .coll = s.bank.get a .coll) ∧
    (∀ n, s3.bank.get (.bidder n) .debt = s.bank.get (.bidder n) .debt) ∧
    s3.bank.get .owner .debt = s.bank.get .owner .debt := by
  unfold distribute at h
  split at h
  · cases h
  · rename_i htf
    split at h
    · -- vault
      simp only [] at h
      split at h
      · cases h
      · rename_i hpen
        split at h
        · cases h
        · rename_i b1 hb1
          split at h
          · cases h
          · rename_i b2 hb2
            split at h
            · cases h
            · rename_i b3 hb3
              cases h
              have d2 := sendPos_ok hb2 (by decide)
              have d3 := sendPos_ok hb3 (by decide)
              have hcut : 0 ≤ cutOf e e.isKeeper := by unfold cutOf; split <;> omega
              have d1 : ∀ a' d', b1.get a' d' = s.bank.get a' d' - (if a' = Acct.auction ∧ d' = Denom.debt then e.target - e.fee else 0) := by
                split at hb1
                · exact (burn_ok hb1).2
                · rename_i hz
                  cases hb1
                  intro a' d'
                  have : e.target - e.fee = 0 := by omega
                  rw [this]; simp
              refine ⟨rfl, rfl, rfl, rfl, rfl, rfl, by simp, ?_, ?_, ?_, ?_, ?_, ?_⟩
              · simp only; rw [d3, d2, d1]; simp
              · simp only; rw [d3, d2, d1]; simp [posPart_of_nonneg hcut, posPart_of_nonneg (by omega : 0 ≤ e.fee - cutOf e e.isKeeper)] ; omega
              · simp only; rw [d3, d2, d1, d3, d2, d1, d3, d2, d1, d3, d2, d1, d3, d2, d1]
                simp [posPart_of_nonneg hcut, posPart_of_nonneg (by omega : 0 ≤ e.fee - cutOf e e.isKeeper)]
              · intro a; simp only; rw [d3, d2, d1]; simp
              · intro n; simp only; rw [d3, d2, d1]; simp
              · simp only; rw [d3, d2, d1]; simp
    · -- external
      simp only [] at h
      split at h
      · cases h
      · rename_i hpen
        split at h
        · cases h
        · rename_i hinc
          split at h
          · cases h
          · rename_i b hb
            cases h
            obtain ⟨_, _, d⟩ := send_ok hb (by decide)
            have hcut : 0 ≤ cutOf e true := by unfold cutOf; split <;> omega
            refine ⟨rfl, rfl, rfl, rfl, rfl, rfl, by simp; omega, ?_, ?_, ?_, ?_, ?_, ?_⟩
            · simp only; rw [d]; simp
            · simp only; rw [d]; simp ; omega
            · simp only; rw [d, d, d, d, d]; simp ; omega
            · intro a; simp only; rw [d]; simp
            · intro n; simp only; rw [d]; simp
            · simp only; rw [d]; simp
    · -- lend
      split at h
      · cases h
      · rename_i b1 hb1
        split at h
        · cases h
        · rename_i b2 hb2
          split at h
          · cases h
          · rename_i b3 hb3
            split at h
            · cases h
            · rename_i b4 hb4
              cases h
              obtain ⟨_, _, d1⟩ := send_ok hb1 (by decide)
              obtain ⟨_, _, d2⟩ := send_ok hb2 (by decide)
              have d3 := sendPos_ok hb3 (by decide)
              have d4 := sendPos_ok hb4 (by decide)
              refine ⟨rfl, rfl, rfl, rfl, rfl, rfl, by simp, ?_, ?_, ?_, ?_, ?_, ?_⟩
              · simp only; rw [d4, d3, d2, d1]; simp
              · simp only; rw [d4, d3, d2, d1]; simp
              · simp only; rw [d4, d3, d2, d1, d4, d3, d2, d1, d4, d3, d2, d1, d4, d3, d2, d1, d4, d3, d2, d1]; simp; omega
              · intro a; simp only; rw [d4, d3, d2, d1]; simp
              · intro n; simp only; rw [d4, d3, d2, d1]; simp
              · simp only; rw [d4, d3, d2, d1]; simp
/-- the lend close in detail (`MsgCloseDutchAuctionForBorrow`): the module account hands over the whole target; the debt pool keeps
`target − penalty − reserve interest`, the lend reserve receives `penalty + reserve interest`, the bridge asset of a cross-pool
borrow goes back from the debt pool to the collateral's pool; nothing else moves -/
theorem distribute_lend {e : Env} {s s3 : St} (hk : e.kind = .lend) (h : distribute e s = .ok s3) :
    s3.bank.get .auction .debt = s.bank.get .auction .debt - e.target ∧
    s3.bank.get .pool .debt = s.bank.get .pool .debt + e.target - e.lendPen - posPart e.lendInt ∧
    s3.bank.get .lendres .debt = s.bank.get .lendres .debt + e.lendPen + posPart e.lendInt ∧
    s3.bank.get .pool .transit = s.bank.get .pool .transit - posPart e.bridged ∧
    s3.bank.get .poolIn .transit = s.bank.get .poolIn .transit + posPart e.bridged ∧
    s3.bank.get .auction .transit = s.bank.get .auction .transit ∧
    (∀ a, s3.bank.get a .coll = s.bank.get a .coll) ∧ s3.burned = s.burned ∧ s3.netFees = s.netFees ∧ s3.extFees = s.extFees := by
  unfold distribute at h
  split at h
  · cases h
  · rw [hk] at h
    simp only at h
    split at h
    · cases h
    · rename_i b1 hb1
      split at h
      · cases h
      · rename_i b2 hb2
        split at h
        · cases h
        · rename_i b3 hb3
          split at h
          · cases h
          · rename_i b4 hb4
            cases h
            obtain ⟨_, _, d1⟩ := send_ok hb1 (by decide)
            obtain ⟨_, _, d2⟩ := send_ok hb2 (by decide)
            have d3 := sendPos_ok hb3 (by decide)
            have d4 := sendPos_ok hb4 (by decide)
            refine ⟨?_, ?_, ?_, ?_, ?_, ?_, ?_, rfl, rfl, rfl⟩
            · simp only; rw [d4, d3, d2, d1]; simp
            · simp only; rw [d4, d3, d2, d1]; simp
            · simp only; rw [d4, d3, d2, d1]; simp
            · simp only; rw [d4, d3, d2, d1]; simp
            · simp only; rw [d4, d3, d2, d1]; simp
            · simp only; rw [d4, d3, d2, d1]; simp
            · intro a; simp only; rw [d4, d3, d2, d1]; simp

/-- the vault close in detail (`bid.go:89-101,161-190`): `target − penalty` is burned, the keeper of a keeper-initiated liquidation gets
`⌊incentive·penalty⌋`, the rest of the penalty goes to the collector and is added to its net-fee record; nothing else moves -/
theorem distribute_vault {e : Env} {s s3 : St} (hk : e.kind = .vault) (h : distribute e s = .ok s3) :
    0 ≤ cutOf e e.isKeeper ∧ cutOf e e.isKeeper ≤ e.fee ∧ 0 ≤ e.target - e.fee ∧
    s3.burned = s.burned + (e.target - e.fee) ∧
    s3.bank.get .keeper .debt = s.bank.get .keeper .debt + cutOf e e.isKeeper ∧
    s3.bank.get .collector .debt = s.bank.get .collector .debt + (e.fee - cutOf e e.isKeeper) ∧
    s3.netFees = s.netFees + (e.fee - cutOf e e.isKeeper) ∧
    s3.bank.get .auction .debt = s.bank.get .auction .debt - e.target ∧
    s3.bank.get .initiator .debt = s.bank.get .initiator .debt ∧ s3.bank.get .pool .debt = s.bank.get .pool .debt ∧
    s3.bank.get .lendres .debt = s.bank.get .lendres .debt ∧ s3.booked = s.booked ∧ s3.extFees = s.extFees ∧
    (∀ a, s3.bank.get a .coll = s.bank.get a .coll) := by
  unfold distribute at h
  split at h
  · cases h
  · rename_i htf
    rw [hk] at h
    simp only [] at h
    split at h
    · cases h
    · rename_i hpen
      split at h
      · cases h
      · rename_i b1 hb1
        split at h
        · cases h
        · rename_i b2 hb2
          split at h
          · cases h
          · rename_i b3 hb3
            cases h
            have d2 := sendPos_ok hb2 (by decide)
            have d3 := sendPos_ok hb3 (by decide)
            have hcut : 0 ≤ cutOf e e.isKeeper := by unfold cutOf; split <;> omega
            have d1 : ∀ a' d', b1.get a' d' = s.bank.get a' d' - (if a' = Acct.auction ∧ d' = Denom.debt then e.target - e.fee else 0) := by
              split at hb1
              · exact (burn_ok hb1).2
              · rename_i hz
                cases hb1
                intro a' d'
                have : e.target - e.fee = 0 := by omega
                rw [this]; simp
            have hp2 : 0 ≤ e.fee - cutOf e e.isKeeper := by omega
            refine ⟨hcut, by omega, by omega, rfl, ?_, ?_, rfl, ?_, ?_, ?_, ?_, rfl, rfl, ?_⟩
            · simp only; rw [d3, d2, d1]; simp [posPart_of_nonneg hcut]
            · simp only; rw [d3, d2, d1]; simp [posPart_of_nonneg hp2]
            · simp only; rw [d3, d2, d1]; simp [posPart_of_nonneg hcut, posPart_of_nonneg hp2]; omega
            · simp only; rw [d3, d2, d1]; simp
            · simp only; rw [d3, d2, d1]; simp
            · simp only; rw [d3, d2, d1]; simp
            · intro a; simp only; rw [d3, d2, d1]; simp

/-- the external close in detail (`bid.go:122-158`): the external initiator gets `target − penalty`, the penalty STAYS in the module
account and is booked as the module's own fee data; a non-zero keeper incentive makes the close impossible (the transfer to the
empty keeper address panics), so an accepted close has none; nothing is burned, the collector gets nothing -/
theorem distribute_external {e : Env} {s s3 : St} (hk : e.kind = .external) (h : distribute e s = .ok s3) :
    cutOf e true = 0 ∧ 0 ≤ e.fee ∧ 0 ≤ e.target - e.fee ∧
    s3.bank.get .initiator .debt = s.bank.get .initiator .debt + (e.target - e.fee) ∧
    s3.bank.get .auction .debt = s.bank.get .auction .debt - (e.target - e.fee) ∧
    s3.booked = s.booked + e.fee ∧ s3.extFees = s.extFees + e.fee ∧
    s3.burned = s.burned ∧ s3.netFees = s.netFees ∧
    s3.bank.get .collector .debt = s.bank.get .collector .debt ∧ s3.bank.get .keeper .debt = s.bank.get .keeper .debt ∧
    s3.bank.get .pool .debt = s.bank.get .pool .debt ∧ s3.bank.get .lendres .debt = s.bank.get .lendres .debt ∧
    (∀ a, s3.bank.get a .coll = s.bank.get a .coll) := by
  unfold distribute at h
  split at h
  · cases h
  · rename_i htf
    rw [hk] at h
    simp only [] at h
    split at h
    · cases h
    · rename_i hpen
      split at h
      · cases h
      · rename_i hinc
        split at h
        · cases h
        · rename_i b hb
          cases h
          obtain ⟨_, _, d⟩ := send_ok hb (by decide)
          have hcut : 0 ≤ cutOf e true := by unfold cutOf; split <;> omega
          have hc0 : cutOf e true = 0 := by omega
          refine ⟨hc0, by omega, by omega, ?_, ?_, ?_, ?_, rfl, rfl, ?_, ?_, ?_, ?_, ?_⟩
          · simp only; rw [d]; simp
          · simp only; rw [d]; simp
          · simp only; omega
          · simp only; omega
          · simp only; rw [d]; simp
          · simp only; rw [d]; simp
          · simp only; rw [d]; simp
          · simp only; rw [d]; simp
          · intro a; simp only; rw [d]; simp

/-! ### ledger and custody invariant -/

structure Inv (e : Env) (s : St) : Prop where
  paid_nonneg : 0 ≤ s.paid
  recv_nonneg : 0 ≤ s.recv
  open_ : ∀ a, s.auc = some a →
      s.paid + a.debt = e.target ∧ s.recv + a.coll = e.coll0 ∧ 0 ≤ a.debt ∧ 0 ≤ a.coll ∧ 0 ≤ a.bonus ∧
      (0 : Int) ≤ a.price ∧ (0 : Int) ≤ a.init ∧ a.end_ = a.start + e.T ∧
      s.bank.get .auction .coll = s.otherC + a.coll ∧
      s.bank.get .auction .debt + s.short = s.otherD + s.paid + s.booked
  closed : s.auc = none →
      s.paid ≤ e.target ∧ s.recv ≤ e.coll0 ∧
      s.bank.get .auction .coll = s.otherC ∧
      s.bank.get .auction .debt + s.short = s.otherD + s.booked

theorem apply_inv {e : Env} {s s' : St} {a : Auc} {who : Nat} {p : Plan} {auto : Bool}
    (hi : Inv e s) (ha : s.auc = some a) (hp : PlanOK a p) (h : apply e s a who p auto = .ok s') : Inv e s' := by
  obtain ⟨o1, o2, o3, o4, o5, o6, o7, o8, o9, o10⟩ := hi.open_ a ha
  unfold apply at h
  split at h
  · cases h
  · split at h
    · cases h
    · rename_i s1 hs1
      -- reserve draw
      have w : s1.auc = s.auc ∧ s1.paid = s.paid ∧ s1.recv = s.recv ∧ s1.otherC = s.otherC ∧ s1.otherD = s.otherD ∧
          s1.booked = s.booked ∧ s1.bank.get .auction .coll = s.bank.get .auction .coll ∧
          s1.bank.get .auction .debt + s1.short = s.bank.get .auction .debt + s.short + (if p.clipped then p.need else 0) := by
        by_cases hc : p.clipped = true
        · simp only [hc, if_true] at hs1 ⊢
          obtain ⟨_, hneed, _⟩ := hp.clipped_close hc
          have hn0 : 0 ≤ p.need := by have := hp.pay_le; omega
          obtain ⟨w1, w2, w3, w4, w5, w6, _, _, _, w10, w11, _⟩ := withdraw_ok hs1 hn0
          exact ⟨w1, w2, w3, w4, w5, w6, w10, w11⟩
        · simp only [hc, if_false, Bool.false_eq_true] at hs1 ⊢
          cases hs1
          exact ⟨rfl, rfl, rfl, rfl, rfl, rfl, rfl, by omega⟩
      obtain ⟨w1, w2, w3, w4, w5, w6, w7, w8⟩ := w
      split at h
      · cases h
      · rename_i b1 hb1
        have p1 : b1.get .auction .coll = s1.bank.get .auction .coll ∧
            b1.get .auction .debt = s1.bank.get .auction .debt + (if auto then 0 else p.pay) := by
          by_cases hau : auto = true
          · simp only [hau, if_true] at hb1 ⊢
            cases hb1; exact ⟨rfl, by omega⟩
          · simp only [hau, if_false, Bool.false_eq_true] at hb1 ⊢
            have d := sendPos_ok hb1 (by simp)
            rw [d, d]
            simp [posPart_of_nonneg hp.pay_nonneg]
        split at h
        · cases h
        · rename_i b2 hb2
          have d2 := sendPos_ok hb2 (by simp)
          have p2c : b2.get .auction .coll = b1.get .auction .coll - p.total := by
            rw [d2]; simp [posPart_of_nonneg hp.total_nonneg]
          have p2d : b2.get .auction .debt = b1.get .auction .debt := by
            rw [d2]; simp
          by_cases hcl : p.close = true
          · simp only [hcl, if_true] at h
            split at h
            · cases h
            · rename_i s3 hs3
              obtain ⟨q1, q2, q3, q4, q5, q6, q7, q8, q9, _, _, _, _⟩ := distribute_ok hs3
              split at h
              · cases h
              · rename_i b4 hb4
                cases h
                have d4 := sendPos_ok hb4 (by decide)
                have hleft : 0 ≤ a.coll - p.total := by have := hp.total_le; omega
                have hneedpay : (if p.clipped then p.need else 0) + p.pay = a.debt := by
                  by_cases hc : p.clipped = true
                  · obtain ⟨_, hneed, _⟩ := hp.clipped_close hc
                    simp only [hc, if_true]; omega
                  · have := hp.unclipped_close hcl (by simpa using hc)
                    simp only [hc, if_false, Bool.false_eq_true]; omega
                refine ⟨?_, ?_, ?_, ?_⟩
                · simp only [q2]; have := hp.pay_nonneg; have := hi.paid_nonneg; omega
                · simp only [q3]; have := hp.total_nonneg; have := hi.recv_nonneg; omega
                · intro a' ha'; simp at ha'
                · intro _
                  simp only [q2, q3, q4, q5, q6] at *
                  refine ⟨?_, ?_, ?_, ?_⟩
                  · have := hp.pay_le; omega
                  · have := hp.total_le; omega
                  · rw [d4, q8]; simp [posPart_of_nonneg hleft]; omega
                  · rw [d4]; simp
                    by_cases hau : auto = true
                    · simp only [hau, if_true] at p1 ⊢; omega
                    · simp only [hau, if_false, Bool.false_eq_true] at p1 ⊢; omega
          · simp only [hcl, if_false, Bool.false_eq_true] at h
            cases h
            have hncl : p.clipped = false := hp.partial_unclipped (by simpa using hcl)
            have hlt := hp.pay_lt (by simpa using hcl)
            refine ⟨?_, ?_, ?_, ?_⟩
            · simp only; have := hp.pay_nonneg; have := hi.paid_nonneg; omega
            · simp only; have := hp.total_nonneg; have := hi.recv_nonneg; omega
            · intro a' ha'
              simp only [Option.some.injEq] at ha'
              subst ha'
              simp only [hncl, if_false, Bool.false_eq_true] at w8
              refine ⟨?_, ?_, ?_, ?_, ?_, o6, o7, o8, ?_, ?_⟩
              · simp only; omega
              · simp only; omega
              · simp only; omega
              · simp only; have := hp.total_le; omega
              · simp only; have := hp.share_le; omega
              · simp only; omega
              · simp only
                by_cases hau : auto = true
                · simp only [hau, if_true] at p1 ⊢; omega
                · simp only [hau, if_false, Bool.false_eq_true] at p1 ⊢; omega
            · intro hn; simp at hn
/-! ### every operation keeps the invariant -/

/-- configuration assumptions: positive decimals, premium ≥ 0, 0 ≤ discount ≤ 1, window ≥ 0 -/
structure WfEnv (e : Env) : Prop where
  decC_pos : 0 < e.decC
  decD_pos : 0 < e.decD
  premium_nonneg : (0 : Int) ≤ e.premium
  discount_nonneg : (0 : Int) ≤ e.discount
  discount_le_one : (e.discount : Int) ≤ P
  T_nonneg : 0 ≤ e.T

theorem debtPrice_nonneg (e : Env) (dt : Int) (h : 0 ≤ dt) : (0 : Int) ≤ debtPrice e dt := by
  unfold debtPrice Dec.ofInt
  have hP : (0 : Int) ≤ P := by simp [P]
  split
  · simp [P]
  · exact Int.mul_nonneg h hP

theorem placeBid_inv {e : Env} {s s' : St} {a : Auc} {who : Nat} {amt dt : Int} {auto : Bool}
    (hw : WfEnv e) (hi : Inv e s) (ha : s.auc = some a) (hdt : 0 ≤ dt)
    (h : placeBid e s a who amt dt auto = .ok s') : Inv e s' := by
  unfold placeBid at h
  split at h
  · rename_i p hp
    obtain ⟨_, _, _, _, o5, o6, _⟩ := hi.open_ a ha
    exact apply_inv hi ha (plan_ok hp o5 (debtPrice_nonneg e dt hdt) hw.decD_pos o6 hw.decC_pos) h
  · cases h

theorem mul_le_top (top disc : Int) (ht : 0 ≤ top) (hd : disc ≤ P) : @LE.le Int _ (Dec.mul top disc) top := by
  unfold Dec.mul
  have : top * disc ≤ top * P := Int.mul_le_mul_of_nonneg_left hd ht
  have := chopRound_mono _ _ this
  rwa [chopRound_exact] at this

theorem mul_nonneg' (top disc : Int) (ht : 0 ≤ top) (hd : 0 ≤ disc) : @LE.le Int _ 0 (Dec.mul top disc) := by
  unfold Dec.mul; exact chopRound_nonneg _ (Int.mul_nonneg ht hd)

theorem priceV2_den {top disc : Dec} {T dur : Int} {p : Dec} (h : priceV2 top disc T dur = .ok p) :
    Dec.sub top (Dec.mul top disc) ≠ 0 := by
  unfold priceV2 at h
  simp only [bind, Except.bind] at h
  split at h
  · cases h
  · rename_i en he
    have : en = Dec.mul top disc := by unfold endPrice at he; exact chk_ok he
    subst this
    split at h
    · cases h
    · rename_i t ht
      exact (tau_ok ht).2

theorem startPrice_ok {twa : Int} {premium p : Dec} (h : startPrice twa premium = .ok p) : p = premium * twa := by
  unfold startPrice at h
  split at h
  · rw [chk_ok h, mul_ofInt]
  · cases h

/-- `iterate` touches only price and time fields and keeps the posted price ≥ 0 -/
theorem iterate_ok {e : Env} {a a' : Auc} {now twaC twaD : Int} {actC actD : Bool}
    (hw : WfEnv e) (h : iterate e a now twaC actC twaD actD = .ok a') (htw : 0 ≤ twaC)
    (hinit : (0 : Int) ≤ a.init) (hend : a.end_ = a.start + e.T) :
    a'.coll = a.coll ∧ a'.debt = a.debt ∧ a'.bonus = a.bonus ∧ (0 : Int) ≤ a'.price ∧ (0 : Int) ≤ a'.init ∧
    a'.end_ = a'.start + e.T := by
  unfold iterate at h
  simp only [bind, Except.bind, pure, Except.pure] at h
  split at h
  · cases h
  · split at h
    · -- restart
      split at h
      · cases h
      · rename_i p0 hp0
        cases h
        have := startPrice_ok hp0
        have hp : (0 : Int) ≤ p0 := by rw [this]; exact Int.mul_nonneg hw.premium_nonneg htw
        exact ⟨rfl, rfl, rfl, hp, hp, rfl⟩
    · rename_i hnow
      split at h
      · cases h
      · rename_i p hp
        cases h
        obtain ⟨ep, htau⟩ := priceV2_ok hp
        have hden := priceV2_den hp
        have he0 := mul_nonneg' a.init e.discount hinit hw.discount_nonneg
        have hle := mul_le_top a.init e.discount hinit hw.discount_le_one
        have hD : (0 : Int) < (a.init : Int) - (Dec.mul a.init e.discount : Int) := by
          have hne : (Dec.mul a.init e.discount : Int) ≠ a.init := by
            intro heq; apply hden
            show (a.init : Int) - Dec.mul a.init e.discount = 0
            rw [heq]; exact Int.sub_self _
          exact Int.sub_pos.mpr (lt_of_le_of_ne hle hne)
        have hT := tauVal_ge_T a.init (Dec.mul a.init e.discount) e.T he0 hD hw.T_nonneg
        have hpos : 0 < tauVal a.init (Dec.mul a.init e.discount) e.T := by have := hw.T_nonneg; omega
        have hp0 : (0 : Int) ≤ p := by
          rw [ep]; exact linearVal_nonneg _ _ _ hinit hpos (by omega)
        exact ⟨rfl, rfl, rfl, hp0, hinit, hend⟩

theorem tickIter_inv {e : Env} {s : St} {now twaC twaD : Int} {actC actD : Bool}
    (hw : WfEnv e) (hi : Inv e s) (htw : 0 ≤ twaC) : Inv e (tickIter e s now twaC actC twaD actD) := by
  unfold tickIter
  split
  · exact hi
  · rename_i a ha
    split
    · rename_i a' ha'
      obtain ⟨o1, o2, o3, o4, o5, o6, o7, o8, o9, o10⟩ := hi.open_ a ha
      obtain ⟨i1, i2, i3, i4, i5, i6⟩ := iterate_ok hw ha' htw o7 o8
      refine ⟨hi.paid_nonneg, hi.recv_nonneg, ?_, ?_⟩
      · intro a'' h''
        simp only [Option.some.injEq] at h''
        subst h''
        simp only
        rw [i1, i2, i3]
        exact ⟨o1, o2, o3, o4, o5, i4, i5, i6, o9, o10⟩
      · intro hn; simp at hn
    · exact hi

/-- at most one limit bid in any premium bucket -/
def NoSharedPremium (lbids : List LBid) : Prop := ∀ k : Int, (lbids.filter (fun l => l.1 = k)).length ≤ 1

theorem fillLoop_inv {e : Env} {s s' : St} {a : Auc} {dt : Int} {l : List LBid}
    (hw : WfEnv e) (hi : Inv e s) (ha : s.auc = some a) (hdt : 0 ≤ dt) (hl : l.length ≤ 1)
    (h : fillLoop e a dt s l = .ok s') : Inv e s' := by
  match l, hl with
  | [], _ => unfold fillLoop at h; cases h; exact hi
  | [(_, who, amt)], _ =>
    unfold fillLoop at h
    simp only [bind, Except.bind] at h
    split at h
    · cases h
    · rename_i s1 hs1
      have h1 := placeBid_inv hw hi ha hdt hs1
      split at h
      · cases h; exact h1
      · unfold fillLoop at h; cases h; exact h1

theorem fill_inv {e : Env} {s s' : St} {dt : Int} {lbids : List LBid}
    (hw : WfEnv e) (hi : Inv e s) (hdt : 0 ≤ dt) (hl : NoSharedPremium lbids)
    (h : fill e s dt lbids = .ok s') : Inv e s' := by
  unfold fill at h
  split at h
  · cases h; exact hi
  · rename_i a ha
    simp only [bind, Except.bind] at h
    split at h
    · cases h
    · rename_i ob hb
      split at h
      · cases h; exact hi
      · rename_i k
        exact fillLoop_inv hw hi ha hdt (hl k) h

/-- well-formed operation: oracle values are unsigned, at most one limit bid per premium bucket; a block under emergency shutdown
belongs to these histories for lend- and externally initiated auctions (for a vault-initiated one `TriggerEsm` pays the
proceeds out while the auction stays open — `trigger_esm_…` theorems) -/
def WfOp (e : Env) : Op → Prop
  | .bid _ _ dt => 0 ≤ dt
  | .tick _ twaC _ twaD _ lbids => 0 ≤ twaC ∧ 0 ≤ twaD ∧ NoSharedPremium lbids
  | .tickEsm _ twaC _ twaD _ lbids => 0 ≤ twaC ∧ 0 ≤ twaD ∧ NoSharedPremium lbids ∧ e.kind ≠ .vault
  | .reserve _ _ => True
  | .limit _ _ _ => True

/-- under emergency shutdown the iterator leaves a non-vault auction alone past the end of its window and updates its price inside -/
theorem tickIterEsm_inv {e : Env} {s : St} {now twaC twaD : Int} {actC actD : Bool}
    (hw : WfEnv e) (hi : Inv e s) (htw : 0 ≤ twaC) (hk : e.kind ≠ .vault) :
    Inv e (tickIterEsm e s now twaC actC twaD actD) := by
  unfold tickIterEsm
  split
  · exact hi
  · rename_i a ha
    split
    · split
      · rename_i hkv; exact absurd hkv hk
      · exact hi
    · have := tickIter_inv (now := now) (twaD := twaD) (actC := actC) (actD := actD) hw hi htw
      unfold tickIter at this
      rw [ha] at this
      exact this

theorem step_inv {e : Env} {s : St} {op : Op} (hw : WfEnv e) (hi : Inv e s) (hop : WfOp e op) : Inv e (step e s op) := by
  cases op with
  | tickEsm now twaC actC twaD actD lbids =>
    obtain ⟨h1, h2, h3, h4⟩ := hop
    simp only [step, orElse]
    have hi1 := tickIterEsm_inv (now := now) (twaD := twaD) (actC := actC) (actD := actD) hw hi h1 h4
    split
    · rename_i s' hs'
      exact fill_inv hw hi1 h2 h3 hs'
    · exact hi1
  | bid who amt dt =>
    simp only [step, orElse]
    split
    · rename_i s' hs'
      unfold bidE at hs'
      split at hs'
      · cases hs'
      · split at hs'
        · cases hs'
        · rename_i a ha
          exact placeBid_inv hw hi ha hop hs'
    · exact hi
  | tick now twaC actC twaD actD lbids =>
    obtain ⟨h1, h2, h3⟩ := hop
    simp only [step, orElse]
    have hi1 := tickIter_inv (now := now) (twaD := twaD) (actC := actC) (actD := actD) hw hi h1
    split
    · rename_i s' hs'
      exact fill_inv hw hi1 h2 h3 hs'
    · exact hi1
  | reserve who amt =>
    simp only [step]
    split
    · exact hi
    · split
      · rename_i b hb
        obtain ⟨_, _, d⟩ := send_ok hb (by simp)
        refine ⟨hi.paid_nonneg, hi.recv_nonneg, ?_, ?_⟩
        · intro a ha
          have := hi.open_ a ha
          simp only at ha ⊢
          rw [d, d]; simpa using this
        · intro hn
          have := hi.closed hn
          simp only at hn ⊢
          rw [d, d]; simpa using this
      · exact hi
  | limit who prem amt =>
    simp only [step]
    split
    · exact hi
    · rename_i hg
      split
      · rename_i b hb
        obtain ⟨_, _, d⟩ := send_ok hb (by simp)
        refine ⟨hi.paid_nonneg, hi.recv_nonneg, ?_, ?_⟩
        · intro a ha
          obtain ⟨o1, o2, o3, o4, o5, o6, o7, o8, o9, o10⟩ := hi.open_ a ha
          simp only at ha ⊢
          rw [d, d]
          refine ⟨o1, o2, o3, o4, o5, o6, o7, o8, ?_, ?_⟩
          · simpa using o9
          · simp; omega
        · intro hn
          obtain ⟨c1, c2, c3, c4⟩ := hi.closed hn
          simp only at hn ⊢
          rw [d, d]
          refine ⟨c1, c2, ?_, ?_⟩
          · simpa using c3
          · simp; omega
      · exact hi

theorem run_inv {e : Env} (hw : WfEnv e) (ops : List Op) (s : St) (hi : Inv e s) (hops : ∀ op ∈ ops, WfOp e op) :
    Inv e (run e s ops) := by
  induction ops generalizing s with
  | nil => exact hi
  | cons op ops ih =>
    simp only [run, List.foldl_cons]
    exact ih _ (step_inv hw hi (hops op (by simp))) (fun o ho => hops o (by simp [ho]))

/-- what one accepted bid moves, account by account -/
theorem apply_moves {e : Env} {s s' : St} {a : Auc} {who : Nat} {p : Plan} {auto : Bool}
    (hp : PlanOK a p) (h : apply e s a who p auto = .ok s') :
    s'.paid = s.paid + p.pay ∧ s'.recv = s.recv + p.total ∧
    s'.bank.get (.bidder who) .coll = s.bank.get (.bidder who) .coll + p.total ∧
    s'.bank.get (.bidder who) .debt = s.bank.get (.bidder who) .debt - (if auto then 0 else p.pay) ∧
    (∀ n, n ≠ who → s'.bank.get (.bidder n) .coll = s.bank.get (.bidder n) .coll ∧
                    s'.bank.get (.bidder n) .debt = s.bank.get (.bidder n) .debt) ∧
    (p.close = true →
        s'.auc = none ∧
        s'.bank.get .owner .coll = s.bank.get .owner .coll + (a.coll - p.total) ∧
        (s'.burned - s.burned) + (s'.bank.get .collector .debt - s.bank.get .collector .debt)
          + (s'.bank.get .keeper .debt - s.bank.get .keeper .debt)
          + (s'.bank.get .initiator .debt - s.bank.get .initiator .debt)
          + (s'.bank.get .pool .debt - s.bank.get .pool .debt) + (s'.bank.get .lendres .debt - s.bank.get .lendres .debt)
          + (s'.booked - s.booked) = e.target) ∧
    (p.close = false → s'.auc = some { a with coll := a.coll - p.total, debt := a.debt - p.pay, bonus := a.bonus - p.share }) := by
  unfold apply at h
  split at h
  · cases h
  · split at h
    · cases h
    · rename_i s1 hs1
      -- the reserve draw touches only the reserve and module accounts
      have w : s1.paid = s.paid ∧ s1.recv = s.recv ∧ s1.burned = s.burned ∧ s1.booked = s.booked ∧
          (∀ a' d', a' ≠ Acct.auction → a' ≠ Acct.reserve → s1.bank.get a' d' = s.bank.get a' d') := by
        by_cases hc : p.clipped = true
        · simp only [hc, if_true] at hs1
          unfold withdrawReserve at hs1
          split at hs1
          · cases hs1
          · split at hs1
            · split at hs1
              · rename_i b hb
                cases hs1
                have d := sendPos_ok hb (by decide)
                refine ⟨rfl, rfl, rfl, rfl, ?_⟩
                intro a' d' h1 h2
                simp only; rw [d]; simp [h1, h2]
              · cases hs1
            · cases hs1
              exact ⟨rfl, rfl, rfl, rfl, fun _ _ _ _ => rfl⟩
        · simp only [hc, if_false, Bool.false_eq_true] at hs1
          cases hs1
          exact ⟨rfl, rfl, rfl, rfl, fun _ _ _ _ => rfl⟩
      obtain ⟨w1, w2, w3, w4, w5⟩ := w
      split at h
      · cases h
      · rename_i b1 hb1
        have p1 : ∀ a' d', b1.get a' d' = s1.bank.get a' d'
            + (if a' = Acct.auction ∧ d' = Denom.debt then (if auto then 0 else p.pay) else 0)
            - (if a' = Acct.bidder who ∧ d' = Denom.debt then (if auto then 0 else p.pay) else 0) := by
          intro a' d'
          by_cases hau : auto = true
          · simp only [hau, if_true] at hb1 ⊢
            cases hb1; split_ifs <;> omega
          · simp only [hau, if_false, Bool.false_eq_true] at hb1 ⊢
            have d := sendPos_ok hb1 (by simp)
            rw [d]; simp [posPart_of_nonneg hp.pay_nonneg]
        split at h
        · cases h
        · rename_i b2 hb2
          have d2 := sendPos_ok hb2 (by simp)
          rw [posPart_of_nonneg hp.total_nonneg] at d2
          by_cases hcl : p.close = true
          · simp only [hcl, if_true] at h
            split at h
            · cases h
            · rename_i s3 hs3
              obtain ⟨q1, q2, q3, q4, q5, q6, q7, q8, q9, q10, q11, q12, q13⟩ := distribute_ok hs3
              split at h
              · cases h
              · rename_i b4 hb4
                cases h
                have d4 := sendPos_ok hb4 (by decide)
                have hleft : 0 ≤ a.coll - p.total := by have := hp.total_le; omega
                rw [posPart_of_nonneg hleft] at d4
                simp only at q2 q3 q10 q11 q12 q13
                refine ⟨by simp only [q2, w1], by simp only [q3, w2], ?_, ?_, ?_, ?_, ?_⟩
                · simp only; rw [d4, q11, d2, p1, w5 _ _ (by simp) (by simp)]; simp
                · simp only; rw [d4, q12, d2, p1, w5 _ _ (by simp) (by simp)]; simp
                · intro n hn
                  constructor
                  · simp only; rw [d4, q11, d2, p1, w5 _ _ (by simp) (by simp)]; simp [hn]
                  · simp only; rw [d4, q12, d2, p1, w5 _ _ (by simp) (by simp)]; simp [hn]
                · intro _
                  refine ⟨rfl, ?_, ?_⟩
                  · simp only; rw [d4, q11, d2, p1, w5 _ _ (by simp) (by simp)]; simp
                  · simp only
                    rw [d4, d4, d4, d4, d4]
                    simp only [reduceCtorEq, if_false, and_false]
                    have e1 : b2.get .collector .debt = s.bank.get .collector .debt := by
                      rw [d2, p1, w5 _ _ (by simp) (by simp)]; simp
                    have e2 : b2.get .keeper .debt = s.bank.get .keeper .debt := by
                      rw [d2, p1, w5 _ _ (by simp) (by simp)]; simp
                    have e3 : b2.get .initiator .debt = s.bank.get .initiator .debt := by
                      rw [d2, p1, w5 _ _ (by simp) (by simp)]; simp
                    have e4 : b2.get .pool .debt = s.bank.get .pool .debt := by
                      rw [d2, p1, w5 _ _ (by simp) (by simp)]; simp
                    have e5 : b2.get .lendres .debt = s.bank.get .lendres .debt := by
                      rw [d2, p1, w5 _ _ (by simp) (by simp)]; simp
                    rw [e1, e2, e3, e4, e5, w3, w4] at q10
                    omega
                · intro hf; rw [hcl] at hf; cases hf
          · simp only [hcl, if_false, Bool.false_eq_true] at h
            cases h
            refine ⟨by simp only [w1], by simp only [w2], ?_, ?_, ?_, ?_, ?_⟩
            · simp only; rw [d2, p1, w5 _ _ (by simp) (by simp)]; simp
            · simp only; rw [d2, p1, w5 _ _ (by simp) (by simp)]; simp
            · intro n hn
              constructor
              · simp only; rw [d2, p1, w5 _ _ (by simp) (by simp)]; simp [hn]
              · simp only; rw [d2, p1, w5 _ _ (by simp) (by simp)]; simp [hn]
            · intro hf; exact absurd hf hcl
            · intro _; rfl
/-- the shape of a CLOSING bid: reserve draw, payment, collateral to the bidder — then `distribute` on that intermediate state —
then the unsold collateral to the owner.  Everything `distribute` speaks about is untouched before and after it. -/
theorem apply_close_shape {e : Env} {s s' : St} {a : Auc} {who : Nat} {p : Plan} {auto : Bool}
    (hp : PlanOK a p) (hcl : p.close = true) (h : apply e s a who p auto = .ok s') :
    ∃ s2 s3, distribute e s2 = .ok s3 ∧
      s2.burned = s.burned ∧ s2.netFees = s.netFees ∧ s2.extFees = s.extFees ∧ s2.booked = s.booked ∧
      (∀ x d, x ≠ Acct.auction → x ≠ Acct.reserve → x ≠ Acct.bidder who → s2.bank.get x d = s.bank.get x d) ∧
      (∀ x, x ≠ Acct.auction → x ≠ Acct.bidder who → s2.bank.get x .coll = s.bank.get x .coll) ∧
      s'.burned = s3.burned ∧ s'.netFees = s3.netFees ∧ s'.extFees = s3.extFees ∧ s'.booked = s3.booked ∧
      (∀ x d, d ≠ Denom.coll → s'.bank.get x d = s3.bank.get x d) ∧
      (∀ x, x ≠ Acct.auction → x ≠ Acct.owner → s'.bank.get x .coll = s3.bank.get x .coll) := by
  unfold apply at h
  split at h
  · cases h
  · split at h
    · cases h
    · rename_i s1 hs1
      have w : s1.burned = s.burned ∧ s1.booked = s.booked ∧ s1.netFees = s.netFees ∧ s1.extFees = s.extFees ∧
          (∀ a' d', a' ≠ Acct.auction → a' ≠ Acct.reserve → s1.bank.get a' d' = s.bank.get a' d') := by
        by_cases hc : p.clipped = true
        · simp only [hc, if_true] at hs1
          unfold withdrawReserve at hs1
          split at hs1
          · cases hs1
          · split at hs1
            · split at hs1
              · rename_i b hb
                cases hs1
                have d := sendPos_ok hb (by decide)
                refine ⟨rfl, rfl, rfl, rfl, ?_⟩
                intro a' d' h1 h2
                simp only; rw [d]; simp [h1, h2]
              · cases hs1
            · cases hs1
              exact ⟨rfl, rfl, rfl, rfl, fun _ _ _ _ => rfl⟩
        · simp only [hc, if_false, Bool.false_eq_true] at hs1
          cases hs1
          exact ⟨rfl, rfl, rfl, rfl, fun _ _ _ _ => rfl⟩
      obtain ⟨w3, w4, w5, w6, w7⟩ := w
      split at h
      · cases h
      · rename_i b1 hb1
        have p1 : ∀ a' d', a' ≠ Acct.auction → a' ≠ Acct.bidder who → b1.get a' d' = s1.bank.get a' d' := by
          intro a' d' h1 h2
          by_cases hau : auto = true
          · simp only [hau, if_true] at hb1
            cases hb1; rfl
          · simp only [hau, if_false, Bool.false_eq_true] at hb1
            have d := sendPos_ok hb1 (by simp)
            rw [d]; simp [h1, h2]
        split at h
        · cases h
        · rename_i b2 hb2
          have d2 := sendPos_ok hb2 (by simp)
          simp only [hcl, if_true] at h
          split at h
          · cases h
          · rename_i s3 hs3
            split at h
            · cases h
            · rename_i b4 hb4
              cases h
              have d4 := sendPos_ok hb4 (by decide)
              refine ⟨_, s3, hs3, w3, w5, w6, w4, ?_, ?_, rfl, rfl, rfl, rfl, ?_, ?_⟩
              · intro x d h1 h2 h3
                simp only; rw [d2, p1 x _ h1 h3, w7 x _ h1 h2]; simp [h1, h3]
              · intro x h1 h3
                by_cases h2 : x = Acct.reserve
                · subst h2
                  simp only; rw [d2, p1 _ _ h1 h3]; simp
                  -- the reserve draw moves the debt denom only
                  by_cases hc : p.clipped = true
                  · simp only [hc, if_true] at hs1
                    unfold withdrawReserve at hs1
                    split at hs1
                    · cases hs1
                    · split at hs1
                      · split at hs1
                        · rename_i b hb
                          cases hs1
                          have d := sendPos_ok hb (by decide)
                          simp only; rw [d]; simp
                        · cases hs1
                      · cases hs1; rfl
                  · simp only [hc, if_false, Bool.false_eq_true] at hs1
                    cases hs1; rfl
                · simp only; rw [d2, p1 x _ h1 h3, w7 x _ h1 h2]; simp [h1, h3]
              · intro x d hd
                simp only; rw [d4]; simp [hd]
              · intro x h1 h2
                simp only; rw [d4]; simp [h1, h2]

/-- a market bid that closes the auction, from a state satisfying the ledger invariant: its shape and the invariant afterwards -/
theorem bidE_close {e : Env} {s s' : St} {who : Nat} {amt dt : Int} (hw : WfEnv e) (hi : Inv e s) (hdt : 0 ≤ dt)
    (h : bidE e s who amt dt = .ok s') (hc : s'.auc = none) :
    Inv e s' ∧ ∃ s2 s3, distribute e s2 = .ok s3 ∧
      s2.burned = s.burned ∧ s2.netFees = s.netFees ∧ s2.extFees = s.extFees ∧ s2.booked = s.booked ∧
      (∀ x d, x ≠ Acct.auction → x ≠ Acct.reserve → x ≠ Acct.bidder who → s2.bank.get x d = s.bank.get x d) ∧
      (∀ x, x ≠ Acct.auction → x ≠ Acct.bidder who → s2.bank.get x .coll = s.bank.get x .coll) ∧
      s'.burned = s3.burned ∧ s'.netFees = s3.netFees ∧ s'.extFees = s3.extFees ∧ s'.booked = s3.booked ∧
      (∀ x d, d ≠ Denom.coll → s'.bank.get x d = s3.bank.get x d) ∧
      (∀ x, x ≠ Acct.auction → x ≠ Acct.owner → s'.bank.get x .coll = s3.bank.get x .coll) := by
  have h0 := h
  unfold bidE at h
  split at h
  · cases h
  · split at h
    · cases h
    · rename_i a ha
      have hinv := placeBid_inv hw hi ha hdt h
      unfold placeBid at h
      split at h
      · rename_i p hp
        obtain ⟨_, _, _, _, o5, o6, _⟩ := hi.open_ a ha
        have hpo := plan_ok hp o5 (debtPrice_nonneg e dt hdt) hw.decD_pos o6 hw.decC_pos
        have hcl : p.close = true := by
          by_cases hcl : p.close = true
          · exact hcl
          · obtain ⟨_, _, _, _, _, _, m7⟩ := apply_moves hpo h
            have := m7 (by simpa using hcl)
            rw [this] at hc; cases hc
        exact ⟨hinv, apply_close_shape hpo hcl h⟩
      · cases h

/-! ### the posted price -/

/-- two conversions at one posted price hand out at most one unit more than the exact quotient, provided the two
half-even roundings together cost less than one unit: `d2·(r2 + 10^18) ≤ r2·10^18` -/
theorem two_conv_bound (amt1 amt2 r1 d1 r2 d2 : Int) (h1 : 0 ≤ amt1) (h2 : 0 ≤ amt2) (hr1 : 0 ≤ r1) (hd1 : 0 < d1)
    (hr2 : 0 < r2) (hd2 : 0 ≤ d2) (hs : d2 * (r2 + P) ≤ r2 * P) :
    (convVal amt1 r1 d1 r2 d2 + convVal amt2 r1 d1 r2 d2 - 1) * (d1 * r2) ≤ (amt1 + amt2) * r1 * d2 := by
  have u1 := convVal_upper amt1 r1 d1 r2 d2 h1 hr1 hd1 hr2 hd2
  have u2 := convVal_upper amt2 r1 d1 r2 d2 h2 hr1 hd1 hr2 hd2
  set c1 := convVal amt1 r1 d1 r2 d2
  set c2 := convVal amt2 r1 d1 r2 d2
  have hP : (0 : Int) < P := by simp [P]
  have hs' : d1 * (d2 * (r2 + P)) ≤ d1 * (r2 * P) := Int.mul_le_mul_of_nonneg_left hs (Int.le_of_lt hd1)
  have key : P * ((c1 + c2 - 1) * (d1 * r2)) ≤ P * ((amt1 + amt2) * r1 * d2) := by nlinarith
  exact le_of_mul_le_mul_left key hP

theorem plan_posted {e : Env} {a : Auc} {amt0 : Int} {dp : Dec} {p : Plan}
    (h : plan e a amt0 dp = .ok p)
    (hb : 0 ≤ a.bonus) (hdp : (0 : Int) ≤ dp) (hdD : 0 < e.decD) (hpr : (0 : Int) ≤ a.price) (hdC : 0 < e.decC)
    (hs : e.decC * (a.price + P) ≤ a.price * P) (hnc : p.clipped = false) :
    (p.total - 1) * (e.decD * a.price) ≤ (p.pay + a.bonus) * dp * e.decC := by
  unfold plan at h
  split at h
  · cases h
  · by_cases hfull : amt0 ≥ a.debt
    · simp only [hfull, decide_true, if_true, true_or] at h
      split at h
      · rename_i c cB hc hcB
        obtain ⟨ec, _, hr2⟩ := convC_ok hc
        obtain ⟨ecB, _, _⟩ := convC_ok hcB
        have hr2' : (a.price : Int) ≠ 0 := hr2
        have hprpos : (0 : Int) < a.price := by omega
        split at h
        · split at h
          · split at h
            · cases h
            · cases h; simp at hnc
          · cases h
        · split at h
          · cases h
          · rename_i hg
            cases h
            simp only
            have hd0 : 0 ≤ a.debt := by omega
            have := two_conv_bound a.debt a.bonus dp e.decD a.price e.decC hd0 hb hdp hdD hprpos (by omega) hs
            rw [ec, ecB]; exact this
      · cases h
    · simp only [hfull, decide_false, if_false, false_or, Bool.false_eq_true] at h
      split at h
      · rename_i c cB hc hcB
        obtain ⟨ec, _, hr2⟩ := convC_ok hc
        have hr2' : (a.price : Int) ≠ 0 := hr2
        have hprpos : (0 : Int) < a.price := by omega
        split at h
        · split at h
          · split at h
            · cases h
            · cases h; simp at hnc
          · cases h
        · split at h
          · split at h
            · cases h
            · split at h
              · cases h
              · split at h
                · rename_i cS hcS
                  split at h
                  · cases h
                  · rename_i hg
                    cases h
                    simp only
                    have hamt : 0 ≤ amt0 := by omega
                    have hratio : amt0.tdiv a.debt = 0 := Int.tdiv_eq_zero_of_lt hamt (by omega)
                    have hshare : (if e.bonus0 * amt0.tdiv a.debt > a.bonus then a.bonus else e.bonus0 * amt0.tdiv a.debt) = 0 := by
                      rw [hratio]; simp; omega
                    obtain ⟨ecS, _, _⟩ := convC_ok hcS
                    rw [hshare, convVal_zero] at ecS
                    have := two_conv_bound amt0 0 dp e.decD a.price e.decC hamt (le_refl 0) hdp hdD hprpos (by omega) hs
                    rw [convVal_zero] at this
                    rw [ec, ecS]
                    have hnn : 0 ≤ a.bonus * dp * e.decC := by positivity
                    have e1 : (amt0 + a.bonus) * dp * e.decC = (amt0 + 0) * dp * e.decC + a.bonus * dp * e.decC := by ring
                    rw [e1]; omega
                · cases h
          · cases h
      · cases h

/-- collateral exhausted: the bidder receives everything that is left, which is strictly less than what the amount he
asked to pay (clipped to the remaining target) plus the bonus buys at the posted price -/
theorem plan_clipped_bound {e : Env} {a : Auc} {amt0 : Int} {dp : Dec} {p : Plan}
    (h : plan e a amt0 dp = .ok p) (ha0 : 0 ≤ amt0) (hd0 : 0 ≤ a.debt)
    (hb : 0 ≤ a.bonus) (hdp : (0 : Int) ≤ dp) (hdD : 0 < e.decD) (hpr : (0 : Int) ≤ a.price) (hdC : 0 < e.decC)
    (hs : e.decC * (a.price + P) ≤ a.price * P) (hc : p.clipped = true) :
    p.total = a.coll ∧ p.total * (e.decD * a.price) ≤ ((if amt0 ≥ a.debt then a.debt else amt0) + a.bonus) * dp * e.decC := by
  unfold plan at h
  split at h
  · cases h
  · by_cases hfull : amt0 ≥ a.debt
    · simp only [hfull, decide_true, if_true, true_or] at h ⊢
      split at h
      · rename_i c cB hcc hcB
        obtain ⟨ec, _, hr2⟩ := convC_ok hcc
        obtain ⟨ecB, _, _⟩ := convC_ok hcB
        have hr2' : (a.price : Int) ≠ 0 := hr2
        have hprpos : (0 : Int) < a.price := by omega
        have hb2 := two_conv_bound a.debt a.bonus dp e.decD a.price e.decC hd0 hb hdp hdD hprpos (by omega) hs
        rw [← ec, ← ecB] at hb2
        have hpos : 0 ≤ e.decD * a.price := by positivity
        split at h
        · rename_i hnle
          split at h
          · split at h
            · cases h
            · cases h
              refine ⟨rfl, ?_⟩
              simp only
              have : a.coll ≤ c + cB - 1 := by omega
              exact Int.le_trans (Int.mul_le_mul_of_nonneg_right this hpos) hb2
          · cases h
        · split at h
          · cases h
          · cases h; simp at hc
      · cases h
    · simp only [hfull, decide_false, if_false, false_or, Bool.false_eq_true] at h ⊢
      split at h
      · rename_i c cB hcc hcB
        obtain ⟨ec, _, hr2⟩ := convC_ok hcc
        obtain ⟨ecB, _, _⟩ := convC_ok hcB
        have hr2' : (a.price : Int) ≠ 0 := hr2
        have hprpos : (0 : Int) < a.price := by omega
        have hb2 := two_conv_bound amt0 a.bonus dp e.decD a.price e.decC ha0 hb hdp hdD hprpos (by omega) hs
        rw [← ec, ← ecB] at hb2
        have hpos : 0 ≤ e.decD * a.price := by positivity
        split at h
        · rename_i hnle
          split at h
          · split at h
            · cases h
            · cases h
              refine ⟨rfl, ?_⟩
              simp only
              have : a.coll ≤ c + cB - 1 := by omega
              exact Int.le_trans (Int.mul_le_mul_of_nonneg_right this hpos) hb2
          · cases h
        · split at h
          · split at h
            · cases h
            · split at h
              · cases h
              · split at h
                · split at h
                  · cases h
                  · cases h; simp at hc
                · cases h
          · cases h
      · cases h
/-- **lower bound of one conversion**: truncation loses less than one unit, the two half-even roundings at most
`(d2/2)(1/r2 + 10⁻¹⁸)(1 + 2·10⁻¹⁸)`; cross-multiplied by `10³⁶`. -/
theorem convVal_lower (amt r1 d1 r2 d2 : Int) (ha : 0 ≤ amt) (hr1 : 0 ≤ r1) (hd1 : 0 < d1) (hr2 : 0 < r2) (hd2 : 0 ≤ d2) :
    2 * (amt * r1) * d2 * (P * P) ≤
      2 * (P * P) * r2 * d1 * (convVal amt r1 d1 r2 d2 + 1) + d1 * d2 * (P * r2 + 2 * r2) + (P * P) * d1 * d2 + 2 * P * d1 * d2 := by
  unfold convVal
  have hPPv : PP = P * P := by simp [PP]
  have hP : (0 : Int) < P := by simp [P]
  set A := amt * r1 with hA
  have hA0 : 0 ≤ A := by positivity
  have hx1n : 0 ≤ A * P := by positivity
  set x1 := (A * P).tdiv d1 with hx1
  have hx1' : x1 = A * P / d1 := Int.tdiv_eq_ediv_of_nonneg hx1n
  have hx10 : 0 ≤ x1 := by rw [hx1']; exact Int.ediv_nonneg hx1n (Int.le_of_lt hd1)
  have hx1gt : A * P < (x1 + 1) * d1 := by rw [hx1']; exact Int.lt_ediv_add_one_mul_self _ hd1
  obtain ⟨ht1, _⟩ := chopRound_bounds x1 hx10
  set t1 := chopRound x1 with ht1def
  have ht10 : 0 ≤ t1 := chopRound_nonneg x1 hx10
  -- 2AP ≤ 2P·t1·d1 + P·d1 + 2·d1
  have h_t1 : 2 * A * P ≤ 2 * P * t1 * d1 + P * d1 + 2 * d1 := by
    have : (2 * x1 - P) * d1 ≤ 2 * P * t1 * d1 := Int.mul_le_mul_of_nonneg_right ht1 (Int.le_of_lt hd1)
    nlinarith
  have hx2n : 0 ≤ t1 * PP := by rw [hPPv]; positivity
  set x2 := (t1 * PP).tdiv r2 with hx2
  have hx2' : x2 = t1 * PP / r2 := Int.tdiv_eq_ediv_of_nonneg hx2n
  have hx20 : 0 ≤ x2 := by rw [hx2']; exact Int.ediv_nonneg hx2n (Int.le_of_lt hr2)
  have hx2gt : t1 * PP < (x2 + 1) * r2 := by rw [hx2']; exact Int.lt_ediv_add_one_mul_self _ hr2
  obtain ⟨hna, _⟩ := chopRound_bounds x2 hx20
  set na := chopRound x2 with hnadef
  have hna0 : 0 ≤ na := chopRound_nonneg x2 hx20
  -- 2·t1·P·P ≤ 2P·na·r2 + P·r2 + 2·r2
  have h_na : 2 * t1 * (P * P) ≤ 2 * P * na * r2 + P * r2 + 2 * r2 := by
    have : (2 * x2 - P) * r2 ≤ 2 * P * na * r2 := Int.mul_le_mul_of_nonneg_right hna (Int.le_of_lt hr2)
    rw [hPPv] at hx2gt
    nlinarith
  have hcn : 0 ≤ na * d2 := by positivity
  set c := (na * d2).tdiv P with hc
  have hc' : c = na * d2 / P := Int.tdiv_eq_ediv_of_nonneg hcn
  have hcgt : na * d2 < (c + 1) * P := by rw [hc']; exact Int.lt_ediv_add_one_mul_self _ hP
  -- chain
  have hdd : 0 ≤ d1 * d2 := by positivity
  have s1 : 2 * A * d2 * (P * P) ≤ (2 * P * t1 * d1 + P * d1 + 2 * d1) * d2 * P := by
    have : 0 ≤ d2 * P := by positivity
    nlinarith
  have s2 : d1 * d2 * (2 * t1 * (P * P)) ≤ d1 * d2 * (2 * P * na * r2 + P * r2 + 2 * r2) :=
    Int.mul_le_mul_of_nonneg_left h_na hdd
  have s3 : 2 * P * r2 * d1 * (na * d2) ≤ 2 * P * r2 * d1 * ((c + 1) * P) := by
    have : 0 ≤ 2 * P * r2 * d1 := by positivity
    exact Int.mul_le_mul_of_nonneg_left (Int.le_of_lt hcgt) this
  nlinarith

/-- under `d2·(r2 + 10¹⁸)·(10¹⁸ + 2) ≤ r2·10³⁶` (one unit of the target token is worth at least ~two ulps) the value
converted is at most two units above what came out: one for the truncation, one for the half-even roundings -/
theorem convVal_lower' (amt r1 d1 r2 d2 : Int) (ha : 0 ≤ amt) (hr1 : 0 ≤ r1) (hd1 : 0 < d1) (hr2 : 0 < r2) (hd2 : 0 ≤ d2)
    (hs : d2 * (r2 + P) * (P + 2) ≤ r2 * (P * P)) :
    amt * r1 * d2 ≤ (convVal amt r1 d1 r2 d2 + 2) * (d1 * r2) := by
  have h := convVal_lower amt r1 d1 r2 d2 ha hr1 hd1 hr2 hd2
  set c := convVal amt r1 d1 r2 d2
  have hPP : (0 : Int) < P * P := by simp [P]
  have h2 : d1 * (d2 * (r2 + P) * (P + 2)) ≤ d1 * (r2 * (P * P)) := Int.mul_le_mul_of_nonneg_left hs (Int.le_of_lt hd1)
  have hpos : 0 ≤ (P * P) * (d1 * r2) := Int.mul_nonneg (Int.le_of_lt hPP) (Int.mul_nonneg (Int.le_of_lt hd1) (Int.le_of_lt hr2))
  have key : (P * P) * (2 * (amt * r1 * d2)) ≤ (P * P) * (2 * ((c + 2) * (d1 * r2))) := by nlinarith
  have := le_of_mul_le_mul_left key hPP
  omega

/-- **collateral exhausted, against the amount finally charged**: everything that is left goes to the bidder and is at most
one collateral unit above what `pay + 2` debt units plus the bonus buy at the posted price. -/
theorem plan_clipped_posted {e : Env} {a : Auc} {amt0 : Int} {dp : Dec} {p : Plan}
    (h : plan e a amt0 dp = .ok p)
    (hb : 0 ≤ a.bonus) (hdp : (0 : Int) < dp) (hdD : 0 < e.decD) (hpr : (0 : Int) ≤ a.price) (hdC : 0 < e.decC)
    (hs : e.decC * (a.price + P) ≤ a.price * P)
    (hsb : e.decD * (dp + P) * (P + 2) ≤ dp * (P * P)) (hc : p.clipped = true) :
    (p.total - 1) * (e.decD * a.price) ≤ (p.pay + 2 + a.bonus) * dp * e.decC := by
  -- common tail: given the three conversions
  have tail : ∀ (cB d' : Int), convC a.bonus dp e.decD a.price e.decC = .ok cB →
      convC (a.coll - cB) a.price e.decC dp e.decD = .ok d' → 0 ≤ d' →
      (a.coll - 1) * (e.decD * a.price) ≤ (d' + 2 + a.bonus) * dp * e.decC := by
    intro cB d' hcB hd' hd0
    obtain ⟨ecB, _, hr2⟩ := convC_ok hcB
    obtain ⟨ed', _, _⟩ := convC_ok hd'
    have hr2' : (a.price : Int) ≠ 0 := hr2
    have hprpos : (0 : Int) < a.price := by omega
    have fb := two_conv_bound a.bonus 0 dp e.decD a.price e.decC hb (le_refl 0) (Int.le_of_lt hdp) hdD hprpos (by omega) hs
    rw [convVal_zero, ← ecB] at fb
    have hpos : 0 ≤ e.decD * a.price := by positivity
    by_cases hX : 0 ≤ a.coll - cB
    · have lb := convVal_lower' (a.coll - cB) a.price e.decC dp e.decD hX hpr hdC hdp (by omega) hsb
      rw [← ed'] at lb
      nlinarith
    · have h1 : a.coll - 1 ≤ cB + 0 - 1 := by omega
      have h2 := Int.mul_le_mul_of_nonneg_right h1 hpos
      have h3 : 0 ≤ (d' + 2) * dp * e.decC := by positivity
      nlinarith
  unfold plan at h
  split at h
  · cases h
  · by_cases hfull : amt0 ≥ a.debt
    · simp only [hfull, decide_true, if_true, true_or] at h
      split at h
      · rename_i c cB hcc hcB
        split at h
        · split at h
          · rename_i d' hd'
            split at h
            · cases h
            · rename_i hg
              cases h
              simp only
              exact tail cB d' hcB hd' (by omega)
          · cases h
        · split at h
          · cases h
          · cases h; simp at hc
      · cases h
    · simp only [hfull, decide_false, if_false, false_or, Bool.false_eq_true] at h
      split at h
      · rename_i c cB hcc hcB
        split at h
        · split at h
          · rename_i d' hd'
            split at h
            · cases h
            · rename_i hg
              cases h
              simp only
              exact tail cB d' hcB hd' (by omega)
          · cases h
        · split at h
          · split at h
            · cases h
            · split at h
              · cases h
              · split at h
                · split at h
                  · cases h
                  · cases h; simp at hc
                · cases h
          · cases h
      · cases h
end Comdex.DutchV2
