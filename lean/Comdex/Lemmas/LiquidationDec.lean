import Comdex.Model.Liquidation
import Mathlib.Tactic.Linarith
import Mathlib.Tactic.Ring
/-! Rounding facts about `Dec.quo` used by C09 (imports single Mathlib tactic modules). -/
namespace Comdex.Liquidation
open Comdex

theorem chopRoundNonneg_bounds (x : Int) (hx : 0 ≤ x) :
    x / Dec.P ≤ Dec.chopRoundNonneg x ∧ Dec.chopRoundNonneg x ≤ x / Dec.P + 1 ∧
    (x % Dec.P = 0 → Dec.chopRoundNonneg x = x / Dec.P) := by
  unfold Dec.chopRoundNonneg
  have hP : (0:Int) ≤ Dec.P := by unfold Dec.P; omega
  rw [Int.tdiv_eq_ediv_of_nonneg hx, Int.tmod_eq_emod_of_nonneg hx]
  simp only
  refine ⟨?_, ?_, ?_⟩
  · split
    · omega
    · split
      · omega
      · split
        · omega
        · split <;> omega
  · split
    · omega
    · split
      · omega
      · split
        · omega
        · split <;> omega
  · intro h; simp [h]

theorem quo_nonneg_arg (a b : Int) (ha : 0 ≤ a) (hb : 0 < b) : 0 ≤ (a * Dec.PP).tdiv b := by
  have : 0 ≤ a * Dec.PP := by
    apply Int.mul_nonneg ha; unfold Dec.PP Dec.P; omega
  rw [Int.tdiv_eq_ediv_of_nonneg this]
  exact Int.ediv_nonneg this (by omega)

/-- if the exact ratio `a/b` is at or above `t` then so is the rounded `Quo` -/
theorem quo_ge_of_ratio_ge (a b t : Int) (ha : 0 ≤ a) (hb : 0 < b) (h : t * b ≤ a * Dec.P) : t ≤ Dec.quo a b := by
  unfold Dec.quo Dec.chopRound
  have hx := quo_nonneg_arg a b ha hb
  have hnn : 0 ≤ a * Dec.PP := by
    apply Int.mul_nonneg ha; unfold Dec.PP Dec.P; omega
  have hneg : ¬ ((a * Dec.PP).tdiv b < 0) := by omega
  simp only [hneg, if_false]
  have hbd := (chopRoundNonneg_bounds _ hx).1
  rw [Int.tdiv_eq_ediv_of_nonneg hnn] at hbd ⊢
  have hP : (0:Int) < Dec.P := by unfold Dec.P; omega
  have h1 : t * Dec.P * b ≤ a * Dec.PP := by
    unfold Dec.PP
    have := Int.mul_le_mul_of_nonneg_right h (Int.le_of_lt hP)
    calc t * Dec.P * b = t * b * Dec.P := by ring
      _ ≤ a * Dec.P * Dec.P := this
      _ = a * (Dec.P * Dec.P) := by ring
  have h2 : t * Dec.P ≤ a * Dec.PP / b := Int.le_ediv_of_mul_le hb h1
  have h3 : t ≤ a * Dec.PP / b / Dec.P := Int.le_ediv_of_mul_le hP h2
  omega

/-- if the exact ratio `a/b` is at or below `t` then so is the rounded `Quo` -/
theorem quo_le_of_ratio_le (a b t : Int) (ha : 0 ≤ a) (hb : 0 < b) (h : a * Dec.P ≤ t * b) : Dec.quo a b ≤ t := by
  unfold Dec.quo Dec.chopRound
  have hx := quo_nonneg_arg a b ha hb
  have hnn : 0 ≤ a * Dec.PP := by
    apply Int.mul_nonneg ha; unfold Dec.PP Dec.P; omega
  have hneg : ¬ ((a * Dec.PP).tdiv b < 0) := by omega
  simp only [hneg, if_false]
  have hbd := chopRoundNonneg_bounds _ hx
  rw [Int.tdiv_eq_ediv_of_nonneg hnn] at hbd ⊢
  have hP : (0:Int) < Dec.P := by unfold Dec.P; omega
  have h1 : a * Dec.PP ≤ t * Dec.P * b := by
    unfold Dec.PP
    have := Int.mul_le_mul_of_nonneg_right h (Int.le_of_lt hP)
    calc a * (Dec.P * Dec.P) = a * Dec.P * Dec.P := by ring
      _ ≤ t * b * Dec.P := this
      _ = t * Dec.P * b := by ring
  have h2 : a * Dec.PP / b ≤ t * Dec.P := Int.ediv_le_of_le_mul hb h1
  -- x ≤ t·P: either x = t·P (exact, no rounding) or x/P ≤ t − 1
  by_cases he : a * Dec.PP / b = t * Dec.P
  · have hm : a * Dec.PP / b % Dec.P = 0 := by rw [he]; exact Int.mul_emod_left _ _
    have := hbd.2.2 hm
    rw [this, he]
    rw [Int.mul_ediv_cancel _ (by omega)]
  · have hlt : a * Dec.PP / b < t * Dec.P := by omega
    have h4 : a * Dec.PP / b / Dec.P < t := Int.ediv_lt_of_lt_mul hP hlt
    have h5 := hbd.2.1
    linarith

/-! monotonicity (for the accrual theorems) -/
theorem chopRoundNonneg_mono (x y : Int) (hx : 0 ≤ x) (hxy : x ≤ y) : Dec.chopRoundNonneg x ≤ Dec.chopRoundNonneg y := by
  have hy : 0 ≤ y := by omega
  unfold Dec.chopRoundNonneg
  rw [Int.tdiv_eq_ediv_of_nonneg hx, Int.tmod_eq_emod_of_nonneg hx, Int.tdiv_eq_ediv_of_nonneg hy, Int.tmod_eq_emod_of_nonneg hy]
  unfold Dec.P Dec.half
  simp only
  split <;> split <;> (try split) <;> (try split) <;> (try split) <;> (try split) <;> (try split) <;> (try split) <;> omega

theorem quo_eq_nonneg (a b : Int) (ha : 0 ≤ a) (hb : 0 < b) : Dec.quo a b = Dec.chopRoundNonneg (a * Dec.PP / b) := by
  unfold Dec.quo Dec.chopRound
  have hx := quo_nonneg_arg a b ha hb
  have hnn : 0 ≤ a * Dec.PP := by
    apply Int.mul_nonneg ha; unfold Dec.PP Dec.P; omega
  have hneg : ¬ ((a * Dec.PP).tdiv b < 0) := by omega
  simp only [hneg, if_false]
  rw [Int.tdiv_eq_ediv_of_nonneg hnn]

theorem quo_mono_left (a a' b : Int) (ha : 0 ≤ a) (haa : a ≤ a') (hb : 0 < b) : Dec.quo a b ≤ Dec.quo a' b := by
  rw [quo_eq_nonneg a b ha hb, quo_eq_nonneg a' b (by omega) hb]
  have hPP : (0:Int) ≤ Dec.PP := by unfold Dec.PP Dec.P; omega
  apply chopRoundNonneg_mono
  · exact Int.ediv_nonneg (Int.mul_nonneg ha hPP) (by omega)
  · exact Int.ediv_le_ediv hb (Int.mul_le_mul_of_nonneg_right haa hPP)

theorem quo_anti_right (a b b' : Int) (ha : 0 ≤ a) (hb : 0 < b) (hbb : b ≤ b') : Dec.quo a b' ≤ Dec.quo a b := by
  rw [quo_eq_nonneg a b ha hb, quo_eq_nonneg a b' ha (by omega)]
  have hPP : (0:Int) ≤ Dec.PP := by unfold Dec.PP Dec.P; omega
  have hnn := Int.mul_nonneg ha hPP
  apply chopRoundNonneg_mono
  · exact Int.ediv_nonneg hnn (by omega)
  · apply Int.le_ediv_of_mul_le hb
    have h1 : a * Dec.PP / b' * b' ≤ a * Dec.PP := Int.ediv_mul_le _ (by omega)
    have h2 : 0 ≤ a * Dec.PP / b' := Int.ediv_nonneg hnn (by omega)
    have h3 : a * Dec.PP / b' * b ≤ a * Dec.PP / b' * b' := Int.mul_le_mul_of_nonneg_left hbb h2
    omega

theorem mul_ofInt (a b : Int) (ha : 0 ≤ a) (hb : 0 ≤ b) : Dec.mul (Dec.ofInt a) (Dec.ofInt b) = a * b * Dec.P := by
  unfold Dec.mul Dec.ofInt Dec.chopRound
  have hP : (0:Int) < Dec.P := by unfold Dec.P; omega
  have hnn : 0 ≤ a * Dec.P * (b * Dec.P) := Int.mul_nonneg (Int.mul_nonneg ha (le_of_lt hP)) (Int.mul_nonneg hb (le_of_lt hP))
  have : ¬ (a * Dec.P * (b * Dec.P) < 0) := by omega
  simp only [this, if_false]
  have he : a * Dec.P * (b * Dec.P) = (a * b * Dec.P) * Dec.P := by ring
  rw [he]
  have h0 : 0 ≤ a * b * Dec.P := Int.mul_nonneg (Int.mul_nonneg ha hb) (le_of_lt hP)
  have hb3 := (chopRoundNonneg_bounds (a * b * Dec.P * Dec.P) (Int.mul_nonneg h0 (le_of_lt hP))).2.2 (Int.mul_emod_left _ _)
  rw [hb3, Int.mul_ediv_cancel _ (by omega)]

/-- `CalcAssetPrice` is monotone in the amount (non-negative amounts and price, positive decimals) -/
theorem assetValue_mono (amt amt' price dec : Int) (h0 : 0 ≤ amt) (h : amt ≤ amt') (hp : 0 ≤ price) (hd : 0 < dec) :
    assetValue amt price dec ≤ assetValue amt' price dec := by
  unfold assetValue
  rw [mul_ofInt amt price h0 hp, mul_ofInt amt' price (by omega) hp]
  have hP : (0:Int) < Dec.P := by unfold Dec.P; omega
  apply quo_mono_left
  · exact Int.mul_nonneg (Int.mul_nonneg h0 hp) (le_of_lt hP)
  · exact Int.mul_le_mul_of_nonneg_right (Int.mul_le_mul_of_nonneg_right h hp) (le_of_lt hP)
  · unfold Dec.ofInt; exact Int.mul_pos hd hP


/-- prices and decimals are non-negative (they are `uint64` / positive `sdk.Int`s in the stores) -/
def EnvNonneg (e : Env) (p : Product) : Prop :=
  0 ≤ p.outFixed ∧ ∀ a, a ∈ e.assets → 0 ≤ a.decimals ∧ ∀ pr, a.price = some pr → 0 ≤ pr

theorem valueOf_mono (e : Env) (hn : ∀ a, a ∈ e.assets → 0 ≤ a.decimals ∧ ∀ pr, a.price = some pr → 0 ≤ pr)
    (id : Nat) (d d' x x' : Int) (h0 : 0 ≤ d) (hdd : d ≤ d')
    (h : e.valueOf id d = some x) (h' : e.valueOf id d' = some x') : x ≤ x' := by
  unfold Env.valueOf at h h'
  cases ha : e.asset? id with
  | none => simp [ha] at h
  | some a =>
    have hmem : a ∈ e.assets := List.mem_of_find?_eq_some ha
    simp only [ha] at h h'
    cases hp : a.price with
    | none => simp [hp] at h
    | some pr =>
      simp only [hp] at h h'
      by_cases hd : a.decimals = 0
      · simp [hd] at h
      · simp only [hd, if_false, Option.some.injEq] at h h'
        rw [← h, ← h']
        have := hn a hmem
        exact assetValue_mono d d' pr a.decimals h0 hdd (this.2 pr hp) (by omega)

/-- more debt, lower ratio: the collateralisation ratio is antitone in the debt -/
theorem vaultCR_anti_debt (e : Env) (p : Product) (amountIn d d' : Int) (cr cr' : Dec) (hn : EnvNonneg e p)
    (h0 : 0 ≤ d) (hdd : d ≤ d') (h : vaultCR e p amountIn d = some cr) (h' : vaultCR e p amountIn d' = some cr') : cr' ≤ cr := by
  unfold vaultCR at h h'
  cases ha : e.asset? p.assetIn with
  | none => simp [ha] at h
  | some ai =>
    cases hb : e.asset? p.assetOut with
    | none => simp [ha, hb] at h
    | some ao =>
      simp only [ha, hb] at h h'
      cases hv : e.valueOf p.assetIn amountIn with
      | none => simp [hv] at h
      | some vin =>
        simp only [hv] at h h'
        -- the two debt values
        have key : ∀ (vo vo' : Dec),
            (if p.outOracle then e.valueOf p.assetOut d else if ao.decimals = 0 then none else some (assetValue d p.outFixed ao.decimals)) = some vo →
            (if p.outOracle then e.valueOf p.assetOut d' else if ao.decimals = 0 then none else some (assetValue d' p.outFixed ao.decimals)) = some vo' →
            vo ≤ vo' := by
          intro vo vo' e1 e2
          by_cases ho : p.outOracle = true
          · simp only [ho, if_true] at e1 e2
            exact valueOf_mono e hn.2 p.assetOut d d' vo vo' h0 hdd e1 e2
          · simp only [ho, Bool.false_eq_true, if_false] at e1 e2
            by_cases hd : ao.decimals = 0
            · simp [hd] at e1
            · simp only [hd, if_false, Option.some.injEq] at e1 e2
              rw [← e1, ← e2]
              have hmem : ao ∈ e.assets := List.mem_of_find?_eq_some hb
              exact assetValue_mono d d' p.outFixed ao.decimals h0 hdd hn.1 (by have := (hn.2 ao hmem).1; omega)
        generalize hvo : (if p.outOracle then e.valueOf p.assetOut d else if ao.decimals = 0 then none else some (assetValue d p.outFixed ao.decimals)) = o at h
        generalize hvo' : (if p.outOracle then e.valueOf p.assetOut d' else if ao.decimals = 0 then none else some (assetValue d' p.outFixed ao.decimals)) = o' at h'
        cases o with
        | none => simp at h
        | some vo =>
          cases o' with
          | none => simp at h'
          | some vo' =>
            have hle := key vo vo' hvo hvo'
            simp only at h h'
            by_cases h1 : vin ≤ 0
            · simp [h1] at h
            · by_cases h2 : vo ≤ 0
              · simp [h1, h2] at h
              · have h2' : ¬ (vo' ≤ 0) := fun hh => h2 (Int.le_trans hle hh)
                simp only [h1, h2, h2', if_false, Option.some.injEq] at h h'
                rw [← h, ← h']
                exact quo_anti_right vin vo vo' (Int.le_of_lt (Int.not_le.mp h1)) (Int.not_le.mp h2) hle


end Comdex.Liquidation
