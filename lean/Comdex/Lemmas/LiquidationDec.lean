import Comdex.Model.Liquidation
import Mathlib.Tactic.Linarith
import Mathlib.Tactic.Ring
/-! Rounding facts about `Dec.quo` used by C09 (imports single Mathlib tactic modules). -/
namespace Comdex.Liquidation
open Comdex

theorem chopRoundNonneg_bounds (x : Int) (hx : 0 ≤ x) :
    x / Dec.P ≤ Dec.chopRoundNonneg x ∧ Dec.chopRoundNonneg x ≤ x / Dec.P + 1 ∧
    (x % Dec.P = 0 → Dec.chopRoundNonneg x = x / Dec.P) := by
  unfold Dec.chopRoundNonneg
  have hP : (0:Int) ≤ Dec.P := by unfold Dec.P; omega
  rw [Int.tdiv_eq_ediv_of_nonneg hx, Int.tmod_eq_emod_of_nonneg hx]
  simp only
  refine ⟨?_, ?_, ?_⟩
  · split
    · omega
    · split
      · omega
      · split
        · omega
        · split <;> omega
  · split
    · omega
    · split
      · omega
      · split
        · omega
        · split <;> omega
  · intro h; simp [h]

theorem quo_nonneg_arg (a b : Int) (ha : 0 ≤ a) (hb : 0 < b) : 0 ≤ (a * Dec.PP).tdiv b := by
  have : 0 ≤ a * Dec.PP := by
    apply Int.mul_nonneg ha; unfold Dec.PP Dec.P; omega
  rw [Int.tdiv_eq_ediv_of_nonneg this]
  exact Int.ediv_nonneg this (by omega)

/-- if the exact ratio `a/b` is at or above `t` then so is the rounded `Quo` -/
theorem quo_ge_of_ratio_ge (a b t : Int) (ha : 0 ≤ a) (hb : 0 < b) (h : t * b ≤ a * Dec.P) : t ≤ Dec.quo a b := by
  unfold Dec.quo Dec.chopRound
  have hx := quo_nonneg_arg a b ha hb
  have hnn : 0 ≤ a * Dec.PP := by
    apply Int.mul_nonneg ha; unfold Dec.PP Dec.P; omega
  have hneg : ¬ ((a * Dec.PP).tdiv b < 0) := by omega
  simp only [hneg, if_false]
  have hbd := (chopRoundNonneg_bounds _ hx).1
  rw [Int.tdiv_eq_ediv_of_nonneg hnn] at hbd ⊢
  have hP : (0:Int) < Dec.P := by unfold Dec.P; omega
  have h1 : t * Dec.P * b ≤ a * Dec.PP := by
    unfold Dec.PP
    have := Int.mul_le_mul_of_nonneg_right h (Int.le_of_lt hP)
    calc t * Dec.P * b = t * b * Dec.P := by ring
      _ ≤ a * Dec.P * Dec.P := this
      _ = a * (Dec.P * Dec.P) := by ring
  have h2 : t * Dec.P ≤ a * Dec.PP / b := Int.le_ediv_of_mul_le hb h1
  have h3 : t ≤ a * Dec.PP / b / Dec.P := Int.le_ediv_of_mul_le hP h2
  omega

/-- if the exact ratio `a/b` is at or below `t` then so is the rounded `Quo` -/
theorem quo_le_of_ratio_le (a b t : Int) (ha : 0 ≤ a) (hb : 0 < b) (h : a * Dec.P ≤ t * b) : Dec.quo a b ≤ t := by
  unfold Dec.quo Dec.chopRound
  have hx := quo_nonneg_arg a b ha hb
  have hnn : 0 ≤ a * Dec.PP := by
    apply Int.mul_nonneg ha; unfold Dec.PP Dec.P; omega
  have hneg : ¬ ((a * Dec.PP).tdiv b < 0) := by omega
  simp only [hneg, if_false]
  have hbd := chopRoundNonneg_bounds _ hx
  rw [Int.tdiv_eq_ediv_of_nonneg hnn] at hbd ⊢
  have hP : (0:Int) < Dec.P := by unfold Dec.P; omega
  have h1 : a * Dec.PP ≤ t * Dec.P * b := by
    unfold Dec.PP
    have := Int.mul_le_mul_of_nonneg_right h (Int.le_of_lt hP)
    calc a * (Dec.P * Dec.P) = a * Dec.P * Dec.P := by ring
      _ ≤ t * b * Dec.P := this
      _ = t * Dec.P * b := by ring
  have h2 : a * Dec.PP / b ≤ t * Dec.P := Int.ediv_le_of_le_mul hb h1
  -- x ≤ t·P: either x = t·P (exact, no rounding) or x/P ≤ t − 1
  by_cases he : a * Dec.PP / b = t * Dec.P
  · have hm : a * Dec.PP / b % Dec.P = 0 := by rw [he]; exact Int.mul_emod_left _ _
    have := hbd.2.2 hm
    rw [this, he]
    rw [Int.mul_ediv_cancel _ (by omega)]
  · have hlt : a * Dec.PP / b < t * Dec.P := by omega
    have h4 : a * Dec.PP / b / Dec.P < t := Int.ediv_lt_of_lt_mul hP hlt
    have h5 := hbd.2.1
    linarith

end Comdex.Liquidation
