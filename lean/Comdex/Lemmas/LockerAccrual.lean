import Comdex.Model.LockerAccrual
import Comdex.Lemmas.AccrualErr
import Comdex.Lemmas.VaultAccrual
/-! Lemmas for the state-level accrual theorems of C18 about locker savings (`Model/LockerAccrual.lean`). -/
namespace Comdex.LockerAccrual
open Comdex Comdex.Accrual

/-! ## what the building blocks write -/

theorem book_some (s : St) (l : Locker) (x : Dec) (h t : Int) (s1 : St) (hb : book s l x h t = some s1) :
    s1.wl = s.wl ∧ s1.coll = s.coll ∧ ∃ l1, s1.locker = some l1 ∧ l1.bh = h ∧ l1.bt = t := by
  unfold book at hb
  simp only [] at hb
  split at hb
  · split at hb
    · exact absurd hb (by simp)
    · injection hb with hb; subst hb; exact ⟨rfl, rfl, _, rfl, rfl, rfl⟩
  · injection hb with hb; subst hb; exact ⟨rfl, rfl, _, rfl, rfl, rfl⟩

/-- whether the net fees can pay does not depend on the stamp that is written -/
theorem book_isSome_stamp (s : St) (l : Locker) (x : Dec) (h t h' t' : Int) :
    (book s l x h t).isSome = (book s l x h' t').isSome := by
  unfold book
  simp only []
  split
  · split <;> rfl
  · rfl

theorem accrue_idle (s : St) (ctx : Ctx) (l : Locker) (pw : Option Int) (h : s.wl = false ∨ s.coll.lsr = 0) :
    accrue s ctx l pw = .ok s := by
  unfold accrue
  rcases h with h | h
  · simp [h]
  · by_cases hw : s.wl = true <;> simp [hw, h]

theorem accrue_ok (s : St) (ctx : Ctx) (l : Locker) (pw : Option Int) (s1 : St) (hw : s.wl = true) (hr : s.coll.lsr ≠ 0)
    (h : accrue s ctx l pw = .ok s1) :
    ∃ x, calcRewards l.net s.coll.lsr (ctx.now - clock s l) pw = .ok x ∧ book s l x ctx.height ctx.now = some s1 := by
  unfold accrue at h
  simp only [hw, Bool.not_true, Bool.false_eq_true, if_false, hr] at h
  split at h
  · rename_i x hx
    split at h
    · rename_i s2 hb
      injection h with h; subst h; exact ⟨x, hx, hb⟩
    · exact absurd h (by simp)
  · exact absurd h (by simp)
  · exact absurd h (by simp)

/-- a sweep that reaches the locker and can pay: it books the accrued amount and stamps `(changeTypes ? height : 0, now)` -/
theorem iter_fine (s : St) (ctx : Ctx) (ct : Bool) (pw : Option Int) (l : Locker) (hl : s.locker = some l)
    (hf : sweepFine s ctx pw = true) :
    ∃ x s1, calcRewards l.net s.coll.lsr (ctx.now - clock s l) pw = .ok x ∧
      iter s ctx s.coll.lsr s.coll.bt ct pw = some s1 ∧ book s l x (if ct then ctx.height else 0) ctx.now = some s1 := by
  unfold sweepFine at hf
  rw [hl] at hf
  simp only [] at hf
  split at hf
  · rename_i x hx
    have hb : (book s l x (if ct then ctx.height else 0) ctx.now).isSome = true := by
      rw [book_isSome_stamp s l x _ _ 0 ctx.now]; exact hf
    obtain ⟨s1, hs1⟩ := Option.isSome_iff_exists.mp hb
    refine ⟨x, s1, hx, ?_, hs1⟩
    unfold iter
    rw [hl]
    simp only []
    unfold clock at hx
    rw [hx]
    simp only [hs1]
  · exact absurd hf (by simp)

/-! ## the time budget -/

/-- invariant carried along a history, for a fixed rate value `r`: the time for which the locker has been credited at rate `r`
plus what it could still claim does not exceed the time the rate HAS BEEN `r`; its clock is not in the future; and while the rate
is zero the locker carries the flag `BlockHeight = 0` (so that the switch-on moves its clock). -/
def Inv (r : Dec) (s : St) (g : Ghost) : Prop :=
  s.wl = true ∧ 0 ≤ s.coll.lsr ∧ g.acc + pending r s g.last ≤ g.pos ∧
  ∀ l, s.locker = some l → (s.coll.lsr ≠ 0 → clock s l ≤ g.last) ∧ (s.coll.lsr = 0 → l.bh = 0)

theorem since_stamped (cbt h t : Int) (hh : h ≠ 0) : since cbt h t = t := by
  unfold since; simp [hh]

theorem since_flag (cbt t : Int) : since cbt 0 t = cbt := by
  unfold since; simp


theorem inv_none (r : Dec) (s' : St) (now pos acc : Int) (hw : s'.wl = true) (h0 : 0 ≤ s'.coll.lsr)
    (hl : s'.locker = none) (ha : acc ≤ pos) : Inv r s' ⟨now, pos, acc⟩ := by
  refine ⟨hw, h0, ?_, ?_⟩
  · simp only [pending, hl]; omega
  · intro l h; rw [hl] at h; exact absurd h (by simp)

theorem inv_stamped (r : Dec) (hr : r ≠ 0) (s' : St) (now pos acc : Int) (l' : Locker) (hw : s'.wl = true)
    (h0 : 0 ≤ s'.coll.lsr) (hl : s'.locker = some l') (hc : s'.coll.lsr ≠ 0 → clock s' l' = now)
    (hz : s'.coll.lsr = 0 → l'.bh = 0) (ha : acc ≤ pos) : Inv r s' ⟨now, pos, acc⟩ := by
  refine ⟨hw, h0, ?_, ?_⟩
  · simp only [pending, hl]
    split
    · rename_i h
      have : s'.coll.lsr ≠ 0 := by rw [h]; exact hr
      rw [hc this]; omega
    · omega
  · intro l h; rw [hl] at h; injection h with h; subst h
    exact ⟨fun h => le_of_eq (hc h), hz⟩

/-- the same state, nothing credited -/
theorem inv_keep (r : Dec) (s : St) (g : Ghost) (hi : Inv r s g) : Inv r s ⟨g.last, g.pos, g.acc + 0⟩ := by
  obtain ⟨a, b, c, d⟩ := hi
  exact ⟨a, b, by simpa using c, d⟩

theorem acc_pending (r : Dec) (s : St) (g : Ghost) (l : Locker) (hi : Inv r s g) (hl : s.locker = some l) :
    g.acc + (if s.coll.lsr = r then g.last - clock s l else 0) ≤ g.pos := by
  have := hi.2.2.1
  simpa only [pending, hl] using this

theorem acc_le_pos (r : Dec) (s : St) (g : Ghost) (hi : Inv r s g) (h : s.locker = none ∨ s.coll.lsr ≠ r) : g.acc ≤ g.pos := by
  have := hi.2.2.1
  unfold pending at this
  rcases h with h | h
  · simpa [h] using this
  · cases hl : s.locker with
    | none => simpa [hl] using this
    | some l => simpa [hl, h] using this

theorem accTerm_rejected (r : Dec) (s : St) (ctx : Ctx) (op : Op) (pw : Option Int) (h : accepted (step s ctx op pw) = false) :
    accTerm r s ctx op pw = 0 := by
  unfold accTerm; simp [h]

theorem accTerm_idle (r : Dec) (s : St) (ctx : Ctx) (op : Op) (pw : Option Int) (h : accrues s op = false) :
    accTerm r s ctx op pw = 0 := by
  unfold accTerm; simp [h]

theorem accTerm_acc (r : Dec) (s : St) (ctx : Ctx) (op : Op) (pw : Option Int) (l : Locker) (ha : accepted (step s ctx op pw) = true)
    (hc : accrues s op = true) (hl : s.locker = some l) :
    accTerm r s ctx op pw = if s.coll.lsr = r then ctx.now - clock s l else 0 := by
  unfold accTerm; simp [ha, hc, hl]

theorem res_getD_ok (s s1 : St) : (Res.ok s1).getD s = s1 := rfl
theorem res_getD_err (s : St) : (Res.err).getD s = s := rfl
theorem res_getD_panic (s : St) : (Res.panic).getD s = s := rfl

/-- a rejected call: state and credited time unchanged -/
theorem inv_rejected (r : Dec) (s : St) (g : Ghost) (ctx : Ctx) (op : Op) (pw : Option Int) (hi : Inv r s g)
    (hlast : g.last = ctx.now) (h : accepted (step s ctx op pw) = false) :
    Inv r ((step s ctx op pw).getD s) ⟨ctx.now, g.pos, g.acc + accTerm r s ctx op pw⟩ := by
  have e : (step s ctx op pw).getD s = s := by
    cases hs : step s ctx op pw with
    | ok s1 => rw [hs] at h; exact absurd h (by simp [accepted])
    | err => rfl
    | panic => rfl
  rw [e, accTerm_rejected r s ctx op pw h, ← hlast]
  exact inv_keep r s g hi


/-! ### inversion of accepted steps -/

theorem map_ok (x : Res) (f : St → St) (s' : St) (h : x.map f = .ok s') : ∃ s1, x = .ok s1 ∧ s' = f s1 := by
  cases x with
  | ok s1 => simp only [Res.map] at h; injection h with h; exact ⟨s1, rfl, h.symm⟩
  | err => simp [Res.map] at h
  | panic => simp [Res.map] at h

theorem step_deposit_ok (s : St) (ctx : Ctx) (amt : Int) (pw : Option Int) (s' : St) (h : step s ctx (.deposit amt) pw = .ok s') :
    ∃ l s1, s.locker = some l ∧ accrue s ctx l pw = .ok s1 ∧ s' = restamp s1 ctx amt := by
  unfold step at h
  simp only [] at h
  split at h
  · exact absurd h (by simp)
  · split at h
    · exact absurd h (by simp)
    · rename_i l hl
      obtain ⟨s1, h1, h2⟩ := map_ok _ _ _ h
      exact ⟨l, s1, hl, h1, h2⟩

theorem step_withdraw_ok (s : St) (ctx : Ctx) (amt : Int) (pw : Option Int) (s' : St) (h : step s ctx (.withdraw amt) pw = .ok s') :
    ∃ l s1, s.locker = some l ∧ amt ≤ l.net ∧ accrue s ctx l pw = .ok s1 ∧ s' = restamp s1 ctx (-amt) := by
  unfold step at h
  simp only [] at h
  split at h
  · exact absurd h (by simp)
  · split at h
    · exact absurd h (by simp)
    · rename_i l hl
      split at h
      · exact absurd h (by simp)
      · rename_i hn
        obtain ⟨s1, h1, h2⟩ := map_ok _ _ _ h
        exact ⟨l, s1, hl, by omega, h1, h2⟩

theorem step_close_ok (s : St) (ctx : Ctx) (pw : Option Int) (s' : St) (h : step s ctx .close pw = .ok s') :
    ∃ l s1, s.locker = some l ∧ accrue s ctx l pw = .ok s1 ∧ s' = { s1 with locker := none, tracker := none } := by
  unfold step at h
  simp only [] at h
  split at h
  · exact absurd h (by simp)
  · rename_i l hl
    obtain ⟨s1, h1, h2⟩ := map_ok _ _ _ h
    exact ⟨l, s1, hl, h1, h2⟩

theorem step_calc_ok (s : St) (ctx : Ctx) (pw : Option Int) (s' : St) (h : step s ctx .rewardCalc pw = .ok s') :
    ∃ l, s.locker = some l ∧ accrue s ctx l pw = .ok s' := by
  unfold step at h
  simp only [] at h
  split at h
  · exact absurd h (by simp)
  · rename_i l hl
    exact ⟨l, hl, h⟩

theorem restamp_some (s1 : St) (ctx : Ctx) (d : Int) (l1 : Locker) (h : s1.locker = some l1) :
    (restamp s1 ctx d).wl = s1.wl ∧ (restamp s1 ctx d).coll = s1.coll ∧
    (restamp s1 ctx d).locker = some { l1 with net := l1.net + d, bh := ctx.height, bt := ctx.now } := by
  unfold restamp; rw [h]; exact ⟨rfl, rfl, rfl⟩


/-! ### the invariant, operation by operation (at the current time: `g.last = ctx.now`) -/

theorem inv_after_accrual (r : Dec) (hr : r ≠ 0) (s s' : St) (g : Ghost) (ctx : Ctx) (l l' : Locker)
    (hi : Inv r s g) (hlast : g.last = ctx.now) (hh : ctx.height ≠ 0) (hl : s.locker = some l) (hne : s.coll.lsr ≠ 0)
    (hw : s'.wl = s.wl) (hc : s'.coll = s.coll) (hl' : s'.locker = some l') (hbh : l'.bh = ctx.height) (hbt : l'.bt = ctx.now) :
    Inv r s' ⟨ctx.now, g.pos, g.acc + (if s.coll.lsr = r then ctx.now - clock s l else 0)⟩ := by
  have hp := acc_pending r s g l hi hl
  rw [hlast] at hp
  apply inv_stamped r hr s' _ _ _ l' (by rw [hw]; exact hi.1) (by rw [hc]; exact hi.2.1) hl'
  · intro _; unfold clock; rw [hbh, hbt]; exact since_stamped _ _ _ hh
  · intro h0; rw [hc] at h0; exact absurd h0 hne
  · exact hp

/-- an accepted accrual by a message at a running rate: the locker is stamped `(height, now)` -/
theorem accrue_running (s : St) (ctx : Ctx) (l : Locker) (pw : Option Int) (s1 : St) (hw : s.wl = true) (hne : s.coll.lsr ≠ 0)
    (h : accrue s ctx l pw = .ok s1) :
    s1.wl = s.wl ∧ s1.coll = s.coll ∧ ∃ l1, s1.locker = some l1 ∧ l1.bh = ctx.height ∧ l1.bt = ctx.now := by
  obtain ⟨x, _, hb⟩ := accrue_ok s ctx l pw s1 hw hne h
  exact book_some s l x _ _ s1 hb

theorem accrues_msg (s : St) (op : Op) (l : Locker) (hw : s.wl = true) (hne : s.coll.lsr ≠ 0) (hl : s.locker = some l)
    (hop : op.accruing = true) :
    accrues s op = true := by
  unfold accrues
  rw [hop, hw, hl]
  simp [hne]

theorem inv_op_deposit (r : Dec) (hr : r ≠ 0) (s : St) (g : Ghost) (ctx : Ctx) (amt : Int) (pw : Option Int)
    (hi : Inv r s g) (hlast : g.last = ctx.now) (hh : ctx.height ≠ 0) (hne : s.coll.lsr ≠ 0) :
    Inv r ((step s ctx (.deposit amt) pw).getD s) ⟨ctx.now, g.pos, g.acc + accTerm r s ctx (.deposit amt) pw⟩ := by
  cases hs : step s ctx (.deposit amt) pw with
  | err => rw [← hs]; exact inv_rejected r s g ctx _ pw hi hlast (by rw [hs]; rfl)
  | panic => rw [← hs]; exact inv_rejected r s g ctx _ pw hi hlast (by rw [hs]; rfl)
  | ok s' =>
    obtain ⟨l, s1, hl, ha, e⟩ := step_deposit_ok s ctx amt pw s' hs
    obtain ⟨w1, c1, l1, hl1, b1, t1⟩ := accrue_running s ctx l pw s1 hi.1 hne ha
    obtain ⟨w2, c2, l2⟩ := restamp_some s1 ctx amt l1 hl1
    rw [accTerm_acc r s ctx _ pw l (by rw [hs]; rfl) (accrues_msg s _ l hi.1 hne hl rfl) hl, res_getD_ok, e]
    exact inv_after_accrual r hr s _ g ctx l _ hi hlast hh hl hne (by rw [w2, w1]) (by rw [c2, c1]) l2 rfl rfl

theorem inv_op_withdraw (r : Dec) (hr : r ≠ 0) (s : St) (g : Ghost) (ctx : Ctx) (amt : Int) (pw : Option Int)
    (hi : Inv r s g) (hlast : g.last = ctx.now) (hh : ctx.height ≠ 0) (hne : s.coll.lsr ≠ 0) :
    Inv r ((step s ctx (.withdraw amt) pw).getD s) ⟨ctx.now, g.pos, g.acc + accTerm r s ctx (.withdraw amt) pw⟩ := by
  cases hs : step s ctx (.withdraw amt) pw with
  | err => rw [← hs]; exact inv_rejected r s g ctx _ pw hi hlast (by rw [hs]; rfl)
  | panic => rw [← hs]; exact inv_rejected r s g ctx _ pw hi hlast (by rw [hs]; rfl)
  | ok s' =>
    obtain ⟨l, s1, hl, _, ha, e⟩ := step_withdraw_ok s ctx amt pw s' hs
    obtain ⟨w1, c1, l1, hl1, b1, t1⟩ := accrue_running s ctx l pw s1 hi.1 hne ha
    obtain ⟨w2, c2, l2⟩ := restamp_some s1 ctx (-amt) l1 hl1
    rw [accTerm_acc r s ctx _ pw l (by rw [hs]; rfl) (accrues_msg s _ l hi.1 hne hl rfl) hl, res_getD_ok, e]
    exact inv_after_accrual r hr s _ g ctx l _ hi hlast hh hl hne (by rw [w2, w1]) (by rw [c2, c1]) l2 rfl rfl

theorem accrues_zero (s : St) (op : Op) (h : s.coll.lsr = 0) : accrues s op = false := by
  unfold accrues; simp [h]

theorem inv_op_calc (r : Dec) (hr : r ≠ 0) (s : St) (g : Ghost) (ctx : Ctx) (pw : Option Int)
    (hi : Inv r s g) (hlast : g.last = ctx.now) (hh : ctx.height ≠ 0) :
    Inv r ((step s ctx .rewardCalc pw).getD s) ⟨ctx.now, g.pos, g.acc + accTerm r s ctx .rewardCalc pw⟩ := by
  cases hs : step s ctx .rewardCalc pw with
  | err => rw [← hs]; exact inv_rejected r s g ctx _ pw hi hlast (by rw [hs]; rfl)
  | panic => rw [← hs]; exact inv_rejected r s g ctx _ pw hi hlast (by rw [hs]; rfl)
  | ok s' =>
    obtain ⟨l, hl, ha⟩ := step_calc_ok s ctx pw s' hs
    by_cases hne : s.coll.lsr = 0
    · rw [accrue_idle s ctx l pw (Or.inr hne)] at ha
      injection ha with ha; subst ha
      rw [accTerm_idle r s ctx _ pw (accrues_zero s _ hne), res_getD_ok, ← hlast]
      exact inv_keep r s g hi
    · obtain ⟨w1, c1, l1, hl1, b1, t1⟩ := accrue_running s ctx l pw s' hi.1 hne ha
      rw [accTerm_acc r s ctx _ pw l (by rw [hs]; rfl) (accrues_msg s _ l hi.1 hne hl rfl) hl, res_getD_ok]
      exact inv_after_accrual r hr s _ g ctx l _ hi hlast hh hl hne w1 c1 hl1 b1 t1

theorem inv_op_close (r : Dec) (hr : r ≠ 0) (s : St) (g : Ghost) (ctx : Ctx) (pw : Option Int)
    (hi : Inv r s g) (hlast : g.last = ctx.now) :
    Inv r ((step s ctx .close pw).getD s) ⟨ctx.now, g.pos, g.acc + accTerm r s ctx .close pw⟩ := by
  cases hs : step s ctx .close pw with
  | err => rw [← hs]; exact inv_rejected r s g ctx _ pw hi hlast (by rw [hs]; rfl)
  | panic => rw [← hs]; exact inv_rejected r s g ctx _ pw hi hlast (by rw [hs]; rfl)
  | ok s' =>
    obtain ⟨l, s1, hl, ha, e⟩ := step_close_ok s ctx pw s' hs
    rw [res_getD_ok, e]
    by_cases hne : s.coll.lsr = 0
    · rw [accrue_idle s ctx l pw (Or.inr hne)] at ha
      injection ha with ha; subst ha
      rw [accTerm_idle r s ctx _ pw (accrues_zero s _ hne)]
      have hrne : s.coll.lsr ≠ r := by rw [hne]; exact fun h => hr h.symm
      exact inv_none r _ _ _ _ hi.1 hi.2.1 rfl (by have := acc_le_pos r s g hi (Or.inr hrne); omega)
    · obtain ⟨w1, c1, _⟩ := accrue_running s ctx l pw s1 hi.1 hne ha
      rw [accTerm_acc r s ctx _ pw l (by rw [hs]; rfl) (accrues_msg s _ l hi.1 hne hl rfl) hl]
      have hp := acc_pending r s g l hi hl
      rw [hlast] at hp
      exact inv_none r _ _ _ _ (by show s1.wl = true; rw [w1]; exact hi.1) (by show 0 ≤ s1.coll.lsr; rw [c1]; exact hi.2.1) rfl hp

theorem inv_op_create (r : Dec) (hr : r ≠ 0) (s : St) (g : Ghost) (ctx : Ctx) (amt : Int) (pw : Option Int)
    (hi : Inv r s g) (hlast : g.last = ctx.now) (hh : ctx.height ≠ 0) :
    Inv r ((step s ctx (.create amt) pw).getD s) ⟨ctx.now, g.pos, g.acc + accTerm r s ctx (.create amt) pw⟩ := by
  have hidle : accTerm r s ctx (.create amt) pw = 0 := accTerm_idle r s ctx _ pw (by unfold accrues; simp [Op.accruing])
  cases hs : step s ctx (.create amt) pw with
  | err => rw [← hs]; exact inv_rejected r s g ctx _ pw hi hlast (by rw [hs]; rfl)
  | panic => rw [← hs]; exact inv_rejected r s g ctx _ pw hi hlast (by rw [hs]; rfl)
  | ok s' =>
    rw [hidle, res_getD_ok]
    unfold step at hs
    simp only [] at hs
    split at hs
    · exact absurd hs (by simp)
    · split at hs
      · exact absurd hs (by simp)
      · rename_i hnone
        injection hs with hs; subst hs
        refine inv_stamped r hr _ _ _ _ _ ?_ ?_ rfl ?_ ?_ ?_
        · exact hi.1
        · exact hi.2.1
        · intro hne
          show since s.coll.bt (if s.coll.lsr = 0 then 0 else ctx.height) ctx.now = ctx.now
          rw [if_neg hne]; exact since_stamped _ _ _ hh
        · intro h0
          show (if s.coll.lsr = 0 then 0 else ctx.height) = 0
          rw [if_pos h0]
        · have := acc_le_pos r s g hi (Or.inl hnone); omega


/-- whatever a sweep iteration does, it leaves whitelist and collector entry alone, and the locker is either untouched or
stamped `(changeTypes ? height : 0, now)` -/
theorem iter_shape (s : St) (ctx : Ctx) (rate : Dec) (cbt : Int) (ct : Bool) (pw : Option Int) (s1 : St)
    (h : iter s ctx rate cbt ct pw = some s1) :
    s1.wl = s.wl ∧ s1.coll = s.coll ∧
    (s1.locker = s.locker ∨ ∃ l1, s1.locker = some l1 ∧ l1.bh = (if ct then ctx.height else 0) ∧ l1.bt = ctx.now) := by
  unfold iter at h
  split at h
  · injection h with h; subst h; exact ⟨rfl, rfl, Or.inl rfl⟩
  · rename_i l hl
    split at h
    · exact absurd h (by simp)
    · injection h with h; subst h; exact ⟨rfl, rfl, Or.inl rfl⟩
    · rename_i x hx
      split at h
      · rename_i s2 hb
        injection h with h; subst h
        obtain ⟨a, b, l1, c, d, e⟩ := book_some s l x _ _ _ hb
        exact ⟨a, b, Or.inr ⟨l1, c, d, e⟩⟩
      · injection h with h; subst h; exact ⟨rfl, rfl, Or.inl rfl⟩

theorem step_lsr (s : St) (ctx : Ctx) (nr : Dec) (pw : Option Int) (hw : s.wl = true) :
    step s ctx (.lsrUpdate nr) pw =
      if nr = 0 then sweepRes (iter s ctx s.coll.lsr s.coll.bt false pw) ⟨nr, 0, ctx.now⟩
      else if s.coll.lsr = 0 then .ok { s with coll := ⟨nr, ctx.height, ctx.now⟩ }
      else if 0 < s.coll.lsr ∧ 0 < nr then sweepRes (iter s ctx s.coll.lsr s.coll.bt true pw) ⟨nr, ctx.height, ctx.now⟩
      else .ok { s with coll := ⟨nr, s.coll.bh, s.coll.bt⟩ } := by
  unfold step
  simp only [hw, if_true]

theorem sweepRes_some (s1 : St) (c : Coll) : sweepRes (some s1) c = .ok { s1 with coll := c } := rfl
theorem sweepRes_none (c : Coll) : sweepRes none c = .panic := rfl

theorem inv_op_lsr (r : Dec) (hr : r ≠ 0) (s : St) (g : Ghost) (ctx : Ctx) (nr : Dec) (pw : Option Int)
    (hi : Inv r s g) (hlast : g.last = ctx.now) (hh : ctx.height ≠ 0) (hnr : 0 ≤ nr)
    (hf : s.coll.lsr = 0 ∨ sweepFine s ctx pw = true) :
    Inv r ((step s ctx (.lsrUpdate nr) pw).getD s) ⟨ctx.now, g.pos, g.acc + accTerm r s ctx (.lsrUpdate nr) pw⟩ := by
  obtain ⟨hw, h0, _, hfl⟩ := hi
  have hi : Inv r s g := ⟨hw, h0, ‹_›, hfl⟩
  have hst := step_lsr s ctx nr pw hw
  by_cases hz : s.coll.lsr = 0
  · -- the rate is zero: nothing is accrued at rate r
    have hidle : accTerm r s ctx (.lsrUpdate nr) pw = 0 := accTerm_idle r s ctx _ pw (accrues_zero s _ hz)
    have hrne : s.coll.lsr ≠ r := by rw [hz]; exact fun h => hr h.symm
    have hap : g.acc + 0 ≤ g.pos := by have := acc_le_pos r s g hi (Or.inr hrne); omega
    by_cases hn : nr = 0
    · rw [if_pos hn] at hst
      cases hit : iter s ctx s.coll.lsr s.coll.bt false pw with
      | none =>
        rw [hit, sweepRes_none] at hst
        exact inv_rejected r s g ctx _ pw hi hlast (by rw [hst]; rfl)
      | some s1 =>
        rw [hit, sweepRes_some] at hst
        obtain ⟨w1, c1, lk⟩ := iter_shape s ctx _ _ _ pw s1 hit
        rw [hst, res_getD_ok, hidle]
        cases hl1 : s1.locker with
        | none => exact inv_none r _ _ _ _ (by show s1.wl = true; rw [w1]; exact hw) hnr rfl hap
        | some l1 =>
          refine inv_stamped r hr _ _ _ _ l1 (by show s1.wl = true; rw [w1]; exact hw) hnr rfl ?_ ?_ hap
          · intro hne; exact absurd hn hne
          · intro _
            rcases lk with lk | ⟨l2, e2, b2, _⟩
            · rw [lk] at hl1; exact (hfl l1 hl1).2 hz
            · rw [hl1] at e2; injection e2 with e2; subst e2; simpa using b2
    · rw [if_neg hn, if_pos hz] at hst
      rw [hst, res_getD_ok, hidle]
      cases hl : s.locker with
      | none => exact inv_none r _ _ _ _ hw hnr rfl hap
      | some l =>
        refine inv_stamped r hr _ _ _ _ l hw hnr rfl ?_ ?_ hap
        · intro _
          show since ctx.now l.bh l.bt = ctx.now
          rw [(hfl l hl).2 hz]; exact since_flag _ _
        · intro h; exact absurd h hn
  · -- a running rate is changed: the sweep settles the locker at the old rate
    have hpos : 0 < s.coll.lsr := lt_of_le_of_ne h0 (Ne.symm hz)
    have hfine : sweepFine s ctx pw = true := by rcases hf with h | h; exact absurd h hz; exact h
    cases hl : s.locker with
    | none =>
      have hidle : accTerm r s ctx (.lsrUpdate nr) pw = 0 :=
        accTerm_idle r s ctx _ pw (by unfold accrues; simp [hl])
      have hap : g.acc + 0 ≤ g.pos := by have := acc_le_pos r s g hi (Or.inl hl); omega
      have hit : ∀ ct, iter s ctx s.coll.lsr s.coll.bt ct pw = some s := by intro ct; unfold iter; rw [hl]
      by_cases hn : nr = 0
      · rw [if_pos hn, hit, sweepRes_some] at hst
        rw [hst, res_getD_ok, hidle]
        exact inv_none r _ _ _ _ hw hnr hl hap
      · have hnp : 0 < nr := lt_of_le_of_ne hnr (Ne.symm hn)
        rw [if_neg hn, if_neg hz, if_pos ⟨hpos, hnp⟩, hit, sweepRes_some] at hst
        rw [hst, res_getD_ok, hidle]
        exact inv_none r _ _ _ _ hw hnr hl hap
    | some l =>
      have hp := acc_pending r s g l hi hl
      rw [hlast] at hp
      by_cases hn : nr = 0
      · obtain ⟨x, s1, _, hit, hb⟩ := iter_fine s ctx false pw l hl hfine
        obtain ⟨w1, c1, l1, e1, b1, t1⟩ := book_some s l x _ _ s1 hb
        rw [if_pos hn, hit, sweepRes_some] at hst
        rw [accTerm_acc r s ctx _ pw l (by rw [hst]; rfl) (accrues_msg s _ l hw hz hl rfl) hl, hst, res_getD_ok]
        refine inv_stamped r hr _ _ _ _ l1 (by show s1.wl = true; rw [w1]; exact hw) hnr e1 ?_ ?_ hp
        · intro hne; exact absurd hn hne
        · intro _; simpa using b1
      · have hnp : 0 < nr := lt_of_le_of_ne hnr (Ne.symm hn)
        obtain ⟨x, s1, _, hit, hb⟩ := iter_fine s ctx true pw l hl hfine
        obtain ⟨w1, c1, l1, e1, b1, t1⟩ := book_some s l x _ _ s1 hb
        rw [if_neg hn, if_neg hz, if_pos ⟨hpos, hnp⟩, hit, sweepRes_some] at hst
        rw [accTerm_acc r s ctx _ pw l (by rw [hst]; rfl) (accrues_msg s _ l hw hz hl rfl) hl, hst, res_getD_ok]
        refine inv_stamped r hr _ _ _ _ l1 (by show s1.wl = true; rw [w1]; exact hw) hnr e1 ?_ ?_ hp
        · intro _
          show since ctx.now l1.bh l1.bt = ctx.now
          rw [t1]; simp only [if_true] at b1; rw [b1]; exact since_stamped _ _ _ hh
        · intro h; exact absurd h hn


/-! ### time passes; one step; a history -/

theorem inv_time (r : Dec) (s : St) (g : Ghost) (t : Int) (hi : Inv r s g) (ht : g.last ≤ t) :
    Inv r s ⟨t, g.pos + (if s.coll.lsr = r then t - g.last else 0), g.acc⟩ := by
  obtain ⟨hw, h0, hb, hfl⟩ := hi
  refine ⟨hw, h0, ?_, ?_⟩
  · unfold pending at hb ⊢
    cases hl : s.locker with
    | none => rw [hl] at hb; simp only [] at hb ⊢; split <;> omega
    | some l => rw [hl] at hb; simp only [] at hb ⊢; split <;> (simp_all; try omega)
  · intro l hl
    obtain ⟨a, b⟩ := hfl l hl
    exact ⟨fun h => le_trans (a h) ht, b⟩

theorem inv_op_wlOn (r : Dec) (s : St) (g : Ghost) (ctx : Ctx) (pw : Option Int) (hi : Inv r s g) (hlast : g.last = ctx.now) :
    Inv r ((step s ctx .wlOn pw).getD s) ⟨ctx.now, g.pos, g.acc + accTerm r s ctx .wlOn pw⟩ := by
  rw [accTerm_idle r s ctx _ pw (by unfold accrues; simp [Op.accruing])]
  obtain ⟨hw, h0, hb, hfl⟩ := hi
  rw [← hlast]
  have e : (step s ctx .wlOn pw).getD s = { s with wl := true } := rfl
  rw [e]
  exact ⟨rfl, h0, by simpa [pending, clock] using hb, hfl⟩

theorem inv_step (r : Dec) (hr : r ≠ 0) (s : St) (g : Ghost) (ctx : Ctx) (op : Op) (pw : Option Int)
    (hi : Inv r s g) (hg : goodStep s g.last ctx op pw = true) :
    Inv r ((step s ctx op pw).getD s) (gstep r s g ctx op pw) := by
  unfold goodStep at hg
  simp only [Bool.and_eq_true, decide_eq_true_eq] at hg
  obtain ⟨⟨ht, hh⟩, hop⟩ := hg
  have hi1 := inv_time r s g ctx.now hi ht
  cases op with
  | create amt => exact inv_op_create r hr s _ ctx amt pw hi1 rfl hh
  | deposit amt =>
    have hne : s.coll.lsr ≠ 0 := by simpa [opCond] using hop
    exact inv_op_deposit r hr s _ ctx amt pw hi1 rfl hh hne
  | withdraw amt =>
    have hne : s.coll.lsr ≠ 0 := by simpa [opCond] using hop
    exact inv_op_withdraw r hr s _ ctx amt pw hi1 rfl hh hne
  | close => exact inv_op_close r hr s _ ctx pw hi1 rfl
  | rewardCalc => exact inv_op_calc r hr s _ ctx pw hi1 rfl hh
  | lsrUpdate nr =>
    simp only [opCond, Bool.and_eq_true, decide_eq_true_eq, Bool.or_eq_true, beq_iff_eq] at hop
    exact inv_op_lsr r hr s _ ctx nr pw hi1 rfl hh hop.1 hop.2
  | wlOn => exact inv_op_wlOn r s _ ctx pw hi1 rfl
  | wlOff => simp [opCond] at hop

theorem inv_run (r : Dec) (hr : r ≠ 0) : ∀ (h : Hist) (s : St) (g : Ghost), Inv r s g → goodHist s g.last h = true →
    Inv r (grun r s g h).1 (grun r s g h).2
  | [], _, _, hi, _ => hi
  | (ctx, op, pw) :: h, s, g, hi, hg => by
    unfold goodHist at hg
    simp only [Bool.and_eq_true] at hg
    unfold grun
    exact inv_run r hr h _ _ (inv_step r hr s g ctx op pw hi hg.1) hg.2


/-! ## amounts: what one accrual books (relative to `FloatOps`) -/

/-- booking conserves: whole units on the locker plus the tracker grow by exactly the accrued amount; the whole units come out of
the net fees and go into the balance; the tracker stays in [0,1) -/
theorem book_books (s : St) (l : Locker) (x : Dec) (h t : Int) (s1 : St) (hl : s.locker = some l)
    (h0 : 0 ≤ s.tracker.getD 0 + x) (hb : book s l x h t = some s1) :
    booked s1 = booked s + x ∧ s1.coll = s.coll ∧ s1.wl = s.wl ∧
    0 ≤ s1.tracker.getD 0 ∧ s1.tracker.getD 0 < Dec.one ∧
    ∃ l1, s1.locker = some l1 ∧ l1.bh = h ∧ l1.bt = t ∧ l.ret ≤ l1.ret ∧ l1.net - l.net = l1.ret - l.ret ∧
      s1.fees = s.fees - (l1.ret - l.ret) := by
  obtain ⟨a, b, c, d⟩ := trackerStep_spec (s.tracker.getD 0) x h0
  unfold book at hb
  simp only [] at hb
  split at hb
  · split at hb
    · exact absurd hb (by simp)
    · injection hb with hb; subst hb
      refine ⟨?_, rfl, rfl, by simpa using b, by simpa using c, _, rfl, rfl, rfl, by simp only []; omega, by simp only []; omega,
        by simp only []; omega⟩
      unfold booked
      simp only [hl, Option.getD_some]
      have : (l.ret + (trackerStep (s.tracker.getD 0) x).1) * Dec.P
          = l.ret * Dec.P + (trackerStep (s.tracker.getD 0) x).1 * Dec.P := by ring
      rw [this]; omega
  · rename_i hlt
    injection hb with hb; subst hb
    refine ⟨?_, rfl, rfl, by simpa using h0, by simpa using (not_le.mp hlt), _, rfl, rfl, rfl, le_refl _, by simp, by simp⟩
    unfold booked
    simp only [hl, Option.getD_some]
    omega

/-- one accrual by a message at a running rate, power function of `ops`: the accrued interval is `[clock, now]`, it books
exactly `interest` over it at the rate in force, stamps the locker `(height, now)`, and leaves the collector entry alone -/
theorem accrue_books (ops : FloatOps) (s : St) (ctx : Ctx) (l : Locker) (s1 : St)
    (hw : s.wl = true) (hne : s.coll.lsr ≠ 0) (hr : 0 ≤ s.coll.lsr) (hl : s.locker = some l) (hn : 0 ≤ l.net)
    (htr : 0 ≤ s.tracker.getD 0)
    (h : accrue s ctx l (some (ops.pow (xF s.coll.lsr) (yF (ctx.now - clock s l)))) = .ok s1) :
    0 ≤ ctx.now - clock s l ∧
    booked s1 = booked s + interest ops l.net s.coll.lsr (ctx.now - clock s l) ∧ s1.coll = s.coll ∧ s1.wl = s.wl ∧
    0 ≤ s1.tracker.getD 0 ∧ s1.tracker.getD 0 < Dec.one ∧
    ∃ l1, s1.locker = some l1 ∧ l1.bh = ctx.height ∧ l1.bt = ctx.now ∧ l.ret ≤ l1.ret ∧ l1.net - l.net = l1.ret - l.ret ∧
      s1.fees = s.fees - (l1.ret - l.ret) := by
  obtain ⟨x, hx, hb⟩ := accrue_ok s ctx l _ s1 hw hne h
  obtain ⟨ex, hsec⟩ := VaultAccrual.calcRewards_eq_ok _ _ _ _ _ hx
  have hx0 : 0 ≤ x := by
    rw [ex]; exact interestOfPow_nonneg _ _ (ops.pow_ge_one _ _ hr hsec) (aF_nonneg l.net hn)
  obtain ⟨b1, b2⟩ := book_books s l x _ _ s1 hl (Int.add_nonneg htr hx0) hb
  refine ⟨hsec, ?_, b2⟩
  rw [b1, ex]; rfl

/-- the sweep of a rate update at a running rate, power function of `ops`: it settles `[clock, now]` at the OLD rate and stamps
the locker `(changeTypes ? height : 0, now)` -/
theorem iter_books (ops : FloatOps) (s : St) (ctx : Ctx) (ct : Bool) (l : Locker)
    (hr : 0 ≤ s.coll.lsr) (hl : s.locker = some l) (hn : 0 ≤ l.net) (htr : 0 ≤ s.tracker.getD 0)
    (hf : sweepFine s ctx (some (ops.pow (xF s.coll.lsr) (yF (ctx.now - clock s l)))) = true) :
    ∃ s1, iter s ctx s.coll.lsr s.coll.bt ct (some (ops.pow (xF s.coll.lsr) (yF (ctx.now - clock s l)))) = some s1 ∧
    0 ≤ ctx.now - clock s l ∧
    booked s1 = booked s + interest ops l.net s.coll.lsr (ctx.now - clock s l) ∧ s1.coll = s.coll ∧ s1.wl = s.wl ∧
    0 ≤ s1.tracker.getD 0 ∧ s1.tracker.getD 0 < Dec.one ∧
    ∃ l1, s1.locker = some l1 ∧ l1.bh = (if ct then ctx.height else 0) ∧ l1.bt = ctx.now ∧ l.ret ≤ l1.ret ∧
      l1.net - l.net = l1.ret - l.ret ∧ s1.fees = s.fees - (l1.ret - l.ret) := by
  obtain ⟨x, s1, hx, hit, hb⟩ := iter_fine s ctx ct _ l hl hf
  obtain ⟨ex, hsec⟩ := VaultAccrual.calcRewards_eq_ok _ _ _ _ _ hx
  have hx0 : 0 ≤ x := by
    rw [ex]; exact interestOfPow_nonneg _ _ (ops.pow_ge_one _ _ hr hsec) (aF_nonneg l.net hn)
  obtain ⟨b1, b2⟩ := book_books s l x _ _ s1 hl (Int.add_nonneg htr hx0) hb
  refine ⟨s1, hit, hsec, ?_, b2⟩
  rw [b1, ex]; rfl


theorem powOf_some (ops : FloatOps) (s : St) (ctx : Ctx) (l : Locker) (hl : s.locker = some l) :
    powOf ops s ctx = some (ops.pow (xF s.coll.lsr) (yF (ctx.now - clock s l))) := by
  unfold powOf; rw [hl]

/-- the hypotheses about a state with a live locker that the amount-level theorems share -/
structure Live (s : St) (l : Locker) : Prop where
  wl : s.wl = true
  rate : 0 ≤ s.coll.lsr
  lk : s.locker = some l
  net : 0 ≤ l.net
  tr : 0 ≤ s.tracker.getD 0

/-- **a reward-calc message at a running rate** books exactly `interest` over `[clock, now]` at the rate in force -/
theorem calc_books (ops : FloatOps) (s : St) (ctx : Ctx) (l : Locker) (s1 : St) (hv : Live s l) (hne : s.coll.lsr ≠ 0)
    (h : stepWith ops s ctx .rewardCalc = .ok s1) :
    0 ≤ ctx.now - clock s l ∧
    booked s1 = booked s + interest ops l.net s.coll.lsr (ctx.now - clock s l) ∧ s1.coll = s.coll ∧ s1.wl = s.wl ∧
    0 ≤ s1.tracker.getD 0 ∧ s1.tracker.getD 0 < Dec.one ∧
    ∃ l1, s1.locker = some l1 ∧ l1.bh = ctx.height ∧ l1.bt = ctx.now ∧ l.ret ≤ l1.ret ∧ l1.net - l.net = l1.ret - l.ret ∧
      s1.fees = s.fees - (l1.ret - l.ret) := by
  unfold stepWith at h
  rw [powOf_some ops s ctx l hv.lk] at h
  obtain ⟨l', hl', ha⟩ := step_calc_ok s ctx _ s1 h
  have : l' = l := by rw [hv.lk] at hl'; injection hl' with e; exact e.symm
  subst this
  exact accrue_books ops s ctx l' s1 hv.wl hne hv.rate hv.lk hv.net hv.tr ha

/-- **a rate update at a running rate** settles `[clock, now]` at the OLD rate, writes the new rate and `BlockTime = now` into
the collector entry, and restarts the locker's clock: stamped `(height, now)`, or flagged `BlockHeight = 0` when the new rate is 0 -/
theorem lsr_running_books (ops : FloatOps) (s : St) (ctx : Ctx) (nr : Dec) (l : Locker) (hv : Live s l) (hne : s.coll.lsr ≠ 0)
    (hnr : 0 ≤ nr) (hh : ctx.height ≠ 0) (hf : sweepFine s ctx (powOf ops s ctx) = true) :
    ∃ s1, stepWith ops s ctx (.lsrUpdate nr) = .ok s1 ∧ 0 ≤ ctx.now - clock s l ∧
    booked s1 = booked s + interest ops l.net s.coll.lsr (ctx.now - clock s l) ∧
    s1.coll.lsr = nr ∧ s1.coll.bt = ctx.now ∧ s1.wl = true ∧
    0 ≤ s1.tracker.getD 0 ∧ s1.tracker.getD 0 < Dec.one ∧
    ∃ l1, s1.locker = some l1 ∧ (nr ≠ 0 → clock s1 l1 = ctx.now) ∧ (nr = 0 → l1.bh = 0) ∧ l.ret ≤ l1.ret ∧
      l1.net - l.net = l1.ret - l.ret ∧ s1.fees = s.fees - (l1.ret - l.ret) := by
  have hpos : 0 < s.coll.lsr := lt_of_le_of_ne hv.rate (Ne.symm hne)
  have hst := step_lsr s ctx nr (powOf ops s ctx) hv.wl
  rw [powOf_some ops s ctx l hv.lk] at hst hf
  unfold stepWith
  rw [powOf_some ops s ctx l hv.lk]
  by_cases hn : nr = 0
  · obtain ⟨s1, hit, d, b, c1, w1, t1, t2, l1, e1, bh1, bt1, r1, n1, f1⟩ :=
      iter_books ops s ctx false l hv.rate hv.lk hv.net hv.tr hf
    rw [if_pos hn, hit, sweepRes_some] at hst
    refine ⟨_, hst, d, ?_, rfl, rfl, by show s1.wl = true; rw [w1]; exact hv.wl, t1, t2, l1, e1, ?_, ?_, r1, n1, f1⟩
    · show booked { s1 with coll := _ } = _
      exact b
    · intro h; exact absurd hn h
    · intro _; simpa using bh1
  · have hnp : 0 < nr := lt_of_le_of_ne hnr (Ne.symm hn)
    obtain ⟨s1, hit, d, b, c1, w1, t1, t2, l1, e1, bh1, bt1, r1, n1, f1⟩ :=
      iter_books ops s ctx true l hv.rate hv.lk hv.net hv.tr hf
    rw [if_neg hn, if_neg hne, if_pos ⟨hpos, hnp⟩, hit, sweepRes_some] at hst
    refine ⟨_, hst, d, ?_, rfl, rfl, by show s1.wl = true; rw [w1]; exact hv.wl, t1, t2, l1, e1, ?_, ?_, r1, n1, f1⟩
    · show booked { s1 with coll := _ } = _
      exact b
    · intro _
      show since ctx.now l1.bh l1.bt = ctx.now
      simp only [if_true] at bh1
      rw [bh1, bt1]; exact since_stamped _ _ _ hh
    · intro h; exact absurd h hn

/-- **the rate is switched on** (0 → r): nothing is booked; the collector entry is stamped `now`; a locker that carries the
flag `BlockHeight = 0` has its clock moved to `now` -/
theorem lsr_switch_on (s : St) (ctx : Ctx) (nr : Dec) (pw : Option Int) (hw : s.wl = true) (hz : s.coll.lsr = 0) (hn : nr ≠ 0) :
    step s ctx (.lsrUpdate nr) pw = .ok { s with coll := ⟨nr, ctx.height, ctx.now⟩ } ∧
    ∀ l, s.locker = some l → l.bh = 0 → clock { s with coll := ⟨nr, ctx.height, ctx.now⟩ } l = ctx.now := by
  have hst := step_lsr s ctx nr pw hw
  rw [if_neg hn, if_pos hz] at hst
  refine ⟨hst, fun l _ hb => ?_⟩
  show since ctx.now l.bh l.bt = ctx.now
  rw [hb]; exact since_flag _ _

/-- while the rate is zero a reward-calc message changes nothing -/
theorem calc_at_zero (s : St) (ctx : Ctx) (pw : Option Int) (hz : s.coll.lsr = 0) :
    (step s ctx .rewardCalc pw).getD s = s := by
  unfold step
  simp only []
  split
  · rfl
  · rename_i l _
    rw [accrue_idle s ctx l pw (Or.inr hz)]; rfl

theorem runWith_calcs_at_zero (ops : FloatOps) : ∀ (w : List (Ctx × Op)) (s : St), s.coll.lsr = 0 →
    (∀ p ∈ w, p.2 = Op.rewardCalc) → runWith ops s w = s
  | [], _, _, _ => rfl
  | (ctx, op) :: w, s, hz, hw => by
    have e : op = .rewardCalc := hw (ctx, op) (by simp)
    subst e
    unfold runWith
    have : (stepWith ops s ctx .rewardCalc).getD s = s := calc_at_zero s ctx _ hz
    rw [this]
    exact runWith_calcs_at_zero ops w s hz (fun p hp => hw p (by simp [hp]))


/-- **a zero-rate window earns nothing.** The rate is switched off at `ca` (the sweep settles the locker up to `ca` and flags it),
any number of reward-calc messages arrive during the window at any times, the rate is switched on again at `cb`, and the locker
accrues at `cc`: over the whole history it is credited what it had at the switch-off plus `interest` over `[cb, cc]` at the NEW
rate — nothing for `[ca, cb]` — and nothing at all when the accrual is in the block of the switch-on. -/
theorem zero_window (ops : FloatOps) (s0 : St) (l0 : Locker) (ca cb cc : Ctx) (nr : Dec) (w : List (Ctx × Op))
    (hv : Live s0 l0) (hne : s0.coll.lsr ≠ 0) (hfa : sweepFine s0 ca (powOf ops s0 ca) = true) (hha : ca.height ≠ 0)
    (hw : ∀ p ∈ w, p.2 = Op.rewardCalc) (hnr : 0 < nr) :
    ∃ s1 l1 s3, stepWith ops s0 ca (.lsrUpdate 0) = .ok s1 ∧ s1.locker = some l1 ∧ s1.coll.lsr = 0 ∧
      runWith ops s1 w = s1 ∧
      stepWith ops s1 cb (.lsrUpdate nr) = .ok s3 ∧ s3.locker = some l1 ∧ clock s3 l1 = cb.now ∧ booked s3 = booked s1 ∧
      ∀ s4, stepWith ops s3 cc .rewardCalc = .ok s4 →
        booked s4 = booked s1 + interest ops l1.net nr (cc.now - cb.now) ∧ (cc.now = cb.now → booked s4 = booked s1) := by
  obtain ⟨s1, e1, _, _, r1, _, w1, t1, _, l1, k1, _, z1, _, n1, _⟩ :=
    lsr_running_books ops s0 ca 0 l0 hv hne (le_refl _) hha hfa
  have hn1 : 0 ≤ l1.net := by have := hv.net; omega
  have hnr0 : nr ≠ 0 := ne_of_gt hnr
  obtain ⟨e3, c3⟩ := lsr_switch_on s1 cb nr (powOf ops s1 cb) w1 r1 hnr0
  have hc3 := c3 l1 k1 (z1 rfl)
  refine ⟨s1, l1, _, e1, k1, r1, runWith_calcs_at_zero ops w s1 r1 hw, e3, k1, hc3, rfl, ?_⟩
  intro s4 e4
  have hv3 : Live { s1 with coll := ⟨nr, cb.height, cb.now⟩ } l1 := ⟨w1, le_of_lt hnr, k1, hn1, t1⟩
  obtain ⟨_, b4, _⟩ := calc_books ops _ cc l1 s4 hv3 hnr0 e4
  rw [hc3] at b4
  refine ⟨b4, fun h => ?_⟩
  rw [b4, h, Int.sub_self]
  have : interest ops l1.net nr 0 = 0 := by
    unfold interest; rw [ops.pow_zero nr (le_of_lt hnr)]; exact interestOfPow_one _
  show booked s1 + interest ops l1.net nr 0 = booked s1
  rw [this]; simp

/-- **two accruals against one, the second being a reward-calc message or a rate update** (sub-additivity, also across a rate
change): a reward-calc at `c1` followed by `op2` at `c2` books at most what `op2` alone books at `c2`, plus the float slack, plus
the interest over `[c1, c2]` on the whole units the first call moved into the balance. `op2` books `interest` over its interval
at the rate in force (hypotheses `b2`, `b'`: `calc_books` / `lsr_running_books` provide them). -/
theorem two_le_one (ops : FloatOps) (s s1 : St) (l l1 : Locker) (c1 : Ctx) (t2 : Int) (B2 B' : Int)
    (hv : Live s l) (hne : s.coll.lsr ≠ 0) (hn63 : l.net ≤ 2 ^ 63) (hh : c1.height ≠ 0) (h12 : c1.now ≤ t2)
    (e1 : stepWith ops s c1 .rewardCalc = .ok s1) (k1 : s1.locker = some l1)
    (b2 : B2 = booked s1 + interest ops l1.net s.coll.lsr (t2 - clock s1 l1))
    (b' : B' = booked s + interest ops l.net s.coll.lsr (t2 - clock s l)) :
    ((B2 : Int) : ℚ) ≤ ((B' : Int) : ℚ)
      + subaddErr ops.E (aF l.net) (ops.pow (xF s.coll.lsr) (yF (t2 - clock s l)))
      + ((interest ops l1.net s.coll.lsr (t2 - c1.now) - interest ops l.net s.coll.lsr (t2 - c1.now) : Int) : ℚ) := by
  obtain ⟨d1, b1, cc1, _, _, _, l1', k1', bh1, bt1, _⟩ := calc_books ops s c1 l s1 hv hne e1
  have : l1' = l1 := by rw [k1] at k1'; injection k1' with e; exact e.symm
  subst this
  have hclk : clock s1 l1' = c1.now := by
    unfold clock; rw [bh1, bt1]; exact since_stamped _ _ _ hh
  rw [hclk] at b2
  generalize clock s l = base at *
  have hsum : (c1.now - base) + (t2 - c1.now) = t2 - base := by ring
  have key := two_interval ops l.net s.coll.lsr (c1.now - base) (t2 - c1.now) hv.net hn63 hv.rate d1 (by linarith)
  rw [hsum] at key
  rw [b2, b', b1]
  push_cast at key ⊢
  linarith


theorem booked_restamp (s1 : St) (ctx : Ctx) (d : Int) : booked (restamp s1 ctx d) = booked s1 := by
  unfold restamp booked
  cases h : s1.locker with
  | none => simp [h]
  | some l => simp

/-- **deposit / withdraw at a running rate**: the accrual comes first, on the balance BEFORE the movement, over `[clock, now]`;
then the balance moves and the locker is stamped `(height, now)` -/
theorem move_books (ops : FloatOps) (s : St) (ctx : Ctx) (l : Locker) (s' : St) (op : Op) (d : Int) (hv : Live s l)
    (hne : s.coll.lsr ≠ 0) (hop : (op = .deposit d) ∨ (op = .withdraw (-d)))
    (h : stepWith ops s ctx op = .ok s') :
    0 ≤ ctx.now - clock s l ∧
    booked s' = booked s + interest ops l.net s.coll.lsr (ctx.now - clock s l) ∧ s'.coll = s.coll ∧
    ∃ l', s'.locker = some l' ∧ l'.bh = ctx.height ∧ l'.bt = ctx.now ∧ l.ret ≤ l'.ret ∧ l'.net = l.net + (l'.ret - l.ret) + d := by
  unfold stepWith at h
  rw [powOf_some ops s ctx l hv.lk] at h
  have key : ∃ l0 s1, s.locker = some l0 ∧ accrue s ctx l0 (some (ops.pow (xF s.coll.lsr) (yF (ctx.now - clock s l)))) = .ok s1 ∧
      s' = restamp s1 ctx d := by
    rcases hop with e | e
    · subst e; exact step_deposit_ok s ctx d _ s' h
    · subst e
      obtain ⟨l0, s1, a, _, b, c⟩ := step_withdraw_ok s ctx (-d) _ s' h
      exact ⟨l0, s1, a, b, by simpa using c⟩
  obtain ⟨l0, s1, hl0, ha, e⟩ := key
  have : l0 = l := by rw [hv.lk] at hl0; injection hl0 with e; exact e.symm
  subst this
  obtain ⟨d0, b, c, _, _, _, l1, k1, _, _, r1, n1, _⟩ := accrue_books ops s ctx l0 s1 hv.wl hne hv.rate hv.lk hv.net hv.tr ha
  obtain ⟨_, c2, k2⟩ := restamp_some s1 ctx d l1 k1
  subst e
  refine ⟨d0, by rw [booked_restamp]; exact b, by rw [c2]; exact c, _, k2, rfl, rfl, r1, ?_⟩
  show l1.net + d = l0.net + (l1.ret - l0.ret) + d
  omega


/-! ## with the repair of D45 the time budget holds for ALL histories -/

theorem accrue_coll (s : St) (ctx : Ctx) (l : Locker) (pw : Option Int) (s1 : St) (h : accrue s ctx l pw = .ok s1) :
    s1.coll = s.coll ∧ s1.wl = s.wl := by
  by_cases hw : s.wl = true
  · by_cases hz : s.coll.lsr = 0
    · rw [accrue_idle s ctx l pw (Or.inr hz)] at h; injection h with h; subst h; exact ⟨rfl, rfl⟩
    · obtain ⟨a, b, _⟩ := accrue_running s ctx l pw s1 hw hz h; exact ⟨b, a⟩
  · rw [accrue_idle s ctx l pw (Or.inl (by simpa using hw))] at h; injection h with h; subst h; exact ⟨rfl, rfl⟩

theorem restampFix_running (s1 : St) (ctx : Ctx) (d : Int) (h : s1.coll.lsr ≠ 0) : restampFix s1 ctx d = restamp s1 ctx d := by
  unfold restampFix restamp
  cases s1.locker with
  | none => rfl
  | some l => simp [h]

theorem stepFix_running (s : St) (ctx : Ctx) (op : Op) (pw : Option Int) (h : s.coll.lsr ≠ 0) :
    stepFix s ctx op pw = step s ctx op pw := by
  have key : ∀ (l : Locker) (d : Int), (accrue s ctx l pw).map (fun s1 => restampFix s1 ctx d)
      = (accrue s ctx l pw).map (fun s1 => restamp s1 ctx d) := by
    intro l d
    cases ha : accrue s ctx l pw with
    | ok s1 =>
      have hc := (accrue_coll s ctx l pw s1 ha).1
      simp only [Res.map]
      rw [restampFix_running s1 ctx d (by rw [hc]; exact h)]
    | err => rfl
    | panic => rfl
  cases op with
  | deposit amt =>
    unfold stepFix step
    simp only []
    split
    · rfl
    · split
      · rfl
      · exact key _ _
  | withdraw amt =>
    unfold stepFix step
    simp only []
    split
    · rfl
    · split
      · rfl
      · split
        · rfl
        · exact key _ _
  | create _ => rfl
  | close => rfl
  | rewardCalc => rfl
  | lsrUpdate _ => rfl
  | wlOn => rfl
  | wlOff => rfl

theorem stepFix_other (s : St) (ctx : Ctx) (op : Op) (pw : Option Int)
    (h : ∀ a, op ≠ .deposit a ∧ op ≠ .withdraw a) : stepFix s ctx op pw = step s ctx op pw := by
  cases op with
  | deposit a => exact absurd rfl (h a).1
  | withdraw a => exact absurd rfl (h a).2
  | create _ => rfl
  | close => rfl
  | rewardCalc => rfl
  | lsrUpdate _ => rfl
  | wlOn => rfl
  | wlOff => rfl

theorem accTermFix_eq (r : Dec) (s : St) (ctx : Ctx) (op : Op) (pw : Option Int) (h : stepFix s ctx op pw = step s ctx op pw) :
    accTermFix r s ctx op pw = accTerm r s ctx op pw := by
  unfold accTermFix accTerm; rw [h]

/-- deposit / withdraw at rate zero with the repair: the locker keeps (gets) the flag, nothing is credited -/
theorem inv_move_zero_fix (r : Dec) (hr : r ≠ 0) (s : St) (g : Ghost) (ctx : Ctx) (op : Op) (pw : Option Int)
    (hi : Inv r s g) (hlast : g.last = ctx.now) (hz : s.coll.lsr = 0) (hop : (∃ a, op = .deposit a) ∨ (∃ a, op = .withdraw a)) :
    Inv r ((stepFix s ctx op pw).getD s) ⟨ctx.now, g.pos, g.acc + accTermFix r s ctx op pw⟩ := by
  have hidle : accTermFix r s ctx op pw = 0 := by
    unfold accTermFix; simp [accrues_zero s op hz]
  have hrne : s.coll.lsr ≠ r := by rw [hz]; exact fun h => hr h.symm
  have hap : g.acc + 0 ≤ g.pos := by have := acc_le_pos r s g hi (Or.inr hrne); omega
  rw [hidle]
  have keep : Inv r s ⟨ctx.now, g.pos, g.acc + 0⟩ := by rw [← hlast]; exact inv_keep r s g hi
  -- shape of the result
  have shape : (stepFix s ctx op pw).getD s = s ∨
      ∃ l d, s.locker = some l ∧ (stepFix s ctx op pw).getD s = restampFix s ctx d := by
    rcases hop with ⟨a, e⟩ | ⟨a, e⟩
    · subst e
      unfold stepFix
      simp only []
      split
      · exact Or.inl rfl
      · split
        · exact Or.inl rfl
        · rename_i l hl
          rw [accrue_idle s ctx l pw (Or.inr hz)]
          exact Or.inr ⟨l, a, hl, rfl⟩
    · subst e
      unfold stepFix
      simp only []
      split
      · exact Or.inl rfl
      · split
        · exact Or.inl rfl
        · rename_i l hl
          split
          · exact Or.inl rfl
          · rw [accrue_idle s ctx l pw (Or.inr hz)]
            exact Or.inr ⟨l, -a, hl, rfl⟩
  rcases shape with e | ⟨l, d, hl, e⟩
  · rw [e]; exact keep
  · rw [e]
    unfold restampFix
    rw [hl]
    simp only [hz, if_true]
    refine inv_stamped r hr _ _ _ _ _ hi.1 hi.2.1 rfl ?_ ?_ hap
    · intro hne; exact absurd hz hne
    · intro _; rfl

theorem inv_stepFix (r : Dec) (hr : r ≠ 0) (s : St) (g : Ghost) (ctx : Ctx) (op : Op) (pw : Option Int)
    (hi : Inv r s g) (hg : goodStepFix s g.last ctx op pw = true) :
    Inv r ((stepFix s ctx op pw).getD s) (gstepFix r s g ctx op pw) := by
  unfold goodStepFix at hg
  simp only [Bool.and_eq_true, decide_eq_true_eq] at hg
  obtain ⟨⟨ht, hh⟩, hop⟩ := hg
  have hi1 := inv_time r s g ctx.now hi ht
  -- everything except deposit / withdraw at rate zero is a step of the unrepaired model that `goodStep` allows
  have reuse : stepFix s ctx op pw = step s ctx op pw → goodStep s g.last ctx op pw = true →
      Inv r ((stepFix s ctx op pw).getD s) (gstepFix r s g ctx op pw) := by
    intro e hgs
    have := inv_step r hr s g ctx op pw hi hgs
    unfold gstepFix
    rw [e, accTermFix_eq r s ctx op pw e]
    exact this
  have good_of (hc : opCond s ctx op pw = true) : goodStep s g.last ctx op pw = true := by
    unfold goodStep
    simp only [Bool.and_eq_true, decide_eq_true_eq]
    exact ⟨⟨ht, hh⟩, hc⟩
  by_cases hz : s.coll.lsr = 0
  · cases op with
    | deposit a => exact inv_move_zero_fix r hr s _ ctx _ pw hi1 rfl hz (Or.inl ⟨a, rfl⟩)
    | withdraw a => exact inv_move_zero_fix r hr s _ ctx _ pw hi1 rfl hz (Or.inr ⟨a, rfl⟩)
    | create a => exact reuse rfl (good_of rfl)
    | close => exact reuse rfl (good_of rfl)
    | rewardCalc => exact reuse rfl (good_of rfl)
    | lsrUpdate nr => exact reuse rfl (good_of hop)
    | wlOn => exact reuse rfl (good_of rfl)
    | wlOff => simp [opCondFix] at hop
  · have e := stepFix_running s ctx op pw hz
    cases op with
    | deposit a => exact reuse e (good_of (by simpa [opCond] using hz))
    | withdraw a => exact reuse e (good_of (by simpa [opCond] using hz))
    | create a => exact reuse rfl (good_of rfl)
    | close => exact reuse rfl (good_of rfl)
    | rewardCalc => exact reuse rfl (good_of rfl)
    | lsrUpdate nr => exact reuse rfl (good_of hop)
    | wlOn => exact reuse rfl (good_of rfl)
    | wlOff => simp [opCondFix] at hop

theorem inv_runFix (r : Dec) (hr : r ≠ 0) : ∀ (h : Hist) (s : St) (g : Ghost), Inv r s g → goodHistFix s g.last h = true →
    Inv r (grunFix r s g h).1 (grunFix r s g h).2
  | [], _, _, hi, _ => hi
  | (ctx, op, pw) :: h, s, g, hi, hg => by
    unfold goodHistFix at hg
    simp only [Bool.and_eq_true] at hg
    unfold grunFix
    exact inv_runFix r hr h _ _ (inv_stepFix r hr s g ctx op pw hi hg.1) hg.2

end Comdex.LockerAccrual
