import Mathlib.Tactic.Linarith
import Mathlib.Tactic.Ring
import Comdex.Model.Vault
import Comdex.Lemmas.DutchPrice
/-!
Exact-rational content of the collateralization check (C03).

`calcCR` computes `quo (valueOf amountIn pin decIn) (valueOf debt pout decOut)` with three 18-digit roundings
(two `Quo` by the decimal scales — each a truncated big-integer division followed by a half-even drop of 18 digits —
and the final `Quo`). The lemmas below bound each rounding by integers, so that "the computed ratio is at least
`minCr`" becomes an inequality between the *exact* products `amountIn·pin`, `debt·pout`, the decimal scales and `minCr`
with explicit slack of half a unit of the 18th digit per rounding. No rational numbers are needed: every statement is
multiplied out.
-/
namespace Comdex.Vault
open Comdex Comdex.Dec Comdex.DutchPrice

theorem P_pos : (0 : Int) < P := by simp [P]

/-- closed form of `valueOf`: one truncated division and one half-even rounding -/
theorem valueOf_eq (amt : Int) (price : Nat) (dec : Int) (hd : dec ≠ 0) :
    valueOf amt price dec = chopRound ((amt * (price : Int) * P * P).tdiv dec) := by
  unfold valueOf
  rw [mul_ofInt, quo_ofInt _ _ hd]
  unfold Dec.ofInt
  have : amt * P * (price : Int) * P = amt * (price : Int) * P * P := by ring
  rw [this]

/-- with a decimal scale that divides `10^18` (every `10^k`, `k ≤ 18`) the USD value is exact: no rounding at all -/
theorem valueOf_exact (amt : Int) (price : Nat) (dec : Int) (hd : 0 < dec) (hdiv : dec ∣ P) :
    valueOf amt price dec * dec = amt * (price : Int) * P := by
  obtain ⟨k, hk⟩ := hdiv
  rw [valueOf_eq _ _ _ (by omega)]
  have e : amt * (price : Int) * P * P = (amt * (price : Int) * k * P) * dec := by rw [hk]; ring
  rw [e, Int.mul_tdiv_cancel _ (by omega : dec ≠ 0), chopRound_exact, hk]
  ring

/-- a positive rounded quotient comes from a positive numerator -/
theorem pos_of_chopRound_tdiv_pos (n d : Int) (hd : 0 < d) (h : 0 < chopRound (n.tdiv d)) : 0 < n := by
  by_contra hn
  have hn' : n ≤ 0 := by omega
  have : n.tdiv d ≤ 0 := by
    have e : n.tdiv d = -((-n).tdiv d) := by rw [Int.neg_tdiv]; omega
    have := Int.tdiv_nonneg (by omega : 0 ≤ -n) (Int.le_of_lt hd)
    omega
  have := chopRound_nonpos _ this
  omega

/-- upper bound: `2·d·P·v ≤ 2·n + d·P` for `v = chopRound (n tdiv d)` (value at most the exact quotient plus half an ulp) -/
theorem value_upper (n d : Int) (hn : 0 ≤ n) (hd : 0 < d) :
    2 * d * P * chopRound (n.tdiv d) ≤ 2 * n + d * P := by
  have ht0 : 0 ≤ n.tdiv d := Int.tdiv_nonneg hn (Int.le_of_lt hd)
  obtain ⟨_, hub⟩ := chopRound_bounds _ ht0
  have hte : n.tdiv d = n / d := Int.tdiv_eq_ediv_of_nonneg hn
  have hmul : n / d * d ≤ n := Int.ediv_mul_le n (by omega)
  rw [hte] at hub ht0
  rw [hte]
  -- 2·P·v ≤ 2·t + P, t·d ≤ n
  nlinarith [hub, hmul, hd]

/-- lower bound: `2·d·P·v ≥ 2·n − (P+2)·d + 2` (value at least the exact quotient minus one truncation step minus half an ulp) -/
theorem value_lower (n d : Int) (hn : 0 ≤ n) (hd : 0 < d) :
    2 * n - (P + 2) * d + 2 ≤ 2 * d * P * chopRound (n.tdiv d) := by
  have ht0 : 0 ≤ n.tdiv d := Int.tdiv_nonneg hn (Int.le_of_lt hd)
  obtain ⟨hlb, _⟩ := chopRound_bounds _ ht0
  have hte : n.tdiv d = n / d := Int.tdiv_eq_ediv_of_nonneg hn
  have hlt : n < (n / d + 1) * d := Int.lt_ediv_add_one_mul_self n hd
  rw [hte] at hlb ht0
  rw [hte]
  nlinarith [hlb, hlt, hd]

/-- the final `Quo`: `r = quo vin vout ≥ m` with `vout > 0`, `vin ≥ 0` gives `(2m − 1)·vout ≤ 2·P·vin` -/
theorem quo_ge (vin vout m : Int) (hin : 0 ≤ vin) (hout : 0 < vout) (h : m ≤ Dec.quo vin vout) :
    (2 * m - 1) * vout ≤ 2 * P * vin := by
  unfold Dec.quo PP at h
  have hP := P_pos
  have hn : 0 ≤ vin * (P * P) := Int.mul_nonneg hin (Int.mul_nonneg (Int.le_of_lt hP) (Int.le_of_lt hP))
  have ht0 : 0 ≤ (vin * (P * P)).tdiv vout := Int.tdiv_nonneg hn (Int.le_of_lt hout)
  obtain ⟨_, hub⟩ := chopRound_bounds _ ht0
  have hte : (vin * (P * P)).tdiv vout = vin * (P * P) / vout := Int.tdiv_eq_ediv_of_nonneg hn
  have hmul : vin * (P * P) / vout * vout ≤ vin * (P * P) := Int.ediv_mul_le _ (by omega)
  rw [hte] at hub h
  -- 2·P·m ≤ 2·P·r ≤ 2·q + P ;  q·vout ≤ vin·P·P
  have h1 : 2 * P * m ≤ 2 * (vin * (P * P) / vout) + P := by nlinarith [h, hub, hP]
  have h2 : (2 * P * m - P) * vout ≤ 2 * (vin * (P * P)) := by nlinarith [h1, hmul, hout]
  -- divide by P
  have h3 : P * ((2 * m - 1) * vout) ≤ P * (2 * P * vin) := by nlinarith [h2]
  exact Int.le_of_mul_le_mul_left h3 hP

end Comdex.Vault
