import Comdex.Model.Gauge
import Mathlib.Tactic.Linarith
import Mathlib.Tactic.Ring
/-! Helper lemmas for C19 (incentive payouts): the split, the gauge invariant, the ledger invariant,
the rounding bounds of the share computation and the exact binary64 conversion. -/
namespace Comdex.Gauge
open Comdex

/-! ## split -/

theorem prefixSum_succ (t n k : Nat) : prefixSum t n (k+1) = prefixSum t n k + splitAt t n k := by
  simp [prefixSum, List.range_succ, List.map_append, List.sum_append]

theorem prefixSum_zero (t n : Nat) : prefixSum t n 0 = 0 := by simp [prefixSum]

theorem prefixSum_formula (t n k : Nat) (hk : k ≤ n) :
    prefixSum t n k = k * (t / n) + (if t % n = 0 then 0 else k - (n - t % n)) := by
  induction k with
  | zero => simp [prefixSum_zero]
  | succ k ih =>
    rw [prefixSum_succ, ih (by omega), Nat.succ_mul]
    unfold splitAt
    split
    · omega
    · split <;> omega

theorem prefixSum_total (t n : Nat) (hn : 1 ≤ n) : prefixSum t n n = t := by
  rw [prefixSum_formula t n n (Nat.le_refl _)]
  have h1 := Nat.div_add_mod t n
  have h2 := Nat.mod_lt t (show n > 0 by omega)
  split <;> omega

theorem prefixSum_mono (t n k : Nat) (hk : k ≤ n) : prefixSum t n k ≤ prefixSum t n n := by
  rw [prefixSum_formula t n k hk, prefixSum_formula t n n (Nat.le_refl _)]
  have := Nat.mul_le_mul_right (t / n) hk
  split <;> omega

theorem prefixSum_le_total (t n k : Nat) (hk : k ≤ n) : prefixSum t n k ≤ t := by
  by_cases hn : n = 0
  · subst hn
    have : k = 0 := by omega
    subst this; simp [prefixSum_zero]
  · calc prefixSum t n k ≤ prefixSum t n n := prefixSum_mono t n k hk
      _ = t := prefixSum_total t n (by omega)

theorem split_ok (t n : Nat) (hn : 1 ≤ n) (ht : n ≤ t) :
    split t n = .ok ((List.range n).map (splitAt t n)) := by
  unfold split
  rw [if_neg (by omega), if_neg (by omega)]

theorem range_get (n j i : Nat) (hj : (List.range n)[i]? = some j) : i < n ∧ j = i := by
  have hlt : i < n := by
    obtain ⟨h, _⟩ := List.getElem?_eq_some_iff.mp hj
    simpa using h
  rw [List.getElem?_range hlt] at hj
  exact ⟨hlt, by injection hj with h; exact h.symm⟩

theorem split_get (t n : Nat) (l : List Nat) (h : split t n = .ok l) (i : Nat) (a : Nat)
    (hi : l[i]? = some a) : i < n ∧ a = splitAt t n i := by
  unfold split at h
  split at h
  · injection h with h; subst h; simp at hi
  · split at h
    · cases h
    · injection h with h; subst h
      simp only [List.getElem?_map, Option.map_eq_some_iff] at hi
      obtain ⟨j, hj, rfl⟩ := hi
      obtain ⟨h1, h2⟩ := range_get n j i hj
      exact ⟨h1, by rw [h2]⟩

/-! ## sums -/

theorem sumL_nonneg_of_not_anyNeg (rs : List Int) (h : anyNeg rs = false) : 0 ≤ sumL rs := by
  induction rs with
  | nil => simp [sumL]
  | cons x xs ih =>
    simp only [anyNeg, Bool.or_eq_false_iff, decide_eq_false_iff_not] at h
    have := ih h.2
    simp only [sumL]; omega

theorem all_nonneg_of_not_anyNeg (rs : List Int) (h : anyNeg rs = false) : ∀ x ∈ rs, 0 ≤ x := by
  induction rs with
  | nil => simp
  | cons x xs ih =>
    simp only [anyNeg, Bool.or_eq_false_iff, decide_eq_false_iff_not] at h
    intro y hy
    rcases List.mem_cons.mp hy with rfl | hy
    · omega
    · exact ih h.2 y hy

theorem sumL_nonneg (rs : List Int) (h : ∀ x ∈ rs, 0 ≤ x) : 0 ≤ sumL rs := by
  induction rs with
  | nil => simp [sumL]
  | cons x xs ih =>
    have h1 := h x (by simp)
    have h2 := ih (fun y hy => h y (by simp [hy]))
    simp only [sumL]; omega

theorem posOnly_pos (l : List Int) : ∀ x ∈ posOnly l, 0 ≤ x := by
  induction l with
  | nil => simp [posOnly]
  | cons a as ih =>
    unfold posOnly
    split
    · intro x hx
      rcases List.mem_cons.mp hx with rfl | hx
      · omega
      · exact ih x hx
    · exact ih

/-- the module account never pays more than it is asked to, and never gains -/
theorem sendAll_bounds (rs : List Int) (h : ∀ x ∈ rs, 0 ≤ x) (bal : Int) :
    bal - sumL rs ≤ (sendAll bal rs).1 ∧ (sendAll bal rs).1 ≤ bal := by
  induction rs generalizing bal with
  | nil => simp [sendAll, sumL]
  | cons r rs ih =>
    have hr := h r (by simp)
    have h' : ∀ x ∈ rs, 0 ≤ x := fun y hy => h y (by simp [hy])
    unfold sendAll
    split
    · have := ih h' (bal - r)
      simp only [sumL]
      constructor <;> omega
    · have := ih h' bal
      simp only [sumL]
      constructor <;> omega

/-- with enough balance every receiver gets exactly the calculated amount -/
theorem sendAll_exact (rs : List Int) (h : ∀ x ∈ rs, 0 ≤ x) (bal : Int) (hb : sumL rs ≤ bal) :
    sendAll bal rs = (bal - sumL rs, rs) := by
  induction rs generalizing bal with
  | nil => simp [sendAll, sumL]
  | cons r rs ih =>
    have hr := h r (by simp)
    have h' : ∀ x ∈ rs, 0 ≤ x := fun y hy => h y (by simp [hy])
    have hs := sumL_nonneg rs h'
    simp only [sumL] at hb
    unfold sendAll
    rw [if_pos (by omega), ih h' (bal - r) (by omega)]
    simp only [sumL]
    congr 1; omega

/-! ## one gauge -/

/-- what every stored non-swap-fee gauge satisfies -/
def GInv (g : Gauge) : Prop :=
  0 ≤ g.distributed ∧ g.triggered ≤ g.total ∧ 0 ≤ g.deposit ∧
  g.distributed ≤ (prefixSum g.deposit.toNat g.total g.triggered : Int)

theorem GInv_le_deposit (g : Gauge) (h : GInv g) : g.distributed ≤ g.deposit := by
  obtain ⟨_, h2, h3, h4⟩ := h
  have := prefixSum_le_total g.deposit.toNat g.total g.triggered h2
  have : ((prefixSum g.deposit.toNat g.total g.triggered : Nat) : Int) ≤ g.deposit := by omega
  omega

theorem newGauge_inv (d : Int) (n : Nat) (s : Int) (hd : 0 ≤ d) : GInv (newGauge d n s) := by
  refine ⟨by simp [newGauge], by simp [newGauge], by simpa [newGauge] using hd, ?_⟩
  simp [newGauge, prefixSum_zero]

theorem allocation_some (g : Gauge) (a : Int) (h : allocation g = .ok (some a)) :
    g.triggered < g.total ∧ a = (splitAt g.deposit.toNat g.total g.triggered : Int) ∧ 0 ≤ g.deposit := by
  unfold allocation at h
  split at h
  · cases h
  · rename_i hr
    split at h
    · cases h
    · rename_i sp hsp
      split at h
      · cases h
      · rename_i a' ha
        injection h with h; injection h with h
        obtain ⟨h1, h2⟩ := split_get _ _ sp hsp _ _ ha
        exact ⟨h1, by rw [← h, h2], by omega⟩

/-- everything `trigger` can do, in one statement -/
theorem trigger_cases (g g' : Gauge) (now : Int) (d : DistData) (sends : List Int)
    (h : trigger g now d = .ok (g', sends)) :
    (sends = [] ∧ g'.deposit = g.deposit ∧ g'.distributed = g.distributed ∧ g'.triggered = g.triggered
        ∧ g'.total = g.total ∧ g'.start = g.start) ∨
    (∃ a, allocation g = .ok (some a) ∧ d = .ok sends ∧ (∀ x ∈ sends, 0 ≤ x) ∧ sumL sends ≤ a ∧
        a ≤ g.deposit - g.distributed ∧
        g' = { g with triggered := g.triggered + 1, distributed := g.distributed + sumL sends }) := by
  unfold trigger at h
  split at h
  · injection h with h; injection h with h1 h2; subst h1 h2; left; simp
  · split at h
    · injection h with h; injection h with h1 h2; subst h1 h2; left; simp
    · split at h
      · cases h
      · injection h with h; injection h with h1 h2; subst h1 h2; left; simp
      · rename_i alloc halloc
        split at h
        · injection h with h; injection h with h1 h2; subst h1 h2; left; simp
        · rename_i hcap
          split at h
          · injection h with h; injection h with h1 h2; subst h1 h2; left; simp
          · rename_i rs
            split at h
            · cases h
            · rename_i hneg
              split at h
              · injection h with h; injection h with h1 h2; subst h1 h2; left; simp
              · rename_i hsum
                injection h with h; injection h with h1 h2; subst h1 h2
                right
                refine ⟨alloc, halloc, rfl, all_nonneg_of_not_anyNeg _ (by simpa using hneg), by omega, by omega, rfl⟩

theorem trigger_inv (g g' : Gauge) (now : Int) (d : DistData) (sends : List Int)
    (h : trigger g now d = .ok (g', sends)) (hg : GInv g) : GInv g' := by
  rcases trigger_cases g g' now d sends h with ⟨_, h1, h2, h3, h4, _⟩ | ⟨a, ha, _, hnn, hsum, _, rfl⟩
  · obtain ⟨i1, i2, i3, i4⟩ := hg
    refine ⟨by omega, by omega, by omega, ?_⟩
    rw [h1, h2, h3, h4]; exact i4
  · obtain ⟨i1, i2, i3, i4⟩ := hg
    obtain ⟨a1, a2, _⟩ := allocation_some g a ha
    have hs := sumL_nonneg sends hnn
    refine ⟨by simp only; omega, by simp only; omega, i3, ?_⟩
    simp only
    rw [prefixSum_succ]
    push_cast
    omega

theorem triggerOrRevert_inv (g : Gauge) (now : Int) (d : DistData) (hg : GInv g) :
    GInv (triggerOrRevert g now d) := by
  unfold triggerOrRevert
  split
  · rename_i g' s h; exact trigger_inv g g' now d s h hg
  · exact hg

theorem trigger_deposit (g g' : Gauge) (now : Int) (d : DistData) (sends : List Int)
    (h : trigger g now d = .ok (g', sends)) : g'.deposit = g.deposit ∧ g'.total = g.total := by
  rcases trigger_cases g g' now d sends h with ⟨_, h1, _, _, h4, _⟩ | ⟨a, _, _, _, _, _, rfl⟩
  · exact ⟨h1, h4⟩
  · exact ⟨rfl, rfl⟩

theorem triggerOrRevert_deposit (g : Gauge) (now : Int) (d : DistData) :
    (triggerOrRevert g now d).deposit = g.deposit := by
  unfold triggerOrRevert
  split
  · rename_i g' s h; exact (trigger_deposit g g' now d s h).1
  · rfl

theorem runGauge_inv (g : Gauge) (hist : List (Int × DistData)) (hg : GInv g) :
    GInv (runGauge g hist) ∧ (runGauge g hist).deposit = g.deposit := by
  induction hist generalizing g with
  | nil => exact ⟨hg, rfl⟩
  | cons x xs ih =>
    obtain ⟨now, d⟩ := x
    have := ih (triggerOrRevert g now d) (triggerOrRevert_inv g now d hg)
    exact ⟨this.1, by show (runGauge (triggerOrRevert g now d) xs).deposit = _; rw [this.2, triggerOrRevert_deposit]⟩

theorem runGauge_total (g0 : Gauge) (hist : List (Int × DistData)) : (runGauge g0 hist).total = g0.total := by
  induction hist generalizing g0 with
  | nil => rfl
  | cons x xs ih =>
    obtain ⟨now, d⟩ := x
    show (runGauge (triggerOrRevert g0 now d) xs).total = _
    rw [ih]
    unfold triggerOrRevert
    split
    · rename_i g' s h; exact (trigger_deposit g0 g' now d s h).2
    · rfl

/-! ## ledger -/

theorem remGauges_append (gs : List Gauge) (g : Gauge) : remGauges (gs ++ [g]) = remGauges gs + gaugeRem g := by
  induction gs with
  | nil => simp [remGauges]
  | cons x xs ih => simp only [List.cons_append, remGauges, ih]; omega

theorem remExts_append (xs : List Ext) (x : Ext) : remExts (xs ++ [x]) = remExts xs + x.avail := by
  induction xs with
  | nil => simp [remExts]
  | cons y ys ih => simp only [List.cons_append, remExts, ih]; omega

theorem remGauges_setAt (gs : List Gauge) (i : Nat) (g g0 : Gauge) (h : gs[i]? = some g0) :
    remGauges (setAt gs i g) = remGauges gs - gaugeRem g0 + gaugeRem g := by
  induction gs generalizing i with
  | nil => simp at h
  | cons x xs ih =>
    cases i with
    | zero => simp at h; subst h; simp only [setAt, remGauges]; omega
    | succ i => simp at h; simp only [setAt, remGauges, ih i h]; omega

theorem remExts_setAt (xs : List Ext) (j : Nat) (x x0 : Ext) (h : xs[j]? = some x0) :
    remExts (setAt xs j x) = remExts xs - x0.avail + x.avail := by
  induction xs generalizing j with
  | nil => simp at h
  | cons y ys ih =>
    cases j with
    | zero => simp at h; subst h; simp only [setAt, remExts]; omega
    | succ j => simp at h; simp only [setAt, remExts, ih j h]; omega

theorem mem_setAt {α : Type} (l : List α) (i : Nat) (y x : α) (h : x ∈ setAt l i y) : x ∈ l ∨ x = y := by
  induction l generalizing i with
  | nil => simp [setAt] at h
  | cons a as ih =>
    cases i with
    | zero =>
      simp only [setAt] at h
      rcases List.mem_cons.mp h with rfl | h
      · right; rfl
      · left; simp [h]
    | succ i =>
      simp only [setAt] at h
      rcases List.mem_cons.mp h with rfl | h
      · left; simp
      · rcases ih i h with h | h
        · left; simp [h]
        · right; exact h

theorem remSfs_append (gs : List SfGauge) (g : SfGauge) : remSfs (gs ++ [g]) = remSfs gs + g.deposit := by
  induction gs with
  | nil => simp [remSfs]
  | cons x xs ih => simp only [List.cons_append, remSfs, ih]; omega

theorem remSfs_nonneg (gs : List SfGauge) (h : ∀ g ∈ gs, 0 ≤ g.deposit) : 0 ≤ remSfs gs := by
  induction gs with
  | nil => simp [remSfs]
  | cons x xs ih =>
    have := ih (fun g hg => h g (by simp [hg]))
    have := h x (by simp)
    simp only [remSfs]; omega

theorem remSfs_setAt (gs : List SfGauge) (i : Nat) (g g0 : SfGauge) (h : gs[i]? = some g0) :
    remSfs (setAt gs i g) = remSfs gs - g0.deposit + g.deposit := by
  induction gs generalizing i with
  | nil => simp at h
  | cons x xs ih =>
    cases i with
    | zero => simp at h; subst h; simp only [setAt, remSfs]; omega
    | succ i => simp at h; simp only [setAt, remSfs, ih i h]; omega

theorem sfDistribute_cases (g : SfGauge) (d : DistData) (r : Option (SfGauge × List Int)) (h : sfDistribute g d = .ok r) :
    r = none ∨ ∃ g1 sends, r = some (g1, sends) ∧ (∀ x ∈ sends, 0 ≤ x) ∧ (0 < g.deposit → sumL sends ≤ g.deposit) ∧
      (g.deposit ≤ 0 → sends = []) ∧ g1.deposit = g.deposit - sumL sends ∧ g1.distributed = g.distributed + sumL sends ∧
      g1.triggered = g.triggered := by
  unfold sfDistribute at h
  by_cases hd : g.deposit > 0
  · simp only [hd, if_true] at h
    cases d with
    | err => simp only at h; injection h with h; left; exact h.symm
    | ok rs =>
      simp only at h
      by_cases hn : anyNeg rs = true
      · simp [hn] at h
      · have hn' : anyNeg rs = false := by simpa using hn
        simp only [hn', Bool.false_eq_true, if_false] at h
        by_cases hs : sumL rs > g.deposit
        · simp only [hs, if_true] at h; injection h with h; left; exact h.symm
        · simp only [hs, if_false] at h
          injection h with h
          right
          exact ⟨_, rs, h.symm, all_nonneg_of_not_anyNeg rs hn', by intro _; omega, by intro; omega, rfl, rfl, rfl⟩
  · simp only [hd, if_false] at h
    injection h with h
    right
    exact ⟨g, [], h.symm, by simp, by intro; omega, by intro; rfl, by simp [sumL], by simp [sumL], rfl⟩

/-- what one swap-fee trigger does, as cases -/
theorem sfTrigger_cases (g g' : SfGauge) (d : DistData) (x : Xfer) (sends : List Int) (recv : Int)
    (h : sfTrigger g d x = .ok (g', sends, recv)) :
    (∀ r ∈ sends, 0 ≤ r) ∧ 0 ≤ recv ∧ (0 < g.deposit → sumL sends ≤ g.deposit) ∧ (g.deposit ≤ 0 → sends = []) ∧
    g'.distributed = g.distributed + sumL sends ∧
    ((g' = g ∧ recv = 0 ∧ sends = []) ∨
     (x = .err ∧ recv = 0 ∧ g'.triggered = g.triggered ∧ g'.deposit = g.deposit - sumL sends) ∨
     (∃ amt : Nat, x = .ok amt ∧ recv = amt ∧ g'.triggered = g.triggered + 1 ∧ g'.deposit = g.deposit - sumL sends + amt) ∨
     (∃ amt : Nat, x = .moved amt ∧ recv = 0 ∧ g'.triggered = g.triggered + 1 ∧ g'.deposit = 0)) := by
  unfold sfTrigger at h
  split at h
  · cases h
  · injection h with h; injection h with h1 h2; injection h2 with h2 h3
    subst h1 h2 h3
    exact ⟨by simp, Int.le_refl 0, by intro _; simp [sumL]; omega, by intro; rfl, by simp [sumL], Or.inl ⟨rfl, rfl, rfl⟩⟩
  · rename_i g1 s1 hdist
    rcases sfDistribute_cases g d _ hdist with hnone | ⟨g1', s1', heq, hnn, hle, hemp, hd1, hd2, hd3⟩
    · cases hnone
    · injection heq with heq; injection heq with e1 e2
      subst e1 e2
      cases x with
      | err =>
        simp only at h
        injection h with h; injection h with h1 h2; injection h2 with h2 h3
        subst h1 h2 h3
        exact ⟨hnn, Int.le_refl 0, hle, hemp, hd2, Or.inr (Or.inl ⟨rfl, rfl, hd3, hd1⟩)⟩
      | ok amt =>
        simp only at h
        injection h with h; injection h with h1 h2; injection h2 with h2 h3
        subst h1 h2 h3
        exact ⟨hnn, Int.natCast_nonneg _, hle, hemp, hd2, Or.inr (Or.inr (Or.inl ⟨amt, rfl, rfl, by simp only; omega, by simp only; omega⟩))⟩
      | moved amt =>
        simp only at h
        injection h with h; injection h with h1 h2; injection h2 with h2 h3
        subst h1 h2 h3
        exact ⟨hnn, Int.le_refl 0, hle, hemp, hd2, Or.inr (Or.inr (Or.inr ⟨amt, rfl, rfl, by simp only; omega, rfl⟩))⟩

/-- swap-fee deposits are coins: never negative -/
def SInv (l : Ledger) : Prop := ∀ s ∈ l.sfs, 0 ≤ s.deposit

theorem sfTrigger_deposit_nonneg (g g' : SfGauge) (d : DistData) (x : Xfer) (sends : List Int) (recv : Int)
    (h : sfTrigger g d x = .ok (g', sends, recv)) (hg : 0 ≤ g.deposit) :
    0 ≤ g'.deposit ∧ g'.deposit ≤ g.deposit - sumL sends + recv := by
  obtain ⟨hnn, hr, hle, hemp, _, hc⟩ := sfTrigger_cases g g' d x sends recv h
  have hs : sumL sends ≤ g.deposit := by
    by_cases hp : 0 < g.deposit
    · exact hle hp
    · have := hemp (by omega); subst this; simp [sumL]; omega
  rcases hc with ⟨rfl, rfl, rfl⟩ | ⟨_, rfl, _, hd⟩ | ⟨amt, _, rfl, _, hd⟩ | ⟨amt, _, rfl, _, hd⟩
  · simp [sumL]; omega
  · omega
  · omega
  · omega

/-- the ledger invariant: every gauge is within its schedule, and the module account covers the sum of all
undistributed remainders (as a signed sum over gauges, swap-fee gauges and external programmes) -/
def LInv (l : Ledger) : Prop :=
  (∀ g ∈ l.gauges, GInv g) ∧ remGauges l.gauges + remExts l.exts + remSfs l.sfs ≤ l.bal

theorem stepB_sinv (l l' : Ledger) (o : BOp) (h : stepB l o = .ok l') (hs : SInv l) : SInv l' := by
  cases o with
  | trigger i now d =>
    simp only [stepB] at h
    split at h
    · injection h with h; subst h; exact hs
    · split at h
      · cases h
      · injection h with h; subst h; exact hs
  | extPay j pays =>
    simp only [stepB] at h
    split at h
    · injection h with h; subst h; exact hs
    · split at h <;> (injection h with h; subst h; exact hs)
  | extDeactivate j =>
    simp only [stepB] at h
    split at h <;> (injection h with h; subst h; exact hs)
  | sfArrive amt t =>
    simp only [stepB] at h
    injection h with h; subst h
    intro s hsm
    simp only [List.mem_append, List.mem_singleton] at hsm
    rcases hsm with hsm | rfl
    · exact hs s hsm
    · exact Int.natCast_nonneg _
  | sfTrigger i d x =>
    simp only [stepB] at h
    split at h
    · injection h with h; subst h; exact hs
    · rename_i g hgi
      split at h
      · cases h
      · rename_i g' sends recv ht
        injection h with h; subst h
        intro s hsm
        rcases mem_setAt _ _ _ _ hsm with hsm | rfl
        · exact hs s hsm
        · exact (sfTrigger_deposit_nonneg g s d x sends recv ht (hs g (List.mem_of_getElem? hgi))).1

theorem stepB_inv (l l' : Ledger) (o : BOp) (h : stepB l o = .ok l') (hl : LInv l) (hs : SInv l) : LInv l' := by
  obtain ⟨hg, hb⟩ := hl
  cases o with
  | sfArrive amt t =>
    simp only [stepB] at h
    injection h with h; subst h
    exact ⟨hg, by simp only [remSfs_append]; omega⟩
  | sfTrigger i d x =>
    simp only [stepB] at h
    split at h
    · injection h with h; subst h; exact ⟨hg, hb⟩
    · rename_i g hgi
      split at h
      · cases h
      · rename_i g' sends recv ht
        injection h with h; subst h
        refine ⟨hg, ?_⟩
        simp only
        rw [remSfs_setAt _ _ _ _ hgi]
        obtain ⟨hnn, _, _, _, _, _⟩ := sfTrigger_cases g g' d x sends recv ht
        have hd := (sfTrigger_deposit_nonneg g g' d x sends recv ht (hs g (List.mem_of_getElem? hgi))).2
        have hsb := (sendAll_bounds sends hnn l.bal).1
        omega
  | trigger i now d =>
    simp only [stepB] at h
    split at h
    · injection h with h; subst h; exact ⟨hg, hb⟩
    · rename_i g hgi
      split at h
      · cases h
      · rename_i g' sends ht
        injection h with h; subst h
        have hgm : g ∈ l.gauges := List.mem_of_getElem? hgi
        have hinv' := trigger_inv g g' now d sends ht (hg g hgm)
        refine ⟨?_, ?_⟩
        · intro x hx
          rcases mem_setAt _ _ _ _ hx with hx | rfl
          · exact hg x hx
          · exact hinv'
        · simp only
          rw [remGauges_setAt _ _ _ _ hgi]
          rcases trigger_cases g g' now d sends ht with ⟨rfl, h1, h2, _⟩ | ⟨a, _, _, hnn, _, _, rfl⟩
          · simp only [sendAll, gaugeRem, h1, h2]; omega
          · have := (sendAll_bounds sends hnn l.bal).1
            simp only [gaugeRem]; omega
  | extPay j pays =>
    simp only [stepB] at h
    split at h
    · injection h with h; subst h; exact ⟨hg, hb⟩
    · rename_i x hx
      split at h
      · injection h with h; subst h; exact ⟨hg, hb⟩
      · injection h with h; subst h
        refine ⟨hg, ?_⟩
        simp only
        rw [remExts_setAt _ _ _ _ hx]
        have := (sendAll_bounds (posOnly pays) (posOnly_pos pays) l.bal).1
        simp only; omega
  | extDeactivate j =>
    simp only [stepB] at h
    split at h
    · injection h with h; subst h; exact ⟨hg, hb⟩
    · rename_i x hx
      injection h with h; subst h
      refine ⟨hg, ?_⟩
      simp only
      rw [remExts_setAt _ _ _ _ hx]; simp only; omega

theorem runB_inv (l l' : Ledger) (os : List BOp) (h : runB l os = .ok l') (hl : LInv l) (hs : SInv l) : LInv l' ∧ SInv l' := by
  induction os generalizing l with
  | nil => simp only [runB] at h; injection h with h; subst h; exact ⟨hl, hs⟩
  | cons o os ih =>
    simp only [runB] at h
    split at h
    · cases h
    · rename_i l1 h1
      exact ih l1 h (stepB_inv l l1 o h1 hl hs) (stepB_sinv l l1 o h1 hs)

theorem step_sinv (l : Ledger) (o : Op) (hl : LInv l) (hs : SInv l) : SInv (step l o) := by
  cases o with
  | createGauge deposit total start now dur minDur aux funds => simp only [step]; split <;> exact hs
  | createExt amount funds => simp only [step]; split <;> exact hs
  | fund amount => simp only [step]; split <;> exact hs
  | createSf =>
    simp only [step]
    intro s hsm
    simp only [List.mem_append, List.mem_singleton] at hsm
    rcases hsm with hsm | rfl
    · exact hs s hsm
    · exact Int.le_refl 0
  | block ops =>
    simp only [step]
    split
    · rename_i l' h; exact (runB_inv l l' ops h hl hs).2
    · exact hs

theorem step_inv (l : Ledger) (o : Op) (hl : LInv l) (hs : SInv l) : LInv (step l o) := by
  obtain ⟨hg, hb⟩ := hl
  cases o with
  | createSf =>
    simp only [step]
    exact ⟨hg, by simp only [remSfs_append]; omega⟩
  | createGauge deposit total start now dur minDur aux funds =>
    simp only [step]
    split
    · rename_i hc
      simp only [createGuard, Bool.and_eq_true, decide_eq_true_eq] at hc
      refine ⟨?_, ?_⟩
      · intro g hgm
        simp only [List.mem_append, List.mem_singleton] at hgm
        rcases hgm with hgm | rfl
        · exact hg g hgm
        · exact newGauge_inv _ _ _ (by omega)
      · simp only [remGauges_append, gaugeRem, newGauge]; omega
    · exact ⟨hg, hb⟩
  | createExt amount funds =>
    simp only [step]
    split
    · refine ⟨hg, ?_⟩
      simp only [remExts_append]; omega
    · exact ⟨hg, hb⟩
  | fund amount =>
    simp only [step]
    split
    · exact ⟨hg, by simp only; omega⟩
    · exact ⟨hg, hb⟩
  | block ops =>
    simp only [step]
    split
    · rename_i l' h; exact (runB_inv l l' ops h ⟨hg, hb⟩ hs).1
    · exact ⟨hg, hb⟩

theorem run_inv (l : Ledger) (ops : List Op) (hl : LInv l) (hs : SInv l) : LInv (run l ops) ∧ SInv (run l ops) := by
  induction ops generalizing l with
  | nil => exact ⟨hl, hs⟩
  | cons o os ih => exact ih (step l o) (step_inv l o hl hs) (step_sinv l o hl hs)

theorem empty_sinv : SInv Ledger.empty := by intro s hs; simp [Ledger.empty] at hs

/-- every gauge a user managed to create has at least one epoch and a deposit of at least one unit per epoch -/
def AccInv (l : Ledger) : Prop := ∀ g ∈ l.gauges, 1 ≤ g.total ∧ (g.total : Int) ≤ g.deposit

theorem stepB_acc (l l' : Ledger) (o : BOp) (h : stepB l o = .ok l') (hl : AccInv l) : AccInv l' := by
  cases o with
  | trigger i now d =>
    simp only [stepB] at h
    split at h
    · injection h with h; subst h; exact hl
    · rename_i g hgi
      split at h
      · cases h
      · rename_i g' sends ht
        injection h with h; subst h
        intro x hx
        rcases mem_setAt _ _ _ _ hx with hx | rfl
        · exact hl x hx
        · obtain ⟨h1, h2⟩ := trigger_deposit g x now d sends ht
          have := hl g (List.mem_of_getElem? hgi)
          rw [h1, h2]; exact this
  | extPay j pays =>
    simp only [stepB] at h
    split at h
    · injection h with h; subst h; exact hl
    · split at h <;> (injection h with h; subst h; exact hl)
  | extDeactivate j =>
    simp only [stepB] at h
    split at h <;> (injection h with h; subst h; exact hl)
  | sfTrigger i d x =>
    simp only [stepB] at h
    split at h
    · injection h with h; subst h; exact hl
    · split at h
      · cases h
      · injection h with h; subst h; exact hl
  | sfArrive amt t =>
    simp only [stepB] at h
    injection h with h; subst h; exact hl

theorem runB_acc (l l' : Ledger) (os : List BOp) (h : runB l os = .ok l') (hl : AccInv l) : AccInv l' := by
  induction os generalizing l with
  | nil => simp only [runB] at h; injection h with h; subst h; exact hl
  | cons o os ih =>
    simp only [runB] at h
    split at h
    · cases h
    · rename_i l1 h1
      exact ih l1 h (stepB_acc l l1 o h1 hl)

theorem step_acc (l : Ledger) (o : Op) (hl : AccInv l) : AccInv (step l o) := by
  cases o with
  | createGauge deposit total start now dur minDur aux funds =>
    simp only [step]
    split
    · rename_i hc
      simp only [createGuard, Bool.and_eq_true, decide_eq_true_eq] at hc
      intro g hgm
      simp only [List.mem_append, List.mem_singleton] at hgm
      rcases hgm with hgm | rfl
      · exact hl g hgm
      · simp only [newGauge]; omega
    · exact hl
  | createExt amount funds => simp only [step]; split <;> exact hl
  | fund amount => simp only [step]; split <;> exact hl
  | createSf => simp only [step]; exact hl
  | block ops =>
    simp only [step]
    split
    · rename_i l' h; exact runB_acc l l' ops h hl
    · exact hl

theorem run_acc (l : Ledger) (ops : List Op) (hl : AccInv l) : AccInv (run l ops) := by
  induction ops generalizing l with
  | nil => exact hl
  | cons o os ih => exact ih (step l o) (step_acc l o hl)

theorem empty_inv : LInv Ledger.empty := ⟨by simp [Ledger.empty], by simp [Ledger.empty, remGauges, remExts, remSfs]⟩

theorem remActiveGauges_le (gs : List Gauge) (h : ∀ g ∈ gs, GInv g) : remActiveGauges gs ≤ remGauges gs := by
  induction gs with
  | nil => simp [remActiveGauges, remGauges]
  | cons g gs ih =>
    have h1 := GInv_le_deposit g (h g (by simp))
    have h2 := ih (fun x hx => h x (by simp [hx]))
    simp only [remActiveGauges, remGauges, gaugeRem]
    split <;> omega

theorem remActiveExts_le (xs : List Ext) (h : ∀ x ∈ xs, 0 ≤ x.avail) : remActiveExts xs ≤ remExts xs := by
  induction xs with
  | nil => simp [remActiveExts, remExts]
  | cons x xs ih =>
    have h1 := h x (by simp)
    have h2 := ih (fun y hy => h y (by simp [hy]))
    simp only [remActiveExts, remExts]
    split <;> omega

/-! ## share computation: rounding bounds -/

theorem chopRound_upper (x : Int) (hx : 0 ≤ x) : 2 * Dec.chopRound x * Dec.P ≤ 2 * x + Dec.P := by
  unfold Dec.chopRound
  rw [if_neg (by omega)]
  unfold Dec.chopRoundNonneg
  rw [Int.tdiv_eq_ediv_of_nonneg hx, Int.tmod_eq_emod_of_nonneg hx]
  have h1 := Int.mul_ediv_add_emod x Dec.P
  have h2 := Int.emod_nonneg x (show Dec.P ≠ 0 by decide)
  have h3 := Int.emod_lt_of_pos x (show 0 < Dec.P by decide)
  simp only [Dec.P, Dec.half] at *
  split_ifs <;> omega

theorem chopRound_nonneg (x : Int) (hx : 0 ≤ x) : 0 ≤ Dec.chopRound x := by
  unfold Dec.chopRound
  rw [if_neg (by omega)]
  unfold Dec.chopRoundNonneg
  rw [Int.tdiv_eq_ediv_of_nonneg hx]
  have h0 : 0 ≤ x / Dec.P := Int.ediv_nonneg hx (by decide)
  simp only []
  split_ifs <;> omega

theorem P_pos : (0:Int) < Dec.P := by decide

theorem multiplier_bounds (a S : Int) (ha : 0 ≤ a) (hS : 0 < S) :
    2 * multiplier a S * S ≤ 2 * a * Dec.P * Dec.P + S ∧ 0 ≤ multiplier a S := by
  have hP := P_pos
  unfold multiplier Dec.quo Dec.ofInt Dec.PP
  have hX : 0 ≤ a * Dec.P * (Dec.P * Dec.P) := by positivity
  rw [Int.tdiv_eq_ediv_of_nonneg hX]
  generalize hXd : a * Dec.P * (Dec.P * Dec.P) = X at *
  have ht0 : 0 ≤ X / S := Int.ediv_nonneg hX (le_of_lt hS)
  have h1 := chopRound_upper (X / S) ht0
  have h2 : X / S * S ≤ X := Int.ediv_mul_le X (ne_of_gt hS)
  refine ⟨?_, chopRound_nonneg _ ht0⟩
  generalize Dec.chopRound (X / S) = m at *
  generalize X / S = t at *
  have h4 : Dec.P * (2 * m * S) ≤ Dec.P * (2 * a * Dec.P * Dec.P + S) := by
    have : 2 * m * Dec.P * S ≤ (2 * t + Dec.P) * S := Int.mul_le_mul_of_nonneg_right h1 (le_of_lt hS)
    nlinarith
  exact Int.le_of_mul_le_mul_left h4 hP

theorem reward_bound (conv : Int → Int × Int) (hc : FloatUpper conv) (a S s : Int)
    (ha : 0 ≤ a) (hS : 0 < S) (hs : 0 ≤ s) :
    floorQ (conv (Dec.mul s (multiplier a S))) * TWO53 * (2 * Dec.P * Dec.P * S)
      ≤ (TWO53 + 1) * (2 * a * s * Dec.P * Dec.P + (s + Dec.P) * S) := by
  have hP := P_pos
  obtain ⟨hm, hm0⟩ := multiplier_bounds a S ha hS
  generalize multiplier a S = m at *
  have hsm : 0 ≤ s * m := Int.mul_nonneg hs hm0
  have hp := chopRound_upper (s * m) hsm
  have hp0 := chopRound_nonneg (s * m) hsm
  unfold Dec.mul
  generalize Dec.chopRound (s * m) = p at *
  obtain ⟨hd, hn⟩ := hc p hp0
  unfold floorQ
  generalize (conv p).1 = n at *
  generalize (conv p).2 = d at *
  have hr : n / d * d ≤ n := Int.ediv_mul_le n (ne_of_gt hd)
  generalize n / d = r at *
  have hT : (0:Int) < TWO53 := by decide
  -- (3)
  have h3 : 2 * p * Dec.P * S ≤ s * (2 * a * Dec.P * Dec.P + S) + Dec.P * S := by
    have e1 : 2 * p * Dec.P * S ≤ (2 * (s * m) + Dec.P) * S := Int.mul_le_mul_of_nonneg_right hp (le_of_lt hS)
    have e2 : s * (2 * m * S) ≤ s * (2 * a * Dec.P * Dec.P + S) := Int.mul_le_mul_of_nonneg_left hm hs
    nlinarith
  -- (4)
  have h4 : r * Dec.P * TWO53 ≤ p * (TWO53 + 1) := by
    have e1 : r * d * (Dec.P * TWO53) ≤ n * (Dec.P * TWO53) :=
      Int.mul_le_mul_of_nonneg_right hr (by positivity)
    have e2 : d * (r * Dec.P * TWO53) ≤ d * (p * (TWO53 + 1)) := by nlinarith
    exact Int.le_of_mul_le_mul_left e2 hd
  -- (5)
  have h5 : r * Dec.P * TWO53 * (2 * Dec.P * S) ≤ p * (TWO53 + 1) * (2 * Dec.P * S) :=
    Int.mul_le_mul_of_nonneg_right h4 (by positivity)
  have h6 : (TWO53 + 1) * (2 * p * Dec.P * S) ≤ (TWO53 + 1) * (s * (2 * a * Dec.P * Dec.P + S) + Dec.P * S) :=
    Int.mul_le_mul_of_nonneg_left h3 (by positivity)
  nlinarith

theorem reward_bound_1e12 (r a S s : Int) (ha : 0 ≤ a) (hS : 0 < S) (hs1 : Dec.P ≤ s)
    (hSA : S ≤ 999000 * a * Dec.P)
    (hB : r * TWO53 * (2 * Dec.P * Dec.P * S) ≤ (TWO53 + 1) * (2 * a * s * Dec.P * Dec.P + (s + Dec.P) * S)) :
    r * 1000000000000 * S ≤ 1000000000001 * a * s := by
  have hP := P_pos
  have hs : 0 ≤ s := by omega
  have e1 : (s + Dec.P) * S ≤ (2 * s) * S := Int.mul_le_mul_of_nonneg_right (by omega) (le_of_lt hS)
  have e2 : s * S ≤ s * (999000 * a * Dec.P) := Int.mul_le_mul_of_nonneg_left hSA hs
  have hy : 0 ≤ a * s := Int.mul_nonneg ha hs
  generalize hz : r * S = z
  generalize hyy : a * s = y at hy
  have hB' : (2 * Dec.P * Dec.P * TWO53) * z ≤ (TWO53 + 1) * (2 * Dec.P * Dec.P + 2 * 999000 * Dec.P) * y := by
    subst hz hyy
    have e3 : (TWO53 + 1) * ((s + Dec.P) * S) ≤ (TWO53 + 1) * (2 * (s * (999000 * a * Dec.P))) := by
      apply Int.mul_le_mul_of_nonneg_left _ (by decide)
      linarith
    nlinarith
  have goal' : 1000000000000 * z ≤ 1000000000001 * y := by
    simp only [Dec.P, TWO53] at hB'
    linarith
  subst hz hyy
  linarith

/-! ## the exact binary64 conversion satisfies the float hypothesis -/

theorem divRoundEven_upper (a b : Nat) (hb : 0 < b) : 2 * (divRoundEven a b * b) ≤ 2 * a + b := by
  have h1 := Nat.div_add_mod a b
  have h2 := Nat.mod_lt a hb
  unfold divRoundEven
  generalize a / b = q at *
  generalize a % b = r at *
  have e1 : (q + 1) * b = b * q + b := by rw [Nat.add_mul, Nat.mul_comm]; omega
  have e2 : q * b = b * q := Nat.mul_comm _ _
  split_ifs <;> (first | rw [e1] | rw [e2]) <;> omega

theorem pow_exps (e : Int) :
    2 ^ e.toNat * 2 ^ 52 * 2 ^ (-(e + 52)).toNat = 2 ^ (-e).toNat * 2 ^ (e + 52).toNat := by
  rw [← Nat.pow_add, ← Nat.pow_add, ← Nat.pow_add]
  congr 1
  omega

theorem geTwoPow_k0 (raw : Nat) (hr : raw ≠ 0) : geTwoPow raw ((Nat.log2 raw : Int) - 60) = true := by
  unfold geTwoPow
  simp only [decide_eq_true_eq]
  have h1 := Nat.log2_self_le hr
  generalize hk : ((Nat.log2 raw : Int) - 60) = k0
  have e : 2 ^ Nat.log2 raw * 2 ^ (-k0).toNat = 2 ^ 60 * 2 ^ k0.toNat := by
    rw [← Nat.pow_add, ← Nat.pow_add]; congr 1; omega
  calc P18 * 2 ^ k0.toNat ≤ 2 ^ 60 * 2 ^ k0.toNat := Nat.mul_le_mul_right _ (by decide)
    _ = 2 ^ Nat.log2 raw * 2 ^ (-k0).toNat := e.symm
    _ ≤ raw * 2 ^ (-k0).toNat := Nat.mul_le_mul_right _ h1

theorem f64parts_norm (raw : Nat) (hr : raw ≠ 0) :
    geTwoPow raw ((f64parts raw).2 + 52) = true := by
  unfold f64parts
  simp only
  split
  · rename_i h
    have : (Nat.log2 raw : Int) - 60 + 1 - 52 + 52 = (Nat.log2 raw : Int) - 60 + 1 := by omega
    rw [this]; exact h
  · have : (Nat.log2 raw : Int) - 60 - 52 + 52 = (Nat.log2 raw : Int) - 60 := by omega
    rw [this]; exact geTwoPow_k0 raw hr

theorem f64parts_upper (raw : Nat) (hr : raw ≠ 0) :
    (f64parts raw).1 * 2 ^ (f64parts raw).2.toNat * P18 * 2 ^ 53
      ≤ raw * 2 ^ (-(f64parts raw).2).toNat * (2 ^ 53 + 1) := by
  have hn := f64parts_norm raw hr
  have hm : (f64parts raw).1 = divRoundEven (raw * 2 ^ (-(f64parts raw).2).toNat) (P18 * 2 ^ (f64parts raw).2.toNat) := rfl
  generalize (f64parts raw).2 = e at *
  generalize (f64parts raw).1 = m at *
  unfold geTwoPow at hn
  simp only [decide_eq_true_eq] at hn
  have hx := pow_exps e
  have hA : 0 < 2 ^ e.toNat := Nat.two_pow_pos _
  have hB : 0 < 2 ^ (-e).toNat := Nat.two_pow_pos _
  have hK2 : 0 < 2 ^ (-(e + 52)).toNat := Nat.two_pow_pos _
  generalize 2 ^ e.toNat = A at *
  generalize 2 ^ (-e).toNat = B at *
  generalize 2 ^ (e + 52).toNat = K1 at *
  generalize 2 ^ (-(e + 52)).toNat = K2 at *
  have hr2 := divRoundEven_upper (raw * B) (P18 * A) (Nat.mul_pos (by decide) hA)
  rw [← hm] at hr2
  -- P18 * A * 2^52 ≤ raw * B
  have key : P18 * A * 2 ^ 52 ≤ raw * B := by
    have : P18 * A * 2 ^ 52 * K2 ≤ raw * B * K2 := by
      calc P18 * A * 2 ^ 52 * K2 = P18 * (A * 2 ^ 52 * K2) := by ring
        _ = P18 * (B * K1) := by rw [hx]
        _ = (P18 * K1) * B := by ring
        _ ≤ (raw * K2) * B := Nat.mul_le_mul_right _ hn
        _ = raw * B * K2 := by ring
    exact Nat.le_of_mul_le_mul_right this hK2
  nlinarith

theorem f64_floatUpper : FloatUpper f64 := by
  intro p hp
  unfold f64
  split
  · have : p = 0 := by omega
    subst this; simp
  · rename_i hpos
    have hr : p.toNat ≠ 0 := by omega
    have h := f64parts_upper p.toNat hr
    refine ⟨by positivity, ?_⟩
    simp only
    have hp' : ((p.toNat : Nat) : Int) = p := Int.toNat_of_nonneg hp
    have hc : (((f64parts p.toNat).1 * 2 ^ (f64parts p.toNat).2.toNat * P18 * 2 ^ 53 : Nat) : Int)
        ≤ ((p.toNat * 2 ^ (-(f64parts p.toNat).2).toNat * (2 ^ 53 + 1) : Nat) : Int) := by exact_mod_cast h
    push_cast at hc
    rw [hp'] at hc
    simp only [Dec.P, TWO53, P18, Nat.cast_ofNat] at *
    linarith

/-! ## lists of rewards -/

theorem mapE_get (f : Int → Except String Int) (l rs : List Int) (h : mapE f l = .ok rs) :
    rs.length = l.length ∧ ∀ (i : Nat) (s : Int), l[i]? = some s → ∃ r, rs[i]? = some r ∧ f s = .ok r := by
  induction l generalizing rs with
  | nil =>
    simp only [mapE] at h; injection h with h; subst h
    exact ⟨rfl, by simp⟩
  | cons x xs ih =>
    simp only [mapE] at h
    split at h
    · cases h
    · rename_i y hy
      split at h
      · cases h
      · rename_i ys hys
        injection h with h; subst h
        obtain ⟨hl, hg⟩ := ih ys hys
        refine ⟨by simp [hl], ?_⟩
        intro i s hi
        cases i with
        | zero => simp at hi; subst hi; exact ⟨y, by simp, hy⟩
        | succ i => simp at hi; obtain ⟨r, hr, hf⟩ := hg i s hi; exact ⟨r, by simpa using hr, hf⟩

theorem sumL_nonneg_mem (l : List Int) (h : ∀ x ∈ l, 0 ≤ x) (s : Int) (hs : s ∈ l) : s ≤ sumL l := by
  induction l with
  | nil => simp at hs
  | cons x xs ih =>
    have hx := h x (by simp)
    have hxs : ∀ y ∈ xs, 0 ≤ y := fun y hy => h y (by simp [hy])
    have := sumL_nonneg xs hxs
    simp only [sumL]
    rcases List.mem_cons.mp hs with rfl | hs
    · omega
    · have := ih hxs hs; omega

theorem gaugeRem_le_remGauges (gs : List Gauge) (h : ∀ g ∈ gs, GInv g) (g : Gauge) (hg : g ∈ gs) :
    gaugeRem g ≤ remGauges gs := by
  induction gs with
  | nil => simp at hg
  | cons x xs ih =>
    have hx := GInv_le_deposit x (h x (by simp))
    have hxs : ∀ y ∈ xs, GInv y := fun y hy => h y (by simp [hy])
    have hnn : 0 ≤ remGauges xs := by
      clear ih hg
      induction xs with
      | nil => simp [remGauges]
      | cons y ys ih2 =>
        have := GInv_le_deposit y (hxs y (by simp))
        have := ih2 (fun z hz => h z (by simp at hz ⊢; rcases hz with rfl | hz <;> simp [*]))
          (fun z hz => hxs z (by simp [hz]))
        simp only [remGauges, gaugeRem]; omega
    simp only [remGauges]
    rcases List.mem_cons.mp hg with rfl | hg
    · omega
    · have := ih hxs hg
      simp only [gaugeRem] at *; omega

theorem remExts_nonneg (xs : List Ext) (h : ∀ x ∈ xs, 0 ≤ x.avail) : 0 ≤ remExts xs := by
  induction xs with
  | nil => simp [remExts]
  | cons x xs ih =>
    have := h x (by simp)
    have := ih (fun y hy => h y (by simp [hy]))
    simp only [remExts]; omega

/-! ## master / child weights -/

theorem zipMin_map (fs : List Farmer) :
    zipMin (fs.map (fun f => posValue f.master)) (fs.map (fun f => childValue f.children)) = fs.map weight := by
  induction fs with
  | nil => rfl
  | cons f fs ih => simp only [List.map_cons, zipMin, ih, weight]

theorem chopRound_nonneg' (x : Int) (hx : 0 ≤ x) : 0 ≤ Dec.chopRound x := chopRound_nonneg x hx

theorem posValue_nonneg (p : Pos) (ha : 0 ≤ p.amt) (hd : 0 < p.dec) : 0 ≤ posValue p := by
  unfold posValue
  split
  · exact Int.le_refl 0
  · rename_i ht
    have hP := P_pos
    have ht : 0 < p.twa := by omega
    unfold Dec.mul Dec.quo Dec.ofInt Dec.PP
    have h1 : 0 ≤ Dec.chopRound (p.amt * Dec.P * (p.twa * Dec.P)) := chopRound_nonneg _ (by positivity)
    generalize Dec.chopRound (p.amt * Dec.P * (p.twa * Dec.P)) = v at *
    have h2 : 0 ≤ (v * (Dec.P * Dec.P)).tdiv (p.dec * Dec.P) := by
      rw [Int.tdiv_eq_ediv_of_nonneg (by positivity)]
      exact Int.ediv_nonneg (by positivity) (by positivity)
    have h3 := chopRound_nonneg _ h2
    generalize Dec.chopRound ((v * (Dec.P * Dec.P)).tdiv (p.dec * Dec.P)) = q at *
    exact chopRound_nonneg _ (by positivity)

theorem childValue_nonneg (ps : List Pos) (h : ∀ p ∈ ps, 0 ≤ p.amt ∧ 0 < p.dec) : 0 ≤ childValue ps := by
  unfold childValue
  apply sumL_nonneg
  intro x hx
  obtain ⟨p, hp, rfl⟩ := List.mem_map.mp hx
  exact posValue_nonneg p (h p hp).1 (h p hp).2

theorem weight_nonneg (f : Farmer) (hm : 0 ≤ f.master.amt ∧ 0 < f.master.dec)
    (hc : ∀ p ∈ f.children, 0 ≤ p.amt ∧ 0 < p.dec) : 0 ≤ weight f := by
  unfold weight minD
  split
  · exact posValue_nonneg _ hm.1 hm.2
  · exact childValue_nonneg _ hc

end Comdex.Gauge
