import Comdex.Model.Twa
namespace Comdex.Twa

theorem split_at (l : List Nat) (i : Nat) (h : i < l.length) :
    ∃ A x B, l = A ++ x :: B ∧ A.length = i := by
  refine ⟨l.take i, l[i], l.drop (i+1), ?_, by simp; omega⟩
  rw [← List.drop_eq_getElem_cons h]; simp

/-- writing at the cursor of a full ring and advancing = drop oldest, append newest -/
theorem window_push_dec (A B : List Nat) (x rate : Nat) :
    let vs' := (A ++ x :: B).set A.length rate
    let i' := wrapIdx (A.length+1) (A ++ x :: B).length
    vs'.drop i' ++ vs'.take i' = B ++ A ++ [rate] := by
  intro vs' i'
  have hv : vs' = A ++ rate :: B := by simp [vs']
  rw [hv]
  cases B with
  | nil => simp [i', wrapIdx]
  | cons b B' =>
    have : i' = A.length + 1 := by simp [i', wrapIdx]
    rw [this, List.take_length_add_append]; simp

theorem window_push_full (vs : List Nat) (i N rate : Nat) (hN : vs.length = N) (hi : i < N) :
    (vs.set i rate).drop (wrapIdx (i+1) N) ++ (vs.set i rate).take (wrapIdx (i+1) N)
      = (vs.drop i ++ vs.take i).drop 1 ++ [rate] := by
  obtain ⟨A, x, B, rfl, rfl⟩ := split_at vs i (by omega)
  subst hN
  have := window_push_dec A B x rate
  simp only at this
  rw [this]; simp

end Comdex.Twa

namespace Comdex.Twa

theorem window_sum (vs : List Nat) (i : Nat) : (vs.drop i ++ vs.take i).sum = vs.sum := by
  rw [List.sum_append, Nat.add_comm, ← List.sum_append, List.take_append_drop]

theorem window_length (r : Rec) : r.window.length = r.values.length := by
  unfold Rec.window; simp; omega

theorem calcTwa_full (vs : List Nat) (N : Nat) (hN : N ≥ 1) (h : vs.length = N) :
    calcTwa vs N = .ok (vs.sum / N) := by
  unfold calcTwa
  have h0 : ¬ N = 0 := by omega
  have h1 : ¬ vs.length < N := by omega
  rw [if_neg h0, if_neg h1, ← h, List.take_length]

theorem lastN_full (w : List Nat) (N rate : Nat) (hN : N ≥ 1) (h : w.length = N) :
    lastN N (w ++ [rate]) = w.drop 1 ++ [rate] := by
  unfold lastN
  have : (w ++ [rate]).length - N = 1 := by simp; omega
  rw [this]
  cases w with
  | nil => simp at h; omega
  | cons a t => simp

theorem lastN_short (w : List Nat) (N rate : Nat) (h : w.length < N) :
    lastN N (w ++ [rate]) = w ++ [rate] := by
  unfold lastN
  have : (w ++ [rate]).length - N = 0 := by simp; omega
  rw [this]; simp

/-- The result of a positive sample on a well-formed record, as the spec describes it. -/
structure PushSpec (N : Nat) (r r' : Rec) (rate : Nat) : Prop where
  wf        : Wf N r'
  window    : r'.window = lastN N (r.window ++ [rate])
  discarded : r'.discarded = r.discarded
  full      : r'.window.length = N → r'.active = true ∧ r'.twa = r'.window.sum / N
  notfull   : r'.window.length ≠ N → r'.active = r.active ∧ r'.twa = r.twa

theorem pushFound_spec (N : Nat) (hN : N ≥ 1) (r : Rec) (rate : Nat) (hwf : Wf N r)
    (hd : r.discarded < 0) :
    ∃ r', pushFound r rate N = .ok r' ∧ PushSpec N r r' rate := by
  obtain ⟨hle, hlt, hfull, htwa, hdisc, hnz⟩ := hwf
  by_cases hlen : r.values.length = N
  · -- full ring: active or re-activating
    have hi : r.idx < N := hfull hlen
    have hset : setAt r.values r.idx rate = .ok (r.values.set r.idx rate) := by
      unfold setAt; simp [hlen, hi]
    have hlen' : (r.values.set r.idx rate).length = N := by simp [hlen]
    have hcalc := calcTwa_full (r.values.set r.idx rate) N hN hlen'
    have hw := window_push_full r.values r.idx N rate hlen hi
    have hwi : wrapIdx (r.idx + 1) N < N := by unfold wrapIdx; split <;> omega
    have hlN := lastN_full r.window N rate hN (by rw [window_length]; exact hlen)
    by_cases ha : r.active = true
    · refine ⟨{ r with values := r.values.set r.idx rate, idx := wrapIdx (r.idx+1) N,
                       twa := (r.values.set r.idx rate).sum / N }, ?_, ?_⟩
      · unfold pushFound; simp [ha, hset, hcalc, bind, Except.bind, pure, Except.pure]
      · refine ⟨⟨by simp [hlen], by simp [hlen], fun _ => hwi, fun _ => rfl, ?_, hnz⟩, ?_, rfl, ?_, ?_⟩
        · intro h; simp at h; omega
        · rw [hlN]; exact hw
        · intro _; refine ⟨ha, ?_⟩
          simp only [Rec.window, window_sum]
        · intro h; rw [window_length] at h; simp [hlen] at h
    · have ha' : r.active = false := by simpa using ha
      refine ⟨{ r with values := r.values.set r.idx rate, idx := wrapIdx (r.idx+1) N,
                       active := true, twa := (r.values.set r.idx rate).sum / N }, ?_, ?_⟩
      · unfold pushFound; simp [ha', hset, hcalc, hlen, bind, Except.bind, pure, Except.pure]
      · refine ⟨⟨by simp [hlen], by simp [hlen], fun _ => hwi, fun _ => rfl, ?_, hnz⟩, ?_, rfl, ?_, ?_⟩
        · intro h; simp at h; omega
        · rw [hlN]; exact hw
        · intro _; refine ⟨rfl, ?_⟩
          simp only [Rec.window, window_sum]
        · intro h; rw [window_length] at h; simp [hlen] at h
  · -- still filling
    have hl : r.values.length < N := by omega
    obtain ⟨hidx, hact⟩ := hlt hl
    have hwin : r.window = r.values := by unfold Rec.window; rw [hidx]; simp
    have hlN := lastN_short r.window N rate (by rw [window_length]; exact hl)
    by_cases hfill : r.idx + 1 ≥ N
    · have hlen' : (r.values ++ [rate]).length = N := by simp; omega
      have hcalc := calcTwa_full (r.values ++ [rate]) N hN hlen'
      refine ⟨{ r with values := r.values ++ [rate], idx := 0, active := true,
                       twa := (r.values ++ [rate]).sum / N }, ?_, ?_⟩
      · unfold pushFound
        have : ¬ r.values.length ≥ N := by omega
        simp [hact, this, hfill, hcalc, bind, Except.bind, pure, Except.pure]
      · refine ⟨⟨by simp; omega, ?_, fun _ => by simp; omega, fun _ => rfl, ?_, hnz⟩, ?_, rfl, ?_, ?_⟩
        · intro h; simp at h; omega
        · intro h; simp at h; omega
        · rw [hlN, hwin]; simp [Rec.window]
        · intro _; refine ⟨rfl, ?_⟩; simp [Rec.window]
        · intro h; rw [window_length] at h; simp at h; omega
    · refine ⟨{ r with values := r.values ++ [rate], idx := r.idx + 1 }, ?_, ?_⟩
      · unfold pushFound
        have : ¬ r.values.length ≥ N := by omega
        simp [hact, this, hfill, pure, Except.pure]
      · refine ⟨⟨by simp; omega, ?_, ?_, ?_, ?_, hnz⟩, ?_, rfl, ?_, ?_⟩
        · intro _; simp [hidx, hact]
        · intro h; simp at h; omega
        · intro h; simp [hact] at h
        · intro h; exact hdisc h
        · rw [hlN, hwin]; simp only [Rec.window, hidx]
          rw [List.take_of_length_le (by simp), List.drop_of_length_le (by simp)]; simp
        · intro h; rw [window_length] at h; simp at h; omega
        · intro _; exact ⟨rfl, rfl⟩

end Comdex.Twa

namespace Comdex.Twa

theorem fresh_wf (N : Nat) (hN : N ≥ 1) : Wf N fresh := by
  refine ⟨by simp [fresh], ?_, ?_, by simp [fresh], by simp [fresh], by simp [fresh]⟩
  · intro _; simp [fresh]
  · intro h; simp [fresh] at h; omega

/-- `PushSpec` is exactly `Spec.push` on the abstraction. -/
theorem abs_push (N : Nat) (r r' : Rec) (rate : Nat) (hs : PushSpec N r r' rate) (known : Bool) :
    abs (some r') = Spec.push N { abs (some r) with known := known } rate := by
  have hw := hs.window
  simp only [abs, Spec.push]
  simp only [← hw]
  by_cases hl : r'.window.length = N
  · obtain ⟨ha, ht⟩ := hs.full hl
    simp [hl, ha, ht, hs.discarded]
  · obtain ⟨ha, ht⟩ := hs.notfull hl
    simp [hl, ha, ht, hs.discarded]

/-- One step of the implementation model refines one step of the specification,
never panics, and preserves ring well-formedness. -/
theorem step_refines (N : Nat) (hN : N ≥ 1) (acc : Int) (s : Option Rec) (op : Op)
    (hwf : WfO N s) (hh : ∀ r h, op = .sample r h → h > 0) :
    ∃ s', step N acc s op = .ok s' ∧ WfO N s' ∧ abs s' = (abs s).step N acc op := by
  cases op with
  | discardAll =>
    cases s with
    | none => exact ⟨none, rfl, trivial, by simp [abs, Spec.step, Spec.init]⟩
    | some r =>
      obtain ⟨_, _, _, _, hdisc, hnz⟩ := hwf
      refine ⟨_, rfl, ?_, ?_⟩
      · show Wf N { r with active := false, idx := 0, values := [] }
        refine ⟨by simp, ?_, ?_, by simp, by simp, hnz⟩
        · intro _; simp
        · intro h; simp at h; omega
      · simp [discardAll, abs, Spec.step, Rec.window]
  | deactivate =>
    cases s with
    | none => exact ⟨none, rfl, trivial, by simp [abs, Spec.step, Spec.init]⟩
    | some r =>
      obtain ⟨h1, h2, h3, _, hdisc, hnz⟩ := hwf
      refine ⟨_, rfl, ?_, ?_⟩
      · show Wf N { r with active := false }
        exact ⟨h1, fun h => ⟨(h2 h).1, rfl⟩, h3, by simp, by simp, hnz⟩
      · simp [deactivate, abs, Spec.step, Rec.window]
  | sample rate h =>
    have hpos : h > 0 := hh rate h rfl
    cases s with
    | none =>
      by_cases hr : rate = 0
      · refine ⟨none, by simp [step, update, hr], trivial, ?_⟩
        simp [abs, Spec.step, Spec.sample, hr, Spec.init]
      · have hr' : rate > 0 := by omega
        obtain ⟨r', hok, hs⟩ := pushFound_spec N hN fresh rate (fresh_wf N hN) (by simp [fresh])
        refine ⟨some r', by simp [step, update, hr', hok, Except.map], hs.wf, ?_⟩
        rw [abs_push N fresh r' rate hs false]
        simp [abs, Spec.step, Spec.sample, hr, Spec.init, Spec.resume, fresh, Rec.window]
    | some r =>
      have hwf' : Wf N r := hwf
      obtain ⟨h1, h2, h3, h4, hdisc, hnz⟩ := hwf
      by_cases hr : rate = 0
      · -- zero sample
        by_cases hd : r.discarded < 0
        · refine ⟨some { r with discarded := h, active := false }, ?_, ?_, ?_⟩
          · simp [step, update, discardPhase, hr, hd]
          · exact ⟨h1, fun hl => ⟨(h2 hl).1, rfl⟩, h3, by simp, by simp, by simp; omega⟩
          · simp [abs, Spec.step, Spec.sample, hr, hd, Rec.window]
        · refine ⟨some r, ?_, hwf', ?_⟩
          · simp [step, update, discardPhase, hr, hd]
          · simp [abs, Spec.step, Spec.sample, hr, hd]
      · have hr' : rate > 0 := by omega
        -- the record after the discard phase
        have key : ∀ r1 : Rec, Wf N r1 → r1.discarded < 0 →
            discardPhase r rate h acc = (r1, false) →
            abs (some r1) = (abs (some r)).resume acc h →
            ∃ s', step N acc (some r) (.sample rate h) = .ok s' ∧ WfO N s' ∧
              abs s' = (abs (some r)).step N acc (.sample rate h) := by
          intro r1 hwf1 hd1 hph habs
          obtain ⟨r', hok, hs⟩ := pushFound_spec N hN r1 rate hwf1 hd1
          refine ⟨some r', by simp [step, update, hph, hr', hok, Except.map], hs.wf, ?_⟩
          simp only [Spec.step, Spec.sample, hr, if_false]
          rw [← habs, abs_push N r1 r' rate hs true]
          simp [abs]
        by_cases hd : r.discarded > 0
        · have hina : r.active = false := hdisc (by omega)
          by_cases hg : h - r.discarded < acc
          · apply key { r with discarded := -1 }
            · exact ⟨h1, h2, h3, h4, by simp [hina], by simp⟩
            · simp
            · simp [discardPhase, hr, hr', hd, hg]
            · simp [abs, Spec.resume, hd, hg, Rec.window]
          · apply key { r with values := [], discarded := -1, active := false, idx := 0 }
            · refine ⟨by simp, by simp, ?_, by simp, by simp, by simp⟩
              intro hl; simp at hl; omega
            · simp
            · simp [discardPhase, hr, hr', hd, hg]
            · simp [abs, Spec.resume, hd, hg, Rec.window]
        · apply key r hwf' (by omega)
          · simp [discardPhase, hr, hd]
          · simp [abs, Spec.resume, hd]

end Comdex.Twa
