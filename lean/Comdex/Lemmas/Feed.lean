import Comdex.Model.Feed
import Comdex.Lemmas.Twa
/-!
Lemmas for the feed pipeline (C17): the keyed book of windows, and the sampling loop — it never panics on well-formed
windows, keeps them well-formed, and gives every oracle-priced asset exactly the rate at its rank.
-/
namespace Comdex.Feed
open Comdex.Twa

def BooksWf (N : Nat) (bk : Books) : Prop := ∀ x ∈ bk, Wf N x.2

theorem get_wf (N : Nat) (bk : Books) (h : BooksWf N bk) (id : Nat) : WfO N (bk.get id) := by
  unfold Books.get
  cases hf : bk.find? (fun x => decide (x.1 = id)) with
  | none => simp [WfO]
  | some x => simp only [Option.map_some, WfO]; exact h x (List.mem_of_find?_eq_some hf)

theorem get_put_same (bk : Books) (id : Nat) (v : Rec) : (bk.put id (some v)).get id = some v := by
  unfold Books.put Books.get
  by_cases ha : bk.any (fun x => decide (x.1 = id)) = true
  · simp only [ha, if_true]
    induction bk with
    | nil => simp at ha
    | cons a t ih =>
      by_cases e : a.1 = id
      · simp [List.find?, e]
      · have hat : t.any (fun x => decide (x.1 = id)) = true := by simpa [List.any_cons, e] using ha
        simp only [List.map_cons, e, if_false, List.find?_cons, decide_false]
        exact ih hat
  · have ha' : bk.any (fun x => decide (x.1 = id)) = false := Bool.eq_false_iff.mpr ha
    simp only [ha', Bool.false_eq_true, if_false]
    have hn : ∀ x ∈ bk, ¬ x.1 = id := by
      intro x hx e; exact ha (List.any_eq_true.mpr ⟨x, hx, by simpa using e⟩)
    rw [List.find?_append]
    have : bk.find? (fun x => decide (x.1 = id)) = none := by
      rw [List.find?_eq_none]; intro x hx; simpa using hn x hx
    simp [this]

theorem get_put_other (bk : Books) (id id' : Nat) (r : Option Rec) (h : id' ≠ id) : (bk.put id r).get id' = bk.get id' := by
  cases r with
  | none => rfl
  | some v =>
    unfold Books.put Books.get
    by_cases ha : bk.any (fun x => decide (x.1 = id)) = true
    · simp only [ha, if_true]
      congr 1
      induction bk with
      | nil => rfl
      | cons a t ih =>
        by_cases e : a.1 = id
        · have e' : ¬ a.1 = id' := fun e2 => h (e2.symm.trans e)
          have e'' : ¬ id = id' := fun e2 => h e2.symm
          simp only [List.map_cons, e, if_true, List.find?_cons, e', e'', decide_false]
          by_cases hat : t.any (fun x => decide (x.1 = id)) = true
          · exact ih hat
          · have hn : ∀ x ∈ t, ¬ x.1 = id := by
              intro x hx e2; exact hat (List.any_eq_true.mpr ⟨x, hx, by simpa using e2⟩)
            have : t.map (fun x => if x.1 = id then (id, v) else x) = t := by
              conv => rhs; rw [← List.map_id t]
              apply List.map_congr_left
              intro x hx; simp [hn x hx]
            rw [this]
        · have hat : t.any (fun x => decide (x.1 = id)) = true := by simpa [List.any_cons, e] using ha
          simp only [List.map_cons, e, if_false, List.find?_cons]
          by_cases e2 : a.1 = id'
          · simp [e2]
          · simp only [e2, decide_false]; exact ih hat
    · have ha' : bk.any (fun x => decide (x.1 = id)) = false := Bool.eq_false_iff.mpr ha
      simp only [ha', Bool.false_eq_true, if_false]
      rw [List.find?_append]
      cases hf : bk.find? (fun x => decide (x.1 = id')) with
      | some x => simp
      | none => simp [Ne.symm h]

theorem put_wf (N : Nat) (bk : Books) (id : Nat) (r : Option Rec) (h : BooksWf N bk) (hr : WfO N r) : BooksWf N (bk.put id r) := by
  cases r with
  | none => exact h
  | some v =>
    unfold Books.put
    by_cases ha : bk.any (fun x => decide (x.1 = id)) = true
    · simp only [ha, if_true]
      intro x hx
      simp only [List.mem_map] at hx
      obtain ⟨y, hy, rfl⟩ := hx
      by_cases e : y.1 = id
      · simp only [e, if_true]; exact hr
      · simp only [e, if_false]; exact h y hy
    · have ha' : bk.any (fun x => decide (x.1 = id)) = false := Bool.eq_false_iff.mpr ha
      simp only [ha', Bool.false_eq_true, if_false]
      intro x hx
      rcases List.mem_append.mp hx with hx | hx
      · exact h x hx
      · simp only [List.mem_singleton] at hx; subst hx; exact hr

/-- `update` (= one `.sample` step) on a well-formed window: no panic, well-formed result; `none` only from `none` -/
theorem update_ok (N : Nat) (hN : N ≥ 1) (acc height : Int) (hh : height > 0) (s : Option Rec) (rate : Nat) (hwf : WfO N s) :
    ∃ s', update s rate N height acc = .ok s' ∧ WfO N s' ∧ (s' = none → s = none) := by
  obtain ⟨s', h1, h2, _⟩ := step_refines N hN acc s (.sample rate height) hwf (by intro r h e; cases e; exact hh)
  refine ⟨s', h1, h2, ?_⟩
  intro hn; subst hn
  cases s with
  | none => rfl
  | some r =>
    exfalso
    simp only [step, update] at h1
    split at h1
    · cases h1
    · split at h1
      · simp only [Except.map] at h1
        split at h1 <;> cases h1
      · cases h1

theorem fedWith_notin (assets : List (Nat × Bool)) (rates : List Nat) (r id : Nat) (h : id ∉ assets.map (·.1)) :
    fedWith assets rates r id = none := by
  induction assets generalizing r with
  | nil => rfl
  | cons b t ih =>
    obtain ⟨bid, breq⟩ := b
    simp only [List.map_cons, List.mem_cons, not_or] at h
    have hb : ¬ bid = id := fun e => h.1 e.symm
    simp only [fedWith, hb, if_false]
    exact ih _ h.2

/-- **The sampling loop**: never panics, keeps every window well-formed, and changes the window of asset `id` exactly
by one `UpdatePriceList` with the rate at its rank among the oracle-priced assets (or not at all when the asset is not
oracle-priced or the result list is too short). Asset ids distinct. -/
theorem feedLoop_spec (N : Nat) (hN : N ≥ 1) (acc height : Int) (hh : height > 0) (rates : List Nat)
    (assets : List (Nat × Bool)) (hnd : (assets.map (·.1)).Nodup) (rank : Nat) (bk : Books) (hwf : BooksWf N bk) :
    ∃ bk', feedLoop N acc height rates assets rank bk = .ok bk' ∧ BooksWf N bk' ∧
      ∀ id, match fedWith assets rates rank id with
            | some rate => update (bk.get id) rate N height acc = .ok (bk'.get id)
            | none => bk'.get id = bk.get id := by
  induction assets generalizing rank bk with
  | nil => exact ⟨bk, rfl, hwf, fun id => by simp [fedWith]⟩
  | cons a rest ih =>
    obtain ⟨aid, required⟩ := a
    simp only [List.map_cons, List.nodup_cons] at hnd
    obtain ⟨hnotin, hnd'⟩ := hnd
    have hrest : ∀ r, fedWith rest rates r aid = none := fun r => fedWith_notin rest rates r aid hnotin
    cases required with
    | false =>
      obtain ⟨bk', h1, h2, h3⟩ := ih hnd' rank bk hwf
      refine ⟨bk', by simp [feedLoop, h1], h2, ?_⟩
      intro id
      by_cases e : aid = id
      · subst e
        have := h3 aid
        simp only [fedWith, if_true, hrest] at this ⊢
        simpa using this
      · have := h3 id
        simpa [fedWith, e] using this
    | true =>
      cases hr : rates[rank]? with
      | none =>
        obtain ⟨bk', h1, h2, h3⟩ := ih hnd' (rank + 1) bk hwf
        refine ⟨bk', by simp [feedLoop, hr, h1], h2, ?_⟩
        intro id
        by_cases e : aid = id
        · subst e
          have := h3 aid
          simp only [hrest] at this
          simpa [fedWith, hr] using this
        · have := h3 id
          simpa [fedWith, e] using this
      | some rate =>
        obtain ⟨s', hu, hwfs, hnone⟩ := update_ok N hN acc height hh (bk.get aid) rate (get_wf N bk hwf aid)
        obtain ⟨bk', h1, h2, h3⟩ := ih hnd' (rank + 1) (bk.put aid s') (put_wf N bk aid s' hwf hwfs)
        refine ⟨bk', by simp [feedLoop, hr, hu, h1, bind, Except.bind], h2, ?_⟩
        intro id
        by_cases e : aid = id
        · subst e
          have := h3 aid
          simp only [hrest] at this
          simp only [fedWith, if_true, hr]
          rw [hu, this]
          cases s' with
          | none => show Except.ok none = Except.ok (bk.get aid); rw [hnone rfl]
          | some v => rw [get_put_same]
        · have := h3 id
          simp only [fedWith, e, if_false, if_true]
          rw [get_put_other bk aid id s' (fun h => e h.symm)] at this
          exact this

end Comdex.Feed
