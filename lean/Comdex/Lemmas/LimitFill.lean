import Comdex.Lemmas.DutchV2W
import Comdex.Lemmas.LimitBid
import Comdex.Model.LimitFill
/-!
Lemmas for the joint model (limit-bid book + second-generation Dutch auction + module account).

`JInv other0 je s` = the all-history ledger of the auction (`DutchV2.InvW`) and the book invariant:
every record positive, `BidValue = Σ records + exact` (`exact` = deposits consumed by exact fills, whose `BidValue` the code
forgets to reduce), and `otherD` — the debt denom in the module account that is NOT proceeds of this auction — is exactly
`other0 + Σ records + fees retained + over` (`over` = debited from deposits beyond what the auction charged, D24).
Every operation keeps it: deposit, cancel, withdraw, market bid, reserve top-up, and the begin-blocker (price update / restart /
shutdown branch, then the limit-bid loop with ANY number of bidders in the bucket and the auction value read before the loop).
-/
namespace Comdex.LimitFill
open Comdex Comdex.DutchV2
open Comdex.LimitBid (getK putK delK sumK getD0 fee getK_putK getD0_putK sumK_putK sumK_delK getK_delK_ne mem_putK mem_delK
  getK_mem getD0_of_getK fee_nonneg)

/-! ### the book as a keyed list -/

theorem total_putK (deps : List (RKey × Int)) (k : RKey) (v : Int) : total (putK deps k v) = total deps - getD0 deps k + v := by
  unfold total; rw [sumK_putK]; simp

theorem total_delK (deps : List (RKey × Int)) (k : RKey) : total (delK deps k) = total deps - getD0 deps k := by
  unfold total; rw [sumK_delK]; simp

def Pos (deps : List (RKey × Int)) : Prop := ∀ kv ∈ deps, kv.2 > 0

theorem Pos.get {deps : List (RKey × Int)} (h : Pos deps) {k : RKey} {v : Int} (hk : getK deps k = some v) : v > 0 :=
  h (k, v) (getK_mem hk)

theorem Pos.getD0_nonneg {deps : List (RKey × Int)} (h : Pos deps) (k : RKey) : 0 ≤ getD0 deps k := by
  unfold getD0
  cases hk : getK deps k with
  | none => simp
  | some v => have := h.get hk; simp; omega

theorem Pos.put {deps : List (RKey × Int)} (h : Pos deps) (k : RKey) {v : Int} (hv : v > 0) : Pos (putK deps k v) := by
  intro kv hkv
  rcases mem_putK hkv with h1 | h1
  · exact h kv h1
  · rw [h1]; exact hv

theorem Pos.del {deps : List (RKey × Int)} (h : Pos deps) (k : RKey) : Pos (delK deps k) :=
  fun kv hkv => h kv (mem_delK hkv)

theorem total_nonneg {deps : List (RKey × Int)} (h : Pos deps) : 0 ≤ total deps := by
  unfold total
  induction deps with
  | nil => simp [sumK]
  | cons hd tl ih =>
    obtain ⟨k, v⟩ := hd
    have hv := h (k, v) (by simp)
    have := ih (fun kv hkv => h kv (by simp [hkv]))
    simp only [sumK, if_true]
    simp only at hv
    omega

/-! ### invariants -/

structure BookInv (other0 : Int) (s : JSt) : Prop where
  pos : Pos s.deps
  bv : s.bv = total s.deps + s.exact
  cust : s.d.otherD = other0 + total s.deps + s.fees + s.over
  exact_nonneg : 0 ≤ s.exact

def JInv (other0 : Int) (je : JEnv) (s : JSt) : Prop := InvW je.e s.d ∧ BookInv other0 s

/-- moving `x` of the debt denom into (or out of) the module account as money that is not the auction's keeps the auction ledger -/
theorem invW_shift {e : Env} {d : St} {b : Bank} {x : Int} (hi : InvW e d)
    (hb : b.get .auction .debt = d.bank.get .auction .debt + x) : InvW e { d with bank := b, otherD := d.otherD + x } := by
  refine ⟨hi.paid_nonneg, hi.short_nonneg, hi.short_le, hi.booked_nonneg, hi.esm_nonneg, ?_, ?_⟩
  · intro a ha
    obtain ⟨on, ost, oled⟩ := hi.open_ a ha
    exact ⟨on, ⟨ost.cover, ost.debt_nonneg, ost.bonus, ost.price, ost.init, ost.window⟩, by simp only; omega⟩
  · intro hn
    obtain ⟨c1, c2⟩ := hi.closed hn
    exact ⟨c1, by simp only; omega⟩

/-! ### user messages -/

theorem deposit_ok {s s' : JSt} {who : Nat} {prem amt : Int} (h : depositStep s who prem amt = .ok s') :
    0 < amt ∧ 0 ≤ prem ∧ prem ≤ maxPremium ∧
    ∃ b, send s.d.bank (.bidder who) .auction .debt amt = .ok b ∧
      s' = { s with d := { s.d with bank := b, otherD := s.d.otherD + amt },
                    deps := putK s.deps (prem, who) (getD0 s.deps (prem, who) + amt), bv := s.bv + amt } := by
  unfold depositStep at h
  split at h
  · cases h
  · split at h
    · cases h
    · split at h
      · cases h
      · split at h
        · cases h
        · rename_i b hb
          cases h
          exact ⟨by omega, by omega, by omega, b, hb, rfl⟩

theorem deposit_inv {other0 : Int} {je : JEnv} {s s' : JSt} {who : Nat} {prem amt : Int}
    (hi : JInv other0 je s) (h : depositStep s who prem amt = .ok s') : JInv other0 je s' := by
  obtain ⟨ha, _, _, b, hb, rfl⟩ := deposit_ok h
  obtain ⟨_, _, d⟩ := send_ok hb (by simp)
  obtain ⟨hw, hbk⟩ := hi
  refine ⟨invW_shift hw (by rw [d]; simp), ?_⟩
  have h0 := hbk.pos.getD0_nonneg (prem, who)
  refine ⟨hbk.pos.put _ (by omega), ?_, ?_, hbk.exact_nonneg⟩
  · simp only; rw [total_putK, hbk.bv]; omega
  · simp only; rw [total_putK, hbk.cust]; omega

theorem cancelCore_ok {je : JEnv} {s s' : JSt} {k : RKey} {rec : Int} (hr : rec > 0) (h : cancelCore je s k rec = .ok s') :
    ∃ b, send s.d.bank .auction (.bidder k.2) .debt (rec - fee je.closingFee rec) = .ok b ∧
      s' = { s with d := { s.d with bank := b, otherD := s.d.otherD - (rec - fee je.closingFee rec) },
                    deps := delK s.deps k, bv := s.bv - rec, fees := s.fees + fee je.closingFee rec } := by
  unfold cancelCore at h
  simp only [hr, if_true] at h
  split at h
  · cases h
  · rename_i b hb
    cases h
    exact ⟨b, hb, rfl⟩

theorem cancelCore_inv {other0 : Int} {je : JEnv} {s s' : JSt} {k : RKey} {rec : Int}
    (hi : JInv other0 je s) (hk : getK s.deps k = some rec) (h : cancelCore je s k rec = .ok s') : JInv other0 je s' := by
  obtain ⟨hw, hbk⟩ := hi
  have hr := hbk.pos.get hk
  obtain ⟨b, hb, rfl⟩ := cancelCore_ok hr h
  obtain ⟨_, _, d⟩ := send_ok hb (by simp)
  have hd0 := getD0_of_getK hk
  refine ⟨?_, ?_⟩
  · have := invW_shift (x := -(rec - fee je.closingFee rec)) hw (b := b) (by rw [d]; simp; omega)
    simpa [Int.sub_eq_add_neg] using this
  · refine ⟨hbk.pos.del _, ?_, ?_, hbk.exact_nonneg⟩
    · simp only; rw [total_delK, hbk.bv, hd0]; omega
    · simp only; rw [total_delK, hbk.cust, hd0]; omega

theorem cancel_inv {other0 : Int} {je : JEnv} {s s' : JSt} {who : Nat} {prem : Int}
    (hi : JInv other0 je s) (h : cancelStep je s who prem = .ok s') : JInv other0 je s' := by
  unfold cancelStep at h
  split at h
  · cases h
  · split at h
    · cases h
    · rename_i rec hk
      exact cancelCore_inv hi hk h

theorem withdraw_inv {other0 : Int} {je : JEnv} {s s' : JSt} {who : Nat} {prem amt : Int}
    (hi : JInv other0 je s) (h : withdrawStep je s who prem amt = .ok s') : JInv other0 je s' := by
  unfold withdrawStep at h
  split at h
  · cases h
  · rename_i hamt
    split at h
    · cases h
    · split at h
      · cases h
      · rename_i rec hk
        split at h
        · cases h
        · rename_i hle
          split at h
          · exact cancelCore_inv hi hk h
          · rename_i hne
            obtain ⟨hw, hbk⟩ := hi
            have hr := hbk.pos.get hk
            simp only [hr, if_true] at h
            split at h
            · cases h
            · rename_i b hb
              cases h
              obtain ⟨_, _, d⟩ := send_ok hb (by simp)
              have hd0 := getD0_of_getK hk
              refine ⟨?_, ?_⟩
              · have := invW_shift (x := -(amt - fee je.withdrawalFee amt)) hw (b := b) (by rw [d]; simp; omega)
                simpa [Int.sub_eq_add_neg] using this
              · refine ⟨hbk.pos.put _ (by omega), ?_, ?_, hbk.exact_nonneg⟩
                · simp only; rw [total_putK, hbk.bv, hd0]; omega
                · simp only; rw [total_putK, hbk.cust, hd0]; omega

/-! ### the limit-bid loop -/

theorem snapshot_spec (deps : List (RKey × Int)) (k : Int) :
    ∀ (order : List Nat), order.Nodup →
      (∀ x ∈ snapshot deps k order, getK deps (k, x.1) = some x.2 ∧ x.1 ∈ order) ∧ ((snapshot deps k order).map Prod.fst).Nodup := by
  intro order
  induction order with
  | nil => intro _; simp [snapshot]
  | cons w r ih =>
    intro hnd
    obtain ⟨hw, hr⟩ := List.nodup_cons.mp hnd
    obtain ⟨i1, i2⟩ := ih hr
    unfold snapshot
    cases hk : getK deps (k, w) with
    | none =>
      simp only
      exact ⟨fun x hx => ⟨(i1 x hx).1, by simp [(i1 x hx).2]⟩, i2⟩
    | some amt =>
      simp only
      refine ⟨?_, ?_⟩
      · intro x hx
        simp only [List.mem_cons] at hx
        rcases hx with hx | hx
        · subst hx; exact ⟨hk, by simp⟩
        · exact ⟨(i1 x hx).1, by simp [(i1 x hx).2]⟩
      · simp only [List.map_cons, List.nodup_cons]
        refine ⟨?_, i2⟩
        intro hmem
        obtain ⟨x, hx, hx1⟩ := List.mem_map.mp hmem
        have := (i1 x hx).2
        rw [hx1] at this
        exact hw this

theorem key_ne {k : Int} {w w' : Nat} (h : w ≠ w') : ((k, w) : RKey) ≠ (k, w') := by
  intro hc; exact h (Prod.mk.inj hc).2

/-- the loop keeps both invariants whatever the number of bidders in the bucket; `a` is the (stale) value read before the loop -/
theorem fillLoopJ_inv {je : JEnv} {a : Auc} {dt k other0 : Int} (hw : WfEnv je.e) (hdt : 0 ≤ dt) :
    ∀ (l : List (Nat × Int)) (s s' : JSt), InvW je.e s.d → Stale je.e s.d a → BookInv other0 s →
      (∀ x ∈ l, getK s.deps (k, x.1) = some x.2) → (l.map Prod.fst).Nodup →
      fillLoopJ je a dt k s l = .ok s' → InvW je.e s'.d ∧ BookInv other0 s' := by
  intro l
  induction l with
  | nil => intro s s' hi _ hb _ _ h; unfold fillLoopJ at h; cases h; exact ⟨hi, hb⟩
  | cons hd tl ih =>
    intro s s' hi hst hb hget hnd h
    obtain ⟨who, amt⟩ := hd
    have hk : getK s.deps (k, who) = some amt := hget (who, amt) (by simp)
    have hamt := hb.pos.get hk
    have hd0 := getD0_of_getK hk
    have hnd2 : (who :: tl.map Prod.fst).Nodup := hnd
    obtain ⟨hnotin, hnd'⟩ := List.nodup_cons.mp hnd2
    unfold fillLoopJ at h
    split at h
    · cases h
    · rename_i d' hd'
      obtain ⟨i1, m1, m2, m3⟩ := placeBid_w hw hi hst hdt hd'
      simp only [if_true] at m3
      have hst' : Stale je.e d' a := hst.mono m1
      have hrest : ∀ (deps' : List (RKey × Int)), (∀ key, key ≠ ((k, who) : RKey) → getK deps' key = getK s.deps key) →
          ∀ x ∈ tl, getK deps' (k, x.1) = some x.2 := by
        intro deps' hfr x hx
        have hne : x.1 ≠ who := by
          intro hc; apply hnotin
          exact List.mem_map.mpr ⟨x, hx, hc⟩
        rw [hfr (k, x.1) (key_ne hne)]
        exact hget x (by simp [hx])
      simp only at h
      split at h
      · rename_i hge
        split at h
        · rename_i heq
          cases h
          refine ⟨i1, hb.pos.del _, ?_, ?_, ?_⟩
          · simp only; rw [total_delK, hb.bv, hd0]; omega
          · simp only; rw [total_delK, m3, hb.cust, hd0]; omega
          · simp only; have := hb.exact_nonneg; omega
        · rename_i hneq
          refine ih _ s' i1 hst' ?_ ?_ hnd' h
          · refine ⟨hb.pos.put _ (by omega), ?_, ?_, hb.exact_nonneg⟩
            · simp only; rw [total_putK, hb.bv, hd0]; omega
            · simp only; rw [total_putK, m3, hb.cust, hd0]; omega
          · apply hrest
            intro key hne
            rw [getK_putK]
            simp [Ne.symm hne]
      · rename_i hlt
        refine ih _ s' i1 hst' ?_ ?_ hnd' h
        · refine ⟨hb.pos.del _, ?_, ?_, hb.exact_nonneg⟩
          · simp only; rw [total_delK, hb.bv, hd0]; omega
          · simp only; rw [total_delK, m3, hb.cust, hd0]; omega
        · apply hrest
          intro key hne
          exact getK_delK_ne _ _ _ (Ne.symm hne)

structure WfJEnv (je : JEnv) : Prop where
  env : WfEnv je.e
  order : je.order.Nodup

theorem fillJ_inv {other0 : Int} {je : JEnv} {s s' : JSt} {dt : Int} (hw : WfJEnv je) (hdt : 0 ≤ dt)
    (hi : JInv other0 je s) (h : fillJ je s dt = .ok s') : JInv other0 je s' := by
  unfold fillJ at h
  split at h
  · cases h; exact hi
  · rename_i a ha
    split at h
    · cases h
    · cases h; exact hi
    · rename_i k _
      obtain ⟨hwi, hbk⟩ := hi
      obtain ⟨sp1, sp2⟩ := snapshot_spec s.deps k je.order hw.order
      exact fillLoopJ_inv hw.env hdt _ _ _ hwi (hwi.open_ a ha).2.1 hbk (fun x hx => (sp1 x hx).1) sp2 h

/-! ### every operation -/

def WfOpJ : Op → Prop
  | .bid _ _ dt => 0 ≤ dt
  | .tick _ _ twaC _ twaD _ => 0 ≤ twaC ∧ 0 ≤ twaD
  | _ => True

theorem JInv.of_d {other0 : Int} {je : JEnv} {s : JSt} {d' : St} (hi : JInv other0 je s) (hw : InvW je.e d')
    (ho : d'.otherD = s.d.otherD) : JInv other0 je { s with d := d' } :=
  ⟨hw, ⟨hi.2.pos, hi.2.bv, by simp only; rw [ho]; exact hi.2.cust, hi.2.exact_nonneg⟩⟩

theorem tickIter_otherD (e : Env) (d : St) (now twaC twaD : Int) (actC actD : Bool) :
    (tickIter e d now twaC actC twaD actD).otherD = d.otherD := by
  unfold tickIter
  split
  · rfl
  · split <;> rfl

theorem triggerEsm_otherD {e : Env} {s s' : St} {a : Auc} (h : triggerEsm e s a = .ok s') : s'.otherD = s.otherD := by
  unfold triggerEsm at h
  simp only [] at h
  iterate 8 (all_goals (try (split at h)))
  all_goals (first | (cases h; rfl) | cases h)

theorem tickIterEsm_otherD (e : Env) (d : St) (now twaC twaD : Int) (actC actD : Bool) :
    (tickIterEsm e d now twaC actC twaD actD).otherD = d.otherD := by
  unfold tickIterEsm
  split
  · rfl
  · split
    · split
      · unfold orElse
        split
        · rename_i s' hs'; exact triggerEsm_otherD hs'
        · rfl
      · rfl
    · split <;> rfl

theorem step_inv {other0 : Int} {je : JEnv} {s : JSt} {op : Op} (hw : WfJEnv je) (hi : JInv other0 je s) (hop : WfOpJ op) :
    JInv other0 je (step je s op) := by
  unfold step orElseJ
  split
  · rename_i s' hs'
    cases op with
    | bid who amt dt =>
      simp only [stepE] at hs'
      split at hs'
      · rename_i d' hd'
        cases hs'
        unfold bidE at hd'
        split at hd'
        · cases hd'
        · split at hd'
          · cases hd'
          · rename_i a ha
            obtain ⟨i1, _, _, m3⟩ := placeBid_w hw.env hi.1 (hi.1.open_ a ha).2.1 hop hd'
            simp only [Bool.false_eq_true, if_false] at m3
            exact hi.of_d i1 m3
      · cases hs'
    | tick esm now twaC actC twaD actD =>
      obtain ⟨h1, h2⟩ := hop
      simp only [stepE] at hs'
      cases hs'
      have hi1 : JInv other0 je { s with d := (if esm then tickIterEsm je.e s.d now twaC actC twaD actD else tickIter je.e s.d now twaC actC twaD actD) } := by
        cases esm with
        | true => exact hi.of_d (tickIterEsm_w hw.env hi.1 h1) (tickIterEsm_otherD _ _ _ _ _ _ _)
        | false => exact hi.of_d (tickIter_w hw.env hi.1 h1) (tickIter_otherD _ _ _ _ _ _ _)
      unfold orElseJ
      split
      · rename_i s2 hs2
        exact fillJ_inv hw h2 hi1 hs2
      · exact hi1
    | reserve who amt =>
      simp only [stepE] at hs'
      cases hs'
      have hws := step_w (op := .reserve who amt) hw.env hi.1 (by simp [WfOpW])
      refine hi.of_d hws ?_
      simp only [DutchV2.step]
      split
      · rfl
      · split <;> rfl
    | deposit who prem amt => exact deposit_inv hi hs'
    | cancel who prem => exact cancel_inv hi hs'
    | withdraw who prem amt => exact withdraw_inv hi hs'
  · exact hi

theorem run_inv {other0 : Int} {je : JEnv} (hw : WfJEnv je) (ops : List Op) (s : JSt) (hi : JInv other0 je s)
    (hops : ∀ op ∈ ops, WfOpJ op) : JInv other0 je (run je s ops) := by
  induction ops generalizing s with
  | nil => exact hi
  | cons op ops ih =>
    simp only [run, List.foldl_cons]
    exact ih _ (step_inv hw hi (hops op (by simp))) (fun o ho => hops o (by simp [ho]))

/-! ### what one begin-block does to the individual records -/

/-- the loop touches only records of the bucket `k` -/
theorem fillLoopJ_frame {je : JEnv} {a : Auc} {dt k : Int} :
    ∀ (l : List (Nat × Int)) (s s' : JSt), fillLoopJ je a dt k s l = .ok s' →
      ∀ key : RKey, key.1 ≠ k → getK s'.deps key = getK s.deps key := by
  intro l
  induction l with
  | nil => intro s s' h; unfold fillLoopJ at h; cases h; exact fun _ _ => rfl
  | cons hd tl ih =>
    intro s s' h
    obtain ⟨who, amt⟩ := hd
    have hdel1 : ∀ key : RKey, key.1 ≠ k → getK (delK s.deps (k, who)) key = getK s.deps key := by
      intro key hne
      exact getK_delK_ne _ _ _ (by intro hc; rw [← hc] at hne; exact hne rfl)
    have hput1 : ∀ (v : Int) (key : RKey), key.1 ≠ k → getK (putK s.deps (k, who) v) key = getK s.deps key := by
      intro v key hne
      rw [getK_putK]
      have : ¬ ((k, who) : RKey) = key := by intro hc; rw [← hc] at hne; exact hne rfl
      simp [this]
    unfold fillLoopJ at h
    split at h
    · cases h
    · simp only at h
      split at h
      · split at h
        · cases h; exact hdel1
        · intro key hne
          rw [ih _ s' h key hne]
          exact hput1 _ key hne
      · intro key hne
        rw [ih _ s' h key hne]
        exact hdel1 key hne

/-- one begin-block leaves every record outside the auction's current premium bucket exactly as it was -/
theorem tick_frame {je : JEnv} {s : JSt} {esm : Bool} {now twaC twaD : Int} {actC actD : Bool} :
    let d1 := if esm then tickIterEsm je.e s.d now twaC actC twaD actD else tickIter je.e s.d now twaC actC twaD actD
    ∀ a, d1.auc = some a → ∀ k, bucket a = .ok (some k) →
      ∀ key : RKey, key.1 ≠ k → getK (step je s (.tick esm now twaC actC twaD actD)).deps key = getK s.deps key := by
  intro d1 a ha k hk key hne
  unfold step orElseJ
  simp only [stepE]
  unfold orElseJ
  split
  · rename_i s2 hs2
    unfold fillJ at hs2
    simp only at hs2
    rw [show (if esm = true then tickIterEsm je.e s.d now twaC actC twaD actD else tickIter je.e s.d now twaC actC twaD actD) = d1 from rfl] at hs2
    rw [ha] at hs2
    simp only [hk] at hs2
    exact fillLoopJ_frame _ _ _ hs2 key hne
  · rfl

end Comdex.LimitFill
