import Comdex.Model.AmmOrders
import Comdex.Lemmas.AmmPlace
/-!
Lemmas for C05, part 13: market orders and MM orders at the keeper level.  Placing them (and the cancellation of an orderer's
previous MM orders) keeps the invariant `KInv` of the pair, so `order_within_amount` / `order_limit_respected` extend to runs
with all three kinds of orders; the prices the code computes for them (`last price ± ratio` fitted to the grid; the tick ladder
of `MMOrderTicks`) are positive ticks of the grid.
-/
namespace Comdex.Amm
open Comdex

/-- a positive tick of the grid, not above the highest tick -/
def GridPrice (prec : Nat) (p : Int) : Prop := 0 < p ∧ ∃ k, k ≤ hiIdx prec ∧ p = ((T prec k : Nat) : Int)

/-- storing a fresh order at a grid price keeps the pair's invariant -/
theorem placeAt_inv (prec : Nat) (s : KState) (d : Dir) (price amount expireAt : Int) (h : KInv prec s)
    (ha : 0 ≤ amount) (hg : GridPrice prec price) : KInv prec (placeAt s d price amount expireAt).1 := by
  unfold placeAt
  simp only
  refine ⟨?_, ?_, ?_, h.lp⟩
  · intro so hm
    rcases List.mem_append.mp hm with hm | hm
    · exact h.inv so hm
    · simp only [List.mem_singleton] at hm
      subst hm
      exact freshOrder_inv prec _ d _ amount _ _ hg.1 hg.2 ha
  · rw [List.map_append, List.nodup_append]
    refine ⟨h.ids, by simp, ?_⟩
    intro a ha' b hb hab
    simp only [List.map_cons, List.map_nil, List.mem_singleton] at hb
    obtain ⟨so, hso, rfl⟩ := List.mem_map.mp ha'
    have := h.fresh so hso
    omega
  · intro so hm
    rcases List.mem_append.mp hm with hm | hm
    · have := h.fresh so hm
      show so.id < s.nextId + 1
      omega
    · simp only [List.mem_singleton] at hm
      subst hm
      show s.nextId < s.nextId + 1
      omega

theorem placeAt_lastPrice (s : KState) (d : Dir) (price amount expireAt : Int) :
    (placeAt s d price amount expireAt).1.lastPrice = s.lastPrice := rfl

/-- `cancelMMOrder` only changes statuses -/
theorem cancelMM_inv (prec : Nat) (s s' : KState) (ids : List Nat) (h : KInv prec s) (hc : cancelMM s ids = some s') :
    KInv prec s' ∧ s'.lastPrice = s.lastPrice := by
  unfold cancelMM at hc
  split at hc
  · cases hc
  · cases hc
    refine ⟨⟨?_, ?_, ?_, h.lp⟩, rfl⟩
    · intro so hm
      simp only [List.mem_map] at hm
      obtain ⟨so0, hso0, rfl⟩ := hm
      split
      · exact (h.inv so0 hso0).status _
      · exact h.inv so0 hso0
    · simp only
      rw [map_ids]
      · exact h.ids
      · intro so; split <;> rfl
    · intro so hm
      simp only [List.mem_map] at hm
      obtain ⟨so0, hso0, rfl⟩ := hm
      have := h.fresh so0 hso0
      split <;> exact this

theorem placeTicks_inv (prec : Nat) (s : KState) (d : Dir) (e : Int) (l : List (Int × Int)) (h : KInv prec s)
    (hl : ∀ pa ∈ l, GridPrice prec pa.1 ∧ 0 ≤ pa.2) :
    KInv prec (placeTicks s d e l).1 ∧ (placeTicks s d e l).1.lastPrice = s.lastPrice := by
  induction l generalizing s with
  | nil => exact ⟨h, rfl⟩
  | cons x xs ih =>
    obtain ⟨p, a⟩ := x
    unfold placeTicks
    simp only
    obtain ⟨hg, ha⟩ := hl (p, a) (by simp)
    have h1 := placeAt_inv prec s d p a e h ha hg
    obtain ⟨i1, i2⟩ := ih (placeAt s d p a e).1 h1 (fun pa hpa => hl pa (by simp [hpa]))
    exact ⟨i1, by rw [i2]; rfl⟩

theorem placeSide_inv (prec : Nat) (s : KState) (d : Dir) (e : Int) (maxNumTicks : Nat) (side : Option (Int × Int × Int))
    (h : KInv prec s)
    (hl : ∀ mn mx amt, side = some (mn, mx, amt) → ∀ pa ∈ mmOrderTicks d mn mx amt maxNumTicks prec, GridPrice prec pa.1 ∧ 0 ≤ pa.2) :
    KInv prec (placeSide s d e maxNumTicks prec side).1 ∧ (placeSide s d e maxNumTicks prec side).1.lastPrice = s.lastPrice := by
  cases side with
  | none => exact ⟨h, rfl⟩
  | some x =>
    obtain ⟨mn, mx, amt⟩ := x
    exact placeTicks_inv prec s d e _ h (hl mn mx amt rfl)

/-- what makes a message acceptable for the theorems: the price(s) the code computes for it are grid prices, amounts `≥ 0` -/
def MsgOk (prec : Nat) (ratio : Int) (maxNumTicks : Nat) (lastPrice : Option Int) : KMsg → Prop
  | .limit d p a _ => PlaceOk prec d p a
  | .market d a _ => 0 ≤ a ∧ ∀ lp, lastPrice = some lp → GridPrice prec (marketPrice prec d lp ratio)
  | .mm _ buy sell _ =>
    (∀ mn mx amt, buy = some (mn, mx, amt) → ∀ pa ∈ mmOrderTicks .buy mn mx amt maxNumTicks prec, GridPrice prec pa.1 ∧ 0 ≤ pa.2) ∧
    (∀ mn mx amt, sell = some (mn, mx, amt) → ∀ pa ∈ mmOrderTicks .sell mn mx amt maxNumTicks prec, GridPrice prec pa.1 ∧ 0 ≤ pa.2)

theorem applyMsg_inv (prec : Nat) (ratio : Int) (maxNumTicks : Nat) (st : MState) (m : KMsg) (h : KInv prec st.k)
    (hok : MsgOk prec ratio maxNumTicks st.k.lastPrice m) :
    KInv prec (applyMsg st prec ratio maxNumTicks m).k ∧ (applyMsg st prec ratio maxNumTicks m).k.lastPrice = st.k.lastPrice := by
  cases m with
  | limit d p a e =>
    exact ⟨placeOrder_inv prec st.k d p a e h hok, rfl⟩
  | market d a e =>
    unfold applyMsg placeMarket
    cases hlp : st.k.lastPrice with
    | none => simp only; exact ⟨h, hlp⟩
    | some lp =>
      simp only
      exact ⟨placeAt_inv prec st.k d _ a e h hok.1 (hok.2 lp hlp), by rw [placeAt_lastPrice]; exact hlp⟩
  | mm owner buy sell e =>
    unfold applyMsg placeMM
    simp only
    cases hc : cancelMM st.k (match st.mmIndex.lookup owner with | some ids => ids | none => []) with
    | none => exact ⟨h, rfl⟩
    | some s0 =>
      simp only
      obtain ⟨h0, l0⟩ := cancelMM_inv prec st.k s0 _ h hc
      obtain ⟨h1, l1⟩ := placeSide_inv prec s0 .buy e maxNumTicks buy h0 hok.1
      obtain ⟨h2, l2⟩ := placeSide_inv prec _ .sell e maxNumTicks sell h1 hok.2
      exact ⟨h2, by rw [l2, l1, l0]⟩

theorem applyMsgs_inv (prec : Nat) (ratio : Int) (maxNumTicks : Nat) (st : MState) (ms : List KMsg) (h : KInv prec st.k)
    (hok : ∀ m ∈ ms, MsgOk prec ratio maxNumTicks st.k.lastPrice m) :
    KInv prec (applyMsgs st prec ratio maxNumTicks ms).k := by
  induction ms generalizing st with
  | nil => exact h
  | cons m ms ih =>
    unfold applyMsgs
    obtain ⟨h1, l1⟩ := applyMsg_inv prec ratio maxNumTicks st m h (hok m (by simp))
    apply ih _ h1
    intro m' hm'
    rw [l1]
    exact hok m' (by simp [hm'])

/-- every message of the run is acceptable in the state in which it is delivered (the last price changes from batch to batch) -/
def RunOk (prec : Nat) (ratio : Int) (maxNumTicks : Nat) : MState → List MBatch → Prop
  | _, [] => True
  | st, b :: bs =>
    (∀ m ∈ b.msgs, MsgOk prec ratio maxNumTicks st.k.lastPrice m) ∧
    RunOk prec ratio maxNumTicks
      { applyMsgs st prec ratio maxNumTicks b.msgs with
        k := prune (batchStep (applyMsgs st prec ratio maxNumTicks b.msgs).k prec b.now) } bs

/-- **any number of batches with limit, market and MM orders** -/
theorem runMBatches_inv (prec : Nat) (hprec : 10 ^ prec < 2 ^ 300 - 1) (ratio : Int) (maxNumTicks : Nat) (st : MState)
    (bs : List MBatch) (h : KInv prec st.k) (hok : RunOk prec ratio maxNumTicks st bs) :
    KInv prec (runMBatches st prec ratio maxNumTicks bs).k := by
  induction bs generalizing st with
  | nil => exact h
  | cons b bs ih =>
    unfold runMBatches
    simp only
    obtain ⟨hb, hrest⟩ := hok
    have h1 := applyMsgs_inv prec ratio maxNumTicks st b.msgs h hb
    exact ih _ (prune_inv prec _ (batchStep_inv prec hprec _ b.now h1)) hrest

/-! ## the prices the code computes are grid prices -/

/-- **market orders**: the last price moved by the ratio, when it lies between the lowest and the highest tick, is fitted to a
positive tick of the grid -/
theorem marketPrice_grid (prec : Nat) (hprec : 10 ^ prec < 2 ^ 300 - 1) (d : Dir) (lp ratio : Int) (x : Nat)
    (hx : (match d with | .buy => Dec.mul lp (Dec.one + ratio) | .sell => Dec.mul lp (Dec.one - ratio)) = (x : Int))
    (h1 : 10 ^ prec ≤ x) (h2 : x ≤ T prec (hiIdx prec)) : GridPrice prec (marketPrice prec d lp ratio) := by
  unfold marketPrice
  cases d with
  | buy =>
    simp only at hx ⊢
    rw [hx]
    have := (grid_cell prec (2 ^ 300 - 1) (by omega)).2.1
    unfold hiIdx at h2
    exact (placeOk_buy prec x 0 (Int.le_refl _) h1 (by omega)).2
  | sell =>
    simp only at hx ⊢
    rw [hx]
    exact (placeOk_sell prec x 0 (Int.le_refl _) h1 h2).2

/-- every price of the first loop of `MMOrderTicks` is the fitted price of some step `j` of the ladder -/
theorem mmTickPrices_mem (d : Dir) (minP maxP gap : Int) (prec fuel i : Nat) (prev : Option Int) (p : Int)
    (h : p ∈ mmTickPrices d minP maxP gap prec fuel i prev) :
    ∃ j, i ≤ j ∧ j < i + fuel ∧ p = mmStepPrice d minP maxP gap prec j := by
  induction fuel generalizing i prev with
  | zero => simp [mmTickPrices] at h
  | succ fuel ih =>
    unfold mmTickPrices at h
    simp only at h
    by_cases hprev : prev = some (mmStepPrice d minP maxP gap prec i)
    · rw [if_pos hprev] at h
      obtain ⟨j, h1, h2, h3⟩ := ih (i + 1) prev h
      exact ⟨j, by omega, by omega, h3⟩
    · rw [if_neg hprev] at h
      rcases List.mem_cons.mp h with rfl | h
      · exact ⟨i, by omega, by omega, rfl⟩
      · obtain ⟨j, h1, h2, h3⟩ := ih (i + 1) _ h
        exact ⟨j, by omega, by omega, h3⟩

/-- **the tick ladder of an MM order consists of grid prices and non-negative amounts**, when (as `MMOrder` checks) both ends
of the price range are ticks between the lowest and the highest tick -/
theorem mmOrderTicks_ok (prec : Nat) (hprec : 10 ^ prec < 2 ^ 300 - 1) (d : Dir) (a b : Nat) (amt : Int) (n : Nat) (hn : 2 ≤ n)
    (ha : 10 ^ prec ≤ a) (hab : a ≤ b) (hb : b ≤ T prec (hiIdx prec))
    (hga : GridPrice prec (a : Int)) (hgb : GridPrice prec (b : Int)) (hamt : 0 ≤ amt) :
    ∀ pa ∈ mmOrderTicks d (a : Int) (b : Int) amt n prec, GridPrice prec pa.1 ∧ 0 ≤ pa.2 := by
  intro pa hpa
  unfold mmOrderTicks at hpa
  by_cases he : (a : Int) = (b : Int)
  · rw [if_pos he] at hpa
    simp only [List.mem_singleton] at hpa
    subst hpa
    exact ⟨hga, hamt⟩
  · rw [if_neg he] at hpa
    simp only at hpa
    have hn1 : (0 : Int) < (n : Int) - 1 := by omega
    have hd0 : (0 : Int) ≤ (b : Int) - a := by omega
    obtain ⟨gap, hgap⟩ : ∃ g : Int, Dec.quoInt ((b : Int) - a) ((n : Int) - 1) = g := ⟨_, rfl⟩
    rw [hgap] at hpa
    have hg0 : 0 ≤ gap := by
      rw [← hgap]; unfold Dec.quoInt; exact Int.tdiv_nonneg hd0 (by omega)
    have hgn : gap * ((n : Int) - 1) ≤ (b : Int) - a := by
      rw [← hgap]; unfold Dec.quoInt
      rw [Int.tdiv_eq_ediv_of_nonneg hd0]
      exact Int.ediv_mul_le _ (by omega)
    generalize hps : mmTickPrices d (a : Int) (b : Int) gap prec (n - 1) 0 none = ps at hpa
    have hT := (grid_cell prec (2 ^ 300 - 1) (by omega)).2.1
    have hprices : ∀ p ∈ ps, GridPrice prec p := by
      intro p hp
      rw [← hps] at hp
      obtain ⟨j, _, hj2, hj3⟩ := mmTickPrices_mem d _ _ gap prec _ 0 none p hp
      have hj4 : j + 2 ≤ n := by omega
      have hjn : (j : Int) ≤ (n : Int) - 1 := by omega
      have hgj : gap * (j : Int) ≤ (b : Int) - a :=
        Int.le_trans (Int.mul_le_mul_of_nonneg_left hjn hg0) hgn
      have hgj0 : 0 ≤ gap * (j : Int) := Int.mul_nonneg hg0 (by omega)
      unfold mmStepPrice Dec.mulInt at hj3
      obtain ⟨gj, hgjd⟩ : ∃ g : Int, gap * (j : Int) = g := ⟨_, rfl⟩
      rw [hgjd] at hj3 hgj hgj0
      cases d with
      | buy =>
        simp only at hj3
        have hx : (a : Int) + gj = (((a : Int) + gj).toNat : Int) :=
          (Int.toNat_of_nonneg (by omega)).symm
        rw [hj3, hx]
        refine (placeOk_buy prec _ 0 (Int.le_refl _) ?_ ?_).2
        · have : (a : Int) ≤ (((a : Int) + gj).toNat : Int) := by omega
          exact_mod_cast Nat.le_trans ha (by exact_mod_cast this)
        · have : (((a : Int) + gj).toNat : Int) ≤ (b : Int) := by omega
          have : ((a : Int) + gj).toNat ≤ b := by exact_mod_cast this
          unfold hiIdx at hb
          omega
      | sell =>
        simp only at hj3
        have hx : (b : Int) - gj = (((b : Int) - gj).toNat : Int) :=
          (Int.toNat_of_nonneg (by omega)).symm
        rw [hj3, hx]
        refine (placeOk_sell prec _ 0 (Int.le_refl _) ?_ ?_).2
        · have : (a : Int) ≤ (((b : Int) - gj).toNat : Int) := by omega
          exact_mod_cast Nat.le_trans ha (by exact_mod_cast this)
        · have : (((b : Int) - gj).toNat : Int) ≤ (b : Int) := by omega
          have : ((b : Int) - gj).toNat ≤ b := by exact_mod_cast this
          omega
    have hlen0 : (0 : Int) < (ps.length : Int) + 1 := by omega
    have hta : 0 ≤ amt.tdiv ((ps.length : Int) + 1) := Int.tdiv_nonneg hamt (by omega)
    have hlast : 0 ≤ amt - amt.tdiv ((ps.length : Int) + 1) * ps.length := by
      have h1 : amt.tdiv ((ps.length : Int) + 1) * ((ps.length : Int) + 1) ≤ amt := by
        rw [Int.tdiv_eq_ediv_of_nonneg hamt]; exact Int.ediv_mul_le _ (by omega)
      have h2 : amt.tdiv ((ps.length : Int) + 1) * ((ps.length : Int) + 1) =
          amt.tdiv ((ps.length : Int) + 1) * ps.length + amt.tdiv ((ps.length : Int) + 1) := by ring
      omega
    rcases List.mem_append.mp hpa with hm | hm
    · rw [List.mem_map] at hm
      obtain ⟨p, hp, rfl⟩ := hm
      exact ⟨hprices p hp, hta⟩
    · simp only [List.mem_singleton] at hm
      subst hm
      refine ⟨?_, hlast⟩
      cases d <;> simp only <;> assumption

end Comdex.Amm
