import Comdex.Model.Accrual
import Mathlib.Tactic.Linarith
import Mathlib.Tactic.Ring
/-! Helper lemmas for C18 family (b): the exact model of the IEEE-754 roundings around `math.Pow`. -/
namespace Comdex.Accrual
open Comdex

/-! ### round half even of a quotient -/
theorem rhe_spec (p q : Nat) (hq : 0 < q) :
    2 * (rhe p q * q) ≤ 2 * p + q ∧ 2 * p ≤ 2 * (rhe p q * q) + q := by
  have h1 := Nat.div_add_mod p q
  have h2 := Nat.mod_lt p hq
  unfold rhe
  generalize p / q = f at *
  generalize p % q = r at *
  have e : (f + 1) * q = q * f + q := by ring
  have e' : f * q = q * f := by ring
  simp only []
  split_ifs <;> simp only [e, e'] <;> omega

theorem rhe_ge_div (p q : Nat) : p / q ≤ rhe p q := by
  unfold rhe; simp only []; split_ifs <;> omega

theorem rhe_le_div_succ (p q : Nat) : rhe p q ≤ p / q + 1 := by
  unfold rhe; simp only []; split_ifs <;> omega

theorem rhe_mono (p p' q : Nat) (_hq : 0 < q) (h : p ≤ p') : rhe p q ≤ rhe p' q := by
  have hf : p / q ≤ p' / q := Nat.div_le_div_right h
  rcases Nat.lt_or_ge (p / q) (p' / q) with hlt | hge
  · exact le_trans (rhe_le_div_succ p q) (le_trans hlt (rhe_ge_div p' q))
  · have hfe : p / q = p' / q := le_antisymm hf hge
    have h1 := Nat.div_add_mod p q
    have h2 := Nat.div_add_mod p' q
    unfold rhe
    simp only [← hfe]
    rw [← hfe] at h2
    generalize p / q = f at *
    generalize p % q = r at *
    generalize p' % q = r' at *
    generalize q * f = X at *
    split_ifs <;> omega

theorem rhe_mul_exact (n q : Nat) (hq : 0 < q) : rhe (n * q) q = n := by
  unfold rhe
  simp only [Nat.mul_div_cancel n hq, Nat.mul_mod_left]
  simp [hq]

theorem rhe_zero (q : Nat) (hq : 0 < q) : rhe 0 q = 0 := by
  simpa using rhe_mul_exact 0 q hq

/-! ### binades -/
theorem expo_mono (f f' : Nat) (h : f ≤ f') : expo f ≤ expo f' := by
  unfold expo
  have : Nat.log2 f ≤ Nat.log2 f' := by
    rcases Nat.eq_zero_or_pos f with h0 | h0
    · subst h0; simp
    · have hf' : f' ≠ 0 := by omega
      have := Nat.log2_self_le (Nat.pos_iff_ne_zero.mp h0)
      by_contra hc
      have hc : Nat.log2 f' < Nat.log2 f := by omega
      have := (Nat.log2_lt hf').mp hc
      omega
  omega

/-- the integer part is below the top of its binade -/
theorem lt_top (f : Nat) : f < 2 ^ (53 + expo f) := by
  have h := @Nat.lt_log2_self f
  unfold expo
  rcases Nat.lt_or_ge (Nat.log2 f + 1) 53 with hlt | hge
  · have : Nat.log2 f + 1 - 53 = 0 := by omega
    rw [this]
    exact lt_of_lt_of_le h (Nat.pow_le_pow_right (by decide) (by omega))
  · have : 53 + (Nat.log2 f + 1 - 53) = Nat.log2 f + 1 := by omega
    rw [this]; exact h

/-- above the first binades the integer part is at least the bottom of its binade -/
theorem ge_bottom (f : Nat) (hk : 0 < expo f) : 2 ^ (52 + expo f) ≤ f := by
  unfold expo at hk ⊢
  have hf : f ≠ 0 := by
    intro h; subst h; simp at hk
  have := Nat.log2_self_le hf
  have e : 52 + (Nat.log2 f + 1 - 53) = Nat.log2 f := by omega
  rw [e]; exact this

theorem roundNat_le_top (p q : Nat) (hq : 0 < q) : roundNat p q ≤ 2 ^ (53 + expo (p / q)) := by
  unfold roundNat
  simp only []
  generalize hk : expo (p / q) = k
  have hq' : 0 < q * 2 ^ k := Nat.mul_pos hq (Nat.pow_pos (by decide))
  have hlt : p / q < 2 ^ (53 + k) := by rw [← hk]; exact lt_top _
  have hp : p < q * 2 ^ (53 + k) := by
    have := (Nat.div_lt_iff_lt_mul hq).mp hlt
    rw [Nat.mul_comm]; exact this
  have hp' : p ≤ 2 ^ 53 * (q * 2 ^ k) := by
    have : q * 2 ^ (53 + k) = 2 ^ 53 * (q * 2 ^ k) := by rw [Nat.pow_add]; ring
    omega
  have := rhe_mono p _ _ hq' hp'
  rw [rhe_mul_exact _ _ hq'] at this
  calc rhe p (q * 2 ^ k) * 2 ^ k ≤ 2 ^ 53 * 2 ^ k := Nat.mul_le_mul_right _ this
    _ = 2 ^ (53 + k) := by rw [Nat.pow_add]

theorem roundNat_ge_bottom (p q : Nat) (hq : 0 < q) (hk : 0 < expo (p / q)) :
    2 ^ (52 + expo (p / q)) ≤ roundNat p q := by
  unfold roundNat
  simp only []
  have hb := ge_bottom (p / q) hk
  generalize expo (p / q) = k at *
  have hq' : 0 < q * 2 ^ k := Nat.mul_pos hq (Nat.pow_pos (by decide))
  have hp : 2 ^ 52 * (q * 2 ^ k) ≤ p := by
    have h1 : 2 ^ (52 + k) * q ≤ p := by
      calc 2 ^ (52 + k) * q ≤ (p / q) * q := Nat.mul_le_mul_right _ hb
        _ ≤ p := Nat.div_mul_le_self p q
    have : 2 ^ 52 * (q * 2 ^ k) = 2 ^ (52 + k) * q := by rw [Nat.pow_add]; ring
    omega
  have := rhe_mono _ p _ hq' hp
  rw [rhe_mul_exact _ _ hq'] at this
  calc 2 ^ (52 + k) = 2 ^ 52 * 2 ^ k := by rw [Nat.pow_add]
    _ ≤ rhe p (q * 2 ^ k) * 2 ^ k := Nat.mul_le_mul_right _ this

/-- **rounding to the nearest double is monotone** -/
theorem roundNat_mono (p p' q : Nat) (hq : 0 < q) (h : p ≤ p') : roundNat p q ≤ roundNat p' q := by
  have hf : p / q ≤ p' / q := Nat.div_le_div_right h
  have hk := expo_mono _ _ hf
  rcases Nat.lt_or_ge (expo (p / q)) (expo (p' / q)) with hlt | hge
  · have h1 := roundNat_le_top p q hq
    have h2 := roundNat_ge_bottom p' q hq (by omega)
    have : 2 ^ (53 + expo (p / q)) ≤ 2 ^ (52 + expo (p' / q)) := Nat.pow_le_pow_right (by decide) (by omega)
    omega
  · have e : expo (p / q) = expo (p' / q) := le_antisymm hk hge
    unfold roundNat
    simp only [e]
    exact Nat.mul_le_mul_right _ (rhe_mono p p' _ (Nat.mul_pos hq (Nat.pow_pos (by decide))) h)

theorem roundNat_zero (q : Nat) (hq : 0 < q) : roundNat 0 q = 0 := by
  unfold roundNat
  simp [expo, rhe_zero q hq]

/-! ### the float operations on non-negative values -/
theorem U_pos : 0 < U := Nat.two_pow_pos 1074
theorem P18_pos : 0 < P18 := by unfold P18; exact Nat.pow_pos (by decide)

theorem fround_nonneg (p : Int) (q : Nat) (hp : 0 ≤ p) : fround p q = (roundNat p.toNat q : Int) := by
  unfold fround; simp [not_lt.mpr hp]

theorem fround_ge_zero (p : Int) (q : Nat) (hp : 0 ≤ p) : 0 ≤ fround p q := by
  rw [fround_nonneg p q hp]; exact Int.natCast_nonneg _

theorem fround_mono (p p' : Int) (q : Nat) (hq : 0 < q) (hp : 0 ≤ p) (h : p ≤ p') : fround p q ≤ fround p' q := by
  rw [fround_nonneg p q hp, fround_nonneg p' q (le_trans hp h)]
  exact Int.ofNat_le.mpr (roundNat_mono _ _ q hq (Int.toNat_le_toNat h))

theorem fround_zero (q : Nat) (hq : 0 < q) : fround 0 q = 0 := by
  rw [fround_nonneg 0 q (le_refl _)]; simp [roundNat_zero q hq]

theorem fsub_nonneg (a b : Int) (h : b ≤ a) : 0 ≤ fsub a b := fround_ge_zero _ _ (by omega)
theorem fsub_self (a : Int) : fsub a a = 0 := by unfold fsub; rw [Int.sub_self]; exact fround_zero 1 (by decide)
theorem fsub_mono (a a' b : Int) (hb : b ≤ a) (h : a ≤ a') : fsub a b ≤ fsub a' b :=
  fround_mono _ _ 1 (by decide) (by omega) (by omega)

theorem fmul_nonneg (a b : Int) (ha : 0 ≤ a) (hb : 0 ≤ b) : 0 ≤ fmul a b :=
  fround_ge_zero _ _ (Int.mul_nonneg ha hb)
theorem fmul_zero_left (b : Int) : fmul 0 b = 0 := by unfold fmul; rw [Int.zero_mul]; exact fround_zero U U_pos
theorem fmul_mono_left (a a' b : Int) (ha : 0 ≤ a) (h : a ≤ a') (hb : 0 ≤ b) : fmul a b ≤ fmul a' b :=
  fround_mono _ _ U U_pos (Int.mul_nonneg ha hb) (Int.mul_le_mul_of_nonneg_right h hb)
theorem fmul_mono_right (a b b' : Int) (ha : 0 ≤ a) (hb : 0 ≤ b) (h : b ≤ b') : fmul a b ≤ fmul a b' :=
  fround_mono _ _ U U_pos (Int.mul_nonneg ha hb) (Int.mul_le_mul_of_nonneg_left h ha)

theorem ofDec_nonneg (r : Int) (hr : 0 ≤ r) : 0 ≤ ofDec r :=
  fround_ge_zero _ _ (Int.mul_nonneg hr (Int.natCast_nonneg _))
theorem ofDec_mono (r r' : Int) (hr : 0 ≤ r) (h : r ≤ r') : ofDec r ≤ ofDec r' :=
  fround_mono _ _ P18 P18_pos (Int.mul_nonneg hr (Int.natCast_nonneg _))
    (Int.mul_le_mul_of_nonneg_right h (Int.natCast_nonneg _))

theorem fmt18_nonneg_eq (x : Int) (hx : 0 ≤ x) : fmt18 x = (rhe (x.toNat * P18) U : Int) := by
  unfold fmt18; simp [not_lt.mpr hx]
theorem fmt18_nonneg (x : Int) (hx : 0 ≤ x) : 0 ≤ fmt18 x := by
  rw [fmt18_nonneg_eq x hx]; exact Int.natCast_nonneg _
theorem fmt18_zero : fmt18 0 = 0 := by
  rw [fmt18_nonneg_eq 0 (le_refl _)]; simp [rhe_zero U U_pos]
theorem fmt18_mono (x x' : Int) (hx : 0 ≤ x) (h : x ≤ x') : fmt18 x ≤ fmt18 x' := by
  rw [fmt18_nonneg_eq x hx, fmt18_nonneg_eq x' (le_trans hx h)]
  exact Int.ofNat_le.mpr (rhe_mono _ _ U U_pos (Nat.mul_le_mul_right _ (Int.toNat_le_toNat h)))

/-! ### arguments of the power function -/
theorem years_nonneg (s : Int) (hs : 0 ≤ s) : 0 ≤ yearsDec s := by
  unfold yearsDec Dec.quoInt Dec.ofInt secondsPerYear
  rw [Int.tdiv_eq_ediv_of_nonneg (Int.mul_nonneg hs (by decide))]
  exact Int.ediv_nonneg (Int.mul_nonneg hs (by decide)) (by decide)

theorem years_mono (s t : Int) (hs : 0 ≤ s) (h : s ≤ t) : yearsDec s ≤ yearsDec t := by
  unfold yearsDec Dec.quoInt Dec.ofInt secondsPerYear
  rw [Int.tdiv_eq_ediv_of_nonneg (Int.mul_nonneg hs (by decide)),
      Int.tdiv_eq_ediv_of_nonneg (Int.mul_nonneg (le_trans hs h) (by decide))]
  exact Int.ediv_le_ediv (by decide) (Int.mul_le_mul_of_nonneg_right h (by decide))

theorem yF_zero : yF 0 = 0 := by
  unfold yF yearsDec Dec.quoInt Dec.ofInt ofDec
  simp [fround_zero P18 P18_pos]

theorem yF_mono (s t : Int) (hs : 0 ≤ s) (h : s ≤ t) : yF s ≤ yF t :=
  ofDec_mono _ _ (years_nonneg s hs) (years_mono s t hs h)

theorem xF_mono (l l' : Dec) (hl : 0 ≤ l) (h : l ≤ l') : xF l ≤ xF l' :=
  ofDec_mono _ _ (Int.add_nonneg (by decide) hl) (Int.add_le_add_left h _)

theorem aF_nonneg (n : Int) (hn : 0 ≤ n) : 0 ≤ aF n := ofDec_nonneg _ (Int.mul_nonneg hn (by decide))
theorem aF_mono (n n' : Int) (hn : 0 ≤ n) (h : n ≤ n') : aF n ≤ aF n' :=
  ofDec_mono _ _ (Int.mul_nonneg hn (by decide)) (Int.mul_le_mul_of_nonneg_right h (by decide))

/-! ### everything after the power function is monotone in the power value and in the principal -/
theorem interestOfPow_nonneg (p a : Int) (hp : (U : Int) ≤ p) (ha : 0 ≤ a) : 0 ≤ interestOfPow p a :=
  fmt18_nonneg _ (fmul_nonneg _ _ (fsub_nonneg _ _ hp) ha)

theorem interestOfPow_one (a : Int) : interestOfPow (U : Int) a = 0 := by
  unfold interestOfPow productOfPow
  rw [fsub_self, fmul_zero_left, fmt18_zero]

theorem interestOfPow_mono (p p' a a' : Int) (hp : (U : Int) ≤ p) (hpp : p ≤ p') (ha : 0 ≤ a) (haa : a ≤ a') :
    interestOfPow p a ≤ interestOfPow p' a' := by
  unfold interestOfPow productOfPow
  have d0 := fsub_nonneg p (U : Int) hp
  have d1 := fsub_mono p p' (U : Int) hp hpp
  apply fmt18_mono _ _ (fmul_nonneg _ _ d0 ha)
  exact le_trans (fmul_mono_left _ _ a d0 d1 ha) (fmul_mono_right _ a a' (le_trans d0 d1) ha haa)

/-! ### tracker -/
theorem trackerStep_spec (tr x : Dec) (h : 0 ≤ tr + x) :
    0 ≤ (trackerStep tr x).1 ∧ 0 ≤ (trackerStep tr x).2 ∧ (trackerStep tr x).2 < Dec.one ∧
    (trackerStep tr x).1 * Dec.P + (trackerStep tr x).2 = tr + x := by
  unfold trackerStep
  simp only []
  split
  · rename_i h1
    simp only [Dec.truncateInt, Dec.ofInt, Int.tdiv_eq_ediv_of_nonneg h]
    simp only [Dec, Dec.one, Dec.P] at *
    omega
  · rename_i h1
    simp only [Dec, Dec.one, Dec.P] at *
    omega

end Comdex.Accrual
